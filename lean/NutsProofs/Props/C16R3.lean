/-
  C16 (deepening round 3, 2026-09-28) — the client loop's guards against what a REMOTE server hands out (fix bb52a33:
  format / id checked before anything is dereferenced or stored) and the seed discipline that lets a client notice a
  server reset: `Register` passes the empty seed, `sqlStore.add` then draws a fresh one, seeds are never reused.
-/
import NutsModel.C16.Discovery
import NutsModel.C16.Spec
import NutsModel.Facts.C16
import NutsProofs.Lemmas.C16
import NutsProofs.Props.C16

namespace Nuts.C16.Props
open Nuts Nuts.C16

/-! ### regenerated facts -/

/-- the top-level statements of the loop in `clientUpdater.updateService`, in source order: format, id, signer, exists
    (skip), add — `clientLoop` runs exactly these, in this order -/
theorem fact_update_loop_guards :
    Facts.C16.updateLoopGuards =
      ["if presentation.Format() != vc.JWTPresentationProofFormat -> return:format",
       "if presentation.ID == nil -> return:no-id",
       "call credential.PresentationSigner", "if err != nil -> return",
       "call u.store.exists", "if err != nil -> return", "if exists -> continue",
       "if record, err := u.store.add(service.ID, presentation, seed, serverTimestamp); err != nil -> return"] := by decide

/-- `Register` calls `store.add` with the EMPTY seed and timestamp 0 (`register` passes `0 0`); `updateService` passes the
    response's seed and timestamp (`clientLoop` passes `seed ts`) -/
theorem fact_add_arguments :
    Facts.C16.registerAddArgs = ["serviceID", "presentation", "\"\"", "0"] ∧
    Facts.C16.updateAddArgs = ["service.ID", "presentation", "seed", "serverTimestamp"] := by decide

/-- an empty seed argument is replaced by `uuid.NewString()`; the list's seed is set only while it is empty
    (`Store.add`: `if s1.seed = 0 then (if seed = 0 then fresh else seed) else s1.seed`) -/
theorem fact_seed_draw :
    Facts.C16.seedDraw = ["add: if len(seed) == 0 { seed = uuid.NewString() }",
                          "incrementTimestamp: if len(service.Seed) == 0 { service.Seed = seed }"] := by decide

/-! ### the client loop and hostile responses -/

theorem add_seed_cases (s : Store) (now : Nat) (vp : VP) (seed ts fresh : Nat) :
    (s.add now vp seed ts fresh).1.seed = s.seed ∨ (s.add now vp seed ts fresh).1.seed = seed ∨
    (s.add now vp seed ts fresh).1.seed = fresh := by
  unfold Store.add
  split
  · left; rfl
  · split
    · left; rfl
    · split
      · left; rfl
      · split
        · left; rfl
        · simp only [Store.prune]
          by_cases h1 : ts = 0
          · by_cases h2 : s.seed = 0
            · by_cases h3 : seed = 0
              · right; right; simp [h1, h2, h3]
              · right; left; simp [h1, h2, h3]
            · left; simp [h1, h2]
          · right; left; simp [h1]

theorem add_no_panic (s : Store) (now : Nat) (vp : VP) (seed ts fresh : Nat) (id : String)
    (hj : vp.jwt = true) (hi : vp.id = some id) (p : String) : (s.add now vp seed ts fresh).2 ≠ .panic p := by
  unfold Store.add
  split
  · simp
  · simp only [hi, hj, Bool.true_eq_false, ↓reduceIte]
    split <;> simp

/-- **client_loop_never_panics.** Whatever a (faulty, hostile) Discovery Server puts into its response — presentations
    without id, not JWTs, without signer, with credentials without id, in any order — the loop of `updateService` ends
    with `ok` or an error, never with a panic (before fix bb52a33 an id-less or non-JWT presentation crashed the
    background update routine of every client of that server). -/
theorem client_loop_never_panics (d : Def) (now seed ts : Nat) :
    ∀ (resp : List VP) (c : Store) (ctr : Nat) (p : String), (clientLoop d now seed ts c ctr resp).2.2 ≠ .panic p := by
  intro resp
  induction resp with
  | nil => intro c ctr p; simp [clientLoop]
  | cons vp rest ih =>
    intro c ctr p
    unfold clientLoop
    by_cases hj : vp.jwt = false
    · simp [hj]
    · have hj' : vp.jwt = true := by cases h : vp.jwt <;> simp_all
      simp only [hj', Bool.true_eq_false, ↓reduceIte]
      cases hi : vp.id with
      | none => simp
      | some id =>
        cases hs : vp.signer with
        | none => simp
        | some sm =>
          obtain ⟨subj, m⟩ := sm
          simp only []
          by_cases hk : c.hasKey subj id = true
          · simp only [hk, ↓reduceIte]; exact ih c ctr p
          · simp only [hk, Bool.false_eq_true, ↓reduceIte]
            have hnp := add_no_panic c now vp seed ts (ctr + 1) id hj' hi
            rcases hadd : c.add now vp seed ts (ctr + 1) with ⟨c', r⟩
            rw [hadd] at hnp
            cases r with
            | ok row => simp only []; exact ih _ _ p
            | err e => simp
            | panic q => exact absurd rfl (hnp q)

/-- **client_refuses_malformed.** A presentation that is not a JWT or has no id is refused where the loop meets it: the
    replica, its timestamp and its seed stay exactly as they were at that point, nothing of it is stored. -/
theorem client_refuses_malformed (d : Def) (now seed ts : Nat) (c : Store) (ctr : Nat) (vp : VP) (rest : List VP)
    (h : vp.jwt = false ∨ vp.id = none) :
    ∃ e, clientLoop d now seed ts c ctr (vp :: rest) = (c, ctr, .err e) ∧ (e = "format" ∨ e = "no-id") := by
  unfold clientLoop
  by_cases hj : vp.jwt = false
  · exact ⟨"format", by simp [hj], Or.inl rfl⟩
  · have hi : vp.id = none := by rcases h with h | h; exact absurd h hj; exact h
    have hj' : vp.jwt = true := by cases h : vp.jwt <;> simp_all
    exact ⟨"no-id", by simp [hj', hi], Or.inr rfl⟩

/-- … also behind any number of entries the replica already holds (the shape of a quiescent poll of a hostile server):
    the whole poll changes nothing. -/
theorem client_refuses_malformed_after_held (d : Def) (now seed ts : Nat) (c : Store) (ctr : Nat) (vp : VP) :
    ∀ (held rest : List VP), (∀ v ∈ held, ∃ subj id e, VPWF v subj id e ∧ c.hasKey subj id = true) →
      (vp.jwt = false ∨ vp.id = none) →
      ∃ e, clientLoop d now seed ts c ctr (held ++ vp :: rest) = (c, ctr, .err e) ∧ (e = "format" ∨ e = "no-id") := by
  intro held
  induction held with
  | nil => intro rest _ h; exact client_refuses_malformed d now seed ts c ctr vp rest h
  | cons v hs ih =>
    intro rest hh h
    obtain ⟨subj, id, e, hv, hk⟩ := hh v (by simp)
    rw [List.cons_append, clientLoop_cons d now seed ts c ctr v (hs ++ vp :: rest) subj id e hv, iter_rows_skip hk]
    exact ih rest (fun v' hv' => hh v' (by simp [hv'])) h

example : (clientLoop exDef 10 5 3 { seed := 5, lastTs := 3 } 0 [{ exVP "a" "v1" 50 with id := none }]).2.2 = .err "no-id" ∧
    (clientLoop exDef 10 5 3 { seed := 5, lastTs := 3 } 0 [{ exVP "a" "v1" 50 with id := none }]).1.rows = [] := by decide
example : (clientLoop exDef 10 5 3 { seed := 5, lastTs := 3 } 0 [exVP "b" "v2" 60, { exVP "a" "v1" 50 with jwt := false }]).2.2 =
    .err "format" := by decide

end Nuts.C16.Props
