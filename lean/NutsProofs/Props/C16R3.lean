/-
  C16 (deepening round 3, 2026-09-28) — the client loop's guards against what a REMOTE server hands out (fix bb52a33:
  format / id checked before anything is dereferenced or stored) and the seed discipline that lets a client notice a
  server reset: `Register` passes the empty seed, `sqlStore.add` then draws a fresh one, seeds are never reused.
-/
import NutsModel.C16.Discovery
import NutsModel.C16.Spec
import NutsModel.Facts.C16
import NutsProofs.Lemmas.C16
import NutsProofs.Props.C16
import NutsProofs.Props.C16Node
import NutsModel.C16.Node

namespace Nuts.C16.Props
open Nuts Nuts.C16

/-! ### regenerated facts -/

/-- the top-level statements of the loop in `clientUpdater.updateService`, in source order: format, id, signer, exists
    (skip), add — `clientLoop` runs exactly these, in this order -/
theorem fact_update_loop_guards :
    Facts.C16.updateLoopGuards =
      ["if presentation.Format() != vc.JWTPresentationProofFormat -> return:format",
       "if presentation.ID == nil -> return:no-id",
       "call credential.PresentationSigner", "if err != nil -> return",
       "call u.store.exists", "if err != nil -> return", "if exists -> continue",
       "if record, err := u.store.add(service.ID, presentation, seed, serverTimestamp); err != nil -> return"] := by decide

/-- `Register` calls `store.add` with the EMPTY seed and timestamp 0 (`register` passes `0 0`); `updateService` passes the
    response's seed and timestamp (`clientLoop` passes `seed ts`) -/
theorem fact_add_arguments :
    Facts.C16.registerAddArgs = ["serviceID", "presentation", "\"\"", "0"] ∧
    Facts.C16.updateAddArgs = ["service.ID", "presentation", "seed", "serverTimestamp"] := by decide

/-- an empty seed argument is replaced by `uuid.NewString()`; the list's seed is set only while it is empty
    (`Store.add`: `if s1.seed = 0 then (if seed = 0 then fresh else seed) else s1.seed`) -/
theorem fact_seed_draw :
    Facts.C16.seedDraw = ["add: if len(seed) == 0 { seed = uuid.NewString() }",
                          "incrementTimestamp: if len(service.Seed) == 0 { service.Seed = seed }"] := by decide

/-! ### the client loop and hostile responses -/

theorem add_seed_cases (s : Store) (now : Nat) (vp : VP) (seed ts fresh : Nat) :
    (s.add now vp seed ts fresh).1.seed = s.seed ∨ (s.add now vp seed ts fresh).1.seed = seed ∨
    (s.add now vp seed ts fresh).1.seed = fresh := by
  unfold Store.add
  split
  · left; rfl
  · split
    · left; rfl
    · split
      · left; rfl
      · split
        · left; rfl
        · simp only [Store.prune]
          by_cases h1 : ts = 0
          · by_cases h2 : s.seed = 0
            · by_cases h3 : seed = 0
              · right; right; simp [h1, h2, h3]
              · right; left; simp [h1, h2, h3]
            · left; simp [h1, h2]
          · right; left; simp [h1]

theorem add_no_panic (s : Store) (now : Nat) (vp : VP) (seed ts fresh : Nat) (id : String)
    (hj : vp.jwt = true) (hi : vp.id = some id) (p : String) : (s.add now vp seed ts fresh).2 ≠ .panic p := by
  unfold Store.add
  split
  · simp
  · simp only [hi, hj, Bool.true_eq_false, ↓reduceIte]
    split <;> simp

/-- **client_loop_never_panics.** Whatever a (faulty, hostile) Discovery Server puts into its response — presentations
    without id, not JWTs, without signer, with credentials without id, in any order — the loop of `updateService` ends
    with `ok` or an error, never with a panic (before fix bb52a33 an id-less or non-JWT presentation crashed the
    background update routine of every client of that server). -/
theorem client_loop_never_panics (d : Def) (now seed ts : Nat) :
    ∀ (resp : List VP) (c : Store) (ctr : Nat) (p : String), (clientLoop d now seed ts c ctr resp).2.2 ≠ .panic p := by
  intro resp
  induction resp with
  | nil => intro c ctr p; simp [clientLoop]
  | cons vp rest ih =>
    intro c ctr p
    unfold clientLoop
    by_cases hj : vp.jwt = false
    · simp [hj]
    · have hj' : vp.jwt = true := by cases h : vp.jwt <;> simp_all
      simp only [hj', Bool.true_eq_false, ↓reduceIte]
      cases hi : vp.id with
      | none => simp
      | some id =>
        cases hs : vp.signer with
        | none => simp
        | some sm =>
          obtain ⟨subj, m⟩ := sm
          simp only []
          by_cases hk : c.hasKey subj id = true
          · simp only [hk, ↓reduceIte]; exact ih c ctr p
          · simp only [hk, Bool.false_eq_true, ↓reduceIte]
            have hnp := add_no_panic c now vp seed ts (ctr + 1) id hj' hi
            rcases hadd : c.add now vp seed ts (ctr + 1) with ⟨c', r⟩
            rw [hadd] at hnp
            cases r with
            | ok row => simp only []; exact ih _ _ p
            | err e => simp
            | panic q => exact absurd rfl (hnp q)

/-- **client_refuses_malformed.** A presentation that is not a JWT or has no id is refused where the loop meets it: the
    replica, its timestamp and its seed stay exactly as they were at that point, nothing of it is stored. -/
theorem client_refuses_malformed (d : Def) (now seed ts : Nat) (c : Store) (ctr : Nat) (vp : VP) (rest : List VP)
    (h : vp.jwt = false ∨ vp.id = none) :
    ∃ e, clientLoop d now seed ts c ctr (vp :: rest) = (c, ctr, .err e) ∧ (e = "format" ∨ e = "no-id") := by
  unfold clientLoop
  by_cases hj : vp.jwt = false
  · exact ⟨"format", by simp [hj], Or.inl rfl⟩
  · have hi : vp.id = none := by rcases h with h | h; exact absurd h hj; exact h
    have hj' : vp.jwt = true := by cases h : vp.jwt <;> simp_all
    exact ⟨"no-id", by simp [hj', hi], Or.inr rfl⟩

/-- … also behind any number of entries the replica already holds (the shape of a quiescent poll of a hostile server):
    the whole poll changes nothing. -/
theorem client_refuses_malformed_after_held (d : Def) (now seed ts : Nat) (c : Store) (ctr : Nat) (vp : VP) :
    ∀ (held rest : List VP), (∀ v ∈ held, ∃ subj id e, VPWF v subj id e ∧ c.hasKey subj id = true) →
      (vp.jwt = false ∨ vp.id = none) →
      ∃ e, clientLoop d now seed ts c ctr (held ++ vp :: rest) = (c, ctr, .err e) ∧ (e = "format" ∨ e = "no-id") := by
  intro held
  induction held with
  | nil => intro rest _ h; exact client_refuses_malformed d now seed ts c ctr vp rest h
  | cons v hs ih =>
    intro rest hh h
    obtain ⟨subj, id, e, hv, hk⟩ := hh v (by simp)
    rw [List.cons_append, clientLoop_cons d now seed ts c ctr v (hs ++ vp :: rest) subj id e hv, iter_rows_skip hk]
    exact ih rest (fun v' hv' => hh v' (by simp [hv'])) h

example : (clientLoop exDef 10 5 3 { seed := 5, lastTs := 3 } 0 [{ exVP "a" "v1" 50 with id := none }]).2.2 = .err "no-id" ∧
    (clientLoop exDef 10 5 3 { seed := 5, lastTs := 3 } 0 [{ exVP "a" "v1" 50 with id := none }]).1.rows = [] := by decide
example : (clientLoop exDef 10 5 3 { seed := 5, lastTs := 3 } 0 [exVP "b" "v2" 60, { exVP "a" "v1" 50 with jwt := false }]).2.2 =
    .err "format" := by decide

/-! ### seeds are never reused: a client notices a server reset -/

/-- every seed in the system (server list, replica, responses in flight) was drawn before: it is at most the draw counter -/
structure SeedsBounded (w : World) : Prop where
  s : w.S.seed ≤ w.ctr
  c : w.C.seed ≤ w.ctr
  pend : ∀ p, w.pending = some p → p.seed ≤ w.ctr
  del : ∀ p ∈ w.delayed, p.seed ≤ w.ctr

theorem register_seed (d : Def) (s : Store) (now fresh : Nat) (vp : VP) :
    (register d s now fresh vp).1.seed = s.seed ∨
    ((register d s now fresh vp).1.seed = fresh ∧ s.seed = 0 ∧ (register d s now fresh vp).2 = .ok ()) := by
  rcases register_cases d s now fresh vp with ⟨o, ho, _⟩ | ⟨subj, e, id, _, _, _, hreg⟩
  · left; rw [ho]
  · rw [hreg]
    by_cases h : s.seed = 0
    · right; exact ⟨by simp [addOk, Store.setValidated, h], h, rfl⟩
    · left; simp [addOk, Store.setValidated, h]

theorem clientLoop_seed_le (d : Def) (now seed ts : Nat) :
    ∀ (resp : List VP) (c : Store) (ctr : Nat), c.seed ≤ ctr → seed ≤ ctr →
      (clientLoop d now seed ts c ctr resp).1.seed ≤ (clientLoop d now seed ts c ctr resp).2.1 ∧
      ctr ≤ (clientLoop d now seed ts c ctr resp).2.1 := by
  intro resp
  induction resp with
  | nil => intro c ctr hc _; simp [clientLoop, hc]
  | cons vp rest ih =>
    intro c ctr hc hs
    unfold clientLoop
    by_cases hj : vp.jwt = false
    · simp [hj, hc]
    · have hj' : vp.jwt = true := by cases h : vp.jwt <;> simp_all
      simp only [hj', Bool.true_eq_false, ↓reduceIte]
      cases hi : vp.id with
      | none => simp [hc]
      | some id =>
        cases hsg : vp.signer with
        | none => simp [hc]
        | some sm =>
          obtain ⟨subj, m⟩ := sm
          simp only []
          by_cases hk : c.hasKey subj id = true
          · simp only [hk, ↓reduceIte]; exact ih c ctr hc hs
          · simp only [hk, Bool.false_eq_true, ↓reduceIte]
            have hsd := add_seed_cases c now vp seed ts (ctr + 1)
            rcases hadd : c.add now vp seed ts (ctr + 1) with ⟨c', r⟩
            rw [hadd] at hsd
            have hc' : c'.seed ≤ ctr + 1 := by
              simp only at hsd
              rcases hsd with h | h | h <;> omega
            cases r with
            | ok row =>
              simp only []
              generalize verify d c' now Side.client vp = v
              have hstep : ∀ c'' : Store, c''.seed = c'.seed →
                  (clientLoop d now seed ts c'' (ctr + 1) rest).1.seed ≤ (clientLoop d now seed ts c'' (ctr + 1) rest).2.1 ∧
                  ctr ≤ (clientLoop d now seed ts c'' (ctr + 1) rest).2.1 := by
                intro c'' h''
                have := ih c'' (ctr + 1) (by omega) (by omega)
                exact ⟨this.1, by omega⟩
              cases v with
              | ok u => cases u; exact hstep _ rfl
              | err e => exact hstep _ rfl
              | panic q => exact hstep _ rfl
            | err e => simp only []; exact ⟨hc', by omega⟩
            | panic q => simp only []; exact ⟨hc', by omega⟩

theorem clientApply_seed_le (cfg : Cfg) (d : Def) (c : Store) (now ctr seed ts : Nat) (resp : List VP)
    (hc : c.seed ≤ ctr) (hs : seed ≤ ctr) :
    (clientApply cfg d c now ctr seed ts resp).1.seed ≤ (clientApply cfg d c now ctr seed ts resp).2.1 ∧
    ctr ≤ (clientApply cfg d c now ctr seed ts resp).2.1 := by
  unfold clientApply Store.wipeOnSeedChange
  by_cases h : c.seed ≠ seed ∧ c.seed ≠ 0
  · rw [if_pos h]
    by_cases hr : cfg.restartOnWipe = true
    · simp [hr, hs]
    · simp only [hr, Bool.false_and, Bool.false_eq_true, ↓reduceIte]
      exact clientLoop_seed_le d now seed ts resp _ ctr hs hs
  · rw [if_neg h]
    simp only [Bool.and_false, Bool.false_eq_true, ↓reduceIte]
    exact clientLoop_seed_le d now seed ts resp c ctr hc hs

theorem seedsBounded_step (cfg : Cfg) (d : Def) (w : World) (e : Ev) (h : SeedsBounded w) :
    SeedsBounded (step cfg d w e).1 := by
  cases e with
  | tick n => exact ⟨h.s, h.c, h.pend, h.del⟩
  | register vp =>
    have hr := register_seed d w.S w.t (w.ctr + 1) vp
    have hS : (step cfg d w (.register vp)).1 = { w with S := (register d w.S w.t (w.ctr + 1) vp).1, ctr := w.ctr + 1 } := rfl
    rw [hS]
    refine ⟨?_, Nat.le_succ_of_le h.c, fun p hp => Nat.le_succ_of_le (h.pend p hp), fun p hp => Nat.le_succ_of_le (h.del p hp)⟩
    show (register d w.S w.t (w.ctr + 1) vp).1.seed ≤ w.ctr + 1
    rcases hr with hr | ⟨hr, _, _⟩
    · rw [hr]; exact Nat.le_succ_of_le h.s
    · rw [hr]; exact Nat.le_refl _
  | reset => exact ⟨Nat.zero_le _, h.c, h.pend, h.del⟩
  | pollA =>
    refine ⟨h.s, h.c, ?_, h.del⟩
    intro p hp
    simp only [step] at hp
    cases hsf : cfg.serviceFirst <;> simp only [hsf, Bool.false_eq_true, ↓reduceIte, Option.some.injEq] at hp <;> subst hp
    · exact Nat.zero_le _
    · exact h.s
  | pollB perm =>
    cases hp : w.pending with
    | none =>
      have : (step cfg d w (.pollB perm)).1 = w := by simp [step, hp]
      rw [this]; exact h
    | some p =>
      have hps := h.pend p hp
      have hseed : (if cfg.serviceFirst then p.seed else w.S.seed) ≤ w.ctr := by split; exact hps; exact h.s
      have hb := clientApply_seed_le cfg d w.C w.t w.ctr (if cfg.serviceFirst then p.seed else w.S.seed)
        (if cfg.serviceFirst then p.ts else w.S.lastTs)
        (perm ((if cfg.serviceFirst then w.S.rowsAfter p.after else p.rows).map (·.vp))) h.c hseed
      simp only [step, hp]
      refine ⟨Nat.le_trans h.s hb.2, hb.1, (by intro q hq; cases hq), fun q hq => Nat.le_trans (h.del q hq) hb.2⟩
  | validate => exact ⟨h.s, h.c, h.pend, h.del⟩
  | clientVerifier up => exact ⟨h.s, h.c, h.pend, h.del⟩
  | restartServer => exact h
  | restartClient => exact ⟨h.s, h.c, (by intro p hp; cases hp), (by intro p hp; cases hp)⟩
  | dpollStart =>
    refine ⟨h.s, h.c, h.pend, ?_⟩
    intro p hp
    simp only [step, List.mem_append, List.mem_singleton] at hp
    rcases hp with hp | hp
    · exact h.del p hp
    · subst hp; exact h.s
  | dpollFinish i perm =>
    cases hp : w.delayed[i]? with
    | none =>
      have : (step cfg d w (.dpollFinish i perm)).1 = w := by simp [step, hp]
      rw [this]; exact h
    | some p =>
      have hps := h.del p (List.mem_of_getElem? hp)
      have hb := clientApply_seed_le cfg d w.C w.t w.ctr p.seed p.ts (perm (p.rows.map (·.vp))) h.c hps
      simp only [step, hp]
      exact ⟨Nat.le_trans h.s hb.2, hb.1, fun q hq => Nat.le_trans (h.pend q hq) hb.2,
        fun q hq => Nat.le_trans (h.del q (List.mem_of_mem_eraseIdx hq)) hb.2⟩

/-- **seeds_bounded.** Over ALL histories (registrations, resets, polls in both reads, overlapping polls, restarts, any map
    order): no seed anywhere — server list, replica, responses in flight — is ahead of the draw counter, i.e. every seed
    in the system was drawn by an earlier `uuid.NewString()` (or is still empty). -/
theorem seeds_bounded (cfg : Cfg) (d : Def) (evs : List Ev) (t0 : Nat) : SeedsBounded (run cfg d { t := t0 } evs) :=
  run_inv cfg d SeedsBounded (fun w e => seedsBounded_step cfg d w e) evs { t := t0 }
    ⟨Nat.le_refl _, Nat.le_refl _, (by intro p hp; cases hp), (by intro p hp; cases hp)⟩

/-- **reset_draws_unseen_seed.** After ANY history, a server that lost its list (`reset`) and accepts a registration
    gets a seed that is not empty and differs from the seed of the list before the reset, from the replica's seed and
    from the seed of every response still in flight: `Register` passes the empty seed (`fact_add_arguments`), `add`
    draws a fresh one (`fact_seed_draw`). This is exactly what the seeded mutation C16-w8m1 (seed derived from the
    service id) destroys. -/
theorem reset_draws_unseen_seed (cfg : Cfg) (d : Def) (evs : List Ev) (t0 : Nat) (vp : VP)
    (hacc : (step cfg d (step cfg d (run cfg d { t := t0 } evs) .reset).1 (.register vp)).2 = .ok ()) :
    let w := run cfg d { t := t0 } evs
    let w' := (step cfg d (step cfg d w .reset).1 (.register vp)).1
    w'.S.seed ≠ 0 ∧ w'.S.seed ≠ w.S.seed ∧ w'.S.seed ≠ w'.C.seed ∧ w'.C = w.C ∧
    (∀ p, w'.pending = some p → p.seed ≠ w'.S.seed) ∧ ∀ p ∈ w'.delayed, p.seed ≠ w'.S.seed := by
  intro w w'
  have hb : SeedsBounded w := seeds_bounded cfg d evs t0
  have hS : w'.S = (register d {} w.t (w.ctr + 1) vp).1 := rfl
  have hacc' : (register d {} w.t (w.ctr + 1) vp).2 = .ok () := hacc
  have hseed : w'.S.seed = w.ctr + 1 := by
    rw [hS]
    rcases register_cases d {} w.t (w.ctr + 1) vp with ⟨o, ho, hne⟩ | ⟨subj, e, id, _, _, _, hreg⟩
    · rw [ho] at hacc'; exact absurd hacc' hne
    · rw [hreg]; simp [addOk, Store.setValidated, Store.prune]
  have hC : w'.C = w.C := rfl
  have hP : w'.pending = w.pending := rfl
  have hD : w'.delayed = w.delayed := rfl
  refine ⟨by omega, ?_, ?_, hC, ?_, ?_⟩
  · have := hb.s; omega
  · rw [hC]; have := hb.c; omega
  · intro p hp; rw [hP] at hp; have := hb.pend p hp; omega
  · intro p hp; rw [hD] at hp; have := hb.del p hp; omega

/-- **reset_noticed_by_client** (end to end: history → reset → first registration → one poll). A client that holds a
    replica (non-empty seed) and polls after the server lost its list and accepted a new registration ends that poll
    with an EMPTY replica at timestamp 0 under the new seed, and its next `get` asks for everything after 0. -/
theorem reset_noticed_by_client (d : Def) (evs : List Ev) (t0 : Nat) (vp : VP) (perm : List VP → List VP)
    (hc : (run factCfg d { t := t0 } evs).C.seed ≠ 0)
    (hacc : (step factCfg d (step factCfg d (run factCfg d { t := t0 } evs) .reset).1 (.register vp)).2 = .ok ()) :
    let w' := (step factCfg d (step factCfg d (run factCfg d { t := t0 } evs) .reset).1 (.register vp)).1
    (poll factCfg d w' perm).C.rows = [] ∧ (poll factCfg d w' perm).C.lastTs = 0 ∧
    (poll factCfg d w' perm).C.seed = w'.S.seed ∧
    ((step factCfg d (poll factCfg d w' perm) .pollA).1.pending.map (·.after)) = some 0 := by
  intro w'
  obtain ⟨_, _, h3, h4, _, _⟩ := reset_draws_unseen_seed factCfg d evs t0 vp hacc
  exact reset_restarts d w' perm (fun h => h3 h.symm) (by rw [h4]; exact hc)

/-- non-vacuity: a history with a poll, then reset + accepted registration -/
example : (run factCfg exDef { t := 10 } [.register (exVP "a" "v1" 100), .pollA, .pollB id]).C.seed ≠ 0 ∧
    (step factCfg exDef (step factCfg exDef (run factCfg exDef { t := 10 } [.register (exVP "a" "v1" 100), .pollA, .pollB id]) .reset).1
      (.register (exVP "b" "v2" 110))).2 = .ok () := by decide

/-! ### wave 9: the REST wrapper of `Get` hands on everything -/

/-- `Wrapper.GetPresentations`: timestamp default, `Server.Get`, error, and a return of exactly the map, seed and timestamp
    `Server.Get` returned — nothing between the call and the return (no cap, no filter: `apiGet` is `Node.get`) -/
theorem fact_get_presentations_body :
    Facts.C16.getPresentationsBody =
      ["var timestamp int",
       "if request.Params.Timestamp != nil { timestamp = *request.Params.Timestamp }",
       "presentations, seed, newTimestamp, err := w.Server.Get(contextWithForwardedHost(ctx), request.ServiceID, timestamp)",
       "if err != nil { return nil, err }",
       "return GetPresentations200JSONResponse{Seed: seed, Entries: presentations, Timestamp: newTimestamp}, nil"] := by decide

/-- **api_get_no_gap.** Through the REST wrapper (`GET …?timestamp=a`, or without the parameter = 0) a served list answers
    with EVERY row whose timestamp is above `a` — however many there are — together with the list's seed and last
    timestamp: a client that takes over the reported timestamp has missed nothing at or below it (`get_no_gap` then
    applies to what the client does with the answer). -/
theorem api_get_no_gap (n : Node) (sid : String) (f : Fwd) (a : Option Nat) (x : Service)
    (h : n.defs.server.get sid = some x) :
    ∃ rows, apiGet n sid f (a.map Int.ofNat) = .rows rows (n.stores sid).seed (n.stores sid).lastTs ∧
      (∀ r ∈ (n.stores sid).rows, a.getD 0 < r.ts → r ∈ rows) ∧ ∀ r ∈ rows, r ∈ (n.stores sid).rows ∧ a.getD 0 < r.ts := by
  refine ⟨(n.stores sid).rowsAfter (a.getD 0), ?_, ?_, ?_⟩
  · cases a with
    | none => exact node_get_served n sid f 0 x h
    | some v => exact node_get_served n sid f v x h
  · intro r hr hlt; simp [Store.rowsAfter, hr, hlt]
  · intro r hr; simpa [Store.rowsAfter] using hr

/-- non-vacuity of `api_get_no_gap`: a node that serves list "A" -/
example : ∃ x, ({ defs := { all := [("A", exSvc "A" 100)], server := [("A", exSvc "A" 100)] } } : Node).defs.server.get "A" = some x :=
  ⟨_, rfl⟩


end Nuts.C16.Props
