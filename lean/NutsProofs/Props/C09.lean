/-
  C09 — did:nuts documents change only by the DID's own key or a controller's key.
  ONLY property theorems (+ non-vacuity examples + obligations on the regenerated facts).
  Model: NutsModel/C09/Ambassador.lean (ambassador.go, validators.go, resolver.go, dag/keys.go, dag/verifier.go)
  over the C10 store model. Helper lemmas: NutsProofs/Lemmas/C09.lean.
  Facts: NutsModel/Facts/C09.lean is REGENERATED from /repo on every run.
-/
import NutsModel.C09.Ambassador
import NutsModel.Facts.C09
import NutsModel.Facts.C10
import NutsProofs.Lemmas.C09

namespace Nuts.C09.Props
open Nuts Nuts.C10 Nuts.C09

/-! ### Obligations on the regenerated facts (a source change flips these) -/

/-- `NetworkDocumentValidator` composes exactly the W3C validator, the Nuts verification-method validator and the
    Nuts service validator, in this order (the model's `validate` folds over this list) -/
theorem fact_network_validators : Facts.C09.networkValidators = [.nilEntry, .w3c, .nutsVM, .nutsService] := by decide

/-- `verifyDocumentEntryID` checks fragment, uniqueness, prefix — in this order (model: `entryIdErr`) -/
theorem fact_entry_id_checks :
    Facts.C09.entryIdChecks = ["ID must have a fragment", "ID must be unique", "ID must have document prefix"] := by decide

/-- the two Nuts validators range over `document.VerificationMethod` / `document.Service` only, calling the entry-id
    check (and the thumbprint check for keys); service types are checked for uniqueness -/
theorem fact_validator_scope :
    Facts.C09.vmValidatorRanges = ["document.VerificationMethod"] ∧
    Facts.C09.vmValidatorChecks = ["verifyDocumentEntryID", "v.verifyThumbprint"] ∧
    Facts.C09.serviceValidatorRanges = ["document.Service"] ∧
    Facts.C09.serviceValidatorChecks = ["verifyDocumentEntryID"] ∧
    Facts.C09.serviceTypeUniquenessChecked = true := by decide

/-- `verifyThumbprint` compares the fragment with the thumbprint it calculates from the key material (model: `thumb k`,
    a function of the key alone); it does not read the id back through `jwk.AssignKeyID`/`KeyID()`, which would
    trust a "kid" member inside the publicKeyJwk (repaired defect, witness harness/corpus/C09/vm-id-named-by-jwk-kid.jsonl) -/
theorem fact_thumbprint_from_key_material : Facts.C09.thumbprintCalculatedFromKeyMaterial = true := by decide

/-- the depth limit the concrete instances below are stated for -/
theorem fact_max_controller_depth : Facts.C09.maxControllerDepth = 5 := by decide

/-- `resolve` refuses at `depth >= maxControllerDepth` and checks controllers iff the document has some and
    deactivated documents are not allowed -/
theorem fact_resolve_conditions :
    Facts.C09.resolveDepthTest = "depth >= maxControllerDepth" ∧
    Facts.C09.resolveControllerCheckCondition =
      "len(doc.Controller) > 0 && (metadata == nil || !metadata.AllowDeactivated)" := by decide

/-- `resolveControllers` skips exactly these errors and filters leaves with `IsDeactivated` (model: `skippable`;
    ErrDIDMethodNotSupported cannot come from the did:nuts store) -/
theorem fact_controller_skips :
    Facts.C09.controllerSkippedErrors = ["ErrDeactivated", "ErrNoActiveController", "ErrNotFound", "ErrDIDMethodNotSupported"] ∧
    Facts.C09.controllerLeavesFilteredByIsDeactivated = true := by decide

/-- a transaction is an update iff it carries no embedded key; creation binds `ID.ID` to the embedded key's thumbprint -/
theorem fact_create_update_split :
    Facts.C09.isUpdateCriterion = "transaction.SigningKey() == nil" ∧
    Facts.C09.createBinding = "proposedDIDDocument.ID.ID != signingKeyThumbprint" := by decide

/-- `callback`: integrity, refusal of null key entries + unmarshal (one outcome class: the payload does not parse),
    validate, then update/create — in this order -/
theorem fact_callback_steps :
    Facts.C09.callbackSteps = ["checkTransactionIntegrity", "resolver.RejectNullKeyEntries", "json.Unmarshal", "NetworkDocumentValidator().Validate",
      "n.isUpdate", "n.handleUpdateDIDDocument", "n.handleCreateDIDDocument"] := by decide

/-- the ambassador touches the DID store only here: one `Add` at the end of each handler, two `Resolve`s in update -/
theorem fact_store_calls :
    Facts.C09.ambassadorStoreCalls = ["handleCreateDIDDocument:Add", "handleUpdateDIDDocument:Resolve",
      "handleUpdateDIDDocument:Resolve", "handleUpdateDIDDocument:Add"] := by decide

/-- `handleUpdateDIDDocument`: versions by prevs (all of them; the first one found is the succeeded version), fallback
    to latest, controllers, signing key, thumbprint search, the same check for every other named version, add -/
theorem fact_update_steps :
    Facts.C09.updateSteps = ["didStore.Resolve", "didStore.Resolve", "resolveControllers",
      "keyResolver.ResolvePublicKey", "findKeyByThumbprint", "resolveControllers", "findKeyByThumbprint", "didStore.Add"] ∧
    Facts.C09.updateFallsBackToLatest = true := by decide

/-- the succeeded version only ever comes from the store (by prev, then latest; never the proposed document), the
    fallback refuses on ANY error (an unknown DID cannot be updated), and the authorising keys are collected from the
    controllers' `CapabilityInvocation` only (model: `currentVersion`, `capInvOf`) -/
theorem fact_succeeded_version_and_key_collection :
    Facts.C09.succeededVersionSources = ["version", "n.didStore.Resolve"] ∧
    Facts.C09.updateFallbackErrorCondition = "err != nil" ∧
    Facts.C09.controllerKeysCollectedFrom = ["CapabilityInvocation", "CapabilityInvocation"] := by decide

/-- `ambassador.resolveControllers`: per-prev errors skipped, by-signing-time fallback when nothing was found -/
theorem fact_ambassador_controller_resolution :
    Facts.C09.ambassadorSkippedErrors = ["ErrNotFound", "ErrNoActiveController"] ∧
    Facts.C09.controllersFallBackToSigningTime = true := by decide

/-- the key resolver moves to the next previous transaction on `ErrNotFound` only -/
theorem fact_key_resolver : Facts.C09.keyResolverAbortCondition = "err != resolver.ErrNotFound" := by decide

/-- **Wiring.** The DAG signature verifier's key resolver reads the DID store itself (model: `resolvePublicKeyStore`);
    the ambassador's key resolver and DID resolver go through `didnuts.Resolver` over the same store (model:
    `resolvePublicKey`, `resolveControllersTop`) -/
theorem fact_wiring :
    Facts.C09.verifierWiring =
      "nutsKeyResolver := dag.SourceTXKeyResolver{Resolver: n.didStore} ; NewTransactionSignatureVerifier(nutsKeyResolver)" ∧
    Facts.C09.ambassadorWiring = ["resolver := Resolver{Store: didStore}", "didStore: didStore",
      "keyResolver: dag.SourceTXKeyResolver{Resolver: resolver}", "didResolver: &Resolver{Store: didStore}"] := by decide

/-- the DAG signature verifier cannot succeed without `jws.Verify`: no `return nil` anywhere, and it ends by returning
    the verdict of `jws.Verify` (model: `verifySig` answers ok only when the verification key is the signer's) -/
theorem fact_verifier_always_verifies :
    Facts.C09.verifierNilReturns = 0 ∧ Facts.C09.verifierEndsWithJwsVerify = true := by decide

/-- `verifyThumbprint` never looks at the method's `type` (attacker-chosen text) and succeeds only at its end, after
    the comparison (model: `validateVMs` applies the thumbprint rule to every entry of `verificationMethod`) -/
theorem fact_thumbprint_rule_for_every_type :
    Facts.C09.verifyThumbprintLooksAtType = false ∧ Facts.C09.verifyThumbprintSucceedsOnlyAtTheEnd = true := by decide

/-- both Nuts validators hand the DOCUMENT's DID (not e.g. the method's `controller`) and the entry's own id to
    `verifyDocumentEntryID` (model: `validateVMs … d.id d.vms`, `validateSvcs … d.id d.services`) -/
theorem fact_entry_id_owner_is_document :
    Facts.C09.vmEntryIdArguments = ["document.ID | method.ID.URI()"] ∧
    Facts.C09.serviceEntryIdArguments = ["document.ID | service.ID"] := by decide

/-- **Call sites.** `callback` is entered from the two subscriber functions only and is the only caller of the two
    handlers; the only other `Add` on the DID store in the package is the node's own publishing path
    (`Manager.Update`, which validates with `ManagedDocumentValidator` = network validator + service checks first);
    the subscription delivers payload events of type did+json -/
theorem fact_call_sites :
    Facts.C09.handlerCallers = ["handleReprocessEvent->callback", "handleNetworkEvent->callback",
      "callback->handleUpdateDIDDocument", "callback->handleCreateDIDDocument"] ∧
    Facts.C09.didStoreAddSites = ["ambassador.go:handleCreateDIDDocument:n.didStore.Add",
      "ambassador.go:handleUpdateDIDDocument:n.didStore.Add", "manager.go:Update:m.store.Add"] ∧
    Facts.C09.managedValidators = ["NetworkDocumentValidator()", "managedServiceValidator{serviceResolver}"] ∧
    Facts.C09.subscriptionFilter =
      "event.Type == dag.PayloadEventType && event.Transaction.PayloadType() == DIDDocumentType" := by decide

/-- **Comparisons and helpers** are exact: whole-thumbprint equality (then `break`), whole-string prefix equality,
    SHA-256 thumbprints rendered in base58 for DIDs, keys looked up among `VerificationMethod` only, and
    `IsDeactivated` = no controller and no capabilityInvocation (model: `findKey`, `entryIdErr`, `didThumb`,
    `resolvePublicKey1`, `C10.isDeactivated`) -/
theorem fact_comparisons :
    Facts.C09.findKeyComparison = "bytes.Equal(thumbPrint, documentThumbprint) => break" ∧
    Facts.C09.entryIdPrefixComparison = "owner.String() != entryID.String()" ∧
    Facts.C09.thumbprintAlg = "crypto.SHA256" ∧
    Facts.C09.nutsThumbprintSteps = ["key.Thumbprint(crypto.SHA256)", "base58.EncodeAlphabet(pkHash[:], base58.BTCAlphabet)"] ∧
    Facts.C09.keyLookup = "doc.VerificationMethod.FindByID(*id)" ∧
    Facts.C09.isDeactivatedBody = "len(document.Controller) == 0 && len(document.CapabilityInvocation) == 0" := by decide

/-! ### accepted documents are authorised and well-formed -/

/-- **Creation.** If the callback accepts a transaction that carries an embedded key, then the document parsed, passed
    the network validator, and the DID's method-specific id IS the thumbprint of that embedded key; the only effect is
    one `store.Add` of exactly that document under exactly that transaction. -/
theorem accepted_create_sound (c : Cfg) (s s' : Store) (tx : Tx) (pd : Option NDoc) (k : Key)
    (h : callback c s tx pd = .ok s') (hk : tx.embedded = some k) :
    ∃ d, pd = some d ∧ validate c.thumb c.vmNilJwkErr c.validators d = .ok () ∧ d.idID = c.didThumb k ∧
      checkTransactionIntegrity tx = .ok () ∧ add c.store s (eventOf tx d) = .ok s' := by
  obtain ⟨hint, d, hpd, hval, hcase⟩ := callback_ok_inv c s s' tx pd h
  rcases hcase with ⟨k', hk', hc⟩ | ⟨hnone, _⟩
  · rw [hk] at hk'
    cases hk'
    obtain ⟨hid, hadd⟩ := handleCreate_ok c s s' tx k d hc
    exact ⟨d, hpd, hval, hid, hint, hadd⟩
  · rw [hk] at hnone; cases hnone

/-- with the DAG's signature verifier in front (as in the node): the embedded key is the key that signed, so —
    thumbprints being collision-free — a DID can only be created by the holder of the key it is derived from -/
theorem accepted_create_signed_by_did_key (c : Cfg) (s s' : Store) (tx : Tx) (pd : Option NDoc) (k : Key)
    (hinj : ∀ a b, c.didThumb a = c.didThumb b → a = b)
    (h : deliver c s tx pd = .ok s') (hk : tx.embedded = some k) :
    ∃ d, pd = some d ∧ d.idID = c.didThumb tx.signer ∧
      ∀ k', d.idID = c.didThumb k' → k' = tx.signer := by
  obtain ⟨hv, hcb⟩ := deliver_ok_inv c s s' tx pd h
  obtain ⟨d, hpd, _, hid, _, _⟩ := accepted_create_sound c s s' tx pd k hcb hk
  have hs := verifySig_embedded s tx k hk hv
  subst hs
  exact ⟨d, hpd, hid, fun k' hk' => hinj _ _ (hk'.symm.trans hid)⟩

/-- **Update.** If the callback accepts a transaction without embedded key, then the document parsed and passed the
    network validator, and there are: the version `cur` the update succeeds (named by the transaction's prevs, with
    the coded fallback), a controller `ctrl` of that version (`ControllerFor`: not deactivated; `cur` itself when it
    controls itself, else the version of a listed controller DID resolved as of the prevs / signing time and active
    within the depth limit), and an entry of `ctrl`'s capabilityInvocation whose key has the same thumbprint as the
    key the transaction's `kid` resolves to as of the prevs. The only effect is one `store.Add`. -/
theorem accepted_update_sound (c : Cfg) (s s' : Store) (tx : Tx) (pd : Option NDoc)
    (h : callback c s tx pd = .ok s') (hu : tx.embedded = none) :
    ∃ d cur ctrl e k k', pd = some d ∧ validate c.thumb c.vmNilJwkErr c.validators d = .ok () ∧
      Succeeds s d.id tx.prevs cur ∧ ControllerFor c s tx cur ctrl ∧
      e ∈ ctrl.f .capInv ∧ KeyInfo.ofBody e.body = .key k' ∧
      resolvePublicKey c.maxDepth s tx.kid tx.prevs = .ok k ∧ c.thumb k' = c.thumb k ∧
      add c.store s (eventOf tx d) = .ok s' := by
  obtain ⟨_, d, hpd, hval, hcase⟩ := callback_ok_inv c s s' tx pd h
  rcases hcase with ⟨k', hk', _⟩ | ⟨_, hup⟩
  · rw [hu] at hk'; cases hk'
  · obtain ⟨cur, ctrls, k, hcur, hctrls, hk, hf, hadd⟩ := handleUpdate_ok_inv c s s' tx d hup
    obtain ⟨e, he, k', hk', ht⟩ := findKey_true c.thumb c.findKeyNilJwkErr (c.thumb k) _ hf
    obtain ⟨ctrl, hctrl, hmem⟩ := mem_capInvOf ctrls e he
    exact ⟨d, cur, ctrl, e, k, k', hpd, hval, currentVersion_ok s d.id tx.prevs cur hcur,
      ambControllers_sound c s cur tx ctrls hctrls ctrl hctrl, hmem, hk', hk, ht, hadd⟩

/-- **Every version the prevs name.** An accepted update is authorised not only by the first version of the document
    that its prevs name (`accepted_update_sound`) but by EVERY one: for each further version `v` that some prev names
    there is a controller of `v` (`ControllerFor`) listing, for capabilityInvocation, a key with the thumbprint of the
    key the `kid` resolves to. So a key that a later version removed cannot take the document over by naming the older
    version first (repaired defect 963038a, witness harness/corpus/C09/removed-key-names-old-version-first.jsonl). -/
theorem accepted_update_authorised_under_every_named_version (c : Cfg) (s s' : Store) (tx : Tx) (pd : Option NDoc)
    (h : callback c s tx pd = .ok s') (hu : tx.embedded = none) :
    ∃ d k others, pd = some d ∧ resolvePublicKey c.maxDepth s tx.kid tx.prevs = .ok k ∧
      otherNamed s d.id tx.prevs = .ok others ∧
      ∀ v ∈ others,
        (∃ p ∈ tx.prevs, ∃ m, resolve s d.id (some { allowDeactivated := true, sourceTx := some p }) = .ok (v, m)) ∧
        ∃ ctrl e k', ControllerFor c s tx v ctrl ∧ e ∈ ctrl.f .capInv ∧ KeyInfo.ofBody e.body = .key k' ∧
          c.thumb k' = c.thumb k := by
  obtain ⟨_, d, hpd, _, hcase⟩ := callback_ok_inv c s s' tx pd h
  rcases hcase with ⟨k', hk', _⟩ | ⟨_, hup⟩
  · rw [hu] at hk'; cases hk'
  · obtain ⟨_, _, k, others, _, _, hk, _, ho, hco, _⟩ := handleUpdate_ok_inv2 c s s' tx d hup
    refine ⟨d, k, others, hpd, hk, ho, fun v hv => ⟨otherNamed_mem s d.id tx.prevs others ho v hv, ?_⟩⟩
    obtain ⟨ctrls, hc, hf⟩ := authorisedBy_true c s tx _ v (checkOthers_true c s tx _ others hco v hv)
    obtain ⟨e, he, k', hk', ht⟩ := findKey_true c.thumb c.findKeyNilJwkErr (c.thumb k) _ hf
    obtain ⟨ctrl, hctrl, hmem⟩ := mem_capInvOf ctrls e he
    exact ⟨ctrl, e, k', ambControllers_sound c s v tx ctrls hc ctrl hctrl, hmem, hk', ht⟩

/-- **The signing time is irrelevant when the prevs pin a controller.** If resolution by the transaction's prevs yields
    any controller, `ambassador.resolveControllers` answers exactly those — whatever signing time the signer chose
    (the by-signing-time resolution is a fallback for transactions whose prevs pin nothing;
    `fact_ambassador_controller_resolution`). -/
theorem signing_time_irrelevant_when_prevs_pin (c : Cfg) (s : Store) (doc : Doc) (tx tx' : Tx) (cs : List Doc)
    (hp : tx'.prevs = tx.prevs) (h : ctrlsPerPrev c s doc tx.prevs = .ok cs) (hne : cs ≠ []) :
    ambControllers c s doc tx = .ok cs ∧ ambControllers c s doc tx' = .ok cs := by
  have hemp : cs.isEmpty = false := by cases cs with | nil => exact absurd rfl hne | cons _ _ => rfl
  constructor
  · unfold ambControllers; rw [h]; simp [hemp]
  · unfold ambControllers; rw [hp, h]; simp [hemp]

/-- with the signature verifier in front and collision-free thumbprints: the key that made the signature is itself
    listed for capabilityInvocation by a controller of the version the update succeeds -/
theorem accepted_update_signed_by_controller_key (c : Cfg) (s s' : Store) (tx : Tx) (pd : Option NDoc)
    (hinj : ∀ a b, c.thumb a = c.thumb b → a = b)
    (h : deliver c s tx pd = .ok s') (hu : tx.embedded = none) :
    ∃ d cur ctrl e, pd = some d ∧ Succeeds s d.id tx.prevs cur ∧ ControllerFor c s tx cur ctrl ∧
      e ∈ ctrl.f .capInv ∧ KeyInfo.ofBody e.body = .key tx.signer := by
  obtain ⟨hv, hcb⟩ := deliver_ok_inv c s s' tx pd h
  obtain ⟨d, cur, ctrl, e, k, k', hpd, _, hsucc, hctrl, he, hk', hk, ht, _⟩ := accepted_update_sound c s s' tx pd hcb hu
  have hs := verifySig_kid s tx hu hv
  rw [resolvePublicKey_ok_store c.maxDepth s tx.kid tx.prevs k hk] at hs
  cases hs
  have := hinj _ _ ht
  subst this
  exact ⟨d, cur, ctrl, e, hpd, hsucc, hctrl, he, hk'⟩

/-- **Exactly these checks.** The callback accepts iff integrity, parsing and validation pass, and — creation — the
    DID is the embedded key's thumbprint, or — update — the version named by the prevs resolves, its controllers
    resolve, the `kid` resolves as of the prevs and the thumbprint search over the controllers' capabilityInvocation
    succeeds; and the store accepts the event. (So a delivery the model refuses fails one of the stated checks.) -/
theorem callback_accepts_iff (c : Cfg) (s s' : Store) (tx : Tx) (pd : Option NDoc) :
    callback c s tx pd = .ok s' ↔
    (checkTransactionIntegrity tx = .ok () ∧ ∃ d, pd = some d ∧ validate c.thumb c.vmNilJwkErr c.validators d = .ok () ∧
      ((∃ k, tx.embedded = some k ∧ d.idID = c.didThumb k) ∨
       (tx.embedded = none ∧ ∃ cur ctrls k, currentVersion s d.id tx.prevs = .ok cur ∧
          ambControllers c s cur tx = .ok ctrls ∧ resolvePublicKey c.maxDepth s tx.kid tx.prevs = .ok k ∧
          findKey c.thumb c.findKeyNilJwkErr (c.thumb k) (capInvOf ctrls) = .ok true ∧
          ∃ others, otherNamed s d.id tx.prevs = .ok others ∧ checkOthers c s tx (c.thumb k) others = .ok true)) ∧
      add c.store s (eventOf tx d) = .ok s') := by
  constructor
  · intro h
    obtain ⟨hint, d, hpd, hval, hcase⟩ := callback_ok_inv c s s' tx pd h
    refine ⟨hint, d, hpd, hval, ?_⟩
    rcases hcase with ⟨k, hk, hc⟩ | ⟨hu, hup⟩
    · obtain ⟨hid, hadd⟩ := handleCreate_ok c s s' tx k d hc
      exact ⟨Or.inl ⟨k, hk, hid⟩, hadd⟩
    · obtain ⟨cur, ctrls, k, others, hcur, hctrls, hk, hf, ho, hco, hadd⟩ := handleUpdate_ok_inv2 c s s' tx d hup
      exact ⟨Or.inr ⟨hu, cur, ctrls, k, hcur, hctrls, hk, hf, others, ho, hco⟩, hadd⟩
  · rintro ⟨hint, d, rfl, hval, hcase, hadd⟩
    rcases hcase with ⟨k, hk, hid⟩ | ⟨hu, cur, ctrls, k, hcur, hctrls, hk, hf, others, ho, hco⟩
    · exact callback_of_create c s s' tx d k hint hval hk hid hadd
    · exact callback_of_update c s s' tx d cur ctrls k hint hval hu hcur hctrls hk hf others ho hco hadd

/-! ### a rejected document is inert -/

/-- **Rejected ⇒ inert.** Whatever the reason (integrity, parsing, validation, thumbprint, unresolvable version /
    controllers / key, unauthorised key, store error, panic): the store after the delivery IS the store before — so
    `Resolve` under every metadata form, the didnuts resolver, the key resolver's answers, and every later
    authorisation decision are unchanged. -/
theorem rejected_inert (c : Cfg) (s : Store) (tx : Tx) (pd : Option NDoc)
    (h : (step c s tx pd).2 ≠ "ok") :
    (step c s tx pd).1 = s ∧
    (∀ id rm, resolve (step c s tx pd).1 id rm = resolve s id rm) ∧
    (∀ n rm id, resolverResolve n (step c s tx pd).1 rm id = resolverResolve n s rm id) ∧
    (∀ n kid refs, resolvePublicKey n (step c s tx pd).1 kid refs = resolvePublicKey n s kid refs) ∧
    (∀ tx' pd', step c (step c s tx pd).1 tx' pd' = step c s tx' pd') := by
  have hs : (step c s tx pd).1 = s := by
    unfold step at h ⊢
    split
    · rename_i s' hs'
      rw [hs'] at h
      exact absurd rfl h
    · rfl
    · rfl
  rw [hs]
  exact ⟨rfl, fun _ _ => rfl, fun _ _ _ => rfl, fun _ _ _ => rfl, fun _ _ => rfl⟩

/-- an accepted document changes the records of its own DID only: every other DID's event list, version chain,
    and therefore `Resolve` answers stay as they were -/
theorem accepted_changes_own_did_only (c : Cfg) (s s' : Store) (tx : Tx) (pd : Option NDoc)
    (h : deliver c s tx pd = .ok s') :
    ∃ d, pd = some d ∧ ∀ id, id ≠ d.id → s'.get id = s.get id ∧ ∀ rm, resolve s' id rm = resolve s id rm := by
  obtain ⟨_, hcb⟩ := deliver_ok_inv c s s' tx pd h
  obtain ⟨_, d, hpd, _, hcase⟩ := callback_ok_inv c s s' tx pd hcb
  have hadd : add c.store s (eventOf tx d) = .ok s' := by
    rcases hcase with ⟨k, _, hc⟩ | ⟨_, hup⟩
    · exact (handleCreate_ok c s s' tx k d hc).2
    · obtain ⟨_, _, _, _, _, _, _, hadd⟩ := handleUpdate_ok_inv c s s' tx d hup
      exact hadd
  refine ⟨d, hpd, fun id hid => ?_⟩
  have hg := (add_get c.store s s' (eventOf tx d) hadd).1 id hid
  exact ⟨hg, fun rm => by unfold resolve; rw [hg]⟩

/-- **All histories.** After ANY sequence of deliveries (any length, any mix of hostile and legitimate pairs, starting
    from the empty store) every event in every DID's event list — and the store's versions and `Resolve` answers are
    a function of exactly these lists (C10 `store_is_fold`) — is the (transaction, document) of a delivery of that
    history which was accepted in the state the history had reached at that point; so it satisfied
    `callback_accepts_iff` / `accepted_create_sound` / `accepted_update_sound` there. -/
theorem resolvable_only_if_accepted (c : Cfg) (l : List (Tx × Option NDoc)) (id : String) (e : Event)
    (h : e ∈ ((runHist c {} l).get id).events) :
    ∃ pre tx d post, l = pre ++ (tx, some d) :: post ∧ e = eventOf tx d ∧ d.id = id ∧
      (step c (runHist c {} pre) tx (some d)).2 = "ok" := by
  rcases runHist_events c l {} id e h with h0 | h1
  · simp [Store.get, alGet] at h0
  · exact h1

/-- **REPROCESS.** Replaying the DAG's did+json transactions (`handleReprocessEvent` → `callback`,
    `fact_call_sites`) over ANY store and ANY list of transactions — including those whose documents were rejected when
    they were received — adds an event only for a transaction that `callback` accepts in the state reached at that
    moment (so integrity, parsing, `NetworkDocumentValidator` and the authorisation of `callback_accepts_iff` hold for
    it), and a transaction the store already holds changes nothing when it is accepted again. -/
theorem reprocess_is_callback_again (c : Cfg) (l : List (Tx × Option NDoc)) (s : Store) :
    (∀ id e, e ∈ ((reprocess c s l).get id).events →
      e ∈ (s.get id).events ∨
      ∃ pre tx d post s', l = pre ++ (tx, some d) :: post ∧ e = eventOf tx d ∧ d.id = id ∧
        callback c (reprocess c s pre) tx (some d) = .ok s') ∧
    (∀ tx d, contains (s.get d.id).events (eventOf tx d) = true → reprocessOne c s tx (some d) = s) :=
  ⟨fun id e h => reprocess_events c l s id e h, fun tx d h => reprocessOne_known c s tx d h⟩

/-! ### controller resolution is bounded -/

/-- **Depth bound.** Whenever `resolve` (remaining depth `n`) succeeds for a DID there is a chain of at most `n`
    documents — each the foreign controller of the one before, each resolvable — that it followed; in particular
    resolution never follows more than `maxControllerDepth` indirections. -/
theorem controller_chain_bounded (R : String → Res Doc) (n : Nat) (id : String) (doc : Doc)
    (h : resolveN R false n id = .ok doc) :
    R id = .ok doc ∧ ∃ chain : List String, chain.length ≤ n ∧ chain.head? = some id ∧
      (∀ x ∈ chain, ∃ d, R x = .ok d) ∧ IsCtrlChain R chain := by
  obtain ⟨h1, h2⟩ := resolveN_ok R n id doc h
  exact ⟨h1, activeWithin_chain R n id h2⟩

/-- **Cycles terminate and are refused.** The recursion is total by construction (structural in the remaining
    depth); on any controller graph in which no document controls itself or is uncontrolled — every cycle, every
    endless chain — it answers `too-deep` for every DID and every depth limit. -/
theorem controller_cycle_refused (R : String → Res Doc) (hR : OnlyForeign R) (n : Nat) (id : String) :
    resolveN R false n id = .err eTooDeep :=
  resolveN_only_foreign R hR n id

/-! ### deactivated controllers, removed keys -/

/-- **Deactivated controllers never authorise.** No document returned by controller resolution is deactivated; and
    when the succeeded version does not control itself and every listed controller is skipped (deactivated, without
    active controller, or unknown — as of the transaction's prevs and signing time), the update is refused. -/
theorem deactivated_controller_rejected (c : Cfg) (s : Store) (tx : Tx) (d : NDoc) (cur : Doc)
    (hcur : currentVersion s d.id tx.prevs = .ok cur)
    (hself : selfLeaves cur = [])
    (hskip : ∀ rm, MetaFor tx rm → ∀ r ∈ foreignRefs cur,
      ∃ e, resolveN (resolverResolve c.maxDepth s (some rm)) (allowOf (some rm)) c.maxDepth r = .err e ∧ skippable e = true) :
    (∀ ctrls, ambControllers c s cur tx = .ok ctrls → ctrls = []) ∧
    ∀ s', handleUpdate c s tx d ≠ .ok s' := by
  have hnone : ∀ rm, MetaFor tx rm → resolveControllersTop c.maxDepth s (some rm) cur = .ok [] := by
    intro rm hrm
    unfold resolveControllersTop
    exact ctrlsWith_none _ cur hself (hskip rm hrm)
  have hctrls : ∀ ctrls, ambControllers c s cur tx = .ok ctrls → ctrls = [] := by
    intro ctrls h
    cases ctrls with
    | nil => rfl
    | cons x xs =>
      obtain ⟨rm, hrm, l', hl', hx⟩ := ambControllers_mem c s cur tx (x :: xs) h x List.mem_cons_self
      rw [hnone rm hrm] at hl'
      cases hl'
      cases hx
  refine ⟨hctrls, fun s' h => ?_⟩
  obtain ⟨cur', ctrls, k, hcur', hc, _, hf, _⟩ := handleUpdate_ok_inv c s s' tx d h
  rw [hcur] at hcur'
  cases hcur'
  rw [hctrls ctrls hc] at hf
  simp [capInvOf, findKey] at hf

/-- every controller the ambassador uses is not deactivated (document-level `IsDeactivated`) -/
theorem controllers_never_deactivated (c : Cfg) (s : Store) (cur : Doc) (tx : Tx) (ctrls : List Doc)
    (h : ambControllers c s cur tx = .ok ctrls) : ∀ x ∈ ctrls, isDeactivated x = false :=
  fun x hx => (ambControllers_sound c s cur tx ctrls h x hx).1

/-- every foreign controller document the ambassador uses is a stored version of a DID the succeeded version lists,
    selected by the transaction's prevs / signing time, and that version is NOT flagged deactivated in the store
    (nor deactivated as a document). By C10 `deactivated_monotone` it therefore precedes any deactivation. -/
theorem controller_versions_are_active (c : Cfg) (s : Store) (cur : Doc) (tx : Tx) (ctrls : List Doc)
    (h : ambControllers c s cur tx = .ok ctrls) :
    ∀ x ∈ ctrls, isDeactivated x = false ∧
      (x = cur ∨ ∃ r ∈ controllersOf cur, ∃ rm, MetaFor tx rm ∧ ∃ m, resolve s r (some rm) = .ok (x, m) ∧
        m.deactivated = false ∧ (x, m) ∈ (s.get r).chain) := by
  intro x hx
  obtain ⟨hd, hc⟩ := ambControllers_sound c s cur tx ctrls h x hx
  refine ⟨hd, ?_⟩
  rcases hc with ⟨rfl, _, _⟩ | ⟨r, hr, _, rm, hrm, hs, _, _⟩
  · exact Or.inl rfl
  · obtain ⟨m, h1, h2, h3⟩ := storeDoc_ok s (some rm) (allowOf_metaFor tx rm hrm) r x hs
    exact Or.inr ⟨r, hr, rm, hrm, m, h1, h2, h3⟩

/-- **Removed keys do not authorise** (relative to the version named by the transaction's prevs): if no
    capabilityInvocation entry of any controller of the succeeded version carries a key with the thumbprint of the
    key the transaction's `kid` resolves to, the update is refused — in particular when the succeeded version
    controls itself and no longer lists the key. -/
theorem removed_key_rejected (c : Cfg) (s : Store) (tx : Tx) (d : NDoc) (cur : Doc) (k : Key)
    (hcur : currentVersion s d.id tx.prevs = .ok cur)
    (hk : resolvePublicKey c.maxDepth s tx.kid tx.prevs = .ok k)
    (hgone : ∀ ctrl, ControllerFor c s tx cur ctrl →
      ∀ e ∈ ctrl.f .capInv, ∀ k', KeyInfo.ofBody e.body = .key k' → c.thumb k' ≠ c.thumb k) :
    ∀ s', handleUpdate c s tx d ≠ .ok s' := by
  intro s' h
  obtain ⟨cur', ctrls, k₂, hcur', hc, hk₂, hf, _⟩ := handleUpdate_ok_inv c s s' tx d h
  rw [hcur] at hcur'; cases hcur'
  rw [hk] at hk₂; cases hk₂
  obtain ⟨e, he, k', hk', ht⟩ := findKey_true c.thumb c.findKeyNilJwkErr (c.thumb k) _ hf
  obtain ⟨ctrl, hctrl, hmem⟩ := mem_capInvOf ctrls e he
  exact hgone ctrl (ambControllers_sound c s cur tx ctrls hc ctrl hctrl) e hmem k' hk' ht

/-- the self-controlled special case spelled out: the version named by the prevs has no foreign controller and
    does not list a key with the signer's thumbprint ⇒ refused -/
theorem removed_key_rejected_self_controlled (c : Cfg) (s : Store) (tx : Tx) (d : NDoc) (cur : Doc) (k : Key)
    (hcur : currentVersion s d.id tx.prevs = .ok cur)
    (hk : resolvePublicKey c.maxDepth s tx.kid tx.prevs = .ok k)
    (hown : ∀ r ∈ controllersOf cur, r = cur.id)
    (hgone : ∀ e ∈ cur.f .capInv, ∀ k', KeyInfo.ofBody e.body = .key k' → c.thumb k' ≠ c.thumb k) :
    ∀ s', handleUpdate c s tx d ≠ .ok s' := by
  apply removed_key_rejected c s tx d cur k hcur hk
  intro ctrl hctrl e he k' hk'
  rcases hctrl.2 with ⟨rfl, _, _⟩ | ⟨r, hr, hne, _⟩
  · exact hgone e he k' hk'
  · exact absurd (hown r hr) hne

/-! ### the validator rules -/

/-- **Jointly sufficient and sound.** The network validator accepts a parsed document exactly when it is well-formed
    per DID-core (go-did's W3C checks) and the Nuts method rules: every verificationMethod / service id has a
    fragment, is prefixed by the document's DID and is unique; every verificationMethod's fragment is the thumbprint
    of its key; at most one service per type. (`WellFormedNuts` is the declarative statement.) -/
theorem validator_rules_sound_complete (thumb : Key → String) (nilErr : Bool) (d : NDoc) :
    validate thumb nilErr Facts.C09.networkValidators d = .ok () ↔ WellFormedNuts thumb d := by
  rw [fact_network_validators]
  exact validate_ok_iff thumb nilErr d

private def wKey : NVM := { id := "did:nuts:a#k", pfx := "did:nuts:a", frag := "k", key := .key "k" }
private def wSvc (id frag type : String) : NSvc := { id := id, pfx := "did:nuts:a", frag := frag, type := type }
private def wDoc (vms : List NVM) (svcs : List NSvc) : NDoc :=
  { id := "did:nuts:a", idID := "a", vms := vms, capInv := [wKey], services := svcs }

/-- the eight Nuts rules -/
def nutsRules : List Rule :=
  [.vmFragment, .vmUnique, .vmPrefix, .vmThumbprint, .svcFragment, .svcUnique, .svcPrefix, .svcTypeUnique]

/-- **Each rule is necessary.** For every Nuts rule there is a document that the validator with just that rule
    switched off accepts although it is not well-formed. -/
theorem validator_rules_each_necessary :
    ∀ r ∈ nutsRules, ∃ d, validateList (fun k => k) Facts.C09.verifyThumbprintGuardsNilJwk (fun x => decide (x ≠ r)) d Facts.C09.networkValidators = .ok () ∧
      ¬ WellFormedNuts (fun k => k) d := by
  intro r hr
  simp only [nutsRules, List.mem_cons, List.mem_nil_iff, or_false] at hr
  rcases hr with rfl | rfl | rfl | rfl | rfl | rfl | rfl | rfl
  · exact ⟨wDoc [{ wKey with id := "did:nuts:a", frag := "", key := .key "" }] [], by decide,
      fun h => (h.2.2.1 _ List.mem_cons_self).1 rfl⟩
  · exact ⟨wDoc [wKey, wKey] [], by decide, fun h => by have := h.2.2.2.1; revert this; decide⟩
  · exact ⟨wDoc [{ wKey with id := "did:nuts:b#k", pfx := "did:nuts:b" }] [], by decide,
      fun h => by have := (h.2.2.1 _ List.mem_cons_self).2.1; revert this; decide⟩
  · exact ⟨wDoc [{ wKey with key := .key "other" }] [], by decide,
      fun h => by
        obtain ⟨k, hk, ht⟩ := (h.2.2.1 _ List.mem_cons_self).2.2
        cases hk
        revert ht; decide⟩
  · exact ⟨wDoc [wKey] [wSvc "did:nuts:a" "" "t"], by decide,
      fun h => (h.2.2.2.2.1 _ List.mem_cons_self).1 rfl⟩
  · exact ⟨wDoc [wKey] [wSvc "did:nuts:a#s" "s" "t1", wSvc "did:nuts:a#s" "s" "t2"], by decide,
      fun h => by have := h.2.2.2.2.2.1; revert this; decide⟩
  · exact ⟨wDoc [wKey] [{ wSvc "did:nuts:b#s" "s" "t" with pfx := "did:nuts:b" }], by decide,
      fun h => by have := (h.2.2.2.2.1 _ List.mem_cons_self).2; revert this; decide⟩
  · exact ⟨wDoc [wKey] [wSvc "did:nuts:a#s1" "s1" "t", wSvc "did:nuts:a#s2" "s2" "t"], by decide,
      fun h => by have := h.2.2.2.2.2.2; revert this; decide⟩

/-- The property text read literally — EVERY verification method of an accepted document, also one EMBEDDED in a
    verification relationship, has an id prefixed by the DID whose fragment is the key's thumbprint. -/
def validator_rules_Stmt : Prop :=
  ∀ (thumb : Key → String) (nilErr : Bool) (d : NDoc), validate thumb nilErr Facts.C09.networkValidators d = .ok () →
    ∀ v ∈ d.auth ++ d.assertion ++ d.keyAgr ++ d.capInv ++ d.capDel,
      v.frag ≠ "" ∧ v.pfx = d.id ∧ ∃ k, v.key = .key k ∧ thumb k = v.frag

/-- what IS proved: the rules hold for the entries of `verificationMethod` and `service` (the lists the two Nuts
    validators range over — `fact_validator_scope`); missing from the full statement: embedded relationship methods. -/
theorem validator_rules_partial (thumb : Key → String) (nilErr : Bool) (d : NDoc) :
    validate thumb nilErr Facts.C09.networkValidators d = .ok () ↔ WellFormedNuts thumb d :=
  validator_rules_sound_complete thumb nilErr d

private def wEmbedded : NVM := { id := "did:nuts:b#x", pfx := "did:nuts:b", frag := "x", key := .key "other" }
private def wEmbDoc : NDoc := { id := "did:nuts:a", idID := "a", vms := [wKey], capInv := [wKey, wEmbedded] }

/-- **The literal statement is false of the code** (open finding): a document whose capabilityInvocation embeds a
    method with a foreign id prefix and a fragment that is not its key's thumbprint passes the network validator.
    The same witness shape is replayed on the real ambassador from `harness/corpus/C09`. -/
theorem validator_rules_embedded_witness : ¬ validator_rules_Stmt := by
  intro h
  have := h (fun k => k) Facts.C09.verifyThumbprintGuardsNilJwk wEmbDoc (by decide) wEmbedded (by decide)
  exact absurd this.2.1 (by decide)

/-- non-vacuity: a well-formed document exists and is accepted; each witness above is rejected by the full validator -/
example : validate (fun k => k) Facts.C09.verifyThumbprintGuardsNilJwk Facts.C09.networkValidators (wDoc [wKey] [wSvc "did:nuts:a#s" "s" "t"]) = .ok () := by decide
example : validate (fun k => k) Facts.C09.verifyThumbprintGuardsNilJwk Facts.C09.networkValidators (wDoc [wKey, wKey] []) = .err "validate:vm:unique" := by decide
example : validate (fun k => k) Facts.C09.verifyThumbprintGuardsNilJwk Facts.C09.networkValidators (wDoc [wKey] [wSvc "did:nuts:a#s1" "s1" "t", wSvc "did:nuts:a#s2" "s2" "t"])
    = .err "validate:svc:duplicate-type" := by decide

/-! ### non-vacuity: concrete histories on the model instantiated with today's facts -/

private def cfg0 : Cfg :=
  { thumb := fun k => k, didThumb := fun k => "D" ++ k, maxDepth := Facts.C09.maxControllerDepth,
    validators := Facts.C09.networkValidators, vmNilJwkErr := Facts.C09.verifyThumbprintGuardsNilJwk,
    findKeyNilJwkErr := Facts.C09.findKeyGuardsNilJwk, store := cfgOf (fun _ l => l) Facts.C10.mergeSortedFields }

private def vmOf (did k : String) : NVM := { id := did ++ "#" ++ k, pfx := did, frag := k, key := .key k }
/-- a document of DID `D<k>` listing `keys` as verification methods and `ci` for capabilityInvocation -/
private def docOf (k : String) (keys ci : List String) (ctrl : List String := []) : NDoc :=
  { id := "did:nuts:D" ++ k, idID := "D" ++ k, controllers := ctrl,
    vms := keys.map (vmOf ("did:nuts:D" ++ k)), capInv := ci.map (vmOf ("did:nuts:D" ++ k)) }
private def createTx (ref : Nat) (k : String) (t : Nat := 10) : Tx :=
  { ref := ref, clock := 0, sigTime := t, prevs := [], payloadHash := s!"p{ref}", embedded := some k, signer := k }
private def updateTx (ref : Nat) (prevs : List Nat) (did k : String) (t : Nat := 20) : Tx :=
  { ref := ref, clock := 1, sigTime := t, prevs := prevs, payloadHash := s!"p{ref}",
    kid := { holder := did, id := did ++ "#" ++ k }, signer := k }

/-- run a list of deliveries from the empty store; the outcome classes -/
private def runAll (l : List (Tx × NDoc)) : List String :=
  (l.foldl (fun (acc : Store × List String) p => let r := step cfg0 acc.1 p.1 (some p.2); (r.1, acc.2 ++ [r.2])) ({}, [])).2

-- creation by the DID's own key, update by a listed key, update by a key the succeeded version no longer lists,
-- update by a stranger's key, foreign-key creation
example : runAll [
    (createTx 100 "a", docOf "a" ["a", "b"] ["a", "b"]),
    (updateTx 200 [100] "did:nuts:Da" "b", docOf "a" ["a", "b"] ["a"]),
    (updateTx 300 [200] "did:nuts:Da" "b" 30, docOf "a" ["a", "b"] ["a", "b"]),
    (createTx 400 "x", docOf "x" ["x"] ["x"]),
    (updateTx 500 [200, 400] "did:nuts:Dx" "x" 30, docOf "a" ["a"] ["a"]),
    (createTx 600 "z", docOf "y" ["y"] ["y"])]
  = ["ok", "ok", "err:update:not-signed-by-controller", "ok", "err:update:not-signed-by-controller",
     "err:create:thumbprint-mismatch"] := by decide

-- `resolvable_only_if_accepted` is not vacuous: after this history (accepted, accepted, refused) the DID's event list
-- holds exactly the two accepted transactions
example : ((runHist cfg0 {} [
    (createTx 100 "a", some (docOf "a" ["a", "b"] ["a", "b"])),
    (updateTx 200 [100] "did:nuts:Da" "b", some (docOf "a" ["a", "b"] ["a"])),
    (updateTx 300 [200] "did:nuts:Da" "b" 30, some (docOf "a" ["a", "b"] ["a", "b"]))]).get "did:nuts:Da").events.map (·.ref)
  = [100, 200] := by decide

-- a key that version 200 removed signs an update naming BOTH the old (100) and the current (200) version: refused in
-- either order (before /repo 963038a the order [100, 200] was accepted); naming only the old version is a fork (by design)
example : runAll [
    (createTx 100 "a", docOf "a" ["a", "b"] ["a", "b"]),
    (updateTx 200 [100] "did:nuts:Da" "a", docOf "a" ["a", "b"] ["a"]),
    (updateTx 300 [100, 200] "did:nuts:Da" "b" 30, docOf "a" ["b"] ["b"]),
    (updateTx 310 [200, 100] "did:nuts:Da" "b" 30, docOf "a" ["b"] ["b"]),
    (updateTx 320 [100] "did:nuts:Da" "b" 30, docOf "a" ["b"] ["b"])]
  = ["ok", "ok", "err:update:not-signed-by-controller", "err:update:not-signed-by-controller", "ok"] := by decide

-- REPROCESS over a history holding a rejected ill-formed document (key id not the thumbprint) changes nothing
example :
    let hist : List (Tx × Option NDoc) := [
      (createTx 100 "a", some (docOf "a" ["a"] ["a"])),
      (updateTx 200 [100] "did:nuts:Da" "a",
        some { docOf "a" ["a"] ["a"] with vms := [vmOf "did:nuts:Da" "a", { vmOf "did:nuts:Da" "b" with key := .key "x" }] })]
    let s := runHist cfg0 {} hist
    ((s.get "did:nuts:Da").events.map (·.ref), ((reprocess cfg0 s hist).get "did:nuts:Da").events.map (·.ref))
      = ([100], [100]) := by decide

-- a DID controlled by another DID: the controller's key authorises (prevs name both versions); after the controller
-- is deactivated its key no longer authorises relative to the deactivating transaction — and (by design, see
-- `accepted_update_sound`: authorisation is relative to the versions the prevs select) still does relative to the
-- controller's older, active version
example : runAll [
    (createTx 100 "c", docOf "c" ["c"] ["c"]),
    (createTx 110 "d", docOf "d" ["d"] ["d"] ["did:nuts:Dc"]),
    (updateTx 200 [110, 100] "did:nuts:Dc" "c", docOf "d" ["d"] [] ["did:nuts:Dc"]),
    (updateTx 210 [110] "did:nuts:Dd" "d", docOf "d" ["d"] ["d"] []),
    (updateTx 300 [100] "did:nuts:Dc" "c" 30, docOf "c" [] []),
    (updateTx 400 [200, 300] "did:nuts:Dc" "c" 40, docOf "d" ["d"] ["d"] ["did:nuts:Dc"]),
    (updateTx 410 [200, 100] "did:nuts:Dc" "c" 40, docOf "d" ["d"] ["d"] ["did:nuts:Dc"])]
  = ["ok", "ok", "ok", "err:update:signingkey:no-active-controller", "ok", "err:sig:key:not-found", "ok"] := by decide

/-- The clause "keys of deactivated controllers" read against the LATEST state: if the succeeded version does not
    control itself and every controller DID it lists is deactivated now (`Resolve(did, nil)` answers deactivated),
    the update is refused. -/
def deactivated_controller_Stmt : Prop :=
  ∀ (c : Cfg) (s : Store) (tx : Tx) (d : NDoc),
    (match currentVersion s d.id tx.prevs with
     | .ok cur => (selfLeaves cur).isEmpty && (foreignRefs cur).all (fun r =>
         match resolve s r none with | .err e => e == eDeactivated | _ => false)
     | _ => false) = true →
    (handleUpdate c s tx d).isOk = false

private def dcStore : Store :=
  (runHist cfg0 {} [
    (createTx 100 "c", some (docOf "c" ["c"] ["c"])),
    (createTx 110 "d", some (docOf "d" ["d"] [] ["did:nuts:Dc"])),
    (updateTx 300 [100] "did:nuts:Dc" "c" 30, some (docOf "c" [] []))])

/-- **False of the code** (open finding). What IS proved is `deactivated_controller_rejected` /
    `controller_versions_are_active`: the controller version selected by the transaction's prevs (or signing time) is
    active. The witness: controller `Dc` is deactivated by transaction 300; an update of `Dd` whose prevs name `Dc`'s
    creation (100) and which is signed by `Dc`'s old key is accepted. Replayed on the real ambassador from
    `harness/corpus/C09/deactivated-controller-old-prev.jsonl`. -/
theorem deactivated_controller_latest_witness : ¬ deactivated_controller_Stmt := by
  intro h
  have := h cfg0 dcStore (updateTx 410 [110, 100] "did:nuts:Dc" "c" 40) (docOf "d" ["d"] ["d"] ["did:nuts:Dc"]) (by decide)
  revert this
  decide

-- second open finding (same root): the old key `c` of the deactivated controller `Dc` is also published by the
-- self-controlled `De`; the update's prevs name `Dc`'s DEACTIVATION (300); kid `De#c` resolves through 120, no prev
-- selects an active controller version, the signing-time fallback finds `Dc`'s pre-deactivation version: accepted.
-- With `Dc`'s own kid the same transaction is refused (the key is not resolvable as of the deactivation).
example : runAll [
    (createTx 100 "c", docOf "c" ["c"] ["c"]),
    (createTx 120 "e", docOf "e" ["e", "c"] ["e"]),
    (createTx 110 "d", docOf "d" ["d"] [] ["did:nuts:Dc"]),
    (updateTx 300 [100] "did:nuts:Dc" "c" 30, docOf "c" [] []),
    (updateTx 400 [110, 300] "did:nuts:Dc" "c" 40, docOf "d" ["d"] ["d"] ["did:nuts:Dc"]),
    (updateTx 410 [110, 300, 120] "did:nuts:De" "c" 40, docOf "d" ["d"] ["d"] ["did:nuts:Dc"])]
  = ["ok", "ok", "ok", "ok", "err:sig:key:not-found", "ok"] := by decide

-- a controller cycle: the callback answers too-deep (never loops), also with the verifier in front (the verifier's key
-- resolver reads the store directly and does not look at controllers)
private def cyc : Store :=
  (step cfg0 (step cfg0 {} (createTx 100 "a") (some (docOf "a" ["a"] ["a"] ["did:nuts:Db"]))).1
    (createTx 110 "b") (some (docOf "b" ["b"] ["b"] ["did:nuts:Da"]))).1
example : (match callback cfg0 cyc (updateTx 200 [100, 110] "did:nuts:Db" "b") (some (docOf "a" ["a"] ["a"])) with
    | .err e => e | _ => "") = "update:controllers:too-deep" := by decide
example : (step cfg0 cyc (updateTx 200 [100, 110] "did:nuts:Db" "b") (some (docOf "a" ["a"] ["a"]))).2
    = "err:update:controllers:too-deep" := by decide

-- the depth limit on an abstract resolver: a chain d1 <- d2 <- ... ; `dN` controls itself
private def chainDoc (i : Nat) (root : Bool) : Doc :=
  { id := s!"d{i}", f := fun
      | .controller => if root then [] else [⟨s!"d{i+1}", "c"⟩]
      | .capInv => [⟨s!"d{i}#k", "k"⟩]
      | _ => [] }
private def chainR (len : Nat) (id : String) : Res Doc :=
  match (List.range (len + 1)).find? (fun i => s!"d{i}" == id) with
  | some i => .ok (chainDoc i (i == len))
  | none => .err eNotFound
example : (resolveN (chainR 5) false Facts.C09.maxControllerDepth "d1").isOk = true := by decide
example : (match resolveN (chainR 6) false Facts.C09.maxControllerDepth "d1" with | .err e => e | _ => "") = eTooDeep := by decide
example : (ctrlsWith (fun r => resolveN (chainR 5) false Facts.C09.maxControllerDepth r) (chainDoc 0 false)).isOk = true := by decide


end Nuts.C09.Props
