/-
  C02 — access tokens are issued only after the full presentation checks; introspection is faithful.
  ONLY property theorems (+ non-vacuity examples + `fact_*` obligations on the regenerated facts).
  Model: NutsModel/C02/Token.lean. Helper lemmas: NutsProofs/Lemmas/C02.lean.
  Facts: NutsModel/Facts/C02.lean is REGENERATED from /repo on every run.
-/
import NutsModel.C02.Token
import NutsModel.C02.History
import NutsModel.C02.Jar
import NutsModel.C02.Policy
import NutsModel.C02.Front
import NutsModel.C02.ReqObj
import NutsModel.C02.DPoP
import NutsModel.Facts.C02
import NutsProofs.Lemmas.C02
import NutsProofs.Lemmas.C02b
import NutsProofs.Lemmas.C02c
import NutsProofs.Lemmas.C02d
import NutsProofs.Lemmas.C02e
import NutsProofs.Lemmas.C02f
import NutsProofs.Lemmas.C02g
import NutsProofs.Lemmas.C02h

namespace Nuts.C02.Props
open Nuts.C02

/-! ### Obligations on the regenerated facts (a source change flips these) -/

/-- the check chain of `handleS2SAccessTokenRequest`, in source order, is the one `issueS2S` mirrors -/
theorem fact_s2s_chain : Facts.C02.chainS2S =
    ["ParseEnvelope", "ParsePresentationSubmission",
     "for{", "validateS2SPresentationMaxValidity", "validatePresentationSigner", "validatePresentationAudience", "}",
     "presentationDefinitionForScope", "newPEXConsumer", "fulfill",
     "for{", "validateS2SPresentationNonce", "}",
     "dpopFromRequest",
     "for{", "Verifier.VerifyVP", "}",
     "subjectToBaseURL", "createAccessToken", "HandleTokenRequest200JSONResponse"] := by decide

theorem fact_token_request_chain : Facts.C02.chainHandleTokenRequest =
    ["subjectExists", "handleAccessTokenRequest", "handleS2SAccessTokenRequest"] := by decide

/-- the nonce is checked and registered by one `PutIfAbsent` (which reads, and stores only when absent) -/
theorem fact_s2s_nonce_chain :
    Facts.C02.chainS2SNonce = ["extractNonce", "s2sNonceStore.PutIfAbsent"] ∧
    Facts.C02.chainPutIfAbsent.filter (fun x => x = "Get" ∨ x = "Put" ∨ x = "Delete") = ["Get", "Put"] := by decide

theorem fact_validate_signer_chain : Facts.C02.chainValidateSigner = ["PresentationSigner", "PresenterIsCredentialSubject"] := by decide

theorem fact_fulfill_chain : Facts.C02.chainFulfill = ["for{", "}", "isFulfilled", "Validate"] := by decide

theorem fact_create_access_token_chain : Facts.C02.chainCreateAccessToken =
    ["credentialMap", "resolveInputDescriptorValues", "GenerateNonce", "Add", "for{", "}", "accessTokenServerStore.Put"] := by decide

theorem fact_code_token_chain : Facts.C02.chainCodeToken =
    ["defer{", "oauthCodeStore.Delete", "}", "oauthCodeStore.GetAndDelete", "validatePKCEParams", "dpopFromRequest",
     "subjectToBaseURL", "createAccessToken", "HandleTokenRequest200JSONResponse"] := by decide

theorem fact_authorize_response_chain : Facts.C02.chainAuthorizeResponse =
    ["ParseEnvelope", "oauthClientStateStore.Get", "redirectURI", "validatePresentationNonce", "withCallbackURI",
     "ParsePresentationSubmission", "withCallbackURI",
     "for{", "validatePresentationSigner", "withCallbackURI", "validatePresentationAudience", "withCallbackURI", "}",
     "for{", "Verifier.VerifyVP", "}",
     "fulfill", "oauthClientStateStore.Put", "next", "nextOpenID4VPFlow", "GenerateNonce", "oauthCodeStore.Put",
     "AddQueryParams"] := by decide

theorem fact_presentation_nonce_chain : Facts.C02.chainPresentationNonce =
    ["for{", "extractChallenge", "extractNonce", "Contains", "}", "for{", "oauthNonceStore.Delete", "}",
     "oauthNonceStore.GetAndDelete"] := by decide

theorem fact_introspect_chain : Facts.C02.chainIntrospect =
    ["accessTokenServerStore.Get", "Before", "JWK.Thumbprint", "EncodeToString", "Unix", "Unix", "for{", "}"] := by decide

theorem fact_introspect_endpoints :
    Facts.C02.chainIntrospectPlain = ["Contains", "introspectAccessToken", "IntrospectAccessToken200JSONResponse"] ∧
    Facts.C02.chainIntrospectExtended = ["Contains", "introspectAccessToken", "IntrospectAccessTokenExtended200JSONResponse"] ∧
    Facts.C02.plainIntrospectionNilled = ["Vps", "PresentationDefinitions", "PresentationSubmissions"] ∧
    Facts.C02.typesWithMarshalJSON = ["IntrospectAccessToken200JSONResponse", "ExtendedTokenIntrospectionResponse"] := by decide

/-- `GetAndDelete` reads before it deletes (whatever locking surrounds it) -/
theorem fact_get_and_delete :
    Facts.C02.chainGetAndDelete.filter (fun x => x = "Get" ∨ x = "Delete") = ["Get", "Delete"] := by decide

/-- `VerifyVP(presentation, verifyVCs = true, allowUntrustedVCs = true, validAt = nil)` in both flows -/
theorem fact_verifyvp_args :
    Facts.C02.s2sVerifyVPArgs = ["presentation", "true", "true", "nil"] ∧
    Facts.C02.codeVerifyVPArgs = ["presentation", "true", "true", "nil"] := by decide

theorem fact_create_token_args :
    Facts.C02.s2sCreateTokenArgs = ["issuerURL.String()", "clientID", "time.Now()", "scope", "*pexConsumer", "dpopProof"] ∧
    Facts.C02.codeCreateTokenArgs = ["issuerURL.String()", "oauthSession.ClientID", "time.Now()", "oauthSession.Scope",
      "*oauthSession.OpenID4VPVerifier", "dpopProof"] := by decide

theorem fact_access_token_init : Facts.C02.accessTokenInit =
    ["DPoP=dpopToken", "Token=crypto.GenerateNonce()", "Issuer=issuerURL", "IssuedAt=issueTime", "ClientId=clientID",
     "Expiration=issueTime.Add(accessTokenValidity)", "Scope=scope", "PresentationSubmissions=pexState.Submissions",
     "PresentationDefinitions=pexState.RequiredPresentationDefinitions", "InputDescriptorConstraintIdMap=fieldsMap"] := by decide

theorem fact_token_response_init : Facts.C02.tokenResponseInit =
    ["AccessToken=accessToken.Token", "ExpiresIn=&expiresIn", "Scope=&scope", "TokenType=AccessTokenTypeBearer"] := by decide

theorem fact_introspection_init : Facts.C02.introspectionInit =
    ["Active=true", "Cnf=cnf", "Iat=&iat", "Exp=&exp", "Iss=&token.Issuer", "ClientId=&token.ClientId",
     "Scope=&token.Scope", "Vps=&token.VPToken", "PresentationDefinitions=&token.PresentationDefinitions",
     "PresentationSubmissions=&token.PresentationSubmissions"] ∧
    Facts.C02.additionalPropertiesSource = ["token.InputDescriptorConstraintIdMap"] := by decide

theorem fact_validity_conditions :
    Facts.C02.s2sValidityConds = ["created == nil || expires == nil", "expires.Sub(*created) > s2sMaxPresentationValidity"] ∧
    Facts.C02.ldProofValidAtConds = ["o.Created.After(at.Add(maxSkew))", "o.Expires != nil && o.Expires.Add(maxSkew).Before(at)"] ∧
    Facts.C02.verifierValidAtArgs = ["validAt", "maxSkew"] := by decide

/-- the token store keeps a token exactly as long as it is valid; the code-flow stores share one timeout -/
theorem fact_ttls :
    Facts.C02.accessTokenStoreTtlMs = Facts.C02.accessTokenValidityMs ∧
    Facts.C02.oauthCodeStoreTtlMs = Facts.C02.oauthFlowTimeoutMs ∧
    Facts.C02.oauthNonceStoreTtlMs = Facts.C02.oauthFlowTimeoutMs ∧
    Facts.C02.oauthClientStateStoreTtlMs = Facts.C02.oauthFlowTimeoutMs ∧
    0 < Facts.C02.s2sNonceTtlMs ∧ 0 < Facts.C02.accessTokenStoreTtlMs := by decide

theorem fact_pkce : Facts.C02.pkceMethods = ["S256"] ∧ Facts.C02.chainValidatePKCE = ["Sum256", "EncodeToString"] := by decide

/-- the member names the model's `Introspection.std` knows are exactly the response struct's JSON names, and the
    generated marshaller assigns exactly those, then the additional properties -/
theorem fact_introspection_fields :
    Facts.C02.introspectionFields =
      ["active", "aud", "client_id", "cnf", "exp", "iat", "iss", "presentation_definitions",
       "presentation_submissions", "scope", "vps"] ∧
    Facts.C02.marshalAssignOrder = Facts.C02.introspectionFields ++ ["*"] := by decide

/-- **every** standard member name of the introspection response is a reserved claim name -/
theorem fact_reserved_covers_fields : ∀ k ∈ Facts.C02.introspectionFields, k ∈ Facts.C02.reservedClaims := by decide

/-- the credential-less branch of `validatePresentationSigner` also compares with the expected subject; the
    conditions of the function are the ones `validateSigner` mirrors -/
theorem fact_empty_vp_checked :
    Facts.C02.emptyVpBranchComparesExpected = true ∧
    Facts.C02.validateSignerConds =
      ["len(presentation.VerifiableCredential) == 0", "err != nil",
       "!expectedCredentialSubjectDID.Empty() && !signerDID.Equals(expectedCredentialSubjectDID)",
       "err != nil", "subjectDID == nil",
       "!expectedCredentialSubjectDID.Empty() && !subjectDID.Equals(expectedCredentialSubjectDID)"] := by decide

/-- `validatePresentationAudience` compares an audience with the authorization-server URL by EQUALITY
    (`checkAudience`: membership of the exact URL) -/
theorem fact_audience_exact :
    Facts.C02.validateAudienceConds = ["err != nil", "proof.Domain != nil", "aud == expected.String()"] := by decide

/-- every if-condition (verbatim) of the functions that decide about a token, the return expressions of the small
    helpers, the request members handed to the two grant handlers, the session the authorization request stores and
    the key prefixes of the session stores are the ones the model mirrors. A weakened comparison (`==` to
    `HasPrefix`/`EqualFold`), a dropped check or a shared store prefix flips this. -/
theorem fact_deciding_conditions :
    Facts.C02.authorizeRequestSessionInit =
      ["ClientID=params.get(oauth.ClientIDParam)", "Scope=params.get(oauth.ScopeParam)", "OwnSubject=&subject", "ClientState=params.get(oauth.StateParam)", "RedirectURI=redirectURL.String()", "OpenID4VPVerifier=newPEXConsumer(presentationDefinitions)", "PKCEParams=PKCEParams{Challenge: params.get(oauth.CodeChallengeParam), ChallengeMethod: params.get(oauth.CodeChallengeMethodParam)}"] ∧
    Facts.C02.condsAuthorizeRequest =
      ["redirectURI == \"\"", "err != nil", "params.get(jwt.AudienceKey) != clientID.String()", "params.get(oauth.CodeChallengeParam) == \"\"", "params.get(oauth.CodeChallengeMethodParam) == \"\" || params.get(oauth.CodeChallengeMethodParam) != \"S256\"", "err != nil", "err != nil", "err != nil"] ∧
    Facts.C02.condsAuthorizeResponse =
      ["request.Body.State == nil", "request.Body.VpToken == nil", "err != nil || len(pexEnvelope.Presentations) == 0", "err != nil", "request.SubjectID != *session.OwnSubject", "err != nil", "request.Body.PresentationSubmission == nil", "err != nil", "err != nil", "err != nil", "err != nil", "err != nil", "err != nil", "nextWalletOwnerType != nil", "err != nil", "err != nil"] ∧
    Facts.C02.condsCodeToken =
      ["request.Code == nil", "request.CodeVerifier == nil", "request.ClientId == nil", "err != nil", "oauthSession.ClientID != *request.ClientId", "!validatePKCEParams(oauthSession.PKCEParams)", "err != nil", "err != nil"] ∧
    Facts.C02.condsCreateAccessToken =
      ["err != nil", "err != nil", "err != nil", "dpopToken != nil"] ∧
    Facts.C02.condsDefinitionForScope =
      ["err != nil", "errors.Is(err, policy.ErrNotFound)"] ∧
    Facts.C02.condsExtractChallenge =
      ["err != nil", "proof.Challenge != nil && *proof.Challenge != \"\""] ∧
    Facts.C02.condsExtractNonce =
      ["err != nil", "proof.Nonce != nil && *proof.Nonce != \"\""] ∧
    Facts.C02.condsFulfill =
      ["curr.Id == definitionID", "definition == nil", "v.isFulfilled(definitionID)", "err != nil"] ∧
    Facts.C02.condsHandleTokenRequest =
      ["err != nil", "request.Body.PresentationSubmission == nil || request.Body.Scope == nil || request.Body.Assertion == nil || request.Body.ClientId == nil"] ∧
    Facts.C02.condsIntrospect =
      ["input == \"\"", "err != nil", "errors.Is(err, storage.ErrNotFound)", "token.Expiration.Before(time.Now())", "token.DPoP != nil", "token.InputDescriptorConstraintIdMap != nil", "isReserved"] ∧
    Facts.C02.condsIntrospectPlain =
      ["!slices.Contains(headers[\"Content-Type\"], \"application/x-www-form-urlencoded\")", "err != nil", "response == nil"] ∧
    Facts.C02.condsLocalPDPDefinitions =
      ["!exists"] ∧
    Facts.C02.condsNext =
      ["required && !v.isFulfilled(def.Id)", "required && !v.isFulfilled(def.Id)"] ∧
    Facts.C02.condsPresentationNonce =
      ["err != nil", "nonce == \"\"", "err != nil", "nonce == \"\"", "nonce != \"\" && !slices.Contains(nonces, nonce)", "len(nonces) > 1", "!allPresent", "len(errs) > 0", "err != nil", "state != stateFromNonce"] ∧
    Facts.C02.condsPresentationSigner =
      ["err != nil", "kid == \"\"", "err != nil", "err != nil", "err != nil || verificationMethod.DID.Empty()"] ∧
    Facts.C02.condsPresenterIsCredentialSubject =
      ["err != nil", "err != nil", "!credentialSubjectID.Equals(*signerDID)"] ∧
    Facts.C02.condsPutIfAbsent =
      ["err == nil", "!errors.Is(err, ErrNotFound)", "err != nil"] ∧
    Facts.C02.condsResolveInputDescriptorValues =
      ["err != nil", "exists"] ∧
    Facts.C02.condsResolveSubjectDID =
      ["err != nil", "!subjectID.Empty() && !subjectID.Equals(*sid)"] ∧
    Facts.C02.condsS2S =
      ["err != nil", "err != nil", "err != nil", "err != nil", "err != nil", "err != nil", "err != nil", "err != nil", "err != nil", "err != nil", "err != nil"] ∧
    Facts.C02.condsS2SNonce =
      ["nonce == \"\"", "err != nil", "!fresh"] ∧
    Facts.C02.condsStoreGet =
      ["err != nil", "errors.Is(err, store.NotFound{}) || errors.Is(err, memcache.ErrCacheMiss)", "len(val) == 0"] ∧
    Facts.C02.condsStorePut =
      ["opts.ttl <= 0", "err != nil"] ∧
    Facts.C02.retsDpopFromRequest =
      ["nil, nil", "nil, oauth.OAuth2Error{Code: oauth.InvalidDPopProof, Description: \"DPoP header is invalid\", InternalError: err}", "dpopProof, nil"] ∧
    Facts.C02.retsIsFulfilled =
      ["fulfilled"] ∧
    Facts.C02.retsSubjectToBaseURL =
      ["*r.auth.PublicURL().JoinPath(\"oauth2\", subject)"] ∧
    Facts.C02.retsValidatePKCE =
      ["challenge == params.Challenge", "false"] ∧
    Facts.C02.storeKeyPrefixes =
      ["s2sNonceStore=s2s/nonce", "accessTokenServerStore=serveraccesstoken", "accessTokenClientStore=clientaccesstoken", "accessTokenCache=accesstokencache", "authzRequestObjectStore=oauth/requestobject", "oauthCodeStore=oauth/code", "oauthNonceStore=oauth/nonce", "oauthClientStateStore=oauth/client_state", "useNonceOnceStore=nonceonce"] ∧
    Facts.C02.tokenRequestDispatchArgs =
      ["ctx", "*request.Body", "|", "ctx", "*request.Body.ClientId", "request.SubjectID", "*request.Body.Scope", "*request.Body.PresentationSubmission", "*request.Body.Assertion", "|"] ∧
    Facts.C02.tokenRequestGrantCases =
      ["switch request.Body.GrantType", "oauth.AuthorizationCodeGrantType", "oauth.PreAuthorizedCodeGrantType", "oauth.VpTokenGrantType", "default"] :=
  ⟨rfl, rfl, rfl, rfl, rfl, rfl, rfl, rfl, rfl, rfl, rfl, rfl, rfl, rfl, rfl, rfl, rfl, rfl, rfl, rfl, rfl, rfl, rfl, rfl, rfl, rfl, rfl, rfl, rfl, rfl, rfl⟩

/-- the windows themselves (Nuts RFC021: presentations valid for at most 5 s, 5 s clock skew; the verifier's skew; 15
    minutes token validity; one minute for an authorization-code flow). The model takes the durations as parameters,
    so without this pin a changed constant would silently move model AND expectations. -/
theorem fact_windows :
    Facts.C02.s2sMaxValidityMs = 5000 ∧ Facts.C02.s2sMaxClockSkewMs = 5000 ∧ Facts.C02.verifierMaxSkewMs = 5000 ∧
    Facts.C02.accessTokenValidityMs = 900000 ∧ Facts.C02.oauthFlowTimeoutMs = 60000 := by decide

/-- the session stores of this property live under pairwise different key prefixes -/
theorem fact_store_prefixes_distinct :
    Facts.C02.storeKeyPrefixValues.Nodup := by decide

/-- which members of the request object each handler reads: the authorization_code token request is judged by code,
    code_verifier and client_id alone (NOT by a scope / assertion / submission parameter), the authorize response by
    state, vp_token, presentation_submission (and error), introspection by the token -/
theorem fact_request_members_read :
    Facts.C02.readsCodeToken = ["request.ClientId", "request.Code", "request.CodeVerifier"] ∧
    Facts.C02.readsHandleTokenRequest =
      ["request.Body", "request.Body.Assertion", "request.Body.ClientId", "request.Body.GrantType",
       "request.Body.PresentationSubmission", "request.Body.Scope", "request.SubjectID"] ∧
    Facts.C02.readsAuthorizeResponse =
      ["request.Body.PresentationSubmission", "request.Body.State", "request.Body.VpToken", "request.SubjectID"] ∧
    Facts.C02.readsAuthorizeResponseDispatch = ["request.Body.Error"] ∧
    Facts.C02.readsIntrospectPlain = ["request.Body.Token"] ∧
    Facts.C02.readsIntrospectExtended = ["request.Body.Token"] := ⟨rfl, rfl, rfl, rfl, rfl, rfl⟩

/-- the s2s nonce is remembered for the whole window in which the verifier accepts the presentation -/
theorem fact_nonce_ttl_covers_window :
    Facts.C02.s2sMaxValidityMs + 2 * Facts.C02.verifierMaxSkewMs ≤ Facts.C02.s2sNonceTtlMs := by decide

/-! ### vp_token-bearer grant: a 200 answer implies every conjunct -/

/-- **token_only_if (vp_token-bearer grant).** Whatever the state of the server and whatever the request:
    if the token endpoint answers 200 then the tenant exists, every presentation is valid for at most the allowed
    window, is signed by `s`, every credential in it has subject `s` (ONE `s` for all presentations of the request),
    is addressed to this tenant's authorization-server URL, carries a non-empty nonce that the server has not seen
    (and no two presentations share one), verifies (VerifyVP verdict and JSON-LD time window at the current time),
    the DPoP header (if any) parsed, and the submission validates against a definition that is configured for
    exactly the requested scope. The 200 also burns the nonces and stores exactly one token record. -/
theorem s2s_token_only_if (cfg : Cfg) (w w' : World) (now : Nat) (r : S2SReq) (resp : TokenResponse)
    (hchk : cfg.emptyVpChecked = true) (httl : cfg.nonceTtl ≠ 0) (hwf : ∀ vp ∈ r.vps, vp.signer ≠ some "")
    (h : issueS2S cfg w now r = (w', .ok resp)) :
    ∃ s d, S2SChecked cfg w now r s d ∧ S2SEffect cfg w w' now r d resp :=
  issueS2S_ok cfg w w' now r resp hchk httl hwf h

/-- **defect_combination_rejected.** For EVERY non-empty set of single defects present in a request - in any
    combination, whatever else is right or wrong with the request and whatever the server state - no token. -/
theorem s2s_defect_combination_rejected (cfg : Cfg) (w : World) (now : Nat) (r : S2SReq)
    (hchk : cfg.emptyVpChecked = true) (httl : cfg.nonceTtl ≠ 0) (hwf : ∀ vp ∈ r.vps, vp.signer ≠ some "")
    (ds : List Defect) (hne : ds ≠ []) (hds : ∀ x ∈ ds, x.present cfg w now r) :
    ∀ resp, (issueS2S cfg w now r).2 ≠ .ok resp := by
  intro resp hok
  obtain ⟨x, rest, rfl⟩ := List.exists_cons_of_ne_nil hne
  have h : issueS2S cfg w now r = ((issueS2S cfg w now r).1, .ok resp) := by rw [← hok]
  obtain ⟨s, d, hc, _⟩ := issueS2S_ok cfg w _ now r resp hchk httl hwf h
  exact defect_contradicts_checked cfg w now r s d hc x (hds x List.mem_cons_self)

/-- The vp_token-bearer grant validates only the definition the submission names. **Full statement** (every
    definition configured for the scope is fulfilled) - FALSE of the code, see the witness below and the open
    finding `C02:s2s-token-with-unfulfilled-required-definition`. -/
def s2s_all_required_definitions_fulfilledStmt : Prop :=
  ∀ (cfg : Cfg) (w w' : World) (now : Nat) (r : S2SReq) (resp : TokenResponse),
    cfg.emptyVpChecked = true → cfg.nonceTtl ≠ 0 → (∀ vp ∈ r.vps, vp.signer ≠ some "") →
    issueS2S cfg w now r = (w', .ok resp) →
    ∀ defs, cfg.definitions r.scope = some defs → ∀ p ∈ defs, r.pex p.2.key = true

private def witnessCfg : Cfg :=
  { maxValidity := 5, nonceTtl := 15, tokenValidity := 900, tokenTtl := 900, codeTtl := 60, oauthNonceTtl := 60,
    stateTtl := 60, verifierSkew := 5, second := 1, emptyVpChecked := true, reserved := Facts.C02.reservedClaims,
    marshalOrder := Facts.C02.marshalAssignOrder, publicURL := "https://as", subjects := ["alpha"],
    policy := [("care", [("organization", ⟨"pd_org", 0⟩), ("user", ⟨"pd_user", 1⟩)])] }

private def witnessVP : VP :=
  { created := some 100, expires := some 105, signer := some "did:web:h", subjects := [some "did:web:h"],
    aud := ["https://as/oauth2/alpha"], nonce := "n1", challenge := "", verifies := true }

/-- scope `care` requires an organization AND a user definition; a submission for the user definition alone
    (the organization definition does NOT validate) is answered with a token -/
private def witnessReq : S2SReq :=
  { subject := "alpha", paramsPresent := true, clientId := "client", scope := "care", envelopeOK := true,
    submissionOK := true, vps := [witnessVP], subDefId := "pd_user", pex := fun k => k == 1,
    claims := fun _ => [], dpop := .absent }

theorem s2s_all_required_definitions_fulfilled_false : ¬ s2s_all_required_definitions_fulfilledStmt := by
  intro h
  have hres : (issueS2S witnessCfg {} 100 witnessReq).2 =
      .ok { token := "tok#0", tokenType := "Bearer", dpopKid := none, scope := "care", expiresIn := 900 } := by
    decide
  have hrun : issueS2S witnessCfg {} 100 witnessReq =
      ((issueS2S witnessCfg {} 100 witnessReq).1,
       .ok { token := "tok#0", tokenType := "Bearer", dpopKid := none, scope := "care", expiresIn := 900 }) := by
    rw [← hres]
  have := h witnessCfg {} _ 100 witnessReq _ rfl (by decide) (by decide) hrun
    [("organization", ⟨"pd_org", 0⟩), ("user", ⟨"pd_user", 1⟩)] rfl ("organization", ⟨"pd_org", 0⟩) (by decide)
  revert this
  decide

/-- non-vacuity of `s2s_token_only_if`: the witness request meets its hypotheses and is answered 200 -/
example : (∃ resp, (issueS2S witnessCfg {} 100 witnessReq).2 = .ok resp) ∧ witnessCfg.emptyVpChecked = true ∧
    witnessCfg.nonceTtl ≠ 0 ∧ ∀ vp ∈ witnessReq.vps, vp.signer ≠ some "" :=
  ⟨⟨{ token := "tok#0", tokenType := "Bearer", dpopKid := none, scope := "care", expiresIn := 900 }, by decide⟩,
   rfl, by decide, by decide⟩

/-- non-vacuity of `s2s_defect_combination_rejected`: three defects at once (wrong audience, over-long validity,
    failing verification) - all present, rejected at the first one in code order -/
example :
    let r := { witnessReq with vps := [{ witnessVP with aud := ["https://evil"], expires := some 200, verifies := false }] }
    (∀ x ∈ [Defect.wrongAudience, Defect.overlongOrUndated, Defect.verifyFails], x.present witnessCfg {} 100 r) ∧
    (issueS2S witnessCfg {} 100 r).2 = .err "invalid_request/vp-valid-too-long" := by
  refine ⟨?_, by decide⟩
  intro x hx
  simp only [List.mem_cons, List.mem_nil_iff, or_false] at hx
  rcases hx with rfl | rfl | rfl
  · exact ⟨_, List.mem_cons_self, by decide⟩
  · refine ⟨_, List.mem_cons_self, ?_⟩
    rintro ⟨c, e, hc, he, hle⟩
    have hc' : some 100 = some c := hc
    have he' : some 200 = some e := he
    cases hc'; cases he'
    revert hle; decide
  · exact ⟨_, List.mem_cons_self, by decide⟩

/-! ### the replay window -/

/-- **nonce_covers_window.** If the nonce TTL covers maximum validity + twice the verifier's skew, then after a
    (JSON-LD) presentation has been accepted at `t₁`, EVERY later vp_token-bearer request (after any history of other
    operations) that carries a presentation with the same nonce while the first presentation is still inside the
    verifier's acceptance window is refused - so no presentation can be used twice. -/
theorem nonce_covers_window (cfg : Cfg) (sha : String → String)
    (hwin : cfg.maxValidity + 2 * cfg.verifierSkew ≤ cfg.nonceTtl)
    (hchk : cfg.emptyVpChecked = true) (httl : cfg.nonceTtl ≠ 0)
    (w w₁ : World) (t₁ : Nat) (r₁ : S2SReq) (resp₁ : TokenResponse) (hwf₁ : ∀ vp ∈ r₁.vps, vp.signer ≠ some "")
    (h₁ : issueS2S cfg w t₁ r₁ = (w₁, .ok resp₁))
    (vp : VP) (hvp : vp ∈ r₁.vps) (hld : vp.ld = true)
    (between : List (Nat × Op)) (hlater : ∀ x ∈ between, t₁ ≤ x.1)
    (t₂ : Nat) (r₂ : S2SReq) (hwf₂ : ∀ vp ∈ r₂.vps, vp.signer ≠ some "")
    (vp' : VP) (hvp' : vp' ∈ r₂.vps) (hsame : vp'.nonce = vp.nonce)
    (hstill : ∀ c e, vp.created = some c → vp.expires = some e → ldValidAt cfg.verifierSkew t₂ c (some e) = true) :
    ∀ resp, (issueS2S cfg (after cfg sha between w₁) t₂ r₂).2 ≠ .ok resp := by
  obtain ⟨s, d, hc, heff⟩ := issueS2S_ok cfg w w₁ t₁ r₁ resp₁ hchk httl hwf₁ h₁
  obtain ⟨c, e, hcr, hex, hval⟩ := (hc.pre vp hvp).validity
  -- accepted at t₁: created ≤ t₁ + skew
  have hv := hc.verified vp hvp
  have hc1 : c ≤ t₁ + cfg.verifierSkew := by
    unfold vpVerifies at hv
    rw [hcr, hex, hld] at hv
    simp only [Bool.and_eq_true, if_true] at hv
    have := hv.2
    unfold ldValidAt at this
    split at this
    · cases this
    · omega
  -- still valid at t₂: t₂ ≤ expires + skew
  have hc2 : t₂ ≤ e + cfg.verifierSkew := by
    have := hstill c e hcr hex
    unfold ldValidAt at this
    split at this
    · cases this
    · simp only at this
      split at this
      · cases this
      · omega
  have hb : t₂ ≤ t₁ + cfg.nonceTtl := by omega
  have hlive := heff.nonces vp hvp
  have hlive' := after_live cfg sha httl vp.nonce (t₁ + cfg.nonceTtl) between w₁
    (fun x hx => by have := hlater x hx; omega) hlive
  rw [← hsame] at hlive'
  exact issueS2S_rejects_live cfg _ t₂ r₂ hchk httl hwf₂ vp' hvp' _ hlive' hb

/-- **the nonce check fails closed.** When the session store fails the read of a nonce entry, the request gets no
    token - whatever else is right with it (so a replay cannot slip through a transient store failure). -/
theorem s2s_nonce_store_fault_fails_closed (cfg : Cfg) (w : World) (now : Nat) (r : S2SReq)
    (hf : r.nonceFault = true) (hne : r.vps ≠ []) : ∀ resp, (issueS2S cfg w now r).2 ≠ .ok resp := by
  intro resp hok
  unfold issueS2S at hok
  repeat' split at hok
  all_goals first
    | (simp at hok; done)
    | (have hnc := ‹nonceCheck cfg now r.nonceFault r.vps w.s2sNonces = _›
       rw [hf] at hnc
       have := nonceCheck_fault cfg now r.vps w.s2sNonces hne
       rw [hnc] at this
       exact this _ rfl)

/-- with the regenerated durations the window is covered -/
theorem nonce_covers_window_today (ns : Nat) :
    (Facts.C02.s2sMaxValidityMs * ns) + 2 * (Facts.C02.verifierMaxSkewMs * ns) ≤ Facts.C02.s2sNonceTtlMs * ns := by
  have := fact_nonce_ttl_covers_window
  calc (Facts.C02.s2sMaxValidityMs * ns) + 2 * (Facts.C02.verifierMaxSkewMs * ns)
      = (Facts.C02.s2sMaxValidityMs + 2 * Facts.C02.verifierMaxSkewMs) * ns := by
        rw [Nat.add_mul, Nat.mul_assoc]
    _ ≤ Facts.C02.s2sNonceTtlMs * ns := Nat.mul_le_mul_right ns this

/-! ### authorization-code grant -/

/-- **where the session comes from (authorization request).** A session is created only for a request addressed to
    this tenant's authorization server, with a non-empty PKCE challenge and method S256, for a configured scope; the
    stored session carries exactly the request's client id, scope, challenge, this tenant, and the definitions
    configured for that scope (nothing fulfilled yet); the fresh nonce is mapped to the fresh state. -/
theorem authorize_request_only_if (cfg : Cfg) (w w' : World) (now : Nat) (r : AuthReq) (out : AuthReqOut)
    (h : authorizeRequest cfg w now r = (w', .ok out)) :
    r.redirectURI ≠ "" ∧ r.aud = cfg.issuerURL r.subject ∧ r.challenge ≠ "" ∧ r.method = "S256" ∧
    ∃ defs, cfg.definitions r.scope = some defs ∧
      out.state = stateName w.nextState ∧ out.nonce = nonceName w.nextNonce ∧
      w'.states = w.states.put now cfg.stateTtl out.state
        { clientId := r.clientId, scope := r.scope, ownSubject := r.subject, challenge := r.challenge,
          method := "S256", clientState := r.clientState, consumer := ⟨defs, [], [], 0⟩ } ∧
      w'.oauthNonces = w.oauthNonces.put now cfg.oauthNonceTtl out.nonce out.state ∧
      w'.tokens = w.tokens ∧ w'.codes = w.codes := by
  unfold authorizeRequest at h
  split at h
  · simp at h
  · rename_i h1
    split at h
    · simp at h
    · rename_i h2
      split at h
      · simp at h
      · rename_i h3
        split at h
        · simp at h
        · rename_i h4
          split at h
          · simp at h
          · rename_i defs hdefs
            simp only at h
            split at h
            · simp at h
            · rename_i owner _
              simp only [Prod.mk.injEq, Res.ok.injEq] at h
              obtain ⟨hw, hout⟩ := h
              subst hout
              have hm : r.method = "S256" := by
                by_cases hh : r.method = "S256"
                · exact hh
                · exact absurd (Or.inr hh) h4
              refine ⟨h1, by simpa using h2, h3, hm, defs, hdefs, rfl, rfl, ?_, ?_, ?_, ?_⟩
              · rw [← hw, hm]
              · rw [← hw]
              · rw [← hw]
              · rw [← hw]

/-- **token_only_if (authorize response, OpenID4VP verifier side).** An accepted `direct_post` submission implies:
    the state names a live session of this tenant, every presentation carries the same non-empty nonce/challenge
    and that nonce is mapped to exactly this state (and is deleted by this call), every presentation is signed by
    `s`, all its credentials have subject `s`, it is addressed to this tenant and verifies; the submission validates
    against a definition the session requires and has not yet fulfilled. A code is issued only when nothing is
    pending. NOTE (interpretation): this flow enforces NO maximum validity and keeps no seen-nonce list. -/
theorem authorize_response_only_if (cfg : Cfg) (w w' : World) (now : Nat) (r : AuthResp) (out : AuthOut)
    (hchk : cfg.emptyVpChecked = true) (hwf : ∀ vp ∈ r.vps, vp.signer ≠ some "")
    (h : authorizeResponse cfg w now r = (w', .ok out)) :
    ∃ state session n s d, AuthChecked cfg w now r state session n s d ∧
      AuthEffect cfg w w' now r state session n d out :=
  authorizeResponse_ok cfg w w' now r out hchk hwf h

/-- **one presentation, one acceptance.** After an authorization response has been accepted, a second post carrying
    the same nonce is refused (the nonce is gone; the fresh nonce of a next leg has another name). -/
theorem authresp_nonce_at_most_once (cfg : Cfg) (w w₁ : World) (t t' : Nat) (r r' : AuthResp) (out : AuthOut)
    (hchk : cfg.emptyVpChecked = true) (hwf : ∀ vp ∈ r.vps, vp.signer ≠ some "") (hwf' : ∀ vp ∈ r'.vps, vp.signer ≠ some "")
    (hfresh : ∀ vp ∈ r.vps, vpChallenge vp ≠ nonceName w.nextNonce)
    (h : authorizeResponse cfg w t r = (w₁, .ok out))
    (hsame : ∀ vp' ∈ r'.vps, ∃ vp ∈ r.vps, vpChallenge vp' = vpChallenge vp) :
    ∀ out', (authorizeResponse cfg w₁ t' r').2 ≠ .ok out' := by
  intro out' hok
  obtain ⟨state, session, n, s, d, hc, heff⟩ := authorizeResponse_ok cfg w w₁ t r out hchk hwf h
  have h' : authorizeResponse cfg w₁ t' r' = ((authorizeResponse cfg w₁ t' r').1, .ok out') := by rw [← hok]
  obtain ⟨state', session', n', s', d', hc', _⟩ := authorizeResponse_ok cfg w₁ _ t' r' out' hchk hwf' h'
  -- the second post presents the same nonce
  obtain ⟨vp', hvp'⟩ := List.exists_mem_of_ne_nil _ hc'.wellformed.2.2.1
  obtain ⟨vp, hvp, heq⟩ := hsame vp' hvp'
  have hn : n' = n := by rw [← hc'.challenge.2 vp' hvp', heq, hc.challenge.2 vp hvp]
  have hne : n ≠ nonceName w.nextNonce := by rw [← hc.challenge.2 vp hvp]; exact hfresh vp hvp
  have hbound := hc'.bound
  rw [hn] at hbound
  cases heff with
  | code _ hw =>
    rw [hw] at hbound
    simp only at hbound
    rw [Store.get_del_same] at hbound
    cases hbound
  | next owner _ hw =>
    rw [hw] at hbound
    simp only at hbound
    rw [Store.get_put_ne _ _ _ _ _ _ _ (fun e => hne e.symm), Store.get_del_same] at hbound
    cases hbound

/-- hence two overlapping posts of one response (any interleaving of atomic store steps = one of the two serial
    orders) yield at most one code -/
theorem race_at_most_one_accepted (cfg : Cfg) (w : World) (t : Nat) (r : AuthResp) (firstIsA : Bool)
    (hchk : cfg.emptyVpChecked = true) (hwf : ∀ vp ∈ r.vps, vp.signer ≠ some "")
    (hfresh : ∀ vp ∈ r.vps, vpChallenge vp ≠ nonceName w.nextNonce) :
    ¬ ((raceAuthorize cfg w t r firstIsA).2.1.isOk = true ∧ (raceAuthorize cfg w t r firstIsA).2.2.isOk = true) := by
  intro ⟨ha, hb⟩
  unfold raceAuthorize at ha hb
  simp only at ha hb
  cases h1 : authorizeResponse cfg w t r with
  | mk w1 o1 =>
    cases h2 : authorizeResponse cfg w1 t r with
    | mk w2 o2 =>
      rw [h1] at ha hb
      simp only [h2] at ha hb
      have hboth : o1.isOk = true ∧ o2.isOk = true := by
        cases firstIsA <;> simp_all
      cases o1 with
      | ok out1 =>
        cases o2 with
        | ok out2 =>
          have := authresp_nonce_at_most_once cfg w w1 t t r r out1 hchk hwf hwf hfresh h1
            (fun vp' hvp' => ⟨vp', hvp', rfl⟩) out2
          rw [h2] at this
          exact this rfl
        | err e => simp [Res.isOk] at hboth
        | panic p => simp [Res.isOk] at hboth
      | err e => simp [Res.isOk] at hboth
      | panic p => simp [Res.isOk] at hboth

/-- **token_only_if (authorization_code grant).** A 200 implies: the code is in the code store (so an accepted
    authorize response put it there, see `authorize_response_only_if`), the client id equals the one of the
    authorization request, the challenge method is S256 and `S256(code_verifier)` equals the stored challenge;
    issuer, client and scope of the token are the session's; the code is deleted. -/
theorem code_token_only_if (cfg : Cfg) (sha : String → String) (w w' : World) (now : Nat) (r : CodeReq)
    (resp : TokenResponse) (h : issueCode cfg sha w now r = (w', .ok resp)) :
    ∃ code verifier session, CodeChecked cfg sha w now r code verifier session ∧
      CodeEffect cfg w w' now r code session resp :=
  issueCode_ok cfg sha w w' now r resp h

/-- **the token is a function of the SESSION, not of the token request.** Whatever other form parameters an
    authorization_code token request carries (scope, assertion, presentation_submission, resource, client assertions,
    duplicates, …) the answer and the state change are the same: issuer, client, scope, definitions and claims of the
    token come from the session the code stands for (`code_token_only_if`). -/
theorem code_token_independent_of_extra_parameters (cfg : Cfg) (sha : String → String) (w : World) (now : Nat)
    (r : CodeReq) (e₁ e₂ : List (String × String)) :
    issueCode cfg sha w now { r with extra := e₁ } = issueCode cfg sha w now { r with extra := e₂ } := rfl

/-- the scope of a code-flow token is the scope of the authorization request, for which the definitions were fulfilled -/
theorem code_token_scope_is_session_scope (cfg : Cfg) (sha : String → String) (w w' : World) (now : Nat) (r : CodeReq)
    (resp : TokenResponse) (h : issueCode cfg sha w now r = (w', .ok resp)) :
    ∃ code session, r.code = some code ∧ w.codes.get now code = some session ∧ resp.scope = session.scope := by
  obtain ⟨code, _, session, hc, heff⟩ := issueCode_ok cfg sha w w' now r resp h
  exact ⟨code, session, hc.codeGiven, hc.known, heff.scope⟩

/-- an authorization code that has been presented once (by a known tenant, whatever the outcome) never buys a
    token afterwards, whatever happens in between (sequential histories; races are C05) -/
theorem code_redeemed_at_most_once (cfg : Cfg) (sha : String → String) (w : World) (t₁ : Nat) (r₁ : CodeReq) (c : String)
    (hs : r₁.subject ∈ cfg.subjects) (hc₁ : r₁.code = some c) (hissued : ∃ n, c = codeName n ∧ n < w.nextCode)
    (between : List (Nat × Op)) (t₂ : Nat) (r₂ : CodeReq) (hc₂ : r₂.code = some c) :
    ∀ resp, (issueCode cfg sha (after cfg sha between (issueCode cfg sha w t₁ r₁).1) t₂ r₂).2 ≠ .ok resp := by
  have hgone : CodeGone (issueCode cfg sha w t₁ r₁).1 c := by
    refine ⟨issueCode_burns cfg sha w t₁ r₁ c hs hc₁, ?_⟩
    obtain ⟨n, hn, hlt⟩ := hissued
    have hnc : (issueCode cfg sha w t₁ r₁).1.nextCode = w.nextCode := by
      rcases issueCode_frame cfg sha w t₁ r₁ with ⟨resp, hr⟩ | _
      · have h : issueCode cfg sha w t₁ r₁ = ((issueCode cfg sha w t₁ r₁).1, .ok resp) := by rw [← hr]
        obtain ⟨_, _, _, _, heff⟩ := issueCode_ok cfg sha w _ t₁ r₁ resp h
        exact heff.others.2.2.2.1
      · -- no token: the world differs from `w` in the code store only
        unfold issueCode
        repeat' (first
          | rfl
          | split
          | simp only)
        all_goals
          rename_i w2 _ hcreate
          have hw2 := congrArg Prod.fst hcreate
          simp only at hw2
          rw [← hw2, (createAccessToken_other _ _ _ _ _ _ _ _).2.2]
    exact ⟨n, hn, by rw [hnc]; exact hlt⟩
  exact issueCode_rejects_gone cfg sha _ t₂ r₂ c hc₂ (after_codeGone cfg sha c between _ hgone).1

/-! ### introspection -/

/-- **active only if this node issued it.** After ANY history from the empty server, a token that introspection
    reports active was issued by an operation of that history (a 200 of the token endpoint under that name), has not
    expired, and issuer / client / scope / iat / exp / key binding / claims in the answer are those of the record
    stored at issuance. -/
theorem introspect_active_only_if_issued (cfg : Cfg) (sha : String → String) (hchk : cfg.emptyVpChecked = true)
    (httl : cfg.nonceTtl ≠ 0) (httl' : cfg.tokenTtl ≠ 0) (hist : List (Nat × Op)) (hwf : HistWF hist)
    (now : Nat) (tok : String) (r : Introspection)
    (h : introspect cfg (after cfg sha hist {}) now tok = .ok (some r)) :
    ∃ pre t op post rec, hist = pre ++ (t, op) :: post ∧ Issued cfg sha (after cfg sha pre {}) t op tok rec ∧
      now ≤ t + cfg.tokenTtl ∧ now ≤ t + cfg.tokenValidity ∧
      r.active = true ∧ r.iss = some (jstr rec.issuer) ∧ r.clientId = some (jstr rec.clientId) ∧
      r.scope = some (jstr rec.scope) ∧ r.iat = some (t / cfg.second) ∧
      r.exp = some ((t + cfg.tokenValidity) / cfg.second) ∧
      r.cnf = rec.dpop.map (fun d => "{\"jkt\":" ++ jstr d.jkt ++ "}") ∧ r.additional = rec.claims := by
  obtain ⟨rec, _, hget, hexp, _, hr⟩ := introspect_some cfg _ now tok r h
  rcases token_in_store_was_issued cfg sha hchk httl httl' hist {} hwf now tok rec hget with h0 | ⟨pre, t, op, post, heq, hiss, hle⟩
  · simp [Store.get, Store.find] at h0
  · obtain ⟨resp, h1, h2, h3, h4, h5, hia, hex⟩ := hiss
    refine ⟨pre, t, op, post, rec, heq, ⟨resp, h1, h2, h3, h4, h5, hia, hex⟩, hle, by rw [← hex]; exact hexp, ?_⟩
    rw [hr]
    refine ⟨rfl, rfl, rfl, rfl, by rw [hia], by rw [hex], rfl, rfl⟩

/-- **introspect_faithful.** For a token issued at `t` under `name`: whatever happens afterwards (any later
    history), at every time `now` the stored record is retrievable iff `now ≤ t + ttl`; hence introspection answers
    inactive exactly after expiry, and before expiry it is a function of the issuance record and `now` only (error
    for a reserved claim name, otherwise the standard members of the record). -/
theorem introspect_faithful (cfg : Cfg) (sha : String → String) (hchk : cfg.emptyVpChecked = true)
    (httl : cfg.nonceTtl ≠ 0) (httl' : cfg.tokenTtl ≠ 0) (hsame : cfg.tokenTtl = cfg.tokenValidity)
    (pre post : List (Nat × Op)) (t : Nat) (op : Op) (name : String) (rec : TokenRec)
    (hwf : HistWF (pre ++ (t, op) :: post))
    (hiss : Issued cfg sha (after cfg sha pre {}) t op name rec) (now : Nat) :
    introspect cfg (after cfg sha (pre ++ (t, op) :: post) {}) now name =
      if now ≤ t + cfg.tokenValidity then
        (match firstReserved cfg.reserved rec.claims with
         | some k => .err ("reserved-claim:" ++ k)
         | none => .ok (some
            { active := true, cnf := rec.dpop.map (fun d => "{\"jkt\":" ++ jstr d.jkt ++ "}"),
              iat := some (t / cfg.second), exp := some ((t + cfg.tokenValidity) / cfg.second),
              iss := some (jstr rec.issuer), clientId := some (jstr rec.clientId), scope := some (jstr rec.scope),
              vps := some (toString rec.vps), pds := some (renderDefs rec.defs),
              pss := some (renderSubs rec.submissions), additional := rec.claims }))
      else .ok none := by
  have hget := issued_token_stays cfg sha hchk httl httl' pre post t op name rec hwf hiss now
  obtain ⟨_, _, _, hname, _, _, hia, hex⟩ := hiss
  unfold introspect
  rw [if_neg (by rw [hname]; exact tokName_ne_empty _), hget, hsame]
  by_cases hle : now ≤ t + cfg.tokenValidity
  · rw [if_pos hle, if_pos hle]
    simp only
    rw [if_neg (by rw [hex]; omega), hia, hex]
    cases firstReserved cfg.reserved rec.claims <;> rfl
  · rw [if_neg hle, if_neg hle]

/-! ### non-vacuity: one server, both flows, from request to introspection -/

private def demoSha (v : String) : String := if v = "the-verifier" then "the-challenge" else "other"

private def demoSession : Session :=
  { clientId := "client", scope := "care", ownSubject := "alpha", challenge := "the-challenge", method := "S256",
    clientState := "cs", consumer := ⟨[("organization", ⟨"pd_org", 0⟩)], [], [], 0⟩ }

private def demoAuth : AuthResp :=
  { subject := "alpha", state := some "st", vpToken := true, envelopeOK := true,
    vps := [{ witnessVP with challenge := "nonce-1", nonce := "", expires := some 100000 }],
    submission := true, submissionOK := true, subDefId := "pd_org", pex := fun k => k == 0,
    claims := fun _ => [("org_name", "\"Care BV\"")] }

/-- the same flow started by a real authorization request instead of a seeded session -/
example : (run witnessCfg demoSha
      [(100, .authreq { subject := "alpha", redirectURI := "https://client/cb", aud := "https://as/oauth2/alpha",
                        clientId := "client", scope := "care", clientState := "cs", challenge := "the-challenge",
                        method := "S256" }),
       (100, .authreq { subject := "alpha", redirectURI := "https://client/cb", aud := "https://as/oauth2/alpha2",
                        clientId := "client", scope := "care", clientState := "cs", challenge := "the-challenge",
                        method := "S256" }),
       (100, .authreq { subject := "alpha", redirectURI := "https://client/cb", aud := "https://as/oauth2/alpha",
                        clientId := "client", scope := "care", clientState := "cs", challenge := "the-challenge",
                        method := "plain" })] {}).2 =
    [.authreq (.ok ⟨"st#0", "on#0", "organization"⟩), .authreq (.err "invalid_request/invalid-audience"),
     .authreq (.err "invalid_request/invalid-code_challenge_method")] := by decide

private def demoHistory : List (Nat × Op) :=
  [(100, .seed "st" "nonce-1" demoSession),
   (101, .auth demoAuth),
   (102, .code { subject := "alpha", code := some "code#0", verifier := some "the-verifier", clientId := some "client",
                 dpop := .valid "kid" "THUMB" }),
   (103, .code { subject := "alpha", code := some "code#0", verifier := some "the-verifier", clientId := some "client",
                 dpop := .absent }),
   (104, .s2s { witnessReq with vps := [{ witnessVP with created := some 108, expires := some 113 }] }),
   (118, .s2s { witnessReq with vps := [{ witnessVP with created := some 108, expires := some 113 }] })]

/-- the authorization-code flow runs to a token (a presentation valid for 99 900 ticks is accepted: no validity bound
    in this flow), the code works once, a vp_token-bearer presentation post-dated by 4 is accepted at 104 and refused
    at 118 (still inside created-5 .. expires+5, nonce remembered for 15) -/
example : (run witnessCfg demoSha demoHistory {}).2 =
    [.seeded,
     .auth (.ok (.code "code#0" "cs")),
     .token (.ok { token := "tok#0", tokenType := "DPoP", dpopKid := some "kid", scope := "care", expiresIn := 900 }),
     .token (.err "invalid_grant/invalid-code"),
     .token (.ok { token := "tok#1", tokenType := "Bearer", dpopKid := none, scope := "care", expiresIn := 900 }),
     .token (.err "invalid_request/nonce-reused")] := by decide

/-- introspection of the code-flow token: active with the session's issuer / client / scope, the key binding of the
    DPoP proof and the credential-derived claim; inactive after 900 -/
example : introspectPlain witnessCfg (after witnessCfg demoSha demoHistory {}) 500 "tok#0" =
    .ok [("org_name", "\"Care BV\""), ("scope", "\"care\""), ("iss", "\"https://as/oauth2/alpha\""), ("iat", "102"),
         ("exp", "1002"), ("cnf", "{\"jkt\":\"THUMB\"}"), ("client_id", "\"client\""), ("active", "true")] ∧
    introspectPlain witnessCfg (after witnessCfg demoSha demoHistory {}) 1003 "tok#0" = .ok [("active", "false")] ∧
    introspectPlain witnessCfg (after witnessCfg demoSha demoHistory {}) 500 "tok#7" = .ok [("active", "false")] := by
  decide

/-- introspection reads nothing but the token store -/
theorem introspect_depends_on_token_store_only (cfg : Cfg) (w₁ w₂ : World) (h : w₁.tokens = w₂.tokens)
    (now : Nat) (tok : String) : introspect cfg w₁ now tok = introspect cfg w₂ now tok := by
  unfold introspect; rw [h]


/-- **claims_cannot_override.** If every standard member name is reserved, then for every stored token and every
    constraint-id map: either introspection errors, or in the marshalled RFC7662 answer EVERY standard member has
    its standard value (absent members stay absent) - whatever the order in which the marshaller assigns. -/
theorem claims_cannot_override (cfg : Cfg) (hres : ∀ k ∈ Facts.C02.introspectionFields, k ∈ cfg.reserved)
    (w : World) (now : Nat) (tok : String) (r : Introspection) (h : introspect cfg w now tok = .ok (some r))
    (r' : Introspection) (hsame : r'.additional = r.additional)
    (order : List String) (k : String) (hk : k ∈ Facts.C02.introspectionFields) :
    objGet (marshal order r') k = if k ∈ order then r'.std k else none := by
  obtain ⟨t, _, _, _, hnone, hr⟩ := introspect_some cfg w now tok r h
  have hadd : k ∉ keys r'.additional := by
    rw [hsame, hr]; exact firstReserved_none cfg.reserved t.claims hnone k (hres k hk)
  have hstar : k ≠ "*" := by
    intro he; subst he; revert hk; decide
  have := objGet_marshal_fold r' k hstar hadd order []
  rw [marshal, this]
  split
  · cases r'.std k <;> rfl
  · rfl

/-- the same for the configuration the source has today (reserved list and marshal order regenerated) -/
theorem claims_cannot_override_today (cfg : Cfg) (hcfg : cfg.reserved = Facts.C02.reservedClaims)
    (w : World) (now : Nat) (tok : String) (r : Introspection) (h : introspect cfg w now tok = .ok (some r))
    (k : String) (hk : k ∈ Facts.C02.introspectionFields) :
    objGet (marshal Facts.C02.marshalAssignOrder r) k = r.std k := by
  have hres : ∀ k ∈ Facts.C02.introspectionFields, k ∈ cfg.reserved := by
    rw [hcfg]; exact fact_reserved_covers_fields
  rw [claims_cannot_override cfg hres w now tok r h r rfl _ k hk]
  rw [fact_introspection_fields.2]
  simp [hk]

/-- the RFC7662 endpoint as a whole (`IntrospectAccessToken`: members cleared, generated marshaller): every standard
    member of the JSON answer is the standard value - `active` and nothing else for an inactive token -/
theorem plain_introspection_members (cfg : Cfg) (hcfg : cfg.reserved = Facts.C02.reservedClaims)
    (horder : cfg.marshalOrder = Facts.C02.marshalAssignOrder)
    (w : World) (now : Nat) (tok : String) (obj : Obj) (h : introspectPlain cfg w now tok = .ok obj)
    (k : String) (hk : k ∈ Facts.C02.introspectionFields) :
    (∃ r, introspect cfg w now tok = .ok (some r) ∧
        objGet obj k = ({ r with vps := none, pds := none, pss := none } : Introspection).std k) ∨
    (introspect cfg w now tok = .ok none ∧ objGet obj k = if k = "active" then some "false" else none) := by
  have hres : ∀ k ∈ Facts.C02.introspectionFields, k ∈ cfg.reserved := by
    rw [hcfg]; exact fact_reserved_covers_fields
  unfold introspectPlain at h
  split at h
  · rename_i hi
    right
    simp only [Res.ok.injEq] at h
    subst h
    refine ⟨hi, ?_⟩
    rw [horder]
    revert k
    decide
  · rename_i r hi
    left
    simp only [Res.ok.injEq] at h
    subst h
    refine ⟨r, hi, ?_⟩
    have := claims_cannot_override cfg hres w now tok r hi
      ({ r with vps := none, pds := none, pss := none } : Introspection) rfl cfg.marshalOrder k hk
    rw [this, horder, fact_introspection_fields.2]
    simp [hk]
  · cases h
  · cases h

/-- why the reserved list matters: with the marshaller's order (additional properties last) a claim named like a
    standard member that is NOT reserved replaces it -/
example : objGet (marshal Facts.C02.marshalAssignOrder
      { active := true, cnf := some "{\"jkt\":\"KEY\"}", additional := [("cnf", "{\"jkt\":\"ATTACKER\"}")] }) "cnf"
    = some "{\"jkt\":\"ATTACKER\"}" := by decide

/-! ### Deepening round: request objects (jar.go), the authorization endpoint and the grant_type switch -/

/-- `jar.Parse` as `jarParse` mirrors it: the if-conditions, the `request_uri_method` switch (its case constants and
    the error of every arm), the ordered calls, and the arguments handed to `validate` (raw object, client_id OF THE QUERY) -/
theorem fact_jar_parse_shape :
    Facts.C02.condsJarParse =
      ["q.Get(oauth.RequestParam); rawRequestObject != \"\"", "q.Get(oauth.RequestURIParam) != \"\"",
       "q.Get(oauth.RequestURIParam); requestURI != \"\"", "err != nil", "err != nil"] ∧
    Facts.C02.switchJarParse =
      ["switch q.Get(oauth.RequestURIMethodParam)", "case \"\", \"get\" => error:oauth.InvalidRequestURI",
       "case \"post\" => error:oauth.InvalidRequestURI", "default => error:oauth.InvalidRequestURIMethod"] ∧
    Facts.C02.chainJarParse =
      ["Get", "Get", "Get", "Get", "IAMClient.RequestObjectByGet", "IAMClient.RequestObjectByPost", "validate", "Get"] ∧
    Facts.C02.jarValidateArgs = ["ctx", "rawRequestObject", "q.Get(oauth.ClientIDParam)"] := by decide

/-- `jar.validate` as `jarValidate` mirrors it: signature first, then the EXACT comparison of the signed client_id claim
    with the query's client_id, then the client's configuration, the kid lookup and the thumbprint comparison -/
theorem fact_jar_validate_shape :
    Facts.C02.condsJarValidate =
      ["err != nil", "err != nil", "clientId != params.get(oauth.ClientIDParam)", "err != nil", "!exists",
       "compareThumbprint(key, publicKey); err != nil"] ∧
    Facts.C02.chainJarValidate =
      ["ParseJWT", "ResolveKeyByID", "WithValidate", "AsMap", "parseJWTClaims", "get", "IAMClient.OpenIDConfiguration",
       "LookupKeyID", "compareThumbprint"] ∧
    Facts.C02.condsCompareThumbprint =
      ["err != nil", "err != nil", "err != nil", "!bytes.Equal(thumbprintLeft, thumbprintRight)"] := by decide

/-- `oauthParameters.get` as `pget` mirrors it: a string, or the only element of a one-element `[]string` -/
theorem fact_params_get :
    Facts.C02.condsParamsGet = ["!ok", "len(typedValue) == 1"] ∧
    Facts.C02.switchParamsGet =
      ["typeswitch", "case string => return:typedValue", "case []string => return:typedValue[0]"] := by decide

/-- `HandleAuthorizeRequest` / `handleAuthorizeRequest` as `authorizeEndpoint` / `authorizeDispatch` mirror them, and the
    three parameter checks of the wallet leg that `fromVerifierPrefix` mirrors -/
theorem fact_authorize_dispatch :
    Facts.C02.condsHandleAuthorizeRequest = ["!r.auth.AuthorizationEndpointEnabled()", "err != nil", "err != nil"] ∧
    Facts.C02.chainHandleAuthorizeRequest =
      ["AuthorizationEndpointEnabled", "subjectExists", "subjectToBaseURL", "oauthAuthorizationServerMetadata",
       "handleAuthorizeRequest"] ∧
    Facts.C02.switchAuthorizeDispatch =
      ["switch requestObject.get(oauth.ResponseTypeParam)",
       "case oauth.CodeResponseType => call:handleAuthorizeRequestFromHolder",
       "case oauth.VPTokenResponseType => call:handleAuthorizeRequestFromVerifier",
       "default => error:oauth.UnsupportedResponseType"] ∧
    Facts.C02.authorizeJarParseArgs = ["ctx", "ownMetadata", "request.Query()"] ∧
    Facts.C02.authorizeHolderArgs = ["ctx", "subject", "requestObject"] ∧
    Facts.C02.condsFromVerifier.take 3 =
      ["responseMode != responseModeDirectPost", "responseURI == \"\"", "state == \"\""] := by decide

/-- the `grant_type` switch of `HandleTokenRequest` as `tokenEndpoint` mirrors it -/
theorem fact_token_dispatch :
    Facts.C02.switchHandleTokenRequest =
      ["switch request.Body.GrantType",
       "case oauth.AuthorizationCodeGrantType => call:handleAccessTokenRequest",
       "case oauth.PreAuthorizedCodeGrantType => error:oauth.UnsupportedGrantType",
       "case oauth.VpTokenGrantType => call:handleS2SAccessTokenRequest",
       "default => error:oauth.UnsupportedGrantType"] := by decide

/-- the constants behind the names: generated value = the literal the model (and the RFCs) use; the three grant names are
    pairwise distinct, so no request can take two arms -/
theorem fact_oauth_names :
    Facts.C02.grantAuthorizationCode = "authorization_code" ∧ Facts.C02.grantVpToken = "vp_token-bearer" ∧
    Facts.C02.grantPreAuthorizedCode = "urn:ietf:params:oauth:grant-type:pre-authorized_code" ∧
    Facts.C02.responseTypeCode = "code" ∧ Facts.C02.responseTypeVpToken = "vp_token" ∧
    Facts.C02.responseModeDirectPost = "direct_post" ∧
    Facts.C02.oauthParamNames =
      ["RequestParam=request", "RequestURIParam=request_uri", "RequestURIMethodParam=request_uri_method",
       "ClientIDParam=client_id", "ResponseTypeParam=response_type", "RedirectURIParam=redirect_uri", "ScopeParam=scope",
       "StateParam=state", "CodeChallengeParam=code_challenge", "CodeChallengeMethodParam=code_challenge_method",
       "ResponseModeParam=response_mode", "ResponseURIParam=response_uri"] ∧
    Facts.C02.oauthErrorCodes =
      ["InvalidRequest=invalid_request", "InvalidRequestURI=invalid_request_uri",
       "InvalidRequestURIMethod=invalid_request_uri_method", "InvalidRequestObject=invalid_request_object",
       "ServerError=server_error", "UnsupportedResponseType=unsupported_response_type",
       "UnsupportedGrantType=unsupported_grant_type"] := by decide

/-- the grant names of the CURRENT source -/
def grantNamesToday : GrantNames :=
  ⟨Facts.C02.grantAuthorizationCode, Facts.C02.grantPreAuthorizedCode, Facts.C02.grantVpToken⟩

/-- **request object accepted only if.** Whatever the query, the remote answers and the key material: parameters come
    out of `jar.Parse` only when exactly one of `request` / `request_uri` is given, the object is (for `request_uri`) what
    the announced method returned, its signature verified under the key the resolver knows for its kid, the SIGNED
    client_id claim equals the client_id of the query, and the client's own OpenID configuration lists that kid with a key
    of the same thumbprint. The parameters are the signed claims, nothing from the query. -/
theorem jar_parse_only_if (env : JarEnv) (q : JarQuery) (calls : List JarCall) (p : Params)
    (h : jarParse env q = (calls, .ok p)) : JarAccepted env q p :=
  jarParse_ok env q calls p h

/-- **what the endpoint does on the network before it trusts anybody** (every outcome, errors included): at most one
    fetch, of the announced `request_uri` by the announced method; the client's configuration is requested at most once,
    only for the query's client id, and only after a request object verified that names this client id. -/
theorem jar_parse_remote_calls (env : JarEnv) (q : JarQuery) : JarCallsOK env q (jarParse env q).1 :=
  jarParse_calls env q

/-- **authorization request line → session (end to end).** A 302 of the authorization endpoint implies: the endpoint is
    enabled, the tenant exists, the request object was accepted (`JarAccepted`), its signed `response_type` is `code`,
    and - composing with `authorize_request_only_if` - the signed `aud` is exactly this tenant's issuer URL, the signed
    PKCE challenge is non-empty with method S256, the signed scope is configured, and the session stored under the fresh
    state carries the SIGNED client id (= the query's), scope, challenge and state, and all definitions of that scope. -/
theorem authorize_endpoint_only_if (cfg : Cfg) (enabled : Bool) (env : JarEnv) (w w' : World) (now : Nat) (r : AuthzHttp)
    (calls : List JarCall) (out : AuthReqOut)
    (h : authorizeEndpoint cfg enabled env w now r = (w', calls, .ok out)) :
    enabled = true ∧ r.subject ∈ cfg.subjects ∧
    ∃ p defs, JarAccepted env r.query p ∧ pget p "response_type" = "code" ∧
      pget p "redirect_uri" ≠ "" ∧ pget p "aud" = cfg.issuerURL r.subject ∧ pget p "code_challenge" ≠ "" ∧
      pget p "code_challenge_method" = "S256" ∧ cfg.definitions (pget p "scope") = some defs ∧
      w'.states = w.states.put now cfg.stateTtl out.state
        { clientId := r.query.clientId, scope := pget p "scope", ownSubject := r.subject,
          challenge := pget p "code_challenge", method := "S256", clientState := pget p "state",
          consumer := ⟨defs, [], [], 0⟩ } ∧
      w'.oauthNonces = w.oauthNonces.put now cfg.oauthNonceTtl out.nonce out.state ∧
      w'.tokens = w.tokens ∧ w'.codes = w.codes := by
  unfold authorizeEndpoint at h
  split at h
  · simp at h
  · rename_i hen
    split at h
    · simp at h
    · rename_i hsub
      split at h
      · simp at h
      · simp at h
      · rename_i cs p hjar
        simp only [Prod.mk.injEq] at h
        have hd : authorizeDispatch cfg w now r.subject p = (w', .ok out) := by
          rw [← h.1, ← h.2.2]
        obtain ⟨hrt, hreq⟩ := authorizeDispatch_ok cfg w w' now r.subject p out hd
        have hacc := jarParse_ok env r.query cs p hjar
        obtain ⟨hredir, haud, hch, hm, defs, hdefs, _, _, hst, hno, htok, hco⟩ :=
          authorize_request_only_if cfg w w' now (toAuthReq r.subject p) out hreq
        have hcid : pget p "client_id" = r.query.clientId := by
          obtain ⟨_, _, _, _, _, _, hc, _⟩ := hacc
          exact hc
        refine ⟨by cases enabled <;> simp_all, Decidable.not_not.mp hsub, p, defs, hacc, hrt, hredir, haud, hch, hm, hdefs,
          ?_, hno, htok, hco⟩
        rw [hst]
        simp only [toAuthReq, hcid]

/-- **no trace of a refused authorization request.** Whatever goes wrong - endpoint disabled, unknown tenant, any
    request-object defect, unsupported response type, any parameter defect of the holder leg - an error answer leaves
    every session store exactly as it was. -/
theorem authorize_endpoint_error_leaves_state (cfg : Cfg) (enabled : Bool) (env : JarEnv) (w w' : World) (now : Nat)
    (r : AuthzHttp) (calls : List JarCall) (e : String)
    (h : authorizeEndpoint cfg enabled env w now r = (w', calls, .err e)) : w' = w := by
  unfold authorizeEndpoint at h
  split at h
  · simp only [Prod.mk.injEq] at h; exact h.1.symm
  · split at h
    · simp only [Prod.mk.injEq] at h; exact h.1.symm
    · split at h
      · simp only [Prod.mk.injEq] at h; exact h.1.symm
      · simp only [Prod.mk.injEq] at h; exact h.1.symm
      · rename_i cs p _
        simp only [Prod.mk.injEq] at h
        exact authorizeDispatch_err_unchanged cfg w w' now r.subject p e (by rw [← h.1, ← h.2.2])

/-- **token endpoint: request line → decision (end to end).** A 200 of `HandleTokenRequest` implies the tenant exists
    and the request took exactly one of the two grant arms, whose full conjunction holds: `grant_type` equal to the
    authorization-code name and everything `code_token_only_if` states, or equal to the vp_token-bearer name (and to
    neither other name) and everything `s2s_token_only_if` states. No other `grant_type` value yields a token. -/
theorem token_endpoint_only_if (cfg : Cfg) (n : GrantNames) (sha : String → String) (w w' : World) (now : Nat)
    (subject g : String) (s2s : S2SReq) (code : CodeReq) (resp : TokenResponse)
    (hchk : cfg.emptyVpChecked = true) (httl : cfg.nonceTtl ≠ 0) (hwf : ∀ vp ∈ s2s.vps, vp.signer ≠ some "")
    (h : tokenEndpoint cfg n sha w now subject g s2s code = (w', .ok resp)) :
    subject ∈ cfg.subjects ∧
    ((g = n.authorizationCode ∧
        ∃ c v session, CodeChecked cfg sha w now { code with subject := subject } c v session ∧
          CodeEffect cfg w w' now { code with subject := subject } c session resp) ∨
     (g = n.vpToken ∧ g ≠ n.authorizationCode ∧ g ≠ n.preAuthorizedCode ∧
        ∃ s d, S2SChecked cfg w now { s2s with subject := subject } s d ∧
          S2SEffect cfg w w' now { s2s with subject := subject } d resp)) := by
  unfold tokenEndpoint at h
  split at h
  · simp at h
  · rename_i hsub
    refine ⟨Decidable.not_not.mp hsub, ?_⟩
    by_cases hg1 : g = n.authorizationCode
    · have hc : classifyGrant n g = .authorizationCode := by unfold classifyGrant; rw [if_pos hg1]
      rw [hc] at h
      exact .inl ⟨hg1, code_token_only_if cfg sha w w' now _ resp h⟩
    · by_cases hg2 : g = n.preAuthorizedCode
      · have hc : classifyGrant n g = .preAuthorizedCode := by unfold classifyGrant; rw [if_neg hg1, if_pos hg2]
        rw [hc] at h
        simp at h
      · by_cases hg3 : g = n.vpToken
        · have hc : classifyGrant n g = .vpToken := by unfold classifyGrant; rw [if_neg hg1, if_neg hg2, if_pos hg3]
          rw [hc] at h
          exact .inr ⟨hg3, hg1, hg2, s2s_token_only_if cfg w w' now _ resp hchk httl hwf h⟩
        · have hc : classifyGrant n g = .other := by unfold classifyGrant; rw [if_neg hg1, if_neg hg2, if_neg hg3]
          rw [hc] at h
          simp at h

/-- **any other grant_type: an error and nothing changes** (case variants, padded names, lists, the empty string,
    refresh_token, pre-authorized_code, …) -/
theorem token_endpoint_other_grant_rejected (cfg : Cfg) (n : GrantNames) (sha : String → String) (w : World) (now : Nat)
    (subject g : String) (s2s : S2SReq) (code : CodeReq) (h1 : g ≠ n.authorizationCode) (h2 : g ≠ n.vpToken) :
    ∃ e, tokenEndpoint cfg n sha w now subject g s2s code = (w, .err e) := by
  unfold tokenEndpoint
  split
  · exact ⟨_, rfl⟩
  · by_cases hp : g = n.preAuthorizedCode
    · have hc : classifyGrant n g = .preAuthorizedCode := by unfold classifyGrant; rw [if_neg h1, if_pos hp]
      rw [hc]; exact ⟨_, rfl⟩
    · have hc : classifyGrant n g = .other := by unfold classifyGrant; rw [if_neg h1, if_neg hp, if_neg h2]
      rw [hc]; exact ⟨_, rfl⟩

/-! non-vacuity: a signed request object fetched by POST is accepted and opens a session; the same object under another
    client id of the query, or from a client whose configuration lists another key under the kid, is refused; the
    vp_token-bearer request of the open-finding witness passes the grant_type switch, its case variant does not -/
private def demoClaims : Params :=
  [("aud", .strs ["https://as/oauth2/alpha"]), ("client_id", .str "https://c/oauth2/c1"), ("code_challenge", .str "ch"),
   ("code_challenge_method", .str "S256"), ("exp", .other), ("redirect_uri", .str "https://c/cb"),
   ("response_type", .str "code"), ("scope", .str "care"), ("state", .str "cs")]

private def demoEnv (thumbInConfig : String) : JarEnv :=
  { fetchGet := fun _ => none,
    fetchPost := fun u => if u = "https://c/r.jwt" then some "RAW" else none,
    parse := fun raw => if raw = "RAW" then some ⟨"kid-1", "K1", demoClaims⟩ else none,
    config := fun c => if c = "https://c/oauth2/c1" then some [("old", "K0"), ("kid-1", thumbInConfig)] else none }

private def demoQuery (client : String) : AuthzHttp :=
  ⟨"alpha", ⟨"", "https://c/r.jwt", "post", client⟩⟩

example : (authorizeEndpoint witnessCfg true (demoEnv "K1") {} 100 (demoQuery "https://c/oauth2/c1")).2 =
    ([.post "https://c/r.jwt", .config "https://c/oauth2/c1"], .ok ⟨"st#0", "on#0", "organization"⟩) := by decide

example : (authorizeEndpoint witnessCfg true (demoEnv "K1") {} 100 (demoQuery "https://c/oauth2/C1")).2 =
    ([.post "https://c/r.jwt"], .err "invalid_request_object/client_id-claim") := by decide

example : (authorizeEndpoint witnessCfg true (demoEnv "K2") {} 100 (demoQuery "https://c/oauth2/c1")).2 =
    ([.post "https://c/r.jwt", .config "https://c/oauth2/c1"], .err "invalid_request_object/key-mismatch") := by decide

example : (tokenEndpoint witnessCfg grantNamesToday (fun v => v) {} 100 "alpha" "vp_token-bearer" witnessReq
      ⟨"", none, none, none, .absent, []⟩).2 =
      .ok { token := "tok#0", tokenType := "Bearer", dpopKid := none, scope := "care", expiresIn := 900 } ∧
    (tokenEndpoint witnessCfg grantNamesToday (fun v => v) {} 100 "alpha" "VP_TOKEN-BEARER" witnessReq
      ⟨"", none, none, none, .absent, []⟩).2 = .err "unsupported_grant_type/not-supported" := by
  refine ⟨by decide, by decide⟩

/-! ### Deepening round: where the configured definitions come from (policy/local.go) -/

/-- `LocalPDP.Configure` / `loadFromDirectory` / `loadFromFile` as `configurePolicy` / `loadDir` / `addScopes` mirror
    them: the conditions (directories skipped, the `.json` suffix test, an already mapped scope is an error), the ordered
    calls, the suffix literal and the default directory -/
theorem fact_policy_loader :
    Facts.C02.condsPolicyConfigure =
      ["b.config.Directory != \"\"", "err != nil",
       "os.IsNotExist(err) && b.config.Directory == defaultConfig().Directory", "b.config.Directory != \"\"",
       "b.loadFromDirectory(b.config.Directory); err != nil"] ∧
    Facts.C02.condsPolicyLoadDir =
      ["err != nil", "err != nil", "file.IsDir()", "!strings.HasSuffix(file.Name(), \".json\")", "err != nil"] ∧
    Facts.C02.condsPolicyLoadFile =
      ["err != nil", "err != nil", "err != nil", "b.mapping == nil", "b.mapping[scope]; exists"] ∧
    Facts.C02.chainPolicyLoadDir =
      ["Open", "defer{", "Close", "}", "Readdir", "for{", "IsDir", "HasSuffix", "Name", "loadFromFile", "Name", "}"] ∧
    Facts.C02.chainPolicyLoadFile = ["Open", "defer{", "Close", "}", "ReadAll", "Unmarshal", "for{", "}"] ∧
    Facts.C02.policySuffixCheck = ["file.Name()", "\".json\""] ∧
    Facts.C02.policyDefaultConfig = ["Directory=\"./config/policy\""] := by decide

/-- **configuration text → policy.** Whatever the directory holds and in whatever order it is listed: when the loader
    succeeds, every `.json` file (not a directory) of the directory parsed, no scope is mapped by two of them, and the
    definitions `PresentationDefinitions(scope)` answers are exactly the ones a loaded file maps that scope to - nothing
    from files with another suffix or from sub directories, nothing dropped, nothing merged. -/
theorem policy_load_exact (entries : List DirEntry) (pol : Policy) (h : loadDir [] entries = .ok pol) :
    (∀ e ∈ entries, e.loaded = true → e.content ≠ none) ∧
    (pol.map (·.1)).Nodup ∧
    ∀ scope defs, lookupPolicy pol scope = some defs ↔
      ∃ e ∈ entries, e.loaded = true ∧ ∃ l, e.content = some l ∧ (scope, defs) ∈ l := by
  obtain ⟨hn, hall, hmem⟩ := loadDir_ok [] entries pol (by simp [KeysNodup]) h
  refine ⟨hall, hn, ?_⟩
  intro scope defs
  rw [lookupPolicy_some_iff pol hn, hmem]
  simp

/-- **configuration text → token decision (end to end).** With the policy loaded from a directory, a 200 of the
    vp_token-bearer grant implies that some `.json` file of that directory maps exactly the requested scope to a set of
    definitions, that the submission's definition is one of them, and that the submission validates against it. -/
theorem s2s_scope_comes_from_a_policy_file (cfg : Cfg) (entries : List DirEntry) (w w' : World) (now : Nat) (r : S2SReq)
    (resp : TokenResponse) (hpol : loadDir [] entries = .ok cfg.policy)
    (hchk : cfg.emptyVpChecked = true) (httl : cfg.nonceTtl ≠ 0) (hwf : ∀ vp ∈ r.vps, vp.signer ≠ some "")
    (h : issueS2S cfg w now r = (w', .ok resp)) :
    ∃ e ∈ entries, e.loaded = true ∧ ∃ file defs d, e.content = some file ∧ (r.scope, defs) ∈ file ∧
      findDef defs r.subDefId = some d ∧ r.pex d.key = true := by
  obtain ⟨s, d, hc, _⟩ := s2s_token_only_if cfg w w' now r resp hchk httl hwf h
  obtain ⟨defs, hdefs, hfind⟩ := hc.scope
  obtain ⟨e, he, hl, file, hfile, hmem⟩ := ((policy_load_exact entries cfg.policy hpol).2.2 r.scope defs).mp hdefs
  exact ⟨e, he, hl, file, defs, d, hfile, hmem, hfind, hc.pex⟩

/-- **a failed load is a refusal, for exactly two reasons**: a `.json` file that does not parse / validate, or a scope
    that is already mapped -/
theorem policy_load_error_kinds (m : Policy) (entries : List DirEntry) (x : String) (h : loadDir m entries = .err x) :
    x = "unmarshal" ∨ x = "duplicate-scope" := by
  induction entries generalizing m with
  | nil => unfold loadDir at h; simp at h
  | cons e rest ih =>
    unfold loadDir at h
    split at h
    · exact ih m h
    · split at h
      · exact ih m h
      · split at h
        · simp only [Res.err.injEq] at h; exact .inl h.symm
        · split at h
          · exact ih _ h
          · rename_i x' hadd
            simp only [Res.err.injEq] at h
            subst h
            exact .inr (addScopes_err _ _ _ hadd)
          · simp at h

/-! non-vacuity: two files and a look-alike with another suffix load; the same scope in two `.json` files does not -/
private def polA : DirEntry := ⟨"a.json", false, some [("care", [("organization", ⟨"pd1", 0⟩)])]⟩
private def polB : DirEntry := ⟨"b.json", false, some [("zorg", [("organization", ⟨"pd2", 0⟩), ("user", ⟨"pd3", 0⟩)])]⟩
private def polShadow : DirEntry := ⟨"a.json.bak", false, some [("care", [("organization", ⟨"shadow", 0⟩)])]⟩
private def polDir : DirEntry := ⟨"sub.json", true, none⟩

example : (loadDir [] [polShadow, polA, polDir, polB]).bind (fun p => .ok (lookupPolicy p "care", lookupPolicy p "x")) =
    .ok (some [("organization", ⟨"pd1", 0⟩)], none) := by decide

example : loadDir [] [polA, { polShadow with name := "c.json" }] = .err "duplicate-scope" := by decide

/-! ### Deepening round: the three public endpoints over ALL request sequences (NutsModel/C02/Front.lean) -/

/-- **invariant of the session stores.** Start from empty stores and let the outside world send ANY sequence of
    requests to the authorization, response and token endpoints (any environments, any defects, any times). Then every
    session in the client-state store and every session behind an authorization code stems from a signed request object
    of that sequence which the authorization endpoint accepted (`JarAccepted`): its client id is the client id of that
    request (= the signed claim), its tenant, scope, PKCE challenge (non-empty, S256) and client state are the signed
    ones, the request was addressed to this tenant and its scope is configured. -/
theorem every_session_stems_from_a_signed_request (cfg : Cfg) (n : GrantNames) (sha : String → String)
    (h : List (Nat × Req)) : SessOK (FromSignedRequest cfg h) (serveAll cfg n sha h {}) :=
  serveAll_sess cfg n sha h h {} (fun _ hx => hx)
    ⟨fun _ he => absurd he List.not_mem_nil, fun _ he => absurd he List.not_mem_nil⟩

/-- **authorization request line → token decision, across requests (end to end).** After ANY sequence of requests at
    the public endpoints, a 200 for an `authorization_code` token request implies that the sequence contains an accepted
    signed authorization request, addressed to the tenant the token is issued for, whose client id is the token
    request's client_id, whose signed S256 challenge is the digest of the presented code_verifier, and whose signed
    scope is the scope of the token. -/
theorem code_token_traces_back_to_a_signed_request (cfg : Cfg) (n : GrantNames) (sha : String → String)
    (h : List (Nat × Req)) (now : Nat) (subject g : String) (s2s : S2SReq) (code : CodeReq) (w' : World)
    (resp : TokenResponse) (hg : g = n.authorizationCode)
    (hok : tokenEndpoint cfg n sha (serveAll cfg n sha h {}) now subject g s2s code = (w', .ok resp)) :
    ∃ t env r p verifier, (t, Req.authz true env r) ∈ h ∧ JarAccepted env r.query p ∧
      pget p "response_type" = "code" ∧ pget p "aud" = cfg.issuerURL r.subject ∧
      code.clientId = some r.query.clientId ∧ code.verifier = some verifier ∧
      sha verifier = pget p "code_challenge" ∧ pget p "code_challenge_method" = "S256" ∧
      resp.scope = pget p "scope" := by
  have hinv := every_session_stems_from_a_signed_request cfg n sha h
  unfold tokenEndpoint at hok
  split at hok
  · simp at hok
  · have hc : classifyGrant n g = .authorizationCode := by unfold classifyGrant; rw [if_pos hg]
    rw [hc] at hok
    obtain ⟨c, v, session, hchk, heff⟩ := code_token_only_if cfg sha _ w' now _ resp hok
    obtain ⟨t, env, r, p, hmem, _, hacc, hrt, haud, hcid, _, hsc, hch, _, _, hm, _, _⟩ :=
      allVals_get _ _ now c session hinv.2 hchk.known
    refine ⟨t, env, r, p, v, hmem, hacc, hrt, haud, ?_, hchk.verifierGiven, ?_, hm, ?_⟩
    · have := hchk.client
      simp only at this
      rw [this, hcid]
    · rw [hchk.pkce, hch]
    · rw [heff.scope, hsc]

/-! non-vacuity: three requests from the outside - a signed authorization request fetched by POST, the wallet's response,
    the token request - end in a token; the same token request under a case variant of the client id does not -/
private def frontCfg : Cfg := { witnessCfg with policy := [("care", [("organization", ⟨"pd_org", 0⟩)])] }

private def frontEnv : JarEnv :=
  { fetchGet := fun _ => none,
    fetchPost := fun u => if u = "https://c/r.jwt" then some "RAW" else none,
    parse := fun raw => if raw = "RAW" then some ⟨"kid-1", "K1",
      [("aud", .strs ["https://as/oauth2/alpha"]), ("client_id", .str "https://c/oauth2/c1"),
       ("code_challenge", .str "the-challenge"), ("code_challenge_method", .str "S256"), ("redirect_uri", .str "https://c/cb"),
       ("response_type", .str "code"), ("scope", .str "care"), ("state", .str "cs")]⟩ else none,
    config := fun c => if c = "https://c/oauth2/c1" then some [("kid-1", "K1")] else none }

private def frontVP : VP := { witnessVP with challenge := "on#0", nonce := "", expires := some 100000 }

private def frontAuth : AuthResp := { demoAuth with state := some "st#0", vps := [frontVP] }

private def frontHistory : List (Nat × Req) :=
  [(100, .authz true frontEnv (demoQuery "https://c/oauth2/c1")), (101, .authresp frontAuth)]

private def frontCode (client : String) : CodeReq :=
  { subject := "alpha", code := some "code#0", verifier := some "the-verifier", clientId := some client, dpop := .absent }

example : (tokenEndpoint frontCfg grantNamesToday demoSha (serveAll frontCfg grantNamesToday demoSha frontHistory {}) 102
      "alpha" "authorization_code" witnessReq (frontCode "https://c/oauth2/c1")).2 =
    .ok { token := "tok#0", tokenType := "Bearer", dpopKid := none, scope := "care", expiresIn := 900 } := by decide

example : (tokenEndpoint frontCfg grantNamesToday demoSha (serveAll frontCfg grantNamesToday demoSha frontHistory {}) 102
      "alpha" "authorization_code" witnessReq (frontCode "https://c/oauth2/C1")).2 =
    .err "invalid_request/client_id-mismatch" := by decide

/-! ### Deepening round: the server's own request objects (api.go RequestJWTByGet / RequestJWTByPost, jar.go createJarRequest) -/

/-- `RequestJWTByGet` / `RequestJWTByPost` / `createAuthorizationRequest` / `createJarRequest` as `requestJWT` / `nextFlowRO` /
    `createJarRequest` mirror them: the entry is taken out of the store FIRST (`GetAndDelete`), then tenant (exact `!=`) and
    method (case sensitive) are checked; `aud` / method `get` only with an audience; the self-issued issuer means no audience -/
theorem fact_request_object_endpoints :
    Facts.C02.condsRequestJWTByGet =
      ["err != nil", "ro.Client != expected.String()", "ro.RequestURIMethod != \"get\"", "err != nil"] ∧
    Facts.C02.condsRequestJWTByPost =
      ["err != nil", "ro.Client != expected.String()", "ro.RequestURIMethod != \"post\"", "request.Body != nil",
       "request.Body.WalletMetadata != nil", "request.Body.WalletNonce != nil",
       "walletMetadata.Issuer != \"https://self-issued.me/v2\"", "err != nil"] ∧
    Facts.C02.chainRequestJWTByGet = ["authzRequestObjectStore.GetAndDelete", "subjectToBaseURL", "Sign", "NewReader", "int64"] ∧
    Facts.C02.chainRequestJWTByPost =
      ["authzRequestObjectStore.GetAndDelete", "subjectToBaseURL", "staticAuthorizationServerMetadata", "Sign", "NewReader", "int64"] ∧
    Facts.C02.condsCreateAuthorizationRequest =
      ["len(metadata.AuthorizationEndpoint) == 0", "err != nil", "err != nil",
       "metadata.Issuer == \"https://self-issued.me/v2\"",
       "r.authzRequestObjectStore().Put(requestURIID, requestObj); err != nil", "metadata.RequireSignedRequestObject"] ∧
    Facts.C02.chainCreateAuthorizationRequest =
      ["Parse", "subjectToBaseURL", "determineClientDID", "GenerateNonce", "Create", "authzRequestObjectStore.Put", "JoinPath",
       "AddQueryParams", "modifier", "AddQueryParams"] ∧
    Facts.C02.condsCreateJarRequest = ["audience != \"\""] ∧
    Facts.C02.chainJarSign = ["get", "ParseDID", "ResolveKey", "SignJWT"] := by decide

/-- **a request object is handed to the signer only if** it is in the store and unexpired under that id, belongs to the
    tenant of the request path, and was announced for the method used; by GET the signed claims are the stored ones, by
    POST they differ at most in `wallet_nonce` and `aud` (in particular: nonce and state are the stored ones). -/
theorem request_object_served_only_if (cfg : Cfg) (ro s' : Store JarReq) (now : Nat) (post : Bool) (id subject : String)
    (wi wn : Option String) (claims : Obj) (h : requestJWT cfg ro now post id subject wi wn = (s', .ok claims)) :
    ∃ r, ro.get now id = some r ∧ s' = ro.del id ∧ r.client = cfg.issuerURL subject ∧
      r.method = (if post then "post" else "get") ∧ (post = false → claims = r.claims) ∧
      ∀ k, k ≠ "wallet_nonce" → k ≠ "aud" → objGet claims k = objGet r.claims k :=
  requestJWT_ok cfg ro s' now post id subject wi wn claims h

/-- **one fetch, whatever its outcome, burns the request object**: right or wrong tenant, right or wrong method, signed or
    not - afterwards the id is unknown at every later time -/
theorem request_object_burned_by_any_fetch (cfg : Cfg) (ro : Store JarReq) (now later : Nat) (post : Bool)
    (id subject : String) (wi wn : Option String) (hle : now ≤ later) :
    (requestJWT cfg ro now post id subject wi wn).1.get later id = none :=
  requestJWT_burns cfg ro now later post id subject wi wn hle

/-- **the fetched request object carries the leg's own nonce and state (leg → wire, end to end).** The object a leg stores
    (`nextOpenID4VPFlow`), fetched in time by the leg's tenant with the announced method, is signed with exactly the
    nonce and state of that leg, `response_type` vp_token and `response_mode` direct_post - the values
    `authorizeResponse` later checks a presentation against. -/
theorem leg_request_object_carries_its_nonce (cfg : Cfg) (signerOf : String → String) (ro : Store JarReq) (now later : Nat)
    (subject clientIssuer owner nonce state : String) (wi wn : Option String) (httl : cfg.tokenValidity ≠ 0)
    (hin : later ≤ now + cfg.tokenValidity) (hci : clientIssuer ≠ selfIssued) (hnonempty : clientIssuer ≠ "") :
    ∃ claims, (requestJWT cfg (nextFlowRO cfg signerOf ro now subject clientIssuer owner nonce state) later
        (decide (owner = "user")) (roName nonce) subject wi wn).2 = .ok claims ∧
      objGet claims "nonce" = some nonce ∧ objGet claims "state" = some state ∧
      objGet claims "response_type" = some "vp_token" ∧ objGet claims "response_mode" = some "direct_post" := by
  by_cases ho : owner = "user"
  · -- user wallet: static metadata, no audience, method post
    have hfacts := createJarRequest_vpflow cfg (signerOf subject) (cfg.issuerURL subject) "" subject nonce state
    simp only at hfacts
    obtain ⟨hn, hs, hrt, hrm, _, hcl⟩ := hfacts
    have hro : nextFlowRO cfg signerOf ro now subject clientIssuer owner nonce state =
        ro.put now cfg.tokenValidity (roName nonce)
          (createJarRequest (signerOf subject) (cfg.issuerURL subject) "" (vpFlowModifier cfg subject nonce state)) := by
      simp [nextFlowRO, ho]
    have hd : decide (owner = "user") = true := by simp [ho]
    rw [hro, hd, requestJWT_after_put cfg ro now later (roName nonce) subject _ true wi wn httl hin hcl
      (by simp [createJarRequest])]
    refine ⟨_, rfl, ?_, ?_, ?_, ?_⟩
    · rw [if_pos rfl, withWallet_get _ wi wn "nonce" (by decide) (by decide)]; exact hn
    · rw [if_pos rfl, withWallet_get _ wi wn "state" (by decide) (by decide)]; exact hs
    · rw [if_pos rfl, withWallet_get _ wi wn "response_type" (by decide) (by decide)]; exact hrt
    · rw [if_pos rfl, withWallet_get _ wi wn "response_mode" (by decide) (by decide)]; exact hrm
  · -- organization wallet: the client's metadata, audience = its issuer, method get
    have hfacts := createJarRequest_vpflow cfg (signerOf subject) (cfg.issuerURL subject) clientIssuer subject nonce state
    simp only at hfacts
    obtain ⟨hn, hs, hrt, hrm, _, hcl⟩ := hfacts
    have hne : clientIssuer ≠ "" ∨ clientIssuer = "" := by
      by_cases h : clientIssuer = ""
      · exact .inr h
      · exact .inl h
    have hro : nextFlowRO cfg signerOf ro now subject clientIssuer owner nonce state =
        ro.put now cfg.tokenValidity (roName nonce)
          (createJarRequest (signerOf subject) (cfg.issuerURL subject) clientIssuer (vpFlowModifier cfg subject nonce state)) := by
      simp [nextFlowRO, ho, hci]
    have hd : decide (owner = "user") = false := by simp [ho]
    rw [hro, hd, requestJWT_after_put cfg ro now later (roName nonce) subject _ false wi wn httl hin hcl
      (by simp [createJarRequest, hnonempty])]
    exact ⟨_, rfl, hn, hs, hrt, hrm⟩

/-! non-vacuity: the leg's object is served once (with its nonce), the second fetch and a fetch under another tenant fail -/
private def roStore : Store JarReq :=
  nextFlowRO frontCfg (fun s => "did:web:as:" ++ s) [] 100 "alpha" "https://c/oauth2/c1" "organization" "on#0" "st#0"

example : (match (requestJWT frontCfg roStore 101 false (roName "on#0") "alpha" none none).2 with
    | .ok c => (objGet c "nonce", objGet c "state", objGet c "aud")
    | _ => (none, none, none)) = (some "on#0", some "st#0", some "https://c/oauth2/c1") := by decide

example : (requestJWT frontCfg (requestJWT frontCfg roStore 101 false (roName "on#0") "alpha" none none).1 102 false
    (roName "on#0") "alpha" none none).2 = .err "invalid_request/request-object-not-found" := by decide

example : (requestJWT frontCfg roStore 101 false (roName "on#0") "beta" none none).2 = .err "invalid_request/client_id-mismatch" ∧
    (requestJWT frontCfg roStore 101 true (roName "on#0") "alpha" none none).2 = .err "invalid_request/post-on-get-request_uri" := by
  decide

/-! ### Deepening round 3: the key binding on the resource-server side (dpop.go ValidateDPoPProof, crypto/dpop Match) -/

/-- `ValidateDPoPProof` checks in the order `validateDPoP` mirrors (parse, Match, ath, jti LAST via ONE `PutIfAbsent`), `Match`
    compares thumbprint / method / stripped URLs with exact `!=`, `strip` drops exactly scheme, port, query and fragment, the
    jti is remembered under the jti itself for as long as an access token is valid; the s2s nonce is remembered under the
    nonce itself (not qualified by any unsigned request parameter) and the authorization code is looked up by the code. -/
theorem fact_dpop_validate_shape :
    Facts.C02.condsValidateDPoP = ["err != nil",
      "dpopToken.Match(request.Body.Thumbprint, request.Body.Method, request.Body.Url); !ok", "!ok",
      "ath != base64.RawURLEncoding.EncodeToString(hash.Slice())", "err != nil", "!fresh"] ∧
    Facts.C02.chainValidateDPoP = ["Parse", "Match", "Get", "SHA256Sum", "EncodeToString", "Slice",
      "useNonceOnceStore.PutIfAbsent", "JwtID"] ∧
    Facts.C02.condsDpopMatch = ["base64tp != jkt", "method != t.HTM()", "err != nil", "err != nil", "urlLeft != urlRight"] ∧
    Facts.C02.chainDpopMatch = ["JWK.Thumbprint", "EncodeToString", "HTM", "HTM", "strip", "HTU", "strip"] ∧
    Facts.C02.assignsDpopStrip = ["url.Scheme = \"https\"", "url.Host = strings.Split(url.Host, \":\")[0]",
      "url.RawQuery = \"\"", "url.Fragment = \"\""] ∧
    Facts.C02.dpopStoreKeys = ["useNonceOnceStore.PutIfAbsent(dpopToken.Token.JwtID())"] ∧
    Facts.C02.nonceOnceTtlMs = Facts.C02.accessTokenValidityMs ∧ 0 < Facts.C02.nonceOnceTtlMs := by decide

theorem fact_once_only_store_keys :
    Facts.C02.s2sNonceStoreKeys = ["s2sNonceStore.PutIfAbsent(nonce)"] ∧
    Facts.C02.codeStoreKeys = ["oauthCodeStore.Delete(*request.Code)", "oauthCodeStore.GetAndDelete(*request.Code)"] := by decide

/-- every store a request obtains through `GetStore` (the accessors call it per request) carries the DATABASE's one mutex, and
    `PutIfAbsent` / `GetAndDelete` are Get + Put / Delete under that mutex: this is what makes one store method call one atomic
    step across requests (the assumption of the at-most-once theorems) -/
theorem fact_get_store_shares_database_mutex :
    "mutex=&s.mutex" ∈ Facts.C02.getStoreInitInMemory ∧ "mutex=s.mutex" ∈ Facts.C02.getStoreInitRedis ∧
    Facts.C02.chainPutIfAbsent = ["Lock", "defer{", "Unlock", "}", "Get", "Put"] ∧
    Facts.C02.chainGetAndDelete.take 6 = ["Lock", "defer{", "Unlock", "}", "Get", "Delete"] := by decide

/-- **dpop_valid_only_if.** The node answers `valid` for a proof of possession only if the proof parsed (signature under its
    own embedded key), that key's thumbprint IS the thumbprint the caller supplied (the `cnf.jkt` introspection reported =
    the key established at issuance), the proof names exactly this method and this URL, its `ath` is the digest of exactly
    this access token, the store did not fail, and the jti was not remembered - and then it is remembered from now on. -/
theorem dpop_valid_only_if (ath : String → String) (ttl now : Nat) (st st' : Store Unit) (c : DPoPCheck)
    (h : validateDPoP ath ttl now st c = (st', .ok .valid)) : ∃ p, DPoPAccepted ath ttl now st st' c p :=
  validateDPoP_valid ath ttl now st st' c h

/-- **every other answer leaves the jti store unchanged** (so a wrong guess cannot burn somebody else's proof, and a store
    failure yields no verdict at all) -/
theorem dpop_not_valid_leaves_state (ath : String → String) (ttl now : Nat) (st : Store Unit) (c : DPoPCheck)
    (h : (validateDPoP ath ttl now st c).2 ≠ .ok .valid) : (validateDPoP ath ttl now st c).1 = st := by
  rcases validateDPoP_state ath ttl now st c with hv | hs
  · exact absurd hv h
  · exact hs

/-- **dpop_proof_accepted_at_most_once.** After a proof was answered `valid` at `t₁`, EVERY later validation (after any
    history of other validations) of any proof with the same jti within the lifetime of an access token is refused -
    whatever thumbprint, method, URL or token it is presented with. -/
theorem dpop_proof_accepted_at_most_once (ath : String → String) (ttl : Nat) (httl : ttl ≠ 0)
    (st st₁ : Store Unit) (t₁ : Nat) (c₁ : DPoPCheck) (h₁ : validateDPoP ath ttl t₁ st c₁ = (st₁, .ok .valid))
    (between : List (Nat × DPoPCheck)) (hlater : ∀ x ∈ between, t₁ ≤ x.1)
    (t₂ : Nat) (hin : t₂ ≤ t₁ + ttl) (c₂ : DPoPCheck) (p₁ p₂ : DPoPProof)
    (hp₁ : c₁.proof = some p₁) (hp₂ : c₂.proof = some p₂) (hsame : p₂.jti = p₁.jti) :
    (validateDPoP ath ttl t₂ (runDPoP ath ttl between st₁) c₂).2 ≠ .ok .valid := by
  obtain ⟨p, hacc⟩ := validateDPoP_valid ath ttl t₁ st st₁ c₁ h₁
  have hpp : p = p₁ := by
    have := hacc.parsed
    rw [hp₁] at this
    exact (Option.some.inj this).symm
  subst hpp
  have hlive : Live st₁ p.jti (t₁ + ttl) := by rw [hacc.effect]; exact live_put_self st t₁ ttl p.jti httl
  have hlive' := runDPoP_live ath ttl httl p.jti (t₁ + ttl) between st₁
    (fun x hx => by have := hlater x hx; omega) hlive
  rw [← hsame] at hlive'
  exact validateDPoP_rejects_live ath ttl t₂ _ c₂ p₂ hp₂ (t₁ + ttl) hlive' hin

/-! non-vacuity: a matching proof is valid once, then refused (also for another URL); each single mismatch is refused and
    stores nothing -/
private def demoProof : DPoPProof := ⟨"jkt#1", "POST", some "https://rs.example/api", .str "ath(tok#0)", "jti-1"⟩
private def demoCheck : DPoPCheck :=
  { proof := some demoProof, thumbprint := "jkt#1", method := "POST", url := some "https://rs.example/api", token := "tok#0" }
private def demoAth (t : String) : String := "ath(" ++ t ++ ")"

example : (validateDPoP demoAth 900 100 [] demoCheck).2 = .ok .valid := by decide
example : (validateDPoP demoAth 900 1000 (validateDPoP demoAth 900 100 [] demoCheck).1
    { demoCheck with url := some "https://rs.example/other" }).2 = .ok (.invalid "url mismatch") := by decide
example : (validateDPoP demoAth 900 1000 (validateDPoP demoAth 900 100 [] demoCheck).1 demoCheck).2 =
    .ok (.invalid "jti already used") := by decide
example : (validateDPoP demoAth 900 100 [] { demoCheck with thumbprint := "jkt#2" }).2 = .ok (.invalid "jkt mismatch") ∧
    (validateDPoP demoAth 900 100 [] { demoCheck with method := "post" }).2 = .ok (.invalid "method mismatch") ∧
    (validateDPoP demoAth 900 100 [] { demoCheck with token := "tok#1" }).2 = .ok (.invalid "ath/token claim mismatch") ∧
    (validateDPoP demoAth 900 100 [] { demoCheck with fault := true }).2 = .err "jti-store-error" ∧
    (validateDPoP demoAth 900 100 [] { demoCheck with fault := true }).1.length = 0 ∧
    (validateDPoP demoAth 900 100 [] demoCheck).1.length = 1 := by decide

private theorem app_left_cancel (p a b : String) (h : p ++ a = p ++ b) : a = b := by
  have := congrArg String.toList h
  simp only [String.toList_append] at this
  exact String.toList_inj.mp (List.append_cancel_left this)
private theorem app_right_cancel (s a b : String) (h : a ++ s = b ++ s) : a = b := by
  have := congrArg String.toList h
  simp only [String.toList_append] at this
  exact String.toList_inj.mp (List.append_cancel_right this)

/-- the `cnf` member introspection renders determines the thumbprint -/
theorem cnf_render_inj (a b : String) (h : "{\"jkt\":" ++ jstr a ++ "}" = "{\"jkt\":" ++ jstr b ++ "}") : a = b := by
  have h1 := app_right_cancel _ _ _ h
  have h2 := app_left_cancel _ _ _ h1
  unfold jstr at h2
  exact app_left_cancel _ _ _ (app_right_cancel _ _ _ h2)

/-- **dpop_binding_end_to_end (issuance → introspection → validation).** For a token issued at `t` (any history before and
    after): if at `now` introspection answers active and the resource server validates a proof of possession against the
    `cnf.jkt` of that answer, then `valid` implies the token was issued key-bound, the proof was made with exactly the key proven
    at issuance, its `ath` names exactly this token, the token is unexpired and the proof is used for the first time. -/
theorem dpop_binding_end_to_end (cfg : Cfg) (sha : String → String) (hchk : cfg.emptyVpChecked = true)
    (httl : cfg.nonceTtl ≠ 0) (httl' : cfg.tokenTtl ≠ 0) (hsame : cfg.tokenTtl = cfg.tokenValidity)
    (pre post : List (Nat × Op)) (t : Nat) (op : Op) (name : String) (rec : TokenRec)
    (hwf : HistWF (pre ++ (t, op) :: post))
    (hiss : Issued cfg sha (after cfg sha pre {}) t op name rec) (now : Nat)
    (r : Introspection) (hint : introspect cfg (after cfg sha (pre ++ (t, op) :: post) {}) now name = .ok (some r))
    (athf : String → String) (ttl : Nat) (st st' : Store Unit) (c : DPoPCheck) (htok : c.token = name)
    (hthumb : r.cnf = some ("{\"jkt\":" ++ jstr c.thumbprint ++ "}"))
    (hv : validateDPoP athf ttl now st c = (st', .ok .valid)) :
    ∃ d p, rec.dpop = some d ∧ c.proof = some p ∧ p.jkt = d.jkt ∧ p.ath = .str (athf name) ∧
      now ≤ t + cfg.tokenValidity ∧ st.get now p.jti = none := by
  have hf := introspect_faithful cfg sha hchk httl httl' hsame pre post t op name rec hwf hiss now
  rw [hint] at hf
  by_cases hle : now ≤ t + cfg.tokenValidity
  · rw [if_pos hle] at hf
    cases hres : firstReserved cfg.reserved rec.claims with
    | some k => rw [hres] at hf; cases hf
    | none =>
      rw [hres] at hf
      simp only at hf
      have hr : r = _ := Option.some.inj (Res.ok.inj hf)
      rw [hr] at hthumb
      simp only at hthumb
      cases hd : rec.dpop with
      | none => rw [hd] at hthumb; cases hthumb
      | some d =>
        rw [hd] at hthumb
        have hj : d.jkt = c.thumbprint := cnf_render_inj _ _ (Option.some.inj hthumb)
        obtain ⟨p, hacc⟩ := validateDPoP_valid athf ttl now st st' c hv
        refine ⟨d, p, rfl, hacc.parsed, ?_, ?_, hle, hacc.fresh⟩
        · rw [hacc.key, hj]
        · rw [hacc.token, htok]
  · rw [if_neg hle] at hf
    cases hf

/-! non-vacuity: the code-flow token of `demoHistory` is bound to THUMB; a proof by that key for that token is valid against the
    introspected thumbprint, a proof by another key is not -/
example : (match introspect witnessCfg (after witnessCfg demoSha demoHistory {}) 500 "tok#0" with
      | .ok (some r) => r.cnf
      | _ => none) = some ("{\"jkt\":" ++ jstr "THUMB" ++ "}") ∧
    (validateDPoP demoAth 900 500 [] { demoCheck with thumbprint := "THUMB", proof := some { demoProof with jkt := "THUMB" } }).2
      = .ok .valid ∧
    (validateDPoP demoAth 900 500 [] { demoCheck with thumbprint := "THUMB" }).2 = .ok (.invalid "jkt mismatch") := by decide

end Nuts.C02.Props
