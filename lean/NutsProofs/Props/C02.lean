/-
  C02 — access tokens are issued only after the full presentation checks; introspection is faithful.
  ONLY property theorems (+ non-vacuity examples + `fact_*` obligations on the regenerated facts).
  Model: NutsModel/C02/Token.lean. Helper lemmas: NutsProofs/Lemmas/C02.lean.
  Facts: NutsModel/Facts/C02.lean is REGENERATED from /repo on every run.
-/
import NutsModel.C02.Token
import NutsModel.Facts.C02
import NutsProofs.Lemmas.C02

namespace Nuts.C02.Props
open Nuts.C02

/-! ### Obligations on the regenerated facts (a source change flips these) -/

/-- the check chain of `handleS2SAccessTokenRequest`, in source order, is the one `issueS2S` mirrors -/
theorem fact_s2s_chain : Facts.C02.chainS2S =
    ["ParseEnvelope", "ParsePresentationSubmission",
     "for{", "validateS2SPresentationMaxValidity", "validatePresentationSigner", "validatePresentationAudience", "}",
     "presentationDefinitionForScope", "newPEXConsumer", "fulfill",
     "for{", "validateS2SPresentationNonce", "}",
     "dpopFromRequest",
     "for{", "Verifier.VerifyVP", "}",
     "subjectToBaseURL", "createAccessToken", "HandleTokenRequest200JSONResponse"] := by decide

theorem fact_token_request_chain : Facts.C02.chainHandleTokenRequest =
    ["subjectExists", "handleAccessTokenRequest", "handleS2SAccessTokenRequest"] := by decide

/-- the nonce is checked and registered by one `PutIfAbsent` (which reads, and stores only when absent) -/
theorem fact_s2s_nonce_chain :
    Facts.C02.chainS2SNonce = ["extractNonce", "s2sNonceStore.PutIfAbsent"] ∧
    Facts.C02.chainPutIfAbsent.filter (fun x => x = "Get" ∨ x = "Put" ∨ x = "Delete") = ["Get", "Put"] := by decide

theorem fact_validate_signer_chain : Facts.C02.chainValidateSigner = ["PresentationSigner", "PresenterIsCredentialSubject"] := by decide

theorem fact_fulfill_chain : Facts.C02.chainFulfill = ["for{", "}", "isFulfilled", "Validate"] := by decide

theorem fact_create_access_token_chain : Facts.C02.chainCreateAccessToken =
    ["credentialMap", "resolveInputDescriptorValues", "GenerateNonce", "Add", "for{", "}", "accessTokenServerStore.Put"] := by decide

theorem fact_code_token_chain : Facts.C02.chainCodeToken =
    ["defer{", "oauthCodeStore.Delete", "}", "oauthCodeStore.GetAndDelete", "validatePKCEParams", "dpopFromRequest",
     "subjectToBaseURL", "createAccessToken", "HandleTokenRequest200JSONResponse"] := by decide

theorem fact_authorize_response_chain : Facts.C02.chainAuthorizeResponse =
    ["ParseEnvelope", "oauthClientStateStore.Get", "redirectURI", "validatePresentationNonce", "withCallbackURI",
     "ParsePresentationSubmission", "withCallbackURI",
     "for{", "validatePresentationSigner", "withCallbackURI", "validatePresentationAudience", "withCallbackURI", "}",
     "for{", "Verifier.VerifyVP", "}",
     "fulfill", "oauthClientStateStore.Put", "next", "nextOpenID4VPFlow", "GenerateNonce", "oauthCodeStore.Put",
     "AddQueryParams"] := by decide

theorem fact_presentation_nonce_chain : Facts.C02.chainPresentationNonce =
    ["for{", "extractChallenge", "extractNonce", "Contains", "}", "for{", "oauthNonceStore.Delete", "}",
     "oauthNonceStore.GetAndDelete"] := by decide

theorem fact_introspect_chain : Facts.C02.chainIntrospect =
    ["accessTokenServerStore.Get", "Before", "JWK.Thumbprint", "EncodeToString", "Unix", "Unix", "for{", "}"] := by decide

theorem fact_introspect_endpoints :
    Facts.C02.chainIntrospectPlain = ["Contains", "introspectAccessToken", "IntrospectAccessToken200JSONResponse"] ∧
    Facts.C02.chainIntrospectExtended = ["Contains", "introspectAccessToken", "IntrospectAccessTokenExtended200JSONResponse"] ∧
    Facts.C02.plainIntrospectionNilled = ["Vps", "PresentationDefinitions", "PresentationSubmissions"] ∧
    Facts.C02.typesWithMarshalJSON = ["IntrospectAccessToken200JSONResponse", "ExtendedTokenIntrospectionResponse"] := by decide

/-- `GetAndDelete` reads before it deletes (whatever locking surrounds it) -/
theorem fact_get_and_delete :
    Facts.C02.chainGetAndDelete.filter (fun x => x = "Get" ∨ x = "Delete") = ["Get", "Delete"] := by decide

/-- `VerifyVP(presentation, verifyVCs = true, allowUntrustedVCs = true, validAt = nil)` in both flows -/
theorem fact_verifyvp_args :
    Facts.C02.s2sVerifyVPArgs = ["presentation", "true", "true", "nil"] ∧
    Facts.C02.codeVerifyVPArgs = ["presentation", "true", "true", "nil"] := by decide

theorem fact_create_token_args :
    Facts.C02.s2sCreateTokenArgs = ["issuerURL.String()", "clientID", "time.Now()", "scope", "*pexConsumer", "dpopProof"] ∧
    Facts.C02.codeCreateTokenArgs = ["issuerURL.String()", "oauthSession.ClientID", "time.Now()", "oauthSession.Scope",
      "*oauthSession.OpenID4VPVerifier", "dpopProof"] := by decide

theorem fact_access_token_init : Facts.C02.accessTokenInit =
    ["DPoP=dpopToken", "Token=crypto.GenerateNonce()", "Issuer=issuerURL", "IssuedAt=issueTime", "ClientId=clientID",
     "Expiration=issueTime.Add(accessTokenValidity)", "Scope=scope", "PresentationSubmissions=pexState.Submissions",
     "PresentationDefinitions=pexState.RequiredPresentationDefinitions", "InputDescriptorConstraintIdMap=fieldsMap"] := by decide

theorem fact_token_response_init : Facts.C02.tokenResponseInit =
    ["AccessToken=accessToken.Token", "ExpiresIn=&expiresIn", "Scope=&scope", "TokenType=AccessTokenTypeBearer"] := by decide

theorem fact_introspection_init : Facts.C02.introspectionInit =
    ["Active=true", "Cnf=cnf", "Iat=&iat", "Exp=&exp", "Iss=&token.Issuer", "ClientId=&token.ClientId",
     "Scope=&token.Scope", "Vps=&token.VPToken", "PresentationDefinitions=&token.PresentationDefinitions",
     "PresentationSubmissions=&token.PresentationSubmissions"] ∧
    Facts.C02.additionalPropertiesSource = ["token.InputDescriptorConstraintIdMap"] := by decide

theorem fact_validity_conditions :
    Facts.C02.s2sValidityConds = ["created == nil || expires == nil", "expires.Sub(*created) > s2sMaxPresentationValidity"] ∧
    Facts.C02.ldProofValidAtConds = ["o.Created.After(at.Add(maxSkew))", "o.Expires != nil && o.Expires.Add(maxSkew).Before(at)"] ∧
    Facts.C02.verifierValidAtArgs = ["validAt", "maxSkew"] := by decide

/-- the token store keeps a token exactly as long as it is valid; the code-flow stores share one timeout -/
theorem fact_ttls :
    Facts.C02.accessTokenStoreTtlMs = Facts.C02.accessTokenValidityMs ∧
    Facts.C02.oauthCodeStoreTtlMs = Facts.C02.oauthFlowTimeoutMs ∧
    Facts.C02.oauthNonceStoreTtlMs = Facts.C02.oauthFlowTimeoutMs ∧
    Facts.C02.oauthClientStateStoreTtlMs = Facts.C02.oauthFlowTimeoutMs ∧
    0 < Facts.C02.s2sNonceTtlMs ∧ 0 < Facts.C02.accessTokenStoreTtlMs := by decide

theorem fact_pkce : Facts.C02.pkceMethods = ["S256"] ∧ Facts.C02.chainValidatePKCE = ["Sum256", "EncodeToString"] := by decide

/-- the member names the model's `Introspection.std` knows are exactly the response struct's JSON names, and the
    generated marshaller assigns exactly those, then the additional properties -/
theorem fact_introspection_fields :
    Facts.C02.introspectionFields =
      ["active", "aud", "client_id", "cnf", "exp", "iat", "iss", "presentation_definitions",
       "presentation_submissions", "scope", "vps"] ∧
    Facts.C02.marshalAssignOrder = Facts.C02.introspectionFields ++ ["*"] := by decide

/-- **every** standard member name of the introspection response is a reserved claim name -/
theorem fact_reserved_covers_fields : ∀ k ∈ Facts.C02.introspectionFields, k ∈ Facts.C02.reservedClaims := by decide

/-- the credential-less branch of `validatePresentationSigner` also compares with the expected subject -/
theorem fact_empty_vp_checked : Facts.C02.emptyVpBranchComparesExpected = true := by decide

/-- the s2s nonce is remembered for the whole window in which the verifier accepts the presentation -/
theorem fact_nonce_ttl_covers_window :
    Facts.C02.s2sMaxValidityMs + 2 * Facts.C02.verifierMaxSkewMs ≤ Facts.C02.s2sNonceTtlMs := by decide

/-! ### vp_token-bearer grant: a 200 answer implies every conjunct -/

/-- **token_only_if (vp_token-bearer grant).** Whatever the state of the server and whatever the request:
    if the token endpoint answers 200 then the tenant exists, every presentation is valid for at most the allowed
    window, is signed by `s`, every credential in it has subject `s` (ONE `s` for all presentations of the request),
    is addressed to this tenant's authorization-server URL, carries a non-empty nonce that the server has not seen
    (and no two presentations share one), verifies (VerifyVP verdict and JSON-LD time window at the current time),
    the DPoP header (if any) parsed, and the submission validates against a definition that is configured for
    exactly the requested scope. The 200 also burns the nonces and stores exactly one token record. -/
theorem s2s_token_only_if (cfg : Cfg) (w w' : World) (now : Nat) (r : S2SReq) (resp : TokenResponse)
    (hchk : cfg.emptyVpChecked = true) (httl : cfg.nonceTtl ≠ 0) (hwf : ∀ vp ∈ r.vps, vp.signer ≠ some "")
    (h : issueS2S cfg w now r = (w', .ok resp)) :
    ∃ s d, S2SChecked cfg w now r s d ∧ S2SEffect cfg w w' now r d resp :=
  issueS2S_ok cfg w w' now r resp hchk httl hwf h

/-- **defect_combination_rejected.** For EVERY non-empty set of single defects present in a request - in any
    combination, whatever else is right or wrong with the request and whatever the server state - no token. -/
theorem s2s_defect_combination_rejected (cfg : Cfg) (w : World) (now : Nat) (r : S2SReq)
    (hchk : cfg.emptyVpChecked = true) (httl : cfg.nonceTtl ≠ 0) (hwf : ∀ vp ∈ r.vps, vp.signer ≠ some "")
    (ds : List Defect) (hne : ds ≠ []) (hds : ∀ x ∈ ds, x.present cfg w now r) :
    ∀ resp, (issueS2S cfg w now r).2 ≠ .ok resp := by
  intro resp hok
  obtain ⟨x, rest, rfl⟩ := List.exists_cons_of_ne_nil hne
  have h : issueS2S cfg w now r = ((issueS2S cfg w now r).1, .ok resp) := by rw [← hok]
  obtain ⟨s, d, hc, _⟩ := issueS2S_ok cfg w _ now r resp hchk httl hwf h
  exact defect_contradicts_checked cfg w now r s d hc x (hds x List.mem_cons_self)

/-! ### introspection -/

/-- **claims_cannot_override.** If every standard member name is reserved, then for every stored token and every
    constraint-id map: either introspection errors, or in the marshalled RFC7662 answer EVERY standard member has
    its standard value (absent members stay absent) - whatever the order in which the marshaller assigns. -/
theorem claims_cannot_override (cfg : Cfg) (hres : ∀ k ∈ Facts.C02.introspectionFields, k ∈ cfg.reserved)
    (w : World) (now : Nat) (tok : String) (r : Introspection) (h : introspect cfg w now tok = .ok (some r))
    (order : List String) (k : String) (hk : k ∈ Facts.C02.introspectionFields) :
    objGet (marshal order r) k = if k ∈ order then r.std k else none := by
  obtain ⟨t, _, _, _, hnone, hr⟩ := introspect_some cfg w now tok r h
  have hadd : k ∉ keys r.additional := by
    rw [hr]; exact firstReserved_none cfg.reserved t.claims hnone k (hres k hk)
  have hstar : k ≠ "*" := by
    intro he; subst he; revert hk; decide
  have := objGet_marshal_fold r k hstar hadd order []
  rw [marshal, this]
  split
  · cases r.std k <;> rfl
  · rfl

/-- the same for the configuration the source has today (reserved list and marshal order regenerated) -/
theorem claims_cannot_override_today (cfg : Cfg) (hcfg : cfg.reserved = Facts.C02.reservedClaims)
    (w : World) (now : Nat) (tok : String) (r : Introspection) (h : introspect cfg w now tok = .ok (some r))
    (k : String) (hk : k ∈ Facts.C02.introspectionFields) :
    objGet (marshal Facts.C02.marshalAssignOrder r) k = r.std k := by
  have hres : ∀ k ∈ Facts.C02.introspectionFields, k ∈ cfg.reserved := by
    rw [hcfg]; exact fact_reserved_covers_fields
  rw [claims_cannot_override cfg hres w now tok r h _ k hk]
  rw [fact_introspection_fields.2]
  simp [hk]

/-- why the reserved list matters: with the marshaller's order (additional properties last) a claim named like a
    standard member that is NOT reserved replaces it -/
example : objGet (marshal Facts.C02.marshalAssignOrder
      { active := true, cnf := some "{\"jkt\":\"KEY\"}", additional := [("cnf", "{\"jkt\":\"ATTACKER\"}")] }) "cnf"
    = some "{\"jkt\":\"ATTACKER\"}" := by decide

end Nuts.C02.Props
