/-
  C12 — discovery registration (NutsModel/C12/Registration.lean): an accepted registration presents no surplus
  credential — every presented credential is (same id, same raw form) one that `Match` selected, and what `Match`
  selects satisfies an input descriptor of the service's definition (`match_sound`).
-/
import NutsModel.C12.Registration
import NutsProofs.Props.C12

namespace Nuts.C12.Props
open Nuts Nuts.C12

theorem alignedBy_mem {R : Nat → Mapping → Cred → Prop} : ∀ (ms : List Mapping) (vcs : List Cred) (i : Nat),
    AlignedBy R i ms vcs → ∀ u ∈ vcs, ∃ j m, m ∈ ms ∧ R j m u
  | [], [], _, _, u, hu => by cases hu
  | [], _ :: _, _, h, _, _ => by simp [AlignedBy] at h
  | _ :: _, [], _, h, _, _ => by simp [AlignedBy] at h
  | m :: ms, c :: cs, i, h, u, hu => by
    simp only [AlignedBy] at h
    cases hu with
    | head => exact ⟨i, m, List.mem_cons_self, h.1⟩
    | tail _ hu' =>
      obtain ⟨j, m', hm', hr⟩ := alignedBy_mem ms cs (i + 1) h.2 u hu'
      exact ⟨j, m', List.mem_cons_of_mem _ hm', hr⟩

/-- SURPLUS / DECOY credentials are refused at registration: when `validateRegistration` accepts, every presented
    credential has an id and is — same id, same raw form — a credential `u` selected by `Match` on the presented
    credentials, and `u` stands (vcEqual) for a presented credential `v` that SATISFIES an input descriptor `d` of the
    definition (constraints, definition format, descriptor format). -/
theorem registration_rejects_surplus (re : Regex) (idOf : Cred → Option String) (pd : PD) (presented : List Cred)
    (h : validateRegistrationPE Facts.C12.cfg re idOf pd presented = .ok ()) :
    ∀ c ∈ presented, ∃ u d v id, idOf c = some id ∧ idOf u = some id ∧ u.raw = c.raw ∧
      d ∈ pd.descs ∧ v ∈ presented ∧ Satisfies re pd d v ∧ v.key = u.key := by
  intro c hc
  unfold validateRegistrationPE at h
  split at h
  · cases h
  · split at h
    · cases h
    · cases h
    · next ms creds hm =>
      split at h
      · next hall =>
        have hcc := List.all_eq_true.1 hall c hc
        unfold containsCredential at hcc
        obtain ⟨u, hu, hpair⟩ := List.any_eq_true.1 hcc
        obtain ⟨hal, _⟩ := match_sound re pd presented ms creds hm
        obtain ⟨j, m, _, d, v, hd, hv, hs, hk, _⟩ := alignedBy_mem ms creds 0 hal u hu
        cases hiu : idOf u with
        | none => simp [hiu] at hpair
        | some a =>
          cases hic : idOf c with
          | none => simp [hiu, hic] at hpair
          | some b =>
            simp [hiu, hic] at hpair
            exact ⟨u, d, v, b, rfl, by rw [hiu, hpair.1], hpair.2, hd, hv, hs, hk⟩
      · cases h

/-- a registration whose credentials do not fulfil the definition, or that carries a credential without id, is refused;
    and the check never panics -/
theorem registration_total (re : Regex) (idOf : Cred → Option String) (pd : PD) (presented : List Cred) (site : String) :
    validateRegistrationPE Facts.C12.cfg re idOf pd presented ≠ .panic site := by
  unfold validateRegistrationPE
  split
  · intro h; cases h
  · split
    · intro h; cases h
    · next s hm => exact absurd hm (pe_total_match re pd presented s)
    · split <;> (intro h; cases h)

/-- the source of `validateRegistration`'s PE part and of `containsCredential` (regenerated) -/
theorem fact_registration_source :
    Facts.C12.validateRegistrationShape.take 1 = ["for _, cred := range presentation.VerifiableCredential { if cred.ID == nil { return errCredentialWithoutID } }"] ∧ Facts.C12.validateRegistrationShape.drop 3 = ["creds, _, err := definition.PresentationDefinition.Match(presentation.VerifiableCredential)", "if err != nil { return fmt.Errorf(\"...\", err) }", "for _, presented := range presentation.VerifiableCredential { if !containsCredential(creds, presented) { return errPresentationDoesNotFulfillDefinition } }", "return nil"] ∧ Facts.C12.containsCredentialShape = ["for _, curr := range list { if curr.ID != nil && credential.ID != nil && curr.ID.String() == credential.ID.String() && curr.Raw() == credential.Raw() { return true } }", "return false"] := ⟨rfl, rfl, rfl⟩

/-! non-vacuity -/
def regId : Cred → Option String := fun c => match objGet (match c.tree with | .obj fs => fs | _ => []) "id" with | some (.str s) => some s | _ => none
def regCred : Cred := { demoCred with tree := .obj [("id", .str "urn:1"), ("type", .arr [.str "VerifiableCredential", .str "AlphaCredential"])] }
def regDecoy : Cred := { demoDecoy with tree := .obj [("id", .str "urn:2"), ("type", .str "Other")] }
example : validateRegistrationPE Cfg.fixed reDemo regId demoPD [regCred] = .ok () := by decide
example : (validateRegistrationPE Cfg.fixed reDemo regId demoPD [regCred, regDecoy]).cls = "err:not-fulfilled" := by decide
example : (validateRegistrationPE Cfg.fixed reDemo regId demoPD [regDecoy]).cls = "err:match" := by decide
example : (validateRegistrationPE Cfg.fixed reDemo regId demoPD [demoCred]).cls = "err:no-id" := by decide


/-! ### the client side: discovery/client.go findCredentialsAndBuildPresentation + the DID loop of `activate` -/

/-- the wallet the client matches: its stored credentials, then the self-attested registration credential (if any) -/
def clientCredentials (wallet : List Cred) (regCred : Option Cred) : List Cred :=
  match regCred with | some c => wallet ++ [c] | none => wallet

/-- what a node REGISTERS is sound: every credential put into the registration presentation stands (vcEqual) for a
    credential of the node's own wallet (or the registration credential) that SATISFIES an input descriptor of the
    service's definition — for all definitions and wallets; never a decoy -/
theorem client_registration_sound (re : Regex) (pd : PD) (wallet : List Cred) (regCred : Option Cred) (vcs : List Cred)
    (h : clientRegistrationCreds Facts.C12.cfg re pd wallet regCred = .ok vcs) :
    ∀ u ∈ vcs, ∃ d v, d ∈ pd.descs ∧ v ∈ clientCredentials wallet regCred ∧ Satisfies re pd d v ∧ v.key = u.key := by
  intro u hu
  unfold clientRegistrationCreds at h
  simp only at h
  split at h
  · cases h
  · cases h
  · next ms matching hm =>
    injection h with h; subst h
    obtain ⟨hal, _⟩ := match_sound re pd _ ms matching hm
    obtain ⟨j, m, _, d, v, hd, hv, hs, hk, _⟩ := alignedBy_mem ms matching 0 hal u hu
    exact ⟨d, v, hd, hv, hs, hk⟩

/-- the client never panics, and it registers exactly when `Match` succeeds (the error is Match's own) -/
theorem client_registration_total (re : Regex) (pd : PD) (wallet : List Cred) (regCred : Option Cred) (site : String) :
    clientRegistrationCreds Facts.C12.cfg re pd wallet regCred ≠ .panic site := by
  unfold clientRegistrationCreds
  simp only
  split
  · intro h; cases h
  · next s hm => exact absurd hm (pe_total_match re pd _ s)
  · intro h; cases h

/-- client → server, end to end: when the server's `validateRegistration` accepts what a client built, every credential
    of that registration has an id and satisfies (as a credential of the PRESENTATION) an input descriptor — and it also
    came from the client's wallet satisfying a descriptor there (both halves, composed) -/
theorem client_registration_accepted_end_to_end (re : Regex) (idOf : Cred → Option String) (pd : PD) (wallet : List Cred)
    (regCred : Option Cred) (vcs : List Cred)
    (hc : clientRegistrationCreds Facts.C12.cfg re pd wallet regCred = .ok vcs)
    (hs : validateRegistrationPE Facts.C12.cfg re idOf pd vcs = .ok ()) :
    ∀ c ∈ vcs, (∃ d v, d ∈ pd.descs ∧ v ∈ clientCredentials wallet regCred ∧ Satisfies re pd d v ∧ v.key = c.key) ∧
      (∃ u d v id, idOf c = some id ∧ idOf u = some id ∧ u.raw = c.raw ∧ d ∈ pd.descs ∧ v ∈ vcs ∧ Satisfies re pd d v ∧ v.key = u.key) :=
  fun c hcm => ⟨client_registration_sound re pd wallet regCred vcs hc c hcm, registration_rejects_surplus re idOf pd vcs hs c hcm⟩

theorem activateLoop_reg_pos : ∀ (results : List RegResult), 0 < (activateLoop results).1 ↔ RegResult.registered ∈ results
  | [] => by simp [activateLoop]
  | r :: rest => by
    have ih := activateLoop_reg_pos rest
    unfold activateLoop
    cases r <;> simp [ih]

theorem activateLoop_errs_zero : ∀ (results : List RegResult), (activateLoop results).2 = 0 ↔ RegResult.failed ∉ results
  | [] => by simp [activateLoop]
  | r :: rest => by
    have ih := activateLoop_errs_zero rest
    unfold activateLoop
    cases r <;> simp [ih]

/-- `activate` succeeds exactly when at least one of the subject's DIDs was registered — for ALL outcome sequences -/
theorem activate_ok_iff_some_did_registered (results : List RegResult) :
    activateVerdict results = "ok" ↔ RegResult.registered ∈ results := by
  have hp := activateLoop_reg_pos results
  unfold activateVerdict
  cases results with
  | nil => simp
  | cons r rest =>
    simp only [List.length_cons]
    have : ((rest.length + 1 == 0) = false) := by simp
    rw [this]; simp only [Bool.false_eq_true, if_false]
    generalize hl : activateLoop (r :: rest) = p at hp
    obtain ⟨reg, errs⟩ := p
    simp only at hp ⊢
    by_cases h0 : reg = 0
    · subst h0
      have hn : RegResult.registered ∉ r :: rest := fun hm => by have := hp.2 hm; omega
      simp only [BEq.rfl, if_true]
      constructor
      · intro h; split at h <;> simp at h
      · intro h; exact absurd h hn
    · have : (reg == 0) = false := by simpa using h0
      simp only [this, Bool.false_eq_true, if_false, true_iff]
      exact hp.1 (by omega)

/-- "missing credentials" is reported for the subject only when EVERY DID merely lacked credentials (no other error is
    swallowed into it, and no registered DID is forgotten) -/
theorem activate_nocred_iff_all_dids_lack_credentials (results : List RegResult) :
    activateVerdict results = "err:failed:nocred" ↔ results ≠ [] ∧ ∀ r ∈ results, r = RegResult.noCredentials := by
  have hp := activateLoop_reg_pos results
  have he := activateLoop_errs_zero results
  unfold activateVerdict
  cases results with
  | nil => simp
  | cons r rest =>
    simp only [List.length_cons]
    have : ((rest.length + 1 == 0) = false) := by simp
    rw [this]; simp only [Bool.false_eq_true, if_false]
    generalize hl : activateLoop (r :: rest) = p at hp he
    obtain ⟨reg, errs⟩ := p
    simp only at hp he ⊢
    have hall : (RegResult.registered ∉ r :: rest ∧ RegResult.failed ∉ r :: rest) ↔ ∀ x ∈ r :: rest, x = RegResult.noCredentials := by
      constructor
      · intro ⟨h1, h2⟩ x hx
        cases x
        · exact absurd hx h1
        · rfl
        · exact absurd hx h2
      · intro h
        exact ⟨fun hm => (nomatch h _ hm), fun hm => (nomatch h _ hm)⟩
    by_cases h0 : reg = 0
    · subst h0
      have hn : RegResult.registered ∉ r :: rest := fun hm => by have := hp.2 hm; omega
      simp only [BEq.rfl, if_true]
      have hne : ((0 : Nat) != rest.length + 1) = true := by simp
      simp only [hne, Bool.true_and]
      by_cases e0 : errs = 0
      · subst e0
        simp only [BEq.rfl, if_true, true_iff]
        exact ⟨by simp, hall.1 ⟨hn, he.1 rfl⟩⟩
      · have : (errs == 0) = false := by simpa using e0
        simp only [this, Bool.false_eq_true, if_false]
        constructor
        · intro h; simp at h
        · intro ⟨_, h⟩
          exact absurd (he.2 (hall.2 h).2) e0
    · have : (reg == 0) = false := by simpa using h0
      simp only [this, Bool.false_eq_true, if_false]
      constructor
      · intro h; simp at h
      · intro ⟨_, h⟩
        exact absurd (hp.1 (by omega)) (hall.2 h).1

/-- the source of the client's PE part and of `activate`'s DID loop (regenerated): Match's second result is discarded,
    exactly `matchingCredentials` reaches `buildPresentation`; only `pe.ErrNoCredentials` is ignored in the loop and the
    subject fails iff no DID registered -/
theorem fact_client_registration_source :
    Facts.C12.clientRegistrationShape.drop 4 = ["matchingCredentials, _, err := service.PresentationDefinition.Match(credentials)", "const errStr = \"...\"", "if err != nil { return nil, fmt.Errorf(errStr, service.ID, subjectDID, err) }", "return r.buildPresentation(ctx, subjectDID, service, matchingCredentials, nil, nil)"] ∧
    (Facts.C12.clientRegistrationShape.drop 3).take 1 = ["if len(parameters) > 0 { registrationCredential = vc.VerifiableCredential{ Context: []ssi.URI{vc.VCContextV1URI(), credential.NutsV1ContextURI}, Type: []ssi.URI{vc.VerifiableCredentialTypeV1URI(), credential.DiscoveryRegistrationCredentialTypeV1URI()}, CredentialSubject: []interface{}{parameters}, } credentials = append(credentials, credential.AutoCorrectSelfAttestedCredential(registrationCredential, subjectDID)) }"] ∧
    (Facts.C12.clientActivateShape.drop 8).take 4 = ["var registeredDIDs []string", "var loopErrs []error", "for _, subjectDID := range subjectDIDs { err := r.registerPresentation(ctx, subjectDID, service, parameters) if err != nil { if !errors.Is(err, pe.ErrNoCredentials) { loopErrs = append(loopErrs, fmt.Errorf(\"...\", subjectDID.String(), err)) } else { log.Logger().Tracef(\"...\", service.ID, subjectID, subjectDID, err.Error()) } } else { registeredDIDs = append(registeredDIDs, subjectDID.String()) } }", "if len(registeredDIDs) == 0 { if len(registeredDIDs) != len(subjectDIDs) && len(loopErrs) == 0 { loopErrs = append(loopErrs, fmt.Errorf(\"...\", serviceID, subjectID, pe.ErrNoCredentials)) } return fmt.Errorf(\"...\", ErrPresentationRegistrationFailed, errors.Join(loopErrs...)) }"] ∧
    (Facts.C12.clientActivateShape.drop 6).take 1 = ["if len(subjectDIDs) == 0 { return fmt.Errorf(\"...\", ErrPresentationRegistrationFailed, ErrNoSupportedDIDMethods, subjectID) }"] := ⟨rfl, rfl, rfl, rfl⟩

example : clientRegistrationCreds Cfg.fixed reDemo demoPD [regDecoy, regCred] none = .ok [regCred] := by rfl
example : (clientRegistrationCreds Cfg.fixed reDemo demoPD [regDecoy] none).cls = "err:nocred" := by decide
example : activateVerdict [.noCredentials, .registered, .failed] = "ok" := by decide
example : activateVerdict [.noCredentials, .noCredentials] = "err:failed:nocred" := by decide
example : activateVerdict [.noCredentials, .failed] = "err:failed" := by decide
example : activateVerdict [] = "err:no-dids" := by decide

theorem alignedBy_length {R : Nat → Mapping → Cred → Prop} : ∀ (ms : List Mapping) (vcs : List Cred) (i : Nat),
    AlignedBy R i ms vcs → ms.length = vcs.length
  | [], [], _, _ => rfl
  | [], _ :: _, _, h => by simp [AlignedBy] at h
  | _ :: _, [], _, h => by simp [AlignedBy] at h
  | _ :: ms, _ :: cs, i, h => by
    simp only [AlignedBy] at h
    simp [alignedBy_length ms cs (i + 1) h.2]

/-- without submission requirements a registration is never partial: the client presents exactly one credential per
    input descriptor of the service's definition -/
theorem client_registration_never_partial (re : Regex) (pd : PD) (wallet : List Cred) (regCred : Option Cred) (vcs : List Cred)
    (hsr : pd.srs = []) (h : clientRegistrationCreds Facts.C12.cfg re pd wallet regCred = .ok vcs) :
    vcs.length = pd.descs.length := by
  unfold clientRegistrationCreds at h
  simp only at h
  split at h
  · cases h
  · cases h
  · next ms matching hm =>
    injection h with h; subst h
    obtain ⟨hal, hids⟩ := match_sound re pd _ ms matching hm
    have h1 := alignedBy_length ms matching 0 hal
    have h2 := congrArg List.length (hids hsr)
    simp at h2
    omega

/-- the client reports missing credentials (instead of registering a partial presentation) only when some input
    descriptor has NO satisfying credential in its wallet, or the evaluation itself failed (basic definitions;
    `hs` as in `match_complete_or_error`) -/
theorem client_registration_reports_missing (re : Regex) (pd : PD) (wallet : List Cred) (regCred : Option Cred)
    (hs : ∀ c ∈ clientCredentials wallet regCred, ∀ p v, getValueAtPath p c.tree = some v → EnumErrorsHideNothing Facts.C12.cfg re v)
    (hsr : pd.srs = []) (e : String) (h : clientRegistrationCreds Facts.C12.cfg re pd wallet regCred = .err e) :
    (∃ d ∈ pd.descs, ∀ c ∈ clientCredentials wallet regCred, ¬ Satisfies re pd d c) ∨
      ∃ e', matchConstraints Facts.C12.cfg re pd (clientCredentials wallet regCred) pd.descs = .err e' := by
  unfold clientRegistrationCreds at h
  simp only at h
  split at h
  · next e0 hm =>
    exact match_complete_or_error re pd _ hs hsr e0 hm
  · cases h
  · cases h

example : (clientRegistrationCreds Cfg.fixed reDemo demoPD [regDecoy, regCred] none).cls = "ok" ∧ demoPD.srs = [] := by decide

end Nuts.C12.Props
