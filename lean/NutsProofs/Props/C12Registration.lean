/-
  C12 — discovery registration (NutsModel/C12/Registration.lean): an accepted registration presents no surplus
  credential — every presented credential is (same id, same raw form) one that `Match` selected, and what `Match`
  selects satisfies an input descriptor of the service's definition (`match_sound`).
-/
import NutsModel.C12.Registration
import NutsProofs.Props.C12

namespace Nuts.C12.Props
open Nuts Nuts.C12

theorem alignedBy_mem {R : Nat → Mapping → Cred → Prop} : ∀ (ms : List Mapping) (vcs : List Cred) (i : Nat),
    AlignedBy R i ms vcs → ∀ u ∈ vcs, ∃ j m, m ∈ ms ∧ R j m u
  | [], [], _, _, u, hu => by cases hu
  | [], _ :: _, _, h, _, _ => by simp [AlignedBy] at h
  | _ :: _, [], _, h, _, _ => by simp [AlignedBy] at h
  | m :: ms, c :: cs, i, h, u, hu => by
    simp only [AlignedBy] at h
    cases hu with
    | head => exact ⟨i, m, List.mem_cons_self, h.1⟩
    | tail _ hu' =>
      obtain ⟨j, m', hm', hr⟩ := alignedBy_mem ms cs (i + 1) h.2 u hu'
      exact ⟨j, m', List.mem_cons_of_mem _ hm', hr⟩

/-- SURPLUS / DECOY credentials are refused at registration: when `validateRegistration` accepts, every presented
    credential has an id and is — same id, same raw form — a credential `u` selected by `Match` on the presented
    credentials, and `u` stands (vcEqual) for a presented credential `v` that SATISFIES an input descriptor `d` of the
    definition (constraints, definition format, descriptor format). -/
theorem registration_rejects_surplus (re : Regex) (idOf : Cred → Option String) (pd : PD) (presented : List Cred)
    (h : validateRegistrationPE Facts.C12.cfg re idOf pd presented = .ok ()) :
    ∀ c ∈ presented, ∃ u d v id, idOf c = some id ∧ idOf u = some id ∧ u.raw = c.raw ∧
      d ∈ pd.descs ∧ v ∈ presented ∧ Satisfies re pd d v ∧ v.key = u.key := by
  intro c hc
  unfold validateRegistrationPE at h
  split at h
  · cases h
  · split at h
    · cases h
    · cases h
    · next ms creds hm =>
      split at h
      · next hall =>
        have hcc := List.all_eq_true.1 hall c hc
        unfold containsCredential at hcc
        obtain ⟨u, hu, hpair⟩ := List.any_eq_true.1 hcc
        obtain ⟨hal, _⟩ := match_sound re pd presented ms creds hm
        obtain ⟨j, m, _, d, v, hd, hv, hs, hk, _⟩ := alignedBy_mem ms creds 0 hal u hu
        cases hiu : idOf u with
        | none => simp [hiu] at hpair
        | some a =>
          cases hic : idOf c with
          | none => simp [hiu, hic] at hpair
          | some b =>
            simp [hiu, hic] at hpair
            exact ⟨u, d, v, b, rfl, by rw [hiu, hpair.1], hpair.2, hd, hv, hs, hk⟩
      · cases h

/-- a registration whose credentials do not fulfil the definition, or that carries a credential without id, is refused;
    and the check never panics -/
theorem registration_total (re : Regex) (idOf : Cred → Option String) (pd : PD) (presented : List Cred) (site : String) :
    validateRegistrationPE Facts.C12.cfg re idOf pd presented ≠ .panic site := by
  unfold validateRegistrationPE
  split
  · intro h; cases h
  · split
    · intro h; cases h
    · next s hm => exact absurd hm (pe_total_match re pd presented s)
    · split <;> (intro h; cases h)

/-- the source of `validateRegistration`'s PE part and of `containsCredential` (regenerated) -/
theorem fact_registration_source :
    Facts.C12.validateRegistrationShape.take 1 = ["for _, cred := range presentation.VerifiableCredential { if cred.ID == nil { return errCredentialWithoutID } }"] ∧ Facts.C12.validateRegistrationShape.drop 3 = ["creds, _, err := definition.PresentationDefinition.Match(presentation.VerifiableCredential)", "if err != nil { return fmt.Errorf(\"...\", err) }", "for _, presented := range presentation.VerifiableCredential { if !containsCredential(creds, presented) { return errPresentationDoesNotFulfillDefinition } }", "return nil"] ∧ Facts.C12.containsCredentialShape = ["for _, curr := range list { if curr.ID != nil && credential.ID != nil && curr.ID.String() == credential.ID.String() && curr.Raw() == credential.Raw() { return true } }", "return false"] := ⟨rfl, rfl, rfl⟩

/-! non-vacuity -/
def regId : Cred → Option String := fun c => match objGet (match c.tree with | .obj fs => fs | _ => []) "id" with | some (.str s) => some s | _ => none
def regCred : Cred := { demoCred with tree := .obj [("id", .str "urn:1"), ("type", .arr [.str "VerifiableCredential", .str "AlphaCredential"])] }
def regDecoy : Cred := { demoDecoy with tree := .obj [("id", .str "urn:2"), ("type", .str "Other")] }
example : validateRegistrationPE Cfg.fixed reDemo regId demoPD [regCred] = .ok () := by decide
example : (validateRegistrationPE Cfg.fixed reDemo regId demoPD [regCred, regDecoy]).cls = "err:not-fulfilled" := by decide
example : (validateRegistrationPE Cfg.fixed reDemo regId demoPD [regDecoy]).cls = "err:match" := by decide
example : (validateRegistrationPE Cfg.fixed reDemo regId demoPD [demoCred]).cls = "err:no-id" := by decide

end Nuts.C12.Props
