/-
  C14 (deepening round 2026-09-28) — theorems about the construction side of a notifier
  (NutsModel.C14.Options): options, registry, which registration is a persistent subscriber, the non-persistent
  path, and the machine arithmetic of notifier.retry refined to the abstract `retryAttempts` of Notifier.lean.
-/
import NutsModel.C14.Options
import NutsModel.Facts.C14
import NutsProofs.Lemmas.C14Budget
import NutsProofs.Props.C14

namespace Nuts.C14.Props
open Nuts.C14

/-! ### options -/

theorem applyOpt_name (n : NCfg) (o : Opt) : (applyOpt n o).name = n.name := by cases o <;> rfl

theorem foldl_applyOpt_name (opts : List Opt) (n : NCfg) : (opts.foldl applyOpt n).name = n.name := by
  induction opts generalizing n with
  | nil => rfl
  | cons o os ih => simp only [List.foldl_cons]; rw [ih, applyOpt_name]

theorem newNotifier_name (d : Int) (name : String) (opts : List Opt) : (newNotifier d name opts).name = name :=
  foldl_applyOpt_name opts _

def isPersistency : Opt → Bool | .persistency _ => true | _ => false
def isFilter : Opt → Option Filter | .filter f => some f | _ => none

theorem foldl_applyOpt_persistent (opts : List Opt) (n : NCfg) :
    (opts.foldl applyOpt n).persistent = (n.persistent || opts.any isPersistency) := by
  induction opts generalizing n with
  | nil => simp
  | cons o os ih =>
    simp only [List.foldl_cons, List.any_cons]; rw [ih]
    cases o <;> simp [applyOpt, NCfg.persistent, isPersistency]

/-- **options_persistent_iff**: for EVERY option list, the notifier is persistent exactly when a `WithPersistency`
    option occurs in it — no other option, in any position, switches persistency on or off -/
theorem options_persistent_iff (d : Int) (name : String) (opts : List Opt) :
    (newNotifier d name opts).persistent = opts.any isPersistency := by
  unfold newNotifier; rw [foldl_applyOpt_persistent]; simp [NCfg.persistent]

theorem foldl_applyOpt_filters (opts : List Opt) (n : NCfg) :
    (opts.foldl applyOpt n).filters = n.filters ++ opts.filterMap isFilter := by
  induction opts generalizing n with
  | nil => simp
  | cons o os ih =>
    simp only [List.foldl_cons]; rw [ih]
    cases o <;> simp [applyOpt, isFilter, List.filterMap_cons]

/-- **options_filters_accumulate**: the notifier's filters are exactly the `WithSelectionFilter` options, in order;
    so it accepts an event iff every one of them does (none is dropped or overridden by a later option) -/
theorem options_filters_accumulate (d : Int) (name : String) (opts : List Opt) (pal : Bool) (pt : String) (ty : EvType) :
    (newNotifier d name opts).accepts pal pt ty = (opts.filterMap isFilter).all (fun f => f.test pal pt ty) := by
  unfold newNotifier NCfg.accepts; rw [foldl_applyOpt_filters]; simp

theorem foldl_applyOpt_delay_unchanged (post : List Opt) (n : NCfg) (hpost : ∀ o, o ∈ post → ∀ y, o ≠ .retryDelay y) :
    (post.foldl applyOpt n).retryDelay = n.retryDelay := by
  induction post generalizing n with
  | nil => rfl
  | cons o os ih =>
    simp only [List.foldl_cons]
    rw [ih _ (fun o' ho' => hpost o' (List.mem_cons_of_mem _ ho'))]
    cases o with
    | retryDelay y => exact absurd rfl (hpost _ (List.mem_cons_self ..) y)
    | _ => rfl

/-- a later `WithRetryDelay` overrides an earlier one (and the default); other trailing options leave it alone -/
theorem options_last_delay_wins (d : Int) (name : String) (pre post : List Opt) (x : Int)
    (hpost : ∀ o, o ∈ post → ∀ y, o ≠ .retryDelay y) :
    (newNotifier d name (pre ++ .retryDelay x :: post)).retryDelay = x := by
  unfold newNotifier
  rw [List.foldl_append, List.foldl_cons, foldl_applyOpt_delay_unchanged post _ hpost]
  rfl

/-- without any `WithRetryDelay` the default delay stays -/
theorem options_default_delay (d : Int) (name : String) (opts : List Opt) (h : ∀ o, o ∈ opts → ∀ y, o ≠ .retryDelay y) :
    (newNotifier d name opts).retryDelay = d := by
  unfold newNotifier; rw [foldl_applyOpt_delay_unchanged opts _ h]

example : (newNotifier 1000000000 "vdr" [.retryDelay 5, .persistency 1, .filter { type := some .payload }, .retryDelay 7, .counters]) =
    { name := "vdr", db := some 1, retryDelay := 7, filters := [{ type := some .payload }], ctx := 0, counters := true } := by decide

/-! ### registry (state.Notifier) -/

def NamesNodup (reg : List NCfg) : Prop := (reg.map (·.name)).Nodup

theorem register_keeps_nodup (d : Int) (reg : List NCfg) (name : String) (opts : List Opt) (h : NamesNodup reg) :
    NamesNodup (register d reg name opts).1 := by
  unfold register
  split
  · exact h
  · rename_i hn
    unfold NamesNodup at *
    simp only [List.map_append, List.map_cons, List.map_nil, newNotifier_name]
    refine List.nodup_append.mpr ⟨h, by simp, ?_⟩
    intro a ha b hb
    simp only [List.mem_singleton] at hb
    subst hb
    intro hab; subst hab
    apply hn
    obtain ⟨n, hn1, hn2⟩ := List.mem_map.mp ha
    exact List.any_eq_true.mpr ⟨n, hn1, by simp [hn2]⟩

/-- **registry_names_unique**: after ANY sequence of registrations (duplicates, any options) no two registered
    notifiers share a name — hence no two share a job shelf `_<name>_jobs` -/
theorem registry_names_unique (d : Int) (rs : List (String × List Opt)) : NamesNodup (registerAll d [] rs) := by
  suffices h : ∀ reg, NamesNodup reg → NamesNodup (registerAll d reg rs) from h [] List.nodup_nil
  induction rs with
  | nil => intro reg h; exact h
  | cons r rs ih => intro reg h; exact ih _ (register_keeps_nodup d reg r.1 r.2 h)

theorem register_prefix (d : Int) (reg : List NCfg) (name : String) (opts : List Opt) :
    ∃ tail, (register d reg name opts).1 = reg ++ tail := by
  unfold register; split
  · exact ⟨[], by simp⟩
  · exact ⟨_, rfl⟩

/-- **first_registration_stays**: a registered notifier is never displaced or altered by later registrations
    (a duplicate name is refused, `LoadOrStore` keeps the first): its position and configuration are final -/
theorem first_registration_stays (d : Int) (rs : List (String × List Opt)) (reg : List NCfg) (i : Nat) (n : NCfg)
    (h : reg[i]? = some n) : (registerAll d reg rs)[i]? = some n := by
  induction rs generalizing reg with
  | nil => exact h
  | cons r rs ih =>
    apply ih
    obtain ⟨tail, ht⟩ := register_prefix d reg r.1 r.2
    show ((register d reg r.1 r.2).1)[i]? = some n
    rw [ht, List.getElem?_append_left (by
      rcases Nat.lt_or_ge i reg.length with hl | hl
      · exact hl
      · rw [List.getElem?_eq_none hl] at h; cases h)]
    exact h

/-- a refused registration reports it and changes nothing; an accepted one is persistent iff it says WithPersistency -/
theorem register_duplicate_refused (d : Int) (reg : List NCfg) (name : String) (opts : List Opt)
    (h : reg.any (fun n => n.name == name) = true) : register d reg name opts = (reg, false) := by
  unfold register; simp [h]

example : (registerAll 1 [] [("a", [.persistency 1]), ("b", []), ("a", [.retryDelay 9])]).map (fun n => (n.name, n.persistent, n.retryDelay)) =
    [("a", true, 1), ("b", false, 1)] := by decide

/-! ### who is a persistent subscriber: the first statements of Save -/

/-- **save_proceeds_iff**: `Save` reaches "only schedule new events" exactly for a notifier that got `WithPersistency`
    with the store of the admission's write transaction and whose filters all accept; a non-persistent notifier never
    keeps a job; a notifier on another store makes `Save` fail (and `saveEvent` hands the error back) -/
theorem save_proceeds_iff (d : Int) (name : String) (opts : List Opt) (txdb : Nat) (pal : Bool) (pt : String) (ty : EvType) :
    saveKind (newNotifier d name opts) txdb pal pt ty = .proceed ↔
      (newNotifier d name opts).db = some txdb ∧ (opts.filterMap isFilter).all (fun f => f.test pal pt ty) = true := by
  rw [← options_filters_accumulate d name opts pal pt ty]
  unfold saveKind
  cases hdb : (newNotifier d name opts).db with
  | none => simp
  | some x =>
    by_cases hx : x = txdb
    · subst hx; by_cases ha : (newNotifier d name opts).accepts pal pt ty = true <;> simp [ha]
    · simp [hx]

theorem save_nonpersistent_iff (n : NCfg) (txdb : Nat) (pal : Bool) (pt : String) (ty : EvType) :
    saveKind n txdb pal pt ty = .nonPersistent ↔ n.persistent = false := by
  unfold saveKind NCfg.persistent
  cases n.db with
  | none => simp
  | some x => by_cases hx : x = txdb <;> simp [hx] <;> split <;> simp

example : saveKind (newNotifier 1 "gossip" [.filter { type := some .tx }]) 1 false "" .tx = .nonPersistent := by decide
example : saveKind (newNotifier 1 "x" [.persistency 2]) 1 false "" .tx = .differentDB := by decide
example : saveKind (newNotifier 1 "x" [.persistency 1, .filter { type := some .tx }]) 1 false "" .payload = .filtered := by decide
example : saveKind (newNotifier 1 "x" [.persistency 1, .filter { type := some .tx }]) 1 false "" .tx = .proceed := by decide

/-! ### the non-persistent path: bounded, and invisible -/

theorem npLoop_le (beh : Nat → Outcome) (left k : Nat) : npLoop beh left k ≤ left := by
  induction left generalizing k with
  | zero => simp [npLoop]
  | succ l ih =>
    unfold npLoop; split
    · have := ih (k + 1); omega
    · omega

/-- **np_calls_bounded**: one `Notify` on a non-persistent notifier calls the receiver at most `maxRetries` times,
    whatever the receiver does and whatever `Retries` the event carries — and then the event is gone:
    nothing is on a shelf, `Run` has nothing to replay, `GetFailedEvents` is empty (`npFailedEvents = []`).
    That is why the property speaks of PERSISTENT subscribers (`save_proceeds_iff`). -/
theorem np_calls_bounded (maxRetries : Nat) (beh : Nat → Outcome) (retries : Nat) (h : 0 < maxRetries) :
    1 ≤ npNotifyCalls maxRetries beh retries ∧ npNotifyCalls maxRetries beh retries ≤ maxRetries := by
  unfold npNotifyCalls
  split
  · split
    · have := npLoop_le beh (maxRetries - (retries + 1)) 1; omega
    · omega
  · omega

theorem npLoop_never_done (beh : Nat → Outcome) (h : ∀ k, npNotifyNow (beh k) = .err) (left k : Nat) : npLoop beh left k = left := by
  induction left generalizing k with
  | zero => simp [npLoop]
  | succ l ih => unfold npLoop; rw [h k]; simp only; rw [ih]; omega

/-- a receiver that never completes is called exactly `maxRetries` times for a fresh event, then never again -/
theorem np_gives_up_after_budget (maxRetries : Nat) (beh : Nat → Outcome) (h : ∀ k, npNotifyNow (beh k) = .err) (hm : 1 < maxRetries) :
    npNotifyCalls maxRetries beh 0 = maxRetries := by
  unfold npNotifyCalls; rw [h 0]; simp only [hm, if_true, Nat.zero_add]; rw [npLoop_never_done beh h]; omega

example : npNotifyCalls 20 (fun k => if k < 3 then .fail else .done) 0 = 4 := by decide
example : npNotifyCalls 20 (fun _ => .fatal) 0 = 1 := by decide

/-! ### machine arithmetic of notifier.retry -/

/-- **retry_attempts_machine**: for EVERY int64 value of `event.Retries` (negative and overflowing ones included)
    the unsigned wrap-around computation of notifier.retry starts a loop exactly when `0 ≤ Retries` and
    `Retries + 1 < maxRetries`, with `maxRetries - (Retries + 1)` attempts -/
theorem retry_attempts_machine (retries : Int) (hlo : -9223372036854775808 ≤ retries) (hhi : retries < 9223372036854775808) :
    retryAttemptsM 20 retries = if 0 ≤ retries ∧ retries + 1 < 20 then some (20 - (retries + 1)) else none := by
  unfold retryAttemptsM toU64 wrapI64 two64 two63
  simp only
  split <;> split <;> first | rfl | (exfalso; omega) | (congr 1; omega)

/-- refinement: on the values the notifier stores (`Retries ≥ 0`) the machine computation is the model's `retryAttempts` -/
theorem retry_attempts_refines (c : Cfg) (hc : c.maxRetries = 20) (retries : Nat) (h : (retries : Int) < 9223372036854775808) :
    retryAttemptsM 20 retries = (retryAttempts c retries).map (fun a : Nat => (a : Int)) := by
  rw [retry_attempts_machine retries (by omega) h]
  unfold retryAttempts; rw [hc]
  split <;> split <;> first | rfl | (exfalso; omega) | (simp only [Option.map_some]; congr 1; omega)

theorem delayM_no_overflow (k : Nat) (delay : Int) (h0 : 0 ≤ delay) (h : delay * 2 ^ k < 9223372036854775808) :
    delayM delay k = delay * 2 ^ k := by
  induction k generalizing delay with
  | zero => simp [delayM]
  | succ k ih =>
    unfold delayM
    have h2 : delay * 2 ^ (k + 1) = (delay * 2) * 2 ^ k := by rw [Int.pow_succ]; rw [Int.mul_assoc, Int.mul_comm (2 ^ k) 2, ← Int.mul_assoc]
    have hp : (1 : Int) ≤ 2 ^ k := by
      have : (0 : Int) < 2 ^ k := Int.pow_pos (by decide)
      omega
    have hb : delay * 2 < 9223372036854775808 := by
      rw [h2] at h
      have : delay * 2 * 1 ≤ delay * 2 * 2 ^ k := Int.mul_le_mul_of_nonneg_left hp (by omega)
      omega
    have hw : wrapI64 (delay * 2) = delay * 2 := by unfold wrapI64 two63 two64; omega
    rw [hw, ih (delay * 2) (by omega) (by rw [← h2]; exact h), h2]

/-- **retry_delay_never_overflows**: whenever notifier.retry starts a loop (`Retries + 1 < maxRetries = 20`), the doubled
    start delay `retryDelay · 2^(Retries+1)` is computed without int64 overflow for every configured `retryDelay`
    up to 2^43 ns (≈ 2.4 h; the default is 1 s): the back-off of `Notifier.backoff` is what the code sleeps on -/
theorem retry_delay_never_overflows (retryDelay : Int) (h0 : 0 ≤ retryDelay) (hd : retryDelay ≤ 8796093022208) (retries : Nat) (hr : retries + 1 < 20) :
    delayM retryDelay (retries + 1) = retryDelay * 2 ^ (retries + 1) := by
  apply delayM_no_overflow _ _ h0
  have hall : ∀ k : Fin 20, (2 : Int) ^ k.val ≤ 2 ^ 19 := by decide
  have hp : (2 : Int) ^ (retries + 1) ≤ 2 ^ 19 := hall ⟨retries + 1, hr⟩
  have h1 : retryDelay * 2 ^ (retries + 1) ≤ retryDelay * 2 ^ 19 := Int.mul_le_mul_of_nonneg_left hp h0
  have h2 : retryDelay * 2 ^ 19 ≤ 8796093022208 * 2 ^ 19 := Int.mul_le_mul_of_nonneg_right hd (by decide)
  have h3 : (8796093022208 : Int) * 2 ^ 19 < 9223372036854775808 := by decide
  omega

/-- witness that the bound matters: a 5-hour `WithRetryDelay` doubled 19 times wraps to a NEGATIVE int64 delay -/
example : delayM 18000000000000 19 < 0 := by decide
example : retryAttemptsM 20 (-1) = none ∧ retryAttemptsM 20 0 = some 19 ∧ retryAttemptsM 20 18 = some 1 ∧ retryAttemptsM 20 19 = none ∧
    retryAttemptsM 20 9223372036854775807 = none ∧ retryAttemptsM 20 (-9223372036854775808) = none := by decide

/-! ### the retry budget over all histories (incl. duplicate payload messages) -/

/-- **calls_bounded_by_budget**: in one run of the node (any op sequence without a restart: admissions with and without
    payload, rejected / failed / duplicate admissions, payload messages incl. DUPLICATE ones for the same transaction,
    AfterCommit notifications in any Range order, timers in any order, external Finished, stops, storage faults) a typed
    persistent subscriber is called at most `maxRetries` times for one event — it is not called again after a fatal
    error or after the budget is spent, and no second retry loop with a fresh budget is started.
    Needs the `payloadWritten` guard of State.WritePayload (`notifyGuarded`, fact_writePayload_notifies_only_what_it_saved)
    and the per-transaction skip (`skipPresent`). (A restart replays every job once more: `Run`.) -/
theorem calls_bounded_by_budget (c : Cfg) (hM : 1 ≤ c.maxRetries) (hskip : c.skipPresent = true) (hg : c.notifyGuarded = true)
    (ops : List Op) (hops : ∀ op, op ∈ ops → NoRestart op) (s r : Nat) (t : EvType) (htyp : Typed c s t) :
    attemptNo (run c init ops) s r ≤ c.maxRetries := by
  have h := (Bud.init c s r t).run hM hskip hg htyp ops hops
  have := h.pot
  unfold spent at this
  omega

/-- a payload message for a transaction whose payload event was saved before changes nothing: nothing saved, nobody notified -/
theorem duplicate_payload_write_is_silent (c : Cfg) (hskip : c.skipPresent = true) (hg : c.notifyGuarded = true) (σ : St) (ref : Nat)
    (cf : Bool) (h : ref ∈ σ.evented) : (writePayload c σ ref cf).1 = σ := by
  unfold writePayload
  split; · rfl
  split; · rfl
  split
  · simp [hg]
  · next hn => exact absurd ⟨hskip, h⟩ hn

/-- non-vacuity + the bound is reached: never-completing subscriber, one payload message and TWO duplicates, 19 timers -/
def dupOps : List Op :=
  [.add { ref := 1 }, .afterCommit [0, 1, 2, 3, 4], .writePayload 1 false, .afterCommit [0, 1, 2, 3, 4]] ++
  List.replicate 19 (.fire 3 1) ++ [.writePayload 1 false, .afterCommit [4, 3, 2, 1, 0], .writePayload 1 false, .afterCommit [0, 1, 2, 3, 4]]

def neverDone' : Nat → Nat → Nat → Outcome := fun s _ _ => if s = 3 then .notDone else .done
def wCfg' (guarded : Bool) (beh : Nat → Nat → Nat → Outcome) : Cfg := { wCfg true beh with notifyGuarded := guarded }

example : attemptNo (run (wCfg' true neverDone') init dupOps) 3 1 = 20 := by decide
example : ∀ op, op ∈ dupOps → NoRestart op := by
  intro op h
  simp only [dupOps, List.mem_append, List.mem_cons, List.mem_replicate, List.not_mem_nil, or_false] at h
  rcases h with ((rfl | rfl | rfl | rfl) | ⟨_, rfl⟩) | rfl | rfl | rfl | rfl <;> simp [NoRestart]

/-- **witness without the guard** (State.WritePayload notifying after every commit): the duplicate payload message calls a
    subscriber again AFTER its fatal error (2 calls, the second one sees retries = maxRetries + 1) -/
def fatalAt3 : Nat → Nat → Nat → Outcome := fun s _ _ => if s = 3 then .fatal else .done
def dupFatalOps : List Op :=
  [.add { ref := 1 }, .afterCommit [0, 1, 2, 3, 4], .writePayload 1 false, .afterCommit [0, 1, 2, 3, 4],
   .writePayload 1 false, .afterCommit [0, 1, 2, 3, 4]]

theorem duplicate_payload_calls_again_without_guard :
    (run (wCfg' false fatalAt3) init dupFatalOps).ledger.filter (Entry.isCallOf 3 1) =
      [.call 3 1 .payload 21 .fatal, .call 3 1 .payload 0 .fatal] ∧
    (run (wCfg' true fatalAt3) init dupFatalOps).ledger.filter (Entry.isCallOf 3 1) = [.call 3 1 .payload 0 .fatal] := by decide

/-! ### the retry budget across restarts (deepening round 3) -/

theorem cnt_zero_of_not_mem (s : Nat) (l : List Nat) (h : s ∉ l) : cnt s l = 0 := by
  induction l with
  | nil => rfl
  | cons x l ih =>
    simp only [cnt]
    have hx : x ≠ s := fun e => h (e ▸ List.mem_cons_self)
    rw [if_neg hx, ih (fun hm => h (List.mem_cons_of_mem _ hm))]

theorem cnt_le_one_of_nodup (s : Nat) (l : List Nat) (h : l.Nodup) : cnt s l ≤ 1 := by
  induction l with
  | nil => simp [cnt]
  | cons x l ih =>
    obtain ⟨hx, hl⟩ := List.nodup_cons.mp h
    simp only [cnt]
    by_cases e : x = s
    · subst e; rw [cnt_zero_of_not_mem x l hx]; simp
    · have := ih hl; simp [e]; omega

def isRestart : Op → Bool | .restart _ => true | _ => false
/-- number of node starts (Network.Start) in a history -/
def restarts (ops : List Op) : Nat := (ops.filter isRestart).length

/-- a history whose Range orders (state.notify) and notifier lists (Network.Start) are duplicate-free, as `sync.Map.Range` /
    `Notifiers()` deliver them -/
def NodupOp : Op → Prop
  | .afterCommit order => order.Nodup
  | .restart order => order.Nodup
  | _ => True

theorem runCost_le (c : Cfg) (s : Nat) (ops : List Op) (h : ∀ op, op ∈ ops → NodupOp op) : runCost c s ops ≤ c.maxRetries * restarts ops := by
  induction ops with
  | nil => simp [runCost, restarts]
  | cons op ops ih =>
    have ih' := ih (fun o ho => h o (List.mem_cons_of_mem _ ho))
    have hop := h op List.mem_cons_self
    unfold runCost restarts at *
    cases op with
    | restart order =>
      have := cnt_le_one_of_nodup s order hop
      have hm : c.maxRetries * cnt s order ≤ c.maxRetries := by
        rcases Nat.le_one_iff_eq_zero_or_eq_one.mp this with h0 | h1 <;> simp [*]
      simp only [List.map_cons, List.sum_cons, opCost, List.filter_cons, isRestart, if_true, List.length_cons, Nat.mul_add, Nat.mul_one]
      omega
    | add a => simpa [opCost, isRestart, List.filter_cons] using ih'
    | afterCommit order => simpa [opCost, isRestart, List.filter_cons] using ih'
    | writePayload ref cf => simpa [opCost, isRestart, List.filter_cons] using ih'
    | finishedExt s' r' f => simpa [opCost, isRestart, List.filter_cons] using ih'
    | fire s' r' => simpa [opCost, isRestart, List.filter_cons] using ih'
    | crash => simpa [opCost, isRestart, List.filter_cons] using ih'

/-- **calls_bounded_across_restarts**: over ANY history (restarts at any point included - with or without a preceding stop,
    admissions, duplicate payload messages, timers in any order, storage faults, Finished from outside) a typed persistent
    subscriber is called for one event at most `maxRetries` times per run of the node: `maxRetries * (1 + number of starts)`.
    `Run` replays every job once and starts at most one loop of `maxRetries - Retries - 1` attempts for it; jobs that spent
    their budget or ended fatally get exactly the one replay call (potential-function invariant `Bud` with a budget that grows
    by `maxRetries` per Run of that subscriber). -/
theorem calls_bounded_across_restarts (c : Cfg) (hM : 1 ≤ c.maxRetries) (hskip : c.skipPresent = true) (hg : c.notifyGuarded = true)
    (ops : List Op) (hops : ∀ op, op ∈ ops → NodupOp op) (s r : Nat) (t : EvType) (htyp : Typed c s t) :
    attemptNo (run c init ops) s r ≤ c.maxRetries * (1 + restarts ops) := by
  have hok : ∀ op, op ∈ ops → OkOp op := by
    intro op ho; have := hops op ho; cases op <;> first | exact this | trivial
  have h := Bud.runR hM hskip hg htyp ops hok init (Bud.init c s r t)
  have hp := h.pot
  have hc := runCost_le c s ops hops
  unfold spent at hp
  rw [Nat.mul_add, Nat.mul_one]
  omega

/-- the cost of a restart is real: one stop + start lets subscriber 3 be called once more although its job ended fatally -/
example : attemptNo (run (wCfg' true fatalAt3) init (dupFatalOps ++ [.crash, .restart [0, 1, 2, 3, 4]])) 3 1 =
    attemptNo (run (wCfg' true fatalAt3) init dupFatalOps) 3 1 + 1 := by decide
example : NodupOp (.restart [0, 1, 2, 3, 4]) ∧ NodupOp (.afterCommit [0, 1, 2, 3, 4]) ∧ NodupOp .crash := by simp [NodupOp]

/-- the same for the constant the source has today (`Facts.C14.maxRetries`, used by the driver): a changed budget re-proves or fails -/
theorem retry_attempts_machine_source (retries : Int) (hlo : -9223372036854775808 ≤ retries) (hhi : retries < 9223372036854775808) :
    retryAttemptsM (Int.ofNat Facts.C14.maxRetries) retries =
      if 0 ≤ retries ∧ retries + 1 < Int.ofNat Facts.C14.maxRetries then some (Int.ofNat Facts.C14.maxRetries - (retries + 1)) else none :=
  retry_attempts_machine retries hlo hhi

/-! ### regenerated facts the construction-side model relies on -/

/-- the option closures: each assigns exactly the field the model's `applyOpt` sets; filters are APPENDED -/
theorem fact_notifier_options :
    Facts.C14.notifierOptionBodies =
      ["WithRetryDelay: notifier.retryDelay = delay",
       "WithPersistency: notifier.db = db",
       "WithSelectionFilter: notifier.filters = append(notifier.filters, filter)",
       "WithContext: notifier.ctx = subCtx; notifier.cancel = cancelFn",
       "withCounters: notifier.notifiedCounter = notifiedCounter; notifier.finishedCounter = finishedCounter"] ∧
    Facts.C14.newNotifierDefaults = ["name: name", "ctx: ctx", "cancel: cancel", "receiver: receiverFn", "retryDelay: defaultRetryDelay"] ∧
    Facts.C14.newNotifierOptionLoop = ["range options { option(subscriber) }"] ∧
    Facts.C14.isPersistentExpr = "p.db != nil" := ⟨rfl, rfl, rfl, rfl⟩

/-- the job shelf of a notifier: the model's `shelfName` IS the regenerated format `_%s_jobs` applied to the name -/
theorem fact_shelf_name (n : NCfg) : n.shelfName = Facts.C14.shelfNamePrefix ++ n.name ++ Facts.C14.shelfNameSuffix := rfl

/-- the check order of Save: not persistent ⇒ nil; other store ⇒ error; a rejecting filter ⇒ nil; then "only new events" (`saveKind`) -/
theorem fact_save_check_order :
    Facts.C14.saveReturns =
      ["p.db == nil => return nil",
       "tx.Store() != p.db => return errors.New(\"trying to save Event on different DB\")",
       "range p.filters && !f(event) => return nil",
       "errors.Is(err, stoabs.ErrKeyNotFound) => return p.writeEvent(writer, event)",
       "err != nil => return err",
       "return nil"] := rfl

/-- state.Notifier: withCounters appended, NewNotifier, LoadOrStore by name, a loaded (duplicate) name is refused (`register`) -/
theorem fact_registry :
    Facts.C14.stateNotifierCalls =
      ["append(options, withCounters(s.eventsNotifyCount, s.eventsFinishedCount))", "NewNotifier(name, receiver, options)",
       "s.notifiers.LoadOrStore(name, n)"] ∧
    Facts.C14.stateNotifierReturns =
      ["loaded => return nil, fmt.Errorf(\"nuts event receiver %q registration denied on duplicate name\", name)", "return n, nil"] := ⟨rfl, rfl⟩

end Nuts.C14.Props
