/-
  C14 — deepening round 3: "an undelivered event stays visible as failed rather than vanishing" over ALL histories
  (restarts, crashes, storage faults, duplicate payload messages, clean-ups; no calm suffix), and Run's treatment of the
  jobs it decides not to replay.  Core Lean only.
-/
import NutsProofs.Lemmas.C14Vis
import NutsModel.Facts.C14
import NutsProofs.Props.C14
import NutsProofs.Props.C14Api
namespace Nuts.C14.Props
open Nuts.C14

theorem mem_failedEvents_iff (c : Cfg) (σ : St) (s r : Nat) :
    r ∈ failedEvents c σ s ↔ r < c.nRefs ∧ VisAt c.failedThreshold σ s r := by
  unfold failedEvents VisAt
  rw [List.mem_filter, List.mem_range]
  constructor
  · rintro ⟨hr, h⟩
    refine ⟨hr, ?_⟩
    cases hj : σ.shelf s r with
    | none => simp [hj] at h
    | some j => simp only [hj, decide_eq_true_eq] at h; exact ⟨j, rfl, h⟩
  · rintro ⟨hr, j, hj, ht⟩
    exact ⟨hr, by simp only [hj, decide_eq_true_eq]; exact ht⟩

/-- **failed_stays_visible_or_completed**: from ANY state, over ANY further history (admissions, duplicate payload messages,
    notifications, timers in any order, crashes, restarts, storage faults, Finished from outside): an event that GetFailedEvents
    lists for subscriber `s` is still listed afterwards, unless in between a completion of exactly (s, r) was put on record
    (the receiver answered done and the delete was written, or Finished(r) was called on that notifier).
    Needs only `retriesFailedThreshold ≤ maxRetries + 1` (fact_retry_constants: 10 ≤ 21; a fatal answer records maxRetries + 1). -/
theorem failed_stays_visible_or_completed (c : Cfg) (hthr : c.failedThreshold ≤ c.maxRetries + 1) (σ : St) (ops : List Op) (s r : Nat)
    (h : r ∈ failedEvents c σ s) :
    r ∈ failedEvents c (run c σ ops) s ∨ ∃ new, (run c σ ops).ledger = new ++ σ.ledger ∧ completedIn new s r = true := by
  obtain ⟨hr, hv⟩ := (mem_failedEvents_iff c σ s r).mp h
  obtain ⟨new, e, hn⟩ := run_vis c hthr s r ops σ
  rcases hn hv with hv' | hc
  · exact .inl ((mem_failedEvents_iff c _ s r).mpr ⟨hr, hv'⟩)
  · exact .inr ⟨new, e, hc⟩

/-- the same for one restart of the node (Network.Start runs every notifier): what was listed as failed before the stop is listed
    after it, or one of the replayed calls completed it -/
theorem restart_keeps_failed_visible (c : Cfg) (hthr : c.failedThreshold ≤ c.maxRetries + 1) (σ : St) (order : List Nat) (s r : Nat)
    (h : r ∈ failedEvents c σ s) :
    r ∈ failedEvents c (restart c (crashSt σ) order) s ∨
      ∃ new, (restart c (crashSt σ) order).ledger = new ++ σ.ledger ∧ completedIn new s r = true :=
  failed_stays_visible_or_completed c hthr σ [.crash, .restart order] s r h

/-- **restart_leaves_parked_job_alone**: a job whose recorded error ends in ContextURLNotAllowedErr is not replayed by Run -
    and Run does nothing else with it either: after Network.Start (any notifier order, any receiver behaviour of the other jobs,
    a stop inside Run included) it is on the shelf exactly as before -/
theorem restart_leaves_parked_job_alone (c : Cfg) (σ : St) (order : List Nat) (s r : Nat) (j : Job)
    (hj : σ.shelf s r = some j) (hctx : j.err = .ctx) : (restart c σ order).shelf s r = some j :=
  restart_keeps_parked c σ order s r j hj hctx

/-- so a parked job that was listed as failed is listed after every restart, whatever the receivers do -/
theorem parked_failed_job_stays_listed (c : Cfg) (σ : St) (order : List Nat) (s r : Nat) (j : Job)
    (hj : σ.shelf s r = some j) (hctx : j.err = .ctx) (h : r ∈ failedEvents c σ s) : r ∈ failedEvents c (restart c σ order) s := by
  obtain ⟨hr, j0, hj0, ht⟩ := (mem_failedEvents_iff c σ s r).mp h
  rw [hj] at hj0; cases hj0
  exact (mem_failedEvents_iff c _ s r).mpr ⟨hr, j, restart_leaves_parked_job_alone c σ order s r j hj hctx, ht⟩

/-- Run called nobody for the parked job: the calls of (s, r) on the ledger are the same before and after -/
theorem restart_never_calls_parked_job (c : Cfg) (σ : St) (order : List Nat) (s r : Nat) (j : Job)
    (hj : σ.shelf s r = some j) (hctx : j.err = .ctx) :
    (restart c σ order).shelf s r = some j ∧ ∃ new, (restart c σ order).ledger = new ++ σ.ledger :=
  ⟨restart_keeps_parked c σ order s r j hj hctx, (restart_dstep c σ order).grows⟩

/-- **rest_row_stays_until_completed** (end to end: notifier shelf -> REST): a failed event the operator sees under subscriber `s`
    in the `ListEvents` answer is, after ANY further history (restarts, crashes, faults included), still shown under that subscriber
    whenever ListEvents answers - unless a completion of exactly that (subscriber, transaction) was recorded in between -/
theorem rest_row_stays_until_completed (c : Cfg) (hthr : c.failedThreshold ≤ c.maxRetries + 1) (names : Nat → String) (σ : St) (ops : List Op)
    (s : Nat) (e : ApiEvent) (he : e ∈ failedRows c σ s) (hr : e.ref < c.nRefs)
    (readFail : Nat → Bool) (order : List Nat) (l : List (String × List ApiEvent))
    (h : listEvents c names (run c σ ops) readFail order = .ok l) (hs : s ∈ order) :
    (∃ rows e', (names s, rows) ∈ l ∧ e' ∈ rows ∧ e'.ref = e.ref) ∨
      ∃ new, (run c σ ops).ledger = new ++ σ.ledger ∧ completedIn new s e.ref = true := by
  obtain ⟨j, hj, ht, _, _, _⟩ := failedRows_sound c σ s e he
  have hm : e.ref ∈ failedEvents c σ s := (mem_failedEvents_iff c σ s e.ref).mpr ⟨hr, j, hj, ht⟩
  rcases failed_stays_visible_or_completed c hthr σ ops s e.ref hm with hv | hc
  · obtain ⟨_, j', hj', _⟩ := (mem_failedEvents_iff c _ s e.ref).mp hv
    exact .inl ⟨failedRows c (run c σ ops) s, _, listEvents_mem c names _ readFail order l h s hs, failedRows_mem c _ s e.ref j' hv hj', rfl⟩
  · exact .inr hc

/-! ### non-vacuity -/

/-- subscriber 3 (vcr_vcs) fails every time with the unknown-context error; everybody else completes -/
def ctxAlways : Nat → Nat → Nat → Outcome := fun s _ _ => if s = 3 then .failCtx else .done
def fatal3 : Nat → Nat → Nat → Outcome := fun s _ _ => if s = 3 then .fatal else .done
def admitOps : List Op := [.add { ref := 0, withPayload := true }, .afterCommit [0, 1, 2, 3, 4], .afterCommit [0, 1, 2, 3, 4]]

-- a fatal answer is listed at once, and still after a stop + restart (Run calls the receiver once more: fatal again)
example : 0 ∈ failedEvents (wCfg true fatal3) (run (wCfg true fatal3) init admitOps) 3 := by decide
example : 0 ∈ failedEvents (wCfg true fatal3) (run (wCfg true fatal3) (run (wCfg true fatal3) init admitOps) [.crash, .restart [0, 1, 2, 3, 4]]) 3 := by
  decide
example : ({ ref := 0, type := .payload, retries := 21, err := .fatal } : ApiEvent) ∈ failedRows (wCfg true fatal3) (run (wCfg true fatal3) init admitOps) 3 := by decide
-- the second disjunct is real: a clean-up (Finished from outside) removes the listed job and is on record
example : 0 ∉ failedEvents (wCfg true fatal3) (run (wCfg true fatal3) (run (wCfg true fatal3) init admitOps) [.finishedExt 3 0 false]) 3 ∧
    completedIn ((run (wCfg true fatal3) (run (wCfg true fatal3) init admitOps) [.finishedExt 3 0 false]).ledger.take 1) 3 0 = true := by decide
-- a parked job: listed (threshold lowered to 1 for the witness), untouched by Run, receiver not called again
def parkCfg : Cfg := { wCfg true ctxAlways with failedThreshold := 1 }
example : (run parkCfg init admitOps).shelf 3 0 = some { type := .payload, retries := 1, err := .ctx } ∧
    0 ∈ failedEvents parkCfg (run parkCfg init admitOps) 3 ∧
    0 ∈ failedEvents parkCfg (restart parkCfg (crashSt (run parkCfg init admitOps)) [0, 1, 2, 3, 4]) 3 ∧
    ((restart parkCfg (crashSt (run parkCfg init admitOps)) [0, 1, 2, 3, 4]).ledger.filter (Entry.isCallOf 3 0)).length = 1 := by decide

/-! ### tie to the source -/

/-- Run calls, on the notifier itself, only: isPersistent, the shelf READ, notifyNow and retry - no Finished, no shelf write;
    and the branch that skips a job with the unknown-context error does nothing but `return nil` (the model's `runSnapshot`
    drops the job from the replay list and `restart` leaves it alone: restart_leaves_parked_job_alone) -/
theorem fact_run_only_reads_calls_and_reschedules :
    Facts.C14.runSelfCalls = ["p.isPersistent", "p.db.ReadShelf", "p.shelfName", "p.notifyNow", "p.retry"] ∧
    Facts.C14.runSkipBody = ["return nil"] := by decide

/-- the threshold hypothesis of failed_stays_visible_or_completed holds for the constants of the source -/
theorem fact_threshold_below_fatal_mark : Facts.C14.retriesFailedThreshold ≤ Facts.C14.maxRetries + 1 := by decide

end Nuts.C14.Props
