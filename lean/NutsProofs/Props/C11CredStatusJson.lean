/-
  C11 — JSON typing of status entries (deepening round 3): a StatusList2021Entry whose statusListIndex (or purpose / list URL)
  is not a JSON string never reaches the revocation logic; on string-typed entries the JSON layer is the wire layer.
-/
import NutsModel.C11.CredStatusJson
import NutsProofs.Props.C11CredStatus
namespace Nuts.C11.Props
open Nuts Nuts.C11 Nuts.C11.Wire

theorem decode_ofWire (e : WireEntry) : (JEntry.ofWire e).decode = .ok e := by
  simp [JEntry.ofWire, JEntry.decode, unmarshalString]

/-- refinement: on entries whose members are all JSON strings the JSON-typed validator is the wire-level validator -/
theorem validate_json_refines_wire (hasCtx : Bool) (urlOk : String → Bool) (sts : List WireEntry) :
    validateCredentialStatusJ hasCtx urlOk (sts.map JEntry.ofWire) = validateCredentialStatus hasCtx urlOk sts := by
  induction sts with
  | nil => rfl
  | cons e rest ih =>
    simp only [List.map_cons, validateCredentialStatusJ, validateCredentialStatus, decode_ofWire, ih]
    rfl

theorem decode_ok_index (e : JEntry) (we : WireEntry) (h : e.decode = .ok we) :
    (e.index = .str we.index ∨ (e.index = .null ∧ we.index = "")) := by
  unfold JEntry.decode at h
  cases hp : e.purpose <;> cases hi : e.index <;> cases hl : e.list <;> simp [hp, hi, hl, unmarshalString] at h <;>
    (subst h; simp)

/-- `validated_entries_have_string_index`: in a credential that passed `validateCredentialStatus`, EVERY StatusList2021Entry has a
    statusListIndex that is a JSON string holding a canonical-range decimal (not a number, bool, null, object), for any number
    of entries and any mix of types. -/
theorem validated_entries_have_string_index (hasCtx : Bool) (urlOk : String → Bool) (sts : List JEntry)
    (h : validateCredentialStatusJ hasCtx urlOk sts = .ok ()) :
    ∀ e ∈ sts, e.type = "StatusList2021Entry" →
      ∃ s : String, e.index = .str s ∧ ∃ n : Int, atoi s = some n ∧ 0 ≤ n ∧ n < (intLimit : Int) := by
  induction sts with
  | nil => intro e he; cases he
  | cons a rest ih =>
    unfold validateCredentialStatusJ at h
    by_cases h1 : (a.id == "") = true
    · rw [if_pos h1] at h; cases h
    · rw [if_neg h1] at h
      by_cases h2 : (a.type == "") = true
      · rw [if_pos h2] at h; cases h
      · rw [if_neg h2] at h
        by_cases h3 : (a.type == "StatusList2021Entry") = true
        · rw [if_pos h3] at h
          by_cases h4 : (!hasCtx) = true
          · rw [if_pos h4] at h; cases h
          · rw [if_neg h4] at h
            cases hd : a.decode with
            | err x => rw [hd] at h; cases h
            | panic x => rw [hd] at h; cases h
            | ok we =>
              rw [hd] at h
              simp only at h
              cases hv : validateEntry urlOk we with
              | err x => rw [hv] at h; cases h
              | panic x => rw [hv] at h; cases h
              | ok u =>
                rw [hv] at h
                simp only at h
                intro e he ht
                rcases List.mem_cons.1 he with rfl | he
                · obtain ⟨_, _, _, _, n, hn, h0, hlt⟩ := validated_entry_fields urlOk we (by cases u; exact hv)
                  rcases decode_ok_index _ we hd with hs | ⟨_, hempty⟩
                  · exact ⟨we.index, hs, n, hn, h0, hlt⟩
                  · rw [hempty, show atoi "" = none from by decide] at hn; cases hn
                · exact ih h e he ht
        · rw [if_neg h3] at h
          intro e he ht
          rcases List.mem_cons.1 he with rfl | he
          · exact absurd (by simp [ht]) h3
          · exact ih h e he ht

/-- a non-string statusListIndex in a StatusList2021Entry: the verification is refused by the validator (never "valid", never
    through the revocation logic), whatever else the credential and the world look like -/
theorem non_string_index_refused (E : Env) (i : Bool) (w : World) (cid : Option String) (issuer : String) (hasCtx : Bool)
    (urlOk : String → Bool) (parse : String → Url) (sts : List JEntry) (nutsType rf : Bool) (validAt : Option Int) (now : Int)
    (period : Int → Bool) (e : JEntry) (he : e ∈ sts) (ht : e.type = "StatusList2021Entry") (hns : ∀ s, e.index ≠ .str s) :
    (verifyWireJ E i w cid issuer hasCtx urlOk parse (some sts) nutsType rf validAt now period).1 ≠ .ok ∧
    (verifyWireJ E i w cid issuer hasCtx urlOk parse (some sts) nutsType rf validAt now period).2 = w := by
  unfold verifyWireJ
  simp only
  split
  · exact ⟨by simp, rfl⟩
  · cases hv : validateCredentialStatusJ hasCtx urlOk ((some sts).getD []) with
    | ok u =>
      exfalso
      obtain ⟨s, hs, _⟩ := validated_entries_have_string_index hasCtx urlOk sts (by cases u; simpa using hv) e he ht
      exact hns s hs
    | err x => exact ⟨by simp, rfl⟩
    | panic x => exact ⟨by simp, rfl⟩

/-! non-vacuity -/
def exJ : JEntry := JEntry.ofWire exWireOk
example : validateCredentialStatusJ true (fun _ => true) [exJ] = .ok () := by decide
example : validateCredentialStatusJ true (fun _ => true) [exJ, { exJ with index := .other }] = .err "unmarshal" := by decide
example : validateCredentialStatusJ true (fun _ => true) [{ exJ with index := .null }] = .err "index" := by decide
example : validateCredentialStatusJ true (fun _ => true) [{ exJ with type := "OtherStatus", index := .other }] = .ok () := by decide

end Nuts.C11.Props
