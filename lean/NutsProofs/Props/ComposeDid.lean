/-
  Composition C09 ∘ C10 — the did:nuts pipeline end to end.
  ONLY the composition theorems + non-vacuity examples.  Maps: NutsModel/Compose/Did.lean; helper lemmas:
  NutsProofs/Lemmas/ComposeDid.lean.

  What the single properties leave open and this file closes:
    * C09's theorems speak about ONE delivery into a given store; C10's theorems take "the arrived events" as an
      unconstrained list.  Here the node receives a whole history through C09's `step` (`run`), and the list C10 is
      instantiated with is exactly what C09 accepted on the way (`accepted`): `run c {} l` IS `addAll c.store {} (accepted c {} l)`.
    * the only hypothesis at the seam: a transaction ref names the delivery (`RefNames`: the ref is the hash of the signed
      transaction, which carries the payload hash).  C09's `Tx.ref` is an unconstrained `Nat` and `deliver` answers ok for a
      second transaction with a known ref and other content while C10's `add` silently keeps the first one
      (`ref_collision_accepted_but_not_stored`): without the contract "accepted" and "stored" differ — by exactly that
      (`store_vs_accepted_without_contract`).
  Theorems: (1) `store_holds_exactly_the_accepted`; (2) `chain_of_custody` (+ `_reachable`), thumbprints collision-free;
  (3) `same_accepted_set_same_answers`; (4) `acceptance_depends_on_delivery_order` / `acceptance_order_independent_false`
  (acceptance is NOT independent of the delivery order among causally consistent orders: the two fallbacks of
  `handleUpdateDIDDocument` — latest version, controllers by signing time — read what the node happens to hold) and the
  positive half `future_depends_only_on_accepted_set`.
  C13: `pubLatest_is_resolve_latest`, `deactivation_commit_agrees_partial` and the seam where C13 and C09's `managerUpdate`
  model `Manager.Update`'s deactivation test differently (`deactivation_commit_disagrees_on_conflicted_store`).
-/
import NutsProofs.Lemmas.ComposeDid
import NutsProofs.Props.C09
import NutsProofs.Props.C10
import NutsModel.Facts.C09
import NutsModel.Facts.C10

namespace Nuts.Compose.Did.Props
open Nuts Nuts.C10 Nuts.C09 Nuts.Compose.Did

/-- **Contract at the seam**: within a history a transaction ref names the delivery -/
def RefNames (l : List Delivery) : Prop := ∀ p ∈ l, ∀ q ∈ l, p.1.ref = q.1.ref → p = q

/-- under the contract the accepted events satisfy C10's hypothesis `RefFun` — discharged, no longer an input -/
theorem refFun_accepted (c : C09.Cfg) (l : List Delivery) (hR : RefNames l) : RefFun (accepted c {} l) := by
  intro a ha b hb hab
  obtain ⟨pre, tx, d, post, _, hl, rfl, _⟩ := (mem_accepted c l {} a).mp ha
  obtain ⟨pre', tx', d', post', _, hl', rfl, _⟩ := (mem_accepted c l {} b).mp hb
  have h1 : (tx, some d) ∈ l := by rw [hl]; simp
  have h2 : (tx', some d') ∈ l := by rw [hl']; simp
  have := hR _ h1 _ h2 hab
  simp only [Prod.mk.injEq, Option.some.injEq] at this
  obtain ⟨rfl, rfl⟩ := this
  rfl

/-- **The store holds exactly the accepted (target 1).** For EVERY history of deliveries through C09's `deliver` from the
    empty store — valid, forged, replayed, unparsable, in any order:
    * the node's store IS C10's `addAll` over the events of the accepted deliveries (so every C10 theorem about `addAll cfg {} l`
      applies to it with `l := accepted c {} l`, an OUTPUT of C09 instead of an unconstrained input);
    * every DID's record satisfies C10's invariant (sorted, no duplicate refs, chain = the fold over the sorted list) and its
      event list holds exactly the events of the accepted deliveries of that DID — each the (transaction, document) of a
      delivery that C09 accepted in the state reached at that point;
    * a rejected delivery leaves no trace: removing it from the history changes neither the store nor the accepted list
      (`rejected_inert` lifted over histories). -/
theorem store_holds_exactly_the_accepted (c : C09.Cfg) (l : List Delivery) (hR : RefNames l) :
    addAll c.store {} (accepted c {} l) = .ok (run c {} l) ∧
    (∀ id, Inv c.store ((run c {} l).get id) ∧
      (∀ e, e ∈ ((run c {} l).get id).events ↔ (e ∈ accepted c {} l ∧ e.doc.id = id)) ∧
      (∀ e, e ∈ ((run c {} l).get id).events ↔
        ∃ pre tx d post s', l = pre ++ (tx, some d) :: post ∧ e = eventOf tx d ∧ d.id = id ∧
          deliver c (run c {} pre) tx (some d) = .ok s')) ∧
    (∀ pre p post, l = pre ++ p :: post → (step c (run c {} pre) p.1 p.2).2 ≠ "ok" →
      run c {} l = run c {} (pre ++ post) ∧ accepted c {} l = accepted c {} (pre ++ post)) := by
  have hrun := run_is_addAll c l {}
  refine ⟨hrun, fun id => ?_, ?_⟩
  · obtain ⟨hinv, hmem⟩ := C10.Props.store_is_fold c.store _ (refFun_accepted c l hR) _ hrun id
    refine ⟨hinv, hmem, fun e => ?_⟩
    rw [hmem e, mem_accepted]
    constructor
    · rintro ⟨⟨pre, tx, d, post, s', hl, he, hok⟩, hid⟩
      exact ⟨pre, tx, d, post, s', hl, he, by rw [← hid, he]; rfl, hok⟩
    · rintro ⟨pre, tx, d, post, s', hl, he, hid, hok⟩
      exact ⟨⟨pre, tx, d, post, s', hl, he, hok⟩, by rw [he, ← hid]; rfl⟩
  · intro pre p post hl hrej
    have hs := (C09.Props.rejected_inert c (run c {} pre) p.1 p.2 hrej).1
    subst hl
    rw [run_append, run_append, accepted_append, accepted_append]
    have hnone : acceptedEvent c (run c {} pre) p = none := by
      by_cases h : ∃ s', deliver c (run c {} pre) p.1 p.2 = .ok s'
      · obtain ⟨s', hs'⟩ := h
        exact absurd (step_ok c _ s' p hs').2.1 hrej
      · exact (step_not_ok c _ p (fun s' hs' => h ⟨s', hs'⟩)).2.2
    simp only [run, accepted, hs, hnone, Option.toList, List.nil_append, and_self]

/-- **Same accepted set, same answers (target 3).** Two nodes — different delivery orders, different rejected traffic in
    between, replays, different Go map iteration orders — whose histories led to the same set of ACCEPTED events hold the
    same record for every DID and answer identically: the store's `Resolve` under every metadata, the did:nuts `Resolver`
    (controller check, every depth), the ambassador's and the DAG verifier's key resolution, both counters, `Iterate()` and
    `Conflicted()`.  C10's `resolve_order_independent` / `stats_order_independent` / `observations_order_independent` with
    their hypotheses (`RefFun`, "the arrived events", `addAll … = ok`) discharged by C09 ∘ (1). -/
theorem same_accepted_set_same_answers (c₁ c₂ : C09.Cfg) (σ₁ σ₂ : Field → List Entry → List Entry)
    (h₁ : ∀ f l, (σ₁ f l).Perm l) (h₂ : ∀ f l, (σ₂ f l).Perm l)
    (hc₁ : c₁.store = cfgOf σ₁ Facts.C10.mergeSortedFields) (hc₂ : c₂.store = cfgOf σ₂ Facts.C10.mergeSortedFields)
    (l₁ l₂ : List Delivery) (hR : RefNames l₁)
    (hsame : ∀ e, e ∈ accepted c₁ {} l₁ ↔ e ∈ accepted c₂ {} l₂) :
    (∀ id, (run c₁ {} l₁).get id = (run c₂ {} l₂).get id) ∧
    (∀ id rm, resolve (run c₁ {} l₁) id rm = resolve (run c₂ {} l₂) id rm) ∧
    (∀ n rm id, resolverResolve n (run c₁ {} l₁) rm id = resolverResolve n (run c₂ {} l₂) rm id) ∧
    (∀ n kid refs, resolvePublicKey n (run c₁ {} l₁) kid refs = resolvePublicKey n (run c₂ {} l₂) kid refs) ∧
    (∀ kid refs, resolvePublicKeyStore (run c₁ {} l₁) kid refs = resolvePublicKeyStore (run c₂ {} l₂) kid refs) ∧
    (run c₁ {} l₁).documentCount = (run c₂ {} l₂).documentCount ∧
    (run c₁ {} l₁).conflictedCount = (run c₂ {} l₂).conflictedCount ∧
    iterate (run c₁ {} l₁) = iterate (run c₂ {} l₂) ∧
    (∀ id, conflictedOf (run c₁ {} l₁) id = conflictedOf (run c₂ {} l₂) id) := by
  have r₁ := run_is_addAll c₁ l₁ {}
  have r₂ := run_is_addAll c₂ l₂ {}
  rw [hc₁] at r₁
  rw [hc₂] at r₂
  have hU := refFun_accepted c₁ l₁ hR
  have hroi := C10.Props.resolve_order_independent σ₁ σ₂ h₁ h₂ _ _ hU hsame _ _ r₁ r₂
  have hst := C10.Props.stats_order_independent σ₁ σ₂ h₁ h₂ _ _ hU hsame _ _ r₁ r₂
  have hobs := C10.Props.observations_order_independent σ₁ σ₂ h₁ h₂ _ _ hU hsame _ _ r₁ r₂
  have hres : ∀ id rm, resolve (run c₁ {} l₁) id rm = resolve (run c₂ {} l₂) id rm := fun id rm => (hroi id).2 rm
  have hsd : ∀ rm, storeDoc (run c₁ {} l₁) rm = storeDoc (run c₂ {} l₂) rm := by
    intro rm; funext id; unfold storeDoc; rw [hres]
  have hrr : ∀ n rm, resolverResolve n (run c₁ {} l₁) rm = resolverResolve n (run c₂ {} l₂) rm := by
    intro n rm; funext id; unfold resolverResolve; rw [hsd]
  refine ⟨fun id => (hroi id).1, hres, fun n rm id => by rw [hrr], ?_, ?_, hst.1, hst.2, hobs.2.1, hobs.1⟩
  · intro n kid refs
    unfold resolvePublicKey
    have : resolverResolve n (run c₁ {} l₁) = resolverResolve n (run c₂ {} l₂) := by funext rm; exact hrr n rm
    rw [this]
  · intro kid refs
    unfold resolvePublicKeyStore
    have : storeDoc (run c₁ {} l₁) = storeDoc (run c₂ {} l₂) := by funext rm; exact hsd rm
    rw [this]

/-! ### (2) chain of custody -/

/-- **Chain of custody — an invariant of ALL reachable stores.** For every history `l` of deliveries (any length, any mix of
    valid, forged, replayed deliveries, any order) and thumbprints being collision-free:
    (a) every stored event of every DID entered as an accepted delivery of `l` that was `Authorised` in the state reached at
        that point — a creation signed by the key the transaction embeds and the DID is derived from, or an update whose
        signing key is a capabilityInvocation key of a controller (the DID itself, or a controller DID active within the depth
        bound) of the version it succeeds and of EVERY other version its prevs name;
    (b) every DID that has any event has its accepted creation among them (an update is only ever accepted for a DID that
        already has a version; induction over the history);
    (c) whatever C10's `Resolve` answers — any DID, any metadata — is a stored version whose source transactions are a
        non-empty set of stored events of that DID, each authorised as in (a), and the DID has its creation as in (b).
    By (a)–(c) and induction on the position in the history (every authorisation refers to versions of a strictly shorter
    prefix, which are again covered) the history of every resolvable document is authorised back to its creation. -/
theorem chain_of_custody (c : C09.Cfg) (hinj : ∀ a b, c.thumb a = c.thumb b → a = b) (l : List Delivery) :
    (∀ id e, e ∈ ((run c {} l).get id).events → e.doc.id = id ∧ EnteredAuthorised c l e) ∧
    (∀ id, ((run c {} l).get id).events ≠ [] → ∃ e ∈ ((run c {} l).get id).events, EnteredAsCreation c l e) ∧
    (∀ id rm d m, resolve (run c {} l) id rm = .ok (d, m) →
      (d, m) ∈ ((run c {} l).get id).chain ∧ m.sourceTx ≠ [] ∧
      (∀ r ∈ m.sourceTx, ∃ e ∈ ((run c {} l).get id).events, e.ref = r ∧ EnteredAuthorised c l e) ∧
      ∃ e₀ ∈ ((run c {} l).get id).events, EnteredAsCreation c l e₀) := by
  have hA := fun id e h => stored_events_authorised c hinj l id e h
  have hB := hasCreation_all c l
  refine ⟨hA, hB, fun id rm d m h => ?_⟩
  have hmem := resolve_ok_mem_chain _ id rm (d, m) h
  obtain ⟨hne, hsrc⟩ := inv_chain_sources c.store _ (run_inv c l id) (d, m) hmem
  refine ⟨hmem, hne, fun r hr => ?_, hB id (resolve_ok_events_ne c.store _ id (run_inv c l id) rm (d, m) h)⟩
  obtain ⟨e, he, her⟩ := hsrc r hr
  exact ⟨e, he, her, (hA id e he).2⟩

/-- the same, phrased over the inductively defined reachable stores -/
theorem chain_of_custody_reachable (c : C09.Cfg) (hinj : ∀ a b, c.thumb a = c.thumb b → a = b) (s : Store)
    (hs : Reachable c s) :
    ∃ l, s = run c {} l ∧ Inv c.store (s.get "") ∧
      ∀ id rm d m, resolve s id rm = .ok (d, m) → m.sourceTx ≠ [] ∧
        (∀ r ∈ m.sourceTx, ∃ e ∈ (s.get id).events, e.ref = r ∧ EnteredAuthorised c l e) ∧
        ∃ e₀ ∈ (s.get id).events, EnteredAsCreation c l e₀ := by
  obtain ⟨l, rfl⟩ := (reachable_iff_run c s).mp hs
  refine ⟨l, rfl, run_inv c l "", fun id rm d m h => ?_⟩
  obtain ⟨_, h2, h3, h4⟩ := (chain_of_custody c hinj l).2.2 id rm d m h
  exact ⟨h2, h3, h4⟩

/-! ### the concrete instance (today's regenerated facts) used by the non-vacuity examples and by (4) -/

def wCfg : C09.Cfg :=
  { thumb := fun k => k, didThumb := fun k => "D" ++ k, maxDepth := Facts.C09.maxControllerDepth,
    validators := Facts.C09.networkValidators, vmNilJwkErr := Facts.C09.verifyThumbprintGuardsNilJwk,
    findKeyNilJwkErr := Facts.C09.findKeyGuardsNilJwk, store := cfgOf (fun _ l => l) Facts.C10.mergeSortedFields }
/-- the same node with Go ranging over its maps in the opposite order -/
def wCfgRev : C09.Cfg := { wCfg with store := cfgOf (fun _ l => l.reverse) Facts.C10.mergeSortedFields }

def vmOf (did k : String) : NVM := { id := did ++ "#" ++ k, pfx := did, frag := k, key := .key k }
/-- a document of DID `D<k>` listing `keys` as verification methods and `ci` for capabilityInvocation -/
def docOf (k : String) (keys ci : List String) (ctrl : List String := []) : NDoc :=
  { id := "did:nuts:D" ++ k, idID := "D" ++ k, controllers := ctrl,
    vms := keys.map (vmOf ("did:nuts:D" ++ k)), capInv := ci.map (vmOf ("did:nuts:D" ++ k)) }
def createTx (ref : Nat) (k : String) (t : Nat := 10) : Tx :=
  { ref := ref, clock := 0, sigTime := t, prevs := [], payloadHash := s!"p{ref}", embedded := some k, signer := k }
def updateTx (ref : Nat) (prevs : List Nat) (did k : String) (t : Nat := 20) : Tx :=
  { ref := ref, clock := 1, sigTime := t, prevs := prevs, payloadHash := s!"p{ref}",
    kid := { holder := did, id := did ++ "#" ++ k }, signer := k }

/-- creation of the controller `Dc` -/
def c100 : Delivery := (createTx 100 "c", some (docOf "c" ["c"] ["c"]))
/-- creation of `Dd`, controlled by itself and by `Dc` -/
def d110 : Delivery := (createTx 110 "d", some (docOf "d" ["d"] ["d"] ["did:nuts:Dc", "did:nuts:Dd"]))
/-- `Dd` deactivates itself (prevs name its creation) -/
def d211 : Delivery := (updateTx 211 [110] "did:nuts:Dd" "d" 20, some (docOf "d" [] [] []))
/-- the controller `Dc` updates `Dd`; the prevs name only `Dc`'s creation (which resolves the kid) and no version of `Dd` -/
def u500 : Delivery := (updateTx 500 [100] "did:nuts:Dc" "c" 40, some (docOf "d" ["d"] ["d"] ["did:nuts:Dc"]))
/-- a stranger's key tries to take `Dd` over -/
def forged : Delivery := (updateTx 600 [110] "did:nuts:Dd" "zz" 50, some (docOf "d" ["zz"] ["zz"] []))
/-- a payload that does not parse -/
def garbage : Delivery := (createTx 700 "q", none)

/-- node 1: valid, forged (too early and again later), replayed, unparsable deliveries interleaved -/
def hist₁ : List Delivery := [c100, forged, d110, c100, forged, u500, garbage, d211, u500]
/-- node 2: the same accepted transactions in another order, other rejected traffic in between -/
def hist₂ : List Delivery := [d110, garbage, c100, u500, d211, forged]

theorem refNames_hist₁ : RefNames hist₁ := by
  intro p hp q hq h
  simp only [hist₁, List.mem_cons, List.mem_nil_iff, or_false] at hp hq
  rcases hp with rfl | rfl | rfl | rfl | rfl | rfl | rfl | rfl | rfl <;>
    rcases hq with rfl | rfl | rfl | rfl | rfl | rfl | rfl | rfl | rfl <;>
      first | rfl | exact absurd h (by decide)

-- (1) is not vacuous: the history has accepted, forged, replayed and unparsable deliveries; the DID's event list holds
-- exactly the accepted ones (C10's order), the rejected ones left no trace
example : outcomes wCfg {} hist₁ =
    ["ok", "err:sig:key:not-found", "ok", "ok", "err:sig:key:key-not-found", "ok", "err:unmarshal", "ok", "ok"] := by decide
example : ((run wCfg {} hist₁).get "did:nuts:Dd").events.map (·.ref) = [110, 211, 500] ∧
    acceptedRefs wCfg {} hist₁ = [100, 110, 100, 500, 211, 500] := by decide
example : ((run wCfg {} hist₁).get "did:nuts:Dd").events.map (·.ref) =
    ((run wCfg {} [c100, d110, u500, d211]).get "did:nuts:Dd").events.map (·.ref) := by decide


/-- the event a delivery contributes when it is accepted -/
def evOf (p : Delivery) : Event := match p.2 with | some d => eventOf p.1 d | none => default

theorem accepted_hist₁ : accepted wCfg {} hist₁ = [evOf c100, evOf d110, evOf c100, evOf u500, evOf d211, evOf u500] := by rfl
theorem accepted_hist₂ : accepted wCfgRev {} hist₂ = [evOf d110, evOf c100, evOf u500, evOf d211] := by rfl

-- (1)/(3) are not vacuous: two nodes, different delivery orders, different rejected traffic, different map iteration
-- orders — same accepted set, hence (by the theorem) the same answers
example : RefNames hist₁ ∧ (∀ e, e ∈ accepted wCfg {} hist₁ ↔ e ∈ accepted wCfgRev {} hist₂) := by
  refine ⟨refNames_hist₁, fun e => ?_⟩
  rw [accepted_hist₁, accepted_hist₂]
  simp only [List.mem_cons, List.mem_nil_iff, or_false]
  constructor <;> intro h
  · rcases h with h | h | h | h | h | h <;> simp [h]
  · rcases h with h | h | h | h <;> simp [h]
example : (∀ f l, ((fun (_ : Field) (l : List Entry) => l) f l).Perm l) ∧
    (∀ f l, ((fun (_ : Field) (l : List Entry) => l.reverse) f l).Perm l) :=
  ⟨fun _ _ => List.Perm.refl _, fun _ l => List.reverse_perm l⟩

/-! ### the seam: what `RefNames` is needed for -/

/-- the same ref delivered with other content -/
def c100' : Delivery := (createTx 100 "c", some (docOf "c" ["c", "y"] ["c"]))

/-- **Finding about the models (seam C09/C10).** C09's `Tx.ref` is an unconstrained number and `deliver` answers ok for a
    second, different, validly signed transaction carrying a ref the DID already has — C10's `add` then keeps the first
    event and drops the second without a word (`contains` compares refs only, `fact_equal_by_ref`). So without the contract
    `RefNames` ("the ref is the hash of the signed transaction") an ACCEPTED delivery need not be STORED: here two
    deliveries are accepted, one event is stored, and `store_holds_exactly_the_accepted` fails for the second one. -/
theorem ref_collision_accepted_but_not_stored :
    outcomes wCfg {} [c100, c100'] = ["ok", "ok"] ∧ (accepted wCfg {} [c100, c100']).length = 2 ∧
    ((run wCfg {} [c100, c100']).get "did:nuts:Dc").events.length = 1 ∧ ¬ RefNames [c100, c100'] := by
  refine ⟨by decide, by decide, by decide, fun h => ?_⟩
  have := h c100 (by simp) c100' (by simp) rfl
  have h2 := congrArg (fun p : Delivery => (p.2.map (fun d => d.vms.length))) this
  revert h2
  decide

/-- **Without the contract** (`RefNames` dropped — refs may collide): still every stored event is an accepted one, and
    every accepted delivery's REF is stored for its DID — possibly with the content of the first delivery that carried it
    (`ref_collision_accepted_but_not_stored`); nothing else can differ between "accepted" and "stored". -/
theorem store_vs_accepted_without_contract (c : C09.Cfg) (l : List Delivery) :
    (∀ id e, e ∈ ((run c {} l).get id).events → e ∈ accepted c {} l ∧ e.doc.id = id) ∧
    (∀ e, e ∈ accepted c {} l → ∃ x ∈ ((run c {} l).get e.doc.id).events, x.ref = e.ref) := by
  constructor
  · intro id e h
    rw [run_eq_runHist] at h
    obtain ⟨pre, tx, d, post, hl, he, hid, hok⟩ := C09.Props.resolvable_only_if_accepted c l id e h
    rw [← run_eq_runHist] at hok
    obtain ⟨s', hs', _⟩ := step_ok_inv c _ tx (some d) hok
    exact ⟨(mem_accepted c l {} e).mpr ⟨pre, tx, d, post, s', hl, he, hs'⟩, by rw [he, ← hid]; rfl⟩
  · intro e he
    obtain ⟨pre, tx, d, post, s', hl, rfl, hok⟩ := (mem_accepted c l {} e).mp he
    obtain ⟨h1, _, d', hpd, _, hadd⟩ := step_ok c _ s' (tx, some d) hok
    cases hpd
    have hmono : ∀ x, x ∈ (s'.get (eventOf tx d).doc.id).events → x ∈ ((run c {} l).get (eventOf tx d).doc.id).events := by
      intro x hx
      rw [hl, run_append]
      simp only [run]
      rw [h1]
      exact run_mono c post s' _ x hx
    obtain ⟨_, hown⟩ := add_get c.store _ s' _ hadd
    rcases hown with ⟨hnone, rfl⟩ | hsome
    · unfold addDid at hnone
      split at hnone
      · rename_i hc
        unfold contains at hc
        obtain ⟨y, hy, hyr⟩ := List.any_eq_true.mp hc
        exact ⟨y, hmono y hy, by simpa using hyr⟩
      · simp only at hnone
        split at hnone
        · cases hnone
        · cases hnone
        · split at hnone <;> cases hnone
    · exact ⟨_, hmono _ (addDid_mono c.store _ _ _ hsome).1, rfl⟩

/-! ### (4) is acceptance independent of the delivery order among causally consistent orders?  No. -/

/-- the statement one would like: two causally consistent delivery orders of the same deliveries accept the same transactions -/
def AcceptanceOrderIndependentStmt : Prop :=
  ∀ (c : C09.Cfg) (l₁ l₂ : List Delivery), l₁.Perm l₂ → RefNames l₁ → causal l₁ = true → causal l₂ = true →
    ∀ r, r ∈ acceptedRefs c {} l₁ ↔ r ∈ acceptedRefs c {} l₂

/-- **Smallest witness found (4 deliveries; with 3 every update's versions, controllers and key are pinned by its prevs).**
    `Dd` (controlled by itself and by `Dc`) deactivates itself (211, prevs = its creation) while its controller `Dc` updates it
    (500) naming only `Dc`'s own creation as prev: no prev of 500 names a version of `Dd`, so `handleUpdateDIDDocument` falls
    back to the LATEST version the node happens to hold (`currentVersion`, `fact_update_steps`/`updateFallsBackToLatest`).
    Delivered after the deactivation, 500 is refused (the latest version has no controller left); delivered before it, 500 is
    accepted and so is 211.  Both orders deliver every prev before its successor.  The two nodes end with different accepted
    sets — for good: no later delivery order repairs it — and answer `Resolve` differently. -/
theorem acceptance_depends_on_delivery_order :
    [c100, d110, d211, u500].Perm [c100, d110, u500, d211] ∧ RefNames [c100, d110, d211, u500] ∧
    causal [c100, d110, d211, u500] = true ∧ causal [c100, d110, u500, d211] = true ∧
    outcomes wCfg {} [c100, d110, d211, u500] = ["ok", "ok", "ok", "err:update:not-signed-by-controller"] ∧
    outcomes wCfg {} [c100, d110, u500, d211] = ["ok", "ok", "ok", "ok"] ∧
    acceptedRefs wCfg {} [c100, d110, d211, u500] = [100, 110, 211] ∧
    acceptedRefs wCfg {} [c100, d110, u500, d211] = [100, 110, 500, 211] ∧
    (match resolve (run wCfg {} [c100, d110, d211, u500]) "did:nuts:Dd" (some { allowDeactivated := true }) with
      | .ok (d, m) => (m.sourceTx, controllersOf d) | _ => ([], [])) = ([211], []) ∧
    (match resolve (run wCfg {} [c100, d110, u500, d211]) "did:nuts:Dd" (some { allowDeactivated := true }) with
      | .ok (d, m) => (m.sourceTx, controllersOf d) | _ => ([], [])) = ([500, 211], ["did:nuts:Dc"]) := by
  refine ⟨((List.Perm.swap _ _ _).cons _).cons _, ?_, by decide, by decide, by decide, by decide, by decide, by decide,
    by decide, by decide⟩
  intro p hp q hq h
  simp only [List.mem_cons, List.mem_nil_iff, or_false] at hp hq
  rcases hp with rfl | rfl | rfl | rfl <;> rcases hq with rfl | rfl | rfl | rfl <;>
    first | rfl | exact absurd h (by decide)

theorem acceptance_order_independent_false : ¬ AcceptanceOrderIndependentStmt := by
  intro h
  obtain ⟨hp, hr, h1, h2, _, _, _, _, _, _⟩ := acceptance_depends_on_delivery_order
  have := (h wCfg _ _ hp hr h1 h2 500).mpr (by decide)
  revert this
  decide

/-- creation of `De`, self-controlled, which also publishes `Dc`'s key `c` as one of its verification methods -/
def e120 : Delivery := (createTx 120 "e", some (docOf "e" ["e", "c"] ["e"]))
/-- `Dd'`: controlled by `Dc` only -/
def d130 : Delivery := (createTx 130 "f", some (docOf "f" ["f"] [] ["did:nuts:Dc"]))
/-- `Dc` rotates its key away from `c` / `Dc` is deactivated -/
def rot200 : Delivery := (updateTx 200 [100] "did:nuts:Dc" "c" 20, some (docOf "c" ["x"] ["x"]))
def deact300 : Delivery := (updateTx 300 [100] "did:nuts:Dc" "c" 30, some (docOf "c" [] []))
/-- update of `Df` signed with `c` under the alias kid `De#c`; the prevs name no transaction of `Dc`, so the controller is
    looked up by SIGNING TIME (the other fallback, `fact_ambassador_controller_resolution`) -/
def u410 : Delivery := (updateTx 410 [130, 120] "did:nuts:De" "c" 40, some (docOf "f" ["f"] ["f"] ["did:nuts:Dc"]))

-- the second source of order dependence: the signing-time controller fallback reads the controller's versions the node
-- happens to hold.  After the controller ROTATED the key away the update is refused, before it is accepted …
example : outcomes wCfg {} [c100, d130, e120, rot200, u410] = ["ok", "ok", "ok", "ok", "err:update:not-signed-by-controller"] ∧
    outcomes wCfg {} [c100, d130, e120, u410, rot200] = ["ok", "ok", "ok", "ok", "ok"] ∧
    causal [c100, d130, e120, rot200, u410] = true ∧ causal [c100, d130, e120, u410, rot200] = true := by decide
-- … whereas after the controller was DEACTIVATED the update is accepted in either order: by-time resolution skips the
-- deactivated latest version and answers the older active one — exactly the open finding
-- C09:accepted-update-by-key-of-deactivated-controller-after-its-deactivation (same fallback, same root)
example : outcomes wCfg {} [c100, d130, e120, deact300, u410] = ["ok", "ok", "ok", "ok", "ok"] ∧
    outcomes wCfg {} [c100, d130, e120, u410, deact300] = ["ok", "ok", "ok", "ok", "ok"] := by decide
-- … and a controller whose creation arrives late: refused, although every prev of 410 was delivered before it
example : outcomes wCfg {} [d130, e120, u410, c100] = ["ok", "ok", "err:update:not-signed-by-controller", "ok"] ∧
    outcomes wCfg {} [c100, d130, e120, u410] = ["ok", "ok", "ok", "ok"] ∧ causal [d130, e120, u410, c100] = true := by decide


/-- **What acceptance DOES depend on (the positive half of target 4).** The node's past matters for its future decisions only
    through the SET of accepted events: two nodes whose histories led to the same accepted set — whatever the orders, the
    replays and the rejected traffic were — treat every common future identically: the same outcome class for every further
    delivery (accepted, or refused with the same error), the same further accepted events, and agreeing stores (hence
    identical `Resolve` answers) after it.  So the order dependence of `acceptance_depends_on_delivery_order` comes from the
    accepted set a delivery MEETS, never from anything else a node remembers. -/
theorem future_depends_only_on_accepted_set (c : C09.Cfg) (σ : Field → List Entry → List Entry)
    (hσ : ∀ f l, (σ f l).Perm l) (hc : c.store = cfgOf σ Facts.C10.mergeSortedFields)
    (l₁ l₂ : List Delivery) (hR : RefNames l₁)
    (hsame : ∀ e, e ∈ accepted c {} l₁ ↔ e ∈ accepted c {} l₂) (future : List Delivery) :
    outcomes c (run c {} l₁) future = outcomes c (run c {} l₂) future ∧
    accepted c (run c {} l₁) future = accepted c (run c {} l₂) future ∧
    (∀ id rm, resolve (run c {} (l₁ ++ future)) id rm = resolve (run c {} (l₂ ++ future)) id rm) := by
  have hag : Agree (run c {} l₁) (run c {} l₂) :=
    (same_accepted_set_same_answers c c σ σ hσ hσ hc hc l₁ l₂ hR hsame).1
  obtain ⟨h1, h2, h3⟩ := run_agree c future _ _ hag
  refine ⟨h1, h2, fun id rm => ?_⟩
  rw [run_append, run_append, resolve_agree h3]

-- not vacuous: after the two histories of the example above (same accepted set) a common future — a replay, a forged
-- update, a further valid update — is treated identically
example : outcomes wCfg (run wCfg {} hist₁) [u500, forged, c100] = outcomes wCfg (run wCfg {} hist₂) [u500, forged, c100] ∧
    outcomes wCfg (run wCfg {} hist₁) [u500, forged, c100] = ["ok", "err:sig:key:key-not-found", "ok"] := by decide


/-! ### C13: the subject manager's view of the did:nuts store -/

theorem resolve_allow_latest (s : Store) (id : String) :
    resolve s id (some { allowDeactivated := true }) =
      (match (s.get id).chain.reverse with | [] => .err "not-found" | p :: _ => .ok p) := by
  unfold resolve
  cases (s.get id).chain.reverse with
  | nil => rfl
  | cons p ps =>
    obtain ⟨d, m⟩ := p
    simp [resolveChain, latestNonDeactivatedRequested, matchesMeta]

/-- **C13's `pubLatest` is C10's `Resolve(id, AllowDeactivated)`** on the abstraction of any store -/
theorem pubLatest_is_resolve_latest (tok : String → Nat) (name : Nat → String) (s : Store) (n : Nat) :
    C13.pubLatest (pubOf tok name s) n =
      (match resolve s (name n) (some { allowDeactivated := true }) with
       | .ok (d, _) => some (absContent tok d) | _ => none) := by
  rw [resolve_allow_latest]
  unfold C13.pubLatest pubOf
  cases (s.get (name n)).chain.reverse with
  | nil => rfl
  | cons p ps => rfl

/-- C13's document-level deactivation test is C10's `isDeactivated` on documents without controller (the documents the
    subject manager generates) -/
theorem content_deactivated_eq (tok : String → Nat) (d : Doc) (hc : d.f .controller = []) :
    (absContent tok d).deactivated = isDeactivated d := by
  simp [absContent, C13.Content.deactivated, isDeactivated, hc]

/-- **Deactivation commit: C13 agrees with C09's `Manager.Update` when flag = content (`_partial`).**  C13's `commitNuts`
    refuses a deactivation iff the latest published CONTENT is deactivated (first conjunct); C09's `managerUpdate` (the same
    Go function: `onDeactivate → Deactivate → Manager.Update`) refuses with `deactivated` when C10's sticky metadata FLAG is
    set (second conjunct).  Under the extra hypothesis `hflag` — for the latest version of the DID the flag equals the
    document-level test, which holds without conflicts — a deactivation C13 refuses is refused by `Manager.Update` for that
    reason, and one `Manager.Update` lets through is published by C13. -/
theorem deactivation_commit_agrees_partial (c : C09.Cfg) (tok : String → Nat) (name : Nat → String) (s : Store) (n : Nat)
    (has : String → Bool) (svcOk : Bool) (next : NDoc) (d : Doc) (m : Meta)
    (hres : resolve s (name n) (some { allowDeactivated := true }) = .ok (d, m)) :
    (C13.commitNuts (pubOf tok name s) (deactivationOf n) =
      if (absContent tok d).deactivated then .err "deactivated"
      else .ok (C13.publish (pubOf tok name s) n C13.Content.empty)) ∧
    (m.deactivated = true → managerUpdate c s has svcOk (name n) next = .err "mgr:deactivated") ∧
    (m.deactivated = (absContent tok d).deactivated →
      (C13.commitNuts (pubOf tok name s) (deactivationOf n) = .err "deactivated" →
        managerUpdate c s has svcOk (name n) next = .err "mgr:deactivated") ∧
      (∀ p, managerUpdate c s has svcOk (name n) next = .ok p →
        C13.commitNuts (pubOf tok name s) (deactivationOf n) = .ok (C13.publish (pubOf tok name s) n C13.Content.empty))) := by
  have hp := pubLatest_is_resolve_latest tok name s n
  rw [hres] at hp
  simp only at hp
  have hA : C13.commitNuts (pubOf tok name s) (deactivationOf n) =
      if (absContent tok d).deactivated then .err "deactivated"
      else .ok (C13.publish (pubOf tok name s) n C13.Content.empty) := by
    unfold C13.commitNuts deactivationOf
    simp only [hp]
  have hB : m.deactivated = true → managerUpdate c s has svcOk (name n) next = .err "mgr:deactivated" := by
    intro hm
    unfold managerUpdate
    simp only [hres, hm, if_true]
  refine ⟨hA, hB, fun hflag => ⟨fun h => hB ?_, fun p hpk => ?_⟩⟩
  · rw [hA] at h
    cases hd : (absContent tok d).deactivated with
    | true => rw [hflag, hd]
    | false => rw [hd] at h; simp at h
  · rw [hA]
    cases hd : (absContent tok d).deactivated with
    | false => simp
    | true =>
      rw [hB (by rw [hflag, hd])] at hpk
      cases hpk

/-! #### where the two models part: a conflicted DID -/

/-- self-controlled `Dd` without controller field -/
def s110 : Delivery := (createTx 110 "d", some (docOf "d" ["d"] ["d"]))
/-- `Dd` is deactivated … -/
def s211 : Delivery := (updateTx 211 [110] "did:nuts:Dd" "d" 20, some (docOf "d" [] []))
/-- … while a concurrent update (another node holding the key, or a race) names the same previous version -/
def s212 : Delivery := (updateTx 212 [110] "did:nuts:Dd" "d" 30, some (docOf "d" ["d"] ["d"]))

/-- **Seam C13 / (C09 ∘ C10): the models disagree on a conflicted DID.**  After the reachable history
    create, deactivate, concurrent update (all three accepted by C09) C10's latest version of `Dd` is the MERGE of the
    deactivation and the update: its content has a capabilityInvocation key (not deactivated, `onUpdate`'s test), its
    metadata flag is deactivated (sticky; `Manager.Update`'s test).  C09's `managerUpdate` refuses the deactivation with
    `deactivated` — C13's `commitNuts`, which sees only contents (`pub`), publishes it.  C13's `pub : Nat → List Content`
    cannot express the flag: C13's theorems hold for the node's own linear publications, not for every C10-reachable store. -/
theorem deactivation_commit_disagrees_on_conflicted_store :
    outcomes wCfg {} [s110, s211, s212] = ["ok", "ok", "ok"] ∧
    (match resolve (run wCfg {} [s110, s211, s212]) "did:nuts:Dd" (some { allowDeactivated := true }) with
      | .ok (d, m) => (isDeactivated d, m.deactivated, m.sourceTx) | _ => (true, false, [])) = (false, true, [212, 211]) ∧
    (match managerUpdate wCfg (run wCfg {} [s110, s211, s212]) (fun _ => true) true "did:nuts:Dd" (docOf "d" [] []) with
      | .err e => e | _ => "") = "mgr:deactivated" ∧
    (match C13.commitNuts (pubOf (fun _ => 7) (fun _ => "did:nuts:Dd") (run wCfg {} [s110, s211, s212])) (deactivationOf 0) with
      | .ok pub => (pub 0).length | _ => 0) = 4 := by
  refine ⟨by decide, by decide, by decide, by decide⟩

-- `deactivation_commit_agrees_partial` is not vacuous: without a conflict flag and content agree (active / deactivated)
example : (match resolve (run wCfg {} [s110]) "did:nuts:Dd" (some { allowDeactivated := true }) with
    | .ok (d, m) => (m.deactivated, (absContent (fun _ => 7) d).deactivated) | _ => (true, false)) = (false, false) ∧
  (match resolve (run wCfg {} [s110, s211]) "did:nuts:Dd" (some { allowDeactivated := true }) with
    | .ok (d, m) => (m.deactivated, (absContent (fun _ => 7) d).deactivated) | _ => (true, false)) = (true, true) := by decide

end Nuts.Compose.Did.Props
