/-
  Composition C09 ∘ C10 — the did:nuts pipeline end to end.
  ONLY the composition theorems + non-vacuity examples.  Maps: NutsModel/Compose/Did.lean; helper lemmas:
  NutsProofs/Lemmas/ComposeDid.lean.

  What the single properties leave open and this file closes:
    * C09's theorems speak about ONE delivery into a given store; C10's theorems take "the arrived events" as an
      unconstrained list.  Here the node receives a whole history through C09's `step` (`run`), and the list C10 is
      instantiated with is exactly what C09 accepted on the way (`accepted`): `run c {} l` IS `addAll c.store {} (accepted c {} l)`.
    * the only hypothesis at the seam: a transaction ref names the delivery (`RefNames`: the ref is the hash of the signed
      transaction, which carries the payload hash).  C09's `Tx.ref` is an unconstrained `Nat` and `deliver` answers ok for a
      second transaction with a known ref and other content while C10's `add` silently keeps the first one
      (`ref_collision_accepted_but_not_stored`): without the contract "accepted" and "stored" differ.
-/
import NutsProofs.Lemmas.ComposeDid
import NutsProofs.Props.C09
import NutsProofs.Props.C10
import NutsModel.Facts.C09
import NutsModel.Facts.C10

namespace Nuts.Compose.Did.Props
open Nuts Nuts.C10 Nuts.C09 Nuts.Compose.Did

/-- **Contract at the seam**: within a history a transaction ref names the delivery -/
def RefNames (l : List Delivery) : Prop := ∀ p ∈ l, ∀ q ∈ l, p.1.ref = q.1.ref → p = q

theorem refFun_accepted (c : C09.Cfg) (l : List Delivery) (hR : RefNames l) : RefFun (accepted c {} l) := by
  intro a ha b hb hab
  obtain ⟨pre, tx, d, post, _, hl, rfl, _⟩ := (mem_accepted c l {} a).mp ha
  obtain ⟨pre', tx', d', post', _, hl', rfl, _⟩ := (mem_accepted c l {} b).mp hb
  have h1 : (tx, some d) ∈ l := by rw [hl]; simp
  have h2 : (tx', some d') ∈ l := by rw [hl']; simp
  have := hR _ h1 _ h2 hab
  simp only [Prod.mk.injEq, Option.some.injEq] at this
  obtain ⟨rfl, rfl⟩ := this
  rfl

theorem store_holds_exactly_the_accepted (c : C09.Cfg) (l : List Delivery) (hR : RefNames l) :
    addAll c.store {} (accepted c {} l) = .ok (run c {} l) ∧
    (∀ id, Inv c.store ((run c {} l).get id) ∧
      (∀ e, e ∈ ((run c {} l).get id).events ↔ (e ∈ accepted c {} l ∧ e.doc.id = id)) ∧
      (∀ e, e ∈ ((run c {} l).get id).events ↔
        ∃ pre tx d post s', l = pre ++ (tx, some d) :: post ∧ e = eventOf tx d ∧ d.id = id ∧
          deliver c (run c {} pre) tx (some d) = .ok s')) ∧
    (∀ pre p post, l = pre ++ p :: post → (step c (run c {} pre) p.1 p.2).2 ≠ "ok" →
      run c {} l = run c {} (pre ++ post) ∧ accepted c {} l = accepted c {} (pre ++ post)) := by
  have hrun := run_is_addAll c l {}
  refine ⟨hrun, fun id => ?_, ?_⟩
  · obtain ⟨hinv, hmem⟩ := C10.Props.store_is_fold c.store _ (refFun_accepted c l hR) _ hrun id
    refine ⟨hinv, hmem, fun e => ?_⟩
    rw [hmem e, mem_accepted]
    constructor
    · rintro ⟨⟨pre, tx, d, post, s', hl, he, hok⟩, hid⟩
      exact ⟨pre, tx, d, post, s', hl, he, by rw [← hid, he]; rfl, hok⟩
    · rintro ⟨pre, tx, d, post, s', hl, he, hid, hok⟩
      exact ⟨⟨pre, tx, d, post, s', hl, he, hok⟩, by rw [he, ← hid]; rfl⟩
  · intro pre p post hl hrej
    have hs := (C09.Props.rejected_inert c (run c {} pre) p.1 p.2 hrej).1
    subst hl
    rw [run_append, run_append, accepted_append, accepted_append]
    have hnone : acceptedEvent c (run c {} pre) p = none := by
      by_cases h : ∃ s', deliver c (run c {} pre) p.1 p.2 = .ok s'
      · obtain ⟨s', hs'⟩ := h
        exact absurd (step_ok c _ s' p hs').2.1 hrej
      · exact (step_not_ok c _ p (fun s' hs' => h ⟨s', hs'⟩)).2.2
    simp only [run, accepted, hs, hnone, Option.toList, List.nil_append, and_self]

theorem same_accepted_set_same_answers (c₁ c₂ : C09.Cfg) (σ₁ σ₂ : Field → List Entry → List Entry)
    (h₁ : ∀ f l, (σ₁ f l).Perm l) (h₂ : ∀ f l, (σ₂ f l).Perm l)
    (hc₁ : c₁.store = cfgOf σ₁ Facts.C10.mergeSortedFields) (hc₂ : c₂.store = cfgOf σ₂ Facts.C10.mergeSortedFields)
    (l₁ l₂ : List Delivery) (hR : RefNames l₁)
    (hsame : ∀ e, e ∈ accepted c₁ {} l₁ ↔ e ∈ accepted c₂ {} l₂) :
    (∀ id, (run c₁ {} l₁).get id = (run c₂ {} l₂).get id) ∧
    (∀ id rm, resolve (run c₁ {} l₁) id rm = resolve (run c₂ {} l₂) id rm) ∧
    (∀ n rm id, resolverResolve n (run c₁ {} l₁) rm id = resolverResolve n (run c₂ {} l₂) rm id) ∧
    (∀ n kid refs, resolvePublicKey n (run c₁ {} l₁) kid refs = resolvePublicKey n (run c₂ {} l₂) kid refs) ∧
    (∀ kid refs, resolvePublicKeyStore (run c₁ {} l₁) kid refs = resolvePublicKeyStore (run c₂ {} l₂) kid refs) ∧
    (run c₁ {} l₁).documentCount = (run c₂ {} l₂).documentCount ∧
    (run c₁ {} l₁).conflictedCount = (run c₂ {} l₂).conflictedCount ∧
    iterate (run c₁ {} l₁) = iterate (run c₂ {} l₂) ∧
    (∀ id, conflictedOf (run c₁ {} l₁) id = conflictedOf (run c₂ {} l₂) id) := by
  have r₁ := run_is_addAll c₁ l₁ {}
  have r₂ := run_is_addAll c₂ l₂ {}
  rw [hc₁] at r₁
  rw [hc₂] at r₂
  have hU := refFun_accepted c₁ l₁ hR
  have hroi := C10.Props.resolve_order_independent σ₁ σ₂ h₁ h₂ _ _ hU hsame _ _ r₁ r₂
  have hst := C10.Props.stats_order_independent σ₁ σ₂ h₁ h₂ _ _ hU hsame _ _ r₁ r₂
  have hobs := C10.Props.observations_order_independent σ₁ σ₂ h₁ h₂ _ _ hU hsame _ _ r₁ r₂
  have hres : ∀ id rm, resolve (run c₁ {} l₁) id rm = resolve (run c₂ {} l₂) id rm := fun id rm => (hroi id).2 rm
  have hsd : ∀ rm, storeDoc (run c₁ {} l₁) rm = storeDoc (run c₂ {} l₂) rm := by
    intro rm; funext id; unfold storeDoc; rw [hres]
  have hrr : ∀ n rm, resolverResolve n (run c₁ {} l₁) rm = resolverResolve n (run c₂ {} l₂) rm := by
    intro n rm; funext id; unfold resolverResolve; rw [hsd]
  refine ⟨fun id => (hroi id).1, hres, fun n rm id => by rw [hrr], ?_, ?_, hst.1, hst.2, hobs.2.1, hobs.1⟩
  · intro n kid refs
    unfold resolvePublicKey
    have : resolverResolve n (run c₁ {} l₁) = resolverResolve n (run c₂ {} l₂) := by funext rm; exact hrr n rm
    rw [this]
  · intro kid refs
    unfold resolvePublicKeyStore
    have : storeDoc (run c₁ {} l₁) = storeDoc (run c₂ {} l₂) := by funext rm; exact hsd rm
    rw [this]
end Nuts.Compose.Did.Props
