/-
  C16 — Discovery lists hold only verified registrations and clients converge to them.
  ONLY property theorems (+ non-vacuity examples + obligations on the regenerated facts).
  Helper lemmas: NutsProofs/Lemmas/C16.lean.  Model: NutsModel/C16/Discovery.lean
  (discovery/module.go, store.go, client.go).  Facts: NutsModel/Facts/C16.lean is REGENERATED from /repo.
-/
import NutsModel.C16.Discovery
import NutsModel.Facts.C16
import NutsProofs.Lemmas.C16

namespace Nuts.C16.Props
open Nuts.C16

/-! ### Obligations on the regenerated facts (a source change flips these) -/

/-- `sqlStore.get` reads the service record (seed, last timestamp) BEFORE the rows; the mirrored order loses entries
    (`get_mirrored_order_unsafe`) -/
theorem fact_get_reads_timestamp_first :
    Facts.C16.getServiceFirst = true ∧ Facts.C16.getReadsBoth = true ∧
    Facts.C16.getRowConditions = ["lamport_timestamp ASC", "service_id = ? AND lamport_timestamp > ?"] := by decide

/-- the checks of `verifyRegistration` / `validateRetraction` / `validateRegistration` and their order are the model's -/
theorem fact_check_order :
    Facts.C16.verifyChecks = checkOrder ∧ Facts.C16.retractionChecks = retractionCheckOrder ∧
    Facts.C16.registrationChecks = registrationCheckOrder ∧
    Facts.C16.registerCalls = ["verifyRegistration", "store.exists", "store.add", "store.updateValidated"] ∧
    Facts.C16.maxValidityComparison = ["time.Until() >"] := by decide

/-- `sqlStore.add` prunes, bumps the timestamp by one under the row lock, deletes the subject's previous rows, stores -/
theorem fact_add_deletes_previous :
    Facts.C16.addCalls = ["s.prune", "incrementTimestamp", "setTimestamp", "tx.Delete", "storePresentation"] ∧
    Facts.C16.addDeleteConditions = ["service_id = ? AND credential_subject_id = ?"] ∧
    Facts.C16.incrementExpr = ["service.LastLamportTimestamp + 1"] := by decide

/-- expiry comparisons: prune removes `exp < now`, search hides `exp <= now`, only validated rows are searched -/
theorem fact_expiry_comparisons :
    Facts.C16.pruneConditions = ["presentation_expiration < ?"] ∧
    Facts.C16.searchSkipConditions = ["match.PresentationExpiration <= time.Now().Unix()"] ∧
    Facts.C16.searchValidatedConditions = ["validated != 0"] := by decide

/-- `updateService`: timestamp, Get, wipe on seed change, then per presentation exists → skip, add, verify, flag -/
theorem fact_update_service_shape :
    Facts.C16.updateServiceCalls = ["store.getTimestamp", "client.Get", "store.wipeOnSeedChange", "store.exists",
      "store.add", "u.verifier", "store.updateValidated"] ∧
    Facts.C16.updateSkipsExisting = true ∧
    Facts.C16.wipeConditions = ["service.Seed != seed && len() > 0"] := by decide

/-! ### the list holds only what passed the registration predicate -/

/-- `verifyRegistration` accepts exactly the presentations the property describes (`Acceptable`): sound and complete. -/
theorem verify_iff_acceptable (d : Def) (s : Store) (now : Nat) (vp : VP) :
    verify d s now .server vp = .ok () ↔ ∃ subj e, Acceptable d s now vp subj e :=
  verify_ok_acceptable d s now vp

/-- **listed_sound.** After ANY history (registrations of arbitrary presentations with arbitrary verdicts, resets,
    clock steps, polls) every row of the server list stems from a presentation that satisfied the registration
    predicate at some earlier clock value against the list of that moment, and its columns are the presentation's. -/
theorem listed_sound (cfg : Cfg) (d : Def) (evs : List Ev) (t0 : Nat) :
    ∀ r ∈ (run cfg d { t := t0 } evs).S.rows,
      RowWF r ∧ ∃ s now, now ≤ (run cfg d { t := t0 } evs).t ∧ SInv s ∧ Acceptable d s now r.vp r.subject r.exp := by
  intro r hr
  have h := serverOK_run cfg d evs { t := t0 } (serverOK_init d t0)
  exact ⟨h.inv.wf r hr, h.listed r hr⟩

/-- **one_live_per_subject.** After any history the list holds at most one row per subject (expired or not). -/
theorem one_live_per_subject (cfg : Cfg) (d : Def) (evs : List Ev) (t0 : Nat) :
    (run cfg d { t := t0 } evs).S.rows.Pairwise (fun a b => a.subject ≠ b.subject) :=
  (serverOK_run cfg d evs { t := t0 } (serverOK_init d t0)).inv.onePer

/-- **timestamps_strict.** After any history the rows' timestamps are strictly increasing, at least 1 and at most the
    service timestamp; an accepted registration gets the service timestamp + 1 (above every row), a rejected one
    changes nothing; no step other than a reset lowers the service timestamp. -/
theorem timestamps_strict (cfg : Cfg) (d : Def) (evs : List Ev) (t0 : Nat) :
    let w := run cfg d { t := t0 } evs
    w.S.rows.Pairwise (fun a b => a.ts < b.ts) ∧ (∀ r ∈ w.S.rows, 1 ≤ r.ts ∧ r.ts ≤ w.S.lastTs) ∧
    (∀ vp fresh, fresh ≠ 0 →
      ((register d w.S w.t fresh vp).2 = .ok () →
          (register d w.S w.t fresh vp).1.lastTs = w.S.lastTs + 1 ∧
          (∃ r ∈ (register d w.S w.t fresh vp).1.rows, r.ts = w.S.lastTs + 1 ∧ r.vp = vp) ∧
          ∀ r ∈ w.S.rows, r.ts < w.S.lastTs + 1) ∧
      ((register d w.S w.t fresh vp).2 ≠ .ok () → (register d w.S w.t fresh vp).1 = w.S)) ∧
    (∀ e, (step cfg d w e).1.S.lastTs ≥ w.S.lastTs ∨ (step cfg d w e).1.S = {}) := by
  intro w
  have h := serverOK_run cfg d evs { t := t0 } (serverOK_init d t0)
  refine ⟨h.inv.sorted, h.inv.bound, ?_, ?_⟩
  · intro vp fresh _
    rcases register_cases d w.S w.t fresh vp with ⟨o, ho, hne⟩ | ⟨subj, e, id, hA, hid, _, hreg⟩
    · rw [ho]; exact ⟨fun h => absurd h hne, fun _ => rfl⟩
    · rw [hreg]
      refine ⟨fun _ => ⟨rfl, ⟨(addOk w.S w.t vp subj id e (if w.S.seed = 0 then fresh else w.S.seed) (w.S.lastTs + 1)).2,
        mem_addOk.mpr (Or.inr rfl), rfl, rfl⟩, fun r hr => ?_⟩, fun h => absurd rfl h⟩
      have hb : r.ts ≤ w.S.lastTs := (h.inv.bound r hr).2
      exact Nat.lt_succ_of_le hb
  · intro e
    rcases step_server cfg d w e with ⟨hS, _⟩ | ⟨hS, _⟩ | ⟨vp, hS, _⟩
    · left; rw [hS]; exact Nat.le_refl _
    · right; exact hS
    · left
      rw [hS]
      rcases register_cases d w.S w.t (w.ctr + 1) vp with ⟨o, ho, _⟩ | ⟨subj, e, id, _, _, _, hreg⟩
      · rw [ho]; exact Nat.le_refl _
      · rw [hreg]; show w.S.lastTs + 1 ≥ w.S.lastTs; omega

/-- **retraction_needs_owner.** A retraction is accepted only if the list holds an entry with the retracted id whose
    subject is the retraction's (verified) signer; and whatever a signer submits — accepted or not — the entries of
    every OTHER subject stay (only expired ones may be pruned); a rejected submission changes nothing at all. -/
theorem retraction_needs_owner (d : Def) (s : Store) (now fresh : Nat) (vp : VP) :
    (vp.retraction = true → (register d s now fresh vp).2 = .ok () →
      ∃ subj m j, vp.signer = some (subj, m) ∧ vp.retractJti = some j ∧ vp.verifyS = true ∧
        ∃ r ∈ s.rows, r.subject = subj ∧ r.id = j) ∧
    (∀ subj m, vp.signer = some (subj, m) →
      ∀ r ∈ s.rows, r.subject ≠ subj → ¬ r.exp < now → r ∈ (register d s now fresh vp).1.rows) ∧
    ((register d s now fresh vp).2 ≠ .ok () → (register d s now fresh vp).1 = s) := by
  rcases register_cases d s now fresh vp with ⟨o, ho, hne⟩ | ⟨subj, e, id, hA, hid, _, hreg⟩
  · rw [ho]
    exact ⟨fun _ h => absurd h hne, fun _ _ _ r hr _ _ => hr, fun _ => rfl⟩
  · rw [hreg]
    obtain ⟨m, hsig, _⟩ := hA.signer
    refine ⟨fun hr _ => ?_, fun subj' m' hs' r hr hne hexp => ?_, fun h => absurd rfl h⟩
    · obtain ⟨_, j, hj, _, hrow⟩ := hA.retraction hr
      exact ⟨subj, m, j, hsig, hj, hA.verifiable, hrow⟩
    · rw [hsig] at hs'
      cases hs'
      show r ∈ (addOk s now vp subj id e (if s.seed = 0 then fresh else s.seed) (s.lastTs + 1)).1.rows
      exact mem_addOk.mpr (Or.inl ⟨hr, hexp, hne⟩)

/-! ### non-vacuity: concrete presentations that are accepted / rejected by the model -/

def exDef : Def := { id := "svc", maxValidity := 100, didMethods := ["example"] }
def exVP (subj id : String) (e : Nat) : VP :=
  { id := some id, aud := ["svc"], exp := some e, signer := some (subj, "example"), creds := [{ exp := some (e + 5) }, { exp := none }],
    pex := .matched 2, verifyS := true, verifyC := true }
def exRetract (subj id jti : String) (e : Nat) : VP :=
  { id := some id, aud := ["svc"], exp := some e, signer := some (subj, "example"), retraction := true, retractJti := some jti,
    verifyS := true, verifyC := true }
def exCfg : Cfg := { serviceFirst := true, restartOnWipe := true }

/-- two subjects register, one refreshes, the owner retracts: 2 rows, timestamps 3 and 4 -/
example : ((run exCfg exDef { t := 10 } [.register (exVP "a" "v1" 50), .register (exVP "b" "v2" 60), .register (exVP "a" "v3" 70),
    .register (exRetract "b" "v4" "v2" 60)]).S.rows.map (fun r => (r.ts, r.subject, r.id))) = [(3, "a", "v3"), (4, "b", "v4")] := by decide
/-- a retraction by another signer is rejected and changes nothing -/
example : (register exDef (run exCfg exDef { t := 10 } [.register (exVP "a" "v1" 50)]).S 10 7 (exRetract "b" "v4" "v1" 60)).2
    = .err "retract-unknown" := by decide
/-- a presentation that outlives a credential is rejected -/
example : (register exDef {} 10 1 { exVP "a" "v1" 50 with creds := [{ exp := some 40 }, { exp := none }] }).2 = .err "cred-exp" := by decide

end Nuts.C16.Props
