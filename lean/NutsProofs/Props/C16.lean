/-
  C16 — Discovery lists hold only verified registrations and clients converge to them.
  ONLY property theorems (+ non-vacuity examples + obligations on the regenerated facts).
  Helper lemmas: NutsProofs/Lemmas/C16.lean.  Model: NutsModel/C16/Discovery.lean
  (discovery/module.go, store.go, client.go); statement vocabulary (Acceptable, SInv, Reach, IdFun, ExpMono, LiveEq …):
  NutsModel/C16/Spec.lean.  Facts: NutsModel/Facts/C16.lean is REGENERATED from /repo.
-/
import NutsModel.C16.Discovery
import NutsModel.C16.Spec
import NutsModel.Facts.C16
import NutsProofs.Lemmas.C16

namespace Nuts.C16.Props
open Nuts.C16

/-! ### Obligations on the regenerated facts (a source change flips these) -/

/-- `sqlStore.get` reads the service record (seed, last timestamp) BEFORE the rows; the mirrored order loses entries
    (`get_mirrored_order_unsafe`) -/
theorem fact_get_reads_timestamp_first :
    Facts.C16.getServiceFirst = true ∧ Facts.C16.getReadsBoth = true ∧
    Facts.C16.getRowConditions = ["lamport_timestamp ASC", "service_id = ? AND lamport_timestamp > ?"] := by decide

/-- the checks of `verifyRegistration` / `validateRetraction` / `validateRegistration` and their order are the model's -/
theorem fact_check_order :
    Facts.C16.verifyChecks = checkOrder ∧ Facts.C16.retractionChecks = retractionCheckOrder ∧
    Facts.C16.registrationChecks = registrationCheckOrder ∧
    Facts.C16.registerCalls = ["verifyRegistration", "store.exists", "store.add", "store.updateValidated"] ∧
    Facts.C16.maxValidityComparison = ["time.Until() >"] := by decide

/-- `sqlStore.add` prunes, bumps the timestamp by one under the row lock, deletes the subject's previous rows, stores -/
theorem fact_add_deletes_previous :
    Facts.C16.addCalls = ["s.prune", "incrementTimestamp", "setTimestamp", "tx.Delete", "storePresentation"] ∧
    Facts.C16.addDeleteConditions = ["service_id = ? AND credential_subject_id = ?"] ∧
    Facts.C16.incrementExpr = ["service.LastLamportTimestamp + 1"] := by decide

/-- `setTimestamp` stores the timestamp of the response it applies UNCONDITIONALLY (no "keep the maximum" guard): a late,
    older response rolls the replica's timestamp back together with the entries it re-installs, so the next poll heals it
    (`overlapping_polls_heal`); `Store.add` in client mode does the same -/
theorem fact_set_timestamp_unconditional :
    Facts.C16.setTimestampStmts = ["service.ID = serviceID", "service.LastLamportTimestamp = timestamp", "service.Seed = seed"] := rfl

/-- `newSQLStore` (every `Module.Start`) only creates MISSING service records (`FirstOrCreate`): seed and timestamp of a
    list survive a restart of the node, which is why `restartServer` is the identity in the model -/
theorem fact_start_keeps_service_records :
    Facts.C16.newStoreDBCalls = ["db.FirstOrCreate(&currentList, \"id = ?\", definition.ID)"] := rfl

/-- expiry comparisons: prune removes `exp < now`, search hides `exp <= now`, only validated rows are searched -/
theorem fact_expiry_comparisons :
    Facts.C16.pruneConditions = ["presentation_expiration < ?"] ∧
    Facts.C16.searchSkipConditions = ["match.PresentationExpiration <= time.Now().Unix()"] ∧
    Facts.C16.searchValidatedConditions = ["validated != 0"] := by decide

/-- `updateService`: timestamp, Get, wipe on seed change, then per presentation exists → skip, add, verify, flag -/
theorem fact_update_service_shape :
    Facts.C16.updateServiceCalls = ["store.getTimestamp", "client.Get", "store.wipeIfSeedChanged", "store.exists",
      "store.add", "u.verifier", "store.updateValidated"] ∧
    Facts.C16.updateSkipsExisting = true ∧
    Facts.C16.wipeConditions = ["service.Seed != seed && len() > 0"] := by decide

/-! #### edges of the mechanism (coverage audit): sibling functions, wiring, comparison helpers, loop shapes -/

/-- every writer of the service record (timestamp increment / set, wipe) reads it under the row lock, on both SQL dialects -/
theorem fact_service_writers_locked :
    Facts.C16.lockedServiceWriters = ["clause.Locking", "UPDLOCK", "incrementTimestamp", "setTimestamp", "wipeIfSeedChanged"] := rfl

/-- loops that must visit every element do: the credential-expiry loop and the audience loop only leave by returning their
    verdict, `clientUpdater.update` never leaves early (a failing service does not stop the others), `validate` /
    `removeRevoked` only `continue` -/
theorem fact_loops_visit_everything :
    Facts.C16.loopJumps = ["validateRegistration:return errCredentialWithoutID",
      "validateRegistration:return errPresentationValidityExceedsCredentials",
      "validateRegistration:return errPresentationDoesNotFulfillDefinition", "validateAudience:return nil",
      "validate:continue", "validate:continue", "validate:continue", "removeRevoked:continue", "removeRevoked:continue"] := rfl

/-- comparisons are exact: audience by `==`, DID method by `slices.Contains`, credential expiry by `After`; "all and only":
    every presented credential must be among the credentials `Match` used (fix 64fe968; `Match` returns a credential once
    per input descriptor it fulfils, so equal counts proved nothing) -/
theorem fact_comparisons_exact :
    Facts.C16.comparisons = ["aud: audienceID == service.ID",
      "method: len(definition.DIDMethods) > 0 && !slices.Contains(definition.DIDMethods, credentialSubjectID.Method)",
      "registration: cred.ID == nil",
      "registration: cred.ExpirationDate != nil && expiration.After(*cred.ExpirationDate)", "registration: err != nil",
      "registration: !containsCredential(creds, presented)"] := rfl

/-- `storePresentation` checks `credential.ID` before it hands the credential to the credential store, which dereferences
    it (fix e361284): the model's `Store.add` returns `cred-no-id` there and has no panic site for it -/
theorem fact_store_guards_credential_id :
    Facts.C16.storeCredentialGuards = ["if verifiableCredential.ID == nil", "credentialStore.Store", "if err != nil"] := rfl

/-- an entry is identified by (service, signer, presentation id) — everywhere `exists` is asked (`Store.hasKey`) -/
theorem fact_exists_key :
    Facts.C16.existsKey = ["ServiceID=serviceID", "CredentialSubjectID=credentialSubjectID", "PresentationID=presentationID"] ∧
    Facts.C16.existsCalls = ["Register(definition.ID, credentialSubjectID.String(), presentation.ID.String())",
      "validateRetraction(serviceID, signerDID.String(), retractJTI)",
      "updateService(service.ID, credentialSubjectID.String(), presentation.ID.String())"] := ⟨rfl, rfl⟩

/-- background jobs: `validate` flags exactly the records that verified (`clientValidate`); `removeRevoked` deletes only on
    `ErrRevoked` (no revocation in the model: it is the identity there) -/
theorem fact_background_jobs :
    Facts.C16.backgroundJobs = ["presentations[j] = presentations[i]", "updateValidated(presentations[:j])",
      "delete if errors.Is(err, types.ErrRevoked)"] := rfl

/-- wiring: `Start` hands the client updater and the registration manager the module's own `verifyRegistration`, store and
    definitions; `Search` never allows unvalidated rows; the API wrapper and the HTTP client pass service id, timestamp,
    seed, entries through unchanged -/
theorem fact_wiring :
    Facts.C16.wiring = ["newSQLStore(m.storageInstance.GetSQLDatabase(), m.allDefinitions)",
      "newClientUpdater(m.allDefinitions, m.store, m.verifyRegistration, m.httpClient)",
      "newRegistrationManager(m.allDefinitions, m.store, m.httpClient, m.vcrInstance, m.subjectManager, m.didResolver, m.verifyRegistration)",
      "Search: store.search(serviceID, query, false)", "Get: store.get(serviceID, startAfter)",
      "api: Server.Get(contextWithForwardedHost(ctx), request.ServiceID, timestamp)",
      "api: response{Seed: seed, Entries: presentations, Timestamp: newTimestamp}",
      "api: Server.Register(contextWithForwardedHost(ctx), request.ServiceID, *request.Body)",
      "http: query timestamp", "http: return result.Entries, result.Seed, result.Timestamp, nil"] := rfl

/-! ### the list holds only what passed the registration predicate -/

/-- `verifyRegistration` accepts exactly the presentations the property describes (`Acceptable`): sound and complete. -/
theorem verify_iff_acceptable (d : Def) (side : Side) (s : Store) (now : Nat) (vp : VP) :
    verify d s now side vp = .ok () ↔ ∃ subj e, Acceptable d side s now vp subj e :=
  verify_ok_acceptable d side s now vp

/-- **listed_sound.** After ANY history (registrations of arbitrary presentations with arbitrary verdicts, resets,
    clock steps, polls) every row of the server list stems from a presentation that satisfied the registration
    predicate at some earlier clock value against the list of that moment, and its columns are the presentation's. -/
theorem listed_sound (cfg : Cfg) (d : Def) (evs : List Ev) (t0 : Nat) :
    ∀ r ∈ (run cfg d { t := t0 } evs).S.rows,
      RowWF r ∧ ∃ s now, now ≤ (run cfg d { t := t0 } evs).t ∧ SInv s ∧ Acceptable d .server s now r.vp r.subject r.exp := by
  intro r hr
  have h := serverOK_run cfg d evs { t := t0 } (serverOK_init d t0)
  exact ⟨h.inv.wf r hr, h.listed r hr⟩

/-- **one_live_per_subject.** After any history the list holds at most one row per subject (expired or not). -/
theorem one_live_per_subject (cfg : Cfg) (d : Def) (evs : List Ev) (t0 : Nat) :
    (run cfg d { t := t0 } evs).S.rows.Pairwise (fun a b => a.subject ≠ b.subject) :=
  (serverOK_run cfg d evs { t := t0 } (serverOK_init d t0)).inv.onePer

/-- **timestamps_strict.** After any history the rows' timestamps are strictly increasing, at least 1 and at most the
    service timestamp; an accepted registration gets the service timestamp + 1 (above every row), a rejected one
    changes nothing; no step other than a reset lowers the service timestamp. -/
theorem timestamps_strict (cfg : Cfg) (d : Def) (evs : List Ev) (t0 : Nat) :
    let w := run cfg d { t := t0 } evs
    w.S.rows.Pairwise (fun a b => a.ts < b.ts) ∧ (∀ r ∈ w.S.rows, 1 ≤ r.ts ∧ r.ts ≤ w.S.lastTs) ∧
    (∀ vp fresh, fresh ≠ 0 →
      ((register d w.S w.t fresh vp).2 = .ok () →
          (register d w.S w.t fresh vp).1.lastTs = w.S.lastTs + 1 ∧
          (∃ r ∈ (register d w.S w.t fresh vp).1.rows, r.ts = w.S.lastTs + 1 ∧ r.vp = vp) ∧
          ∀ r ∈ w.S.rows, r.ts < w.S.lastTs + 1) ∧
      ((register d w.S w.t fresh vp).2 ≠ .ok () → (register d w.S w.t fresh vp).1 = w.S)) ∧
    (∀ e, (step cfg d w e).1.S.lastTs ≥ w.S.lastTs ∨ (step cfg d w e).1.S = {}) := by
  intro w
  have h := serverOK_run cfg d evs { t := t0 } (serverOK_init d t0)
  refine ⟨h.inv.sorted, h.inv.bound, ?_, ?_⟩
  · intro vp fresh _
    rcases register_cases d w.S w.t fresh vp with ⟨o, ho, hne⟩ | ⟨subj, e, id, hA, hid, _, hreg⟩
    · rw [ho]; exact ⟨fun h => absurd h hne, fun _ => rfl⟩
    · rw [hreg]
      refine ⟨fun _ => ⟨rfl, ⟨(addOk w.S w.t vp subj id e (if w.S.seed = 0 then fresh else w.S.seed) (w.S.lastTs + 1)).2,
        mem_addOk.mpr (Or.inr rfl), rfl, rfl⟩, fun r hr => ?_⟩, fun h => absurd rfl h⟩
      have hb : r.ts ≤ w.S.lastTs := (h.inv.bound r hr).2
      exact Nat.lt_succ_of_le hb
  · intro e
    rcases step_server cfg d w e with ⟨hS, _⟩ | ⟨hS, _⟩ | ⟨vp, hS, _⟩
    · left; rw [hS]; exact Nat.le_refl _
    · right; exact hS
    · left
      rw [hS]
      rcases register_cases d w.S w.t (w.ctr + 1) vp with ⟨o, ho, _⟩ | ⟨subj, e, id, _, _, _, hreg⟩
      · rw [ho]; exact Nat.le_refl _
      · rw [hreg]; show w.S.lastTs + 1 ≥ w.S.lastTs; omega

/-- **retraction_needs_owner.** A retraction is accepted only if the list holds an entry with the retracted id whose
    subject is the retraction's (verified) signer; and whatever a signer submits — accepted or not — the entries of
    every OTHER subject stay (only expired ones may be pruned); a rejected submission changes nothing at all. -/
theorem retraction_needs_owner (d : Def) (s : Store) (now fresh : Nat) (vp : VP) :
    (vp.retraction = true → (register d s now fresh vp).2 = .ok () →
      ∃ subj m j, vp.signer = some (subj, m) ∧ vp.retractJti = some j ∧ vp.verifyS = true ∧
        ∃ r ∈ s.rows, r.subject = subj ∧ r.id = j) ∧
    (∀ subj m, vp.signer = some (subj, m) →
      ∀ r ∈ s.rows, r.subject ≠ subj → ¬ r.exp < now → r ∈ (register d s now fresh vp).1.rows) ∧
    ((register d s now fresh vp).2 ≠ .ok () → (register d s now fresh vp).1 = s) := by
  rcases register_cases d s now fresh vp with ⟨o, ho, hne⟩ | ⟨subj, e, id, hA, hid, _, hreg⟩
  · rw [ho]
    exact ⟨fun _ h => absurd h hne, fun _ _ _ r hr _ _ => hr, fun _ => rfl⟩
  · rw [hreg]
    obtain ⟨m, hsig, _⟩ := hA.signer
    refine ⟨fun hr _ => ?_, fun subj' m' hs' r hr hne hexp => ?_, fun h => absurd rfl h⟩
    · obtain ⟨_, j, hj, _, hrow⟩ := hA.retraction hr
      exact ⟨subj, m, j, hsig, hj, hA.verifiable, hrow⟩
    · rw [hsig] at hs'
      cases hs'
      show r ∈ (addOk s now vp subj id e (if s.seed = 0 then fresh else s.seed) (s.lastTs + 1)).1.rows
      exact mem_addOk.mpr (Or.inl ⟨hr, hexp, hne⟩)

/-! ### non-vacuity: concrete presentations that are accepted / rejected by the model -/

def exDef : Def := { id := "svc", maxValidity := 100, didMethods := ["example"] }
def exVP (subj id : String) (e : Nat) : VP :=
  { id := some id, aud := ["svc"], exp := some e, signer := some (subj, "example"), creds := [{ exp := some (e + 5) }, { exp := none }],
    pex := .matched 2, verifyS := true, verifyC := true }
def exRetract (subj id jti : String) (e : Nat) : VP :=
  { id := some id, aud := ["svc"], exp := some e, signer := some (subj, "example"), retraction := true, retractJti := some jti,
    verifyS := true, verifyC := true }
def exCfg : Cfg := { serviceFirst := true, restartOnWipe := true }

/-- two subjects register, one refreshes, the owner retracts: 2 rows, timestamps 3 and 4 -/
example : ((run exCfg exDef { t := 10 } [.register (exVP "a" "v1" 50), .register (exVP "b" "v2" 60), .register (exVP "a" "v3" 70),
    .register (exRetract "b" "v4" "v2" 60)]).S.rows.map (fun r => (r.ts, r.subject, r.id))) = [(3, "a", "v3"), (4, "b", "v4")] := by decide
/-- a retraction by another signer is rejected and changes nothing -/
example : (register exDef (run exCfg exDef { t := 10 } [.register (exVP "a" "v1" 50)]).S 10 7 (exRetract "b" "v4" "v1" 60)).2
    = .err "retract-unknown" := by decide
/-- a presentation that outlives a credential is rejected -/
example : (register exDef {} 10 1 { exVP "a" "v1" 50 with creds := [{ exp := some 40 }, { exp := none }] }).2 = .err "cred-exp" := by decide


/-! ### the replica -/

/-- `updateService` returns right after a seed change wiped the replica (fix 305f8e3, 7847ccc): the next poll starts at 0 -/
theorem fact_restart_after_wipe : Facts.C16.restartAfterWipe = true := by decide

/-- the model instantiated with what the source says today -/
def factCfg : Cfg := { serviceFirst := Facts.C16.getServiceFirst, restartOnWipe := Facts.C16.restartAfterWipe }

theorem factCfg_serviceFirst : factCfg.serviceFirst = true := fact_get_reads_timestamp_first.1
theorem factCfg_restartOnWipe : factCfg.restartOnWipe = true := fact_restart_after_wipe

/-- **get_no_gap.** In every world reachable by an admissible history — registrations, refreshes, retractions, clock
    steps and resets interleaved in any way with the two reads of `get` (`pollA`, `pollB`) and the replica's update —
    a replica that carries the list's seed has a timestamp not above the list's, and holds EVERY live server row at or
    below its timestamp: asking for "everything after my timestamp" never skips an entry. (Rows above the returned
    timestamp may be delivered early; `poll_idempotent_on_duplicates` makes that harmless.) -/
theorem get_no_gap (d : Def) (K : VP → Prop) (hK : IdFun K) (w : World) (hw : Reach factCfg d K w)
    (hseed : w.C.seed = w.S.seed) :
    w.C.lastTs ≤ w.S.lastTs ∧
    ∀ r ∈ w.S.rows, r.ts ≤ w.C.lastTs → w.t < r.exp → ∃ c ∈ w.C.rows, c.subject = r.subject ∧ c.id = r.id := by
  have h := winv_reach hK factCfg factCfg_serviceFirst factCfg_restartOnWipe d hw
  exact ⟨(h.sync hseed).1, (h.sync hseed).2.1⟩

/-- and every live replica row is still listed, or its subject has a newer entry above the replica's timestamp -/
theorem replica_rows_accounted (d : Def) (K : VP → Prop) (hK : IdFun K) (w : World) (hw : Reach factCfg d K w)
    (hseed : w.C.seed = w.S.seed) :
    ∀ c ∈ w.C.rows, w.t < c.exp →
      (∃ r ∈ w.S.rows, r.subject = c.subject ∧ r.id = c.id) ∨
      (∃ r ∈ w.S.rows, r.subject = c.subject ∧ w.C.lastTs < r.ts ∧ c.exp ≤ r.exp) :=
  (((winv_reach hK factCfg factCfg_serviceFirst factCfg_restartOnWipe d hw).sync hseed).2.2)

/-- **poll_idempotent_on_duplicates.** A response all of whose presentations the replica already holds is skipped
    entirely: the replica (rows, seed, timestamp, flags) is unchanged. -/
theorem poll_idempotent_on_duplicates (d : Def) (now seed ts : Nat) (c : Store) (ctr : Nat) (resp : List VP)
    (h : ∀ vp ∈ resp, ∃ subj id e, VPWF vp subj id e ∧ c.hasKey subj id = true) :
    clientLoop d now seed ts c ctr resp = (c, ctr, .ok ()) :=
  clientLoop_all_present d now seed ts c ctr resp h

/-- **replica_converges** (proved under `IdFun` and `ExpMono`, see `replica_convergesStmt`). For every admissible
    history — any interleaving of registrations (valid, defective, refreshes, retractions), clock steps, resets, the two
    reads of `get`, replica updates in any map iteration order, background validation — two polls that start after the
    last server event leave the replica with exactly the list's live set (and one suffices when the replica already
    carries the list's seed or none). The server side does not change meanwhile. -/
theorem replica_converges_partial (d : Def) (K : VP → Prop) (hK : IdFun K) (w : World) (hw : Reach factCfg d K w)
    (p1 p2 : List VP → List VP) (hp1 : ∀ l, (p1 l).Perm l) (hp2 : ∀ l, (p2 l).Perm l) :
    let w2 := poll factCfg d (poll factCfg d w p1) p2
    w2.S = w.S ∧ w2.t = w.t ∧ LiveEq w2.S w2.C w2.t ∧ w2.C.seed = w2.S.seed := by
  intro w2
  have h := winv_reach hK factCfg factCfg_serviceFirst factCfg_restartOnWipe d hw
  obtain ⟨a, b, c, _⟩ := converge_two hK factCfg factCfg_serviceFirst factCfg_restartOnWipe d w p1 p2 hp1 hp2 h
  have e := converge_two_seed hK factCfg factCfg_serviceFirst factCfg_restartOnWipe d w p1 p2 hp1 hp2 h
  refine ⟨a, b, ?_, ?_⟩
  · show LiveEq w2.S w2.C w2.t
    rw [a, b]; exact c
  · show w2.C.seed = w2.S.seed
    rw [a]; exact e

theorem replica_converges_same_seed (d : Def) (K : VP → Prop) (hK : IdFun K) (w : World) (hw : Reach factCfg d K w)
    (p : List VP → List VP) (hp : ∀ l, (p l).Perm l) (hseed : w.C.seed = w.S.seed ∨ w.C.seed = 0) :
    LiveEq w.S (poll factCfg d w p).C w.t ∧ (poll factCfg d w p).S = w.S ∧ (poll factCfg d w p).t = w.t ∧
    (poll factCfg d w p).C.seed = w.S.seed := by
  have h := winv_reach hK factCfg factCfg_serviceFirst factCfg_restartOnWipe d hw
  obtain ⟨a, b, c, _⟩ := converge_one hK factCfg factCfg_serviceFirst factCfg_restartOnWipe d w p hp h hseed
  exact ⟨c, a, b, converge_one_seed factCfg factCfg_serviceFirst factCfg_restartOnWipe d w p hp h hseed⟩

/-- **reset_restarts.** A poll that meets another seed than the replica's leaves the replica EMPTY with timestamp 0
    and the new seed, whatever the response contained; the next `get` therefore asks for everything after 0. -/
theorem reset_restarts (d : Def) (w : World) (perm : List VP → List VP) (h1 : w.C.seed ≠ w.S.seed) (h2 : w.C.seed ≠ 0) :
    (poll factCfg d w perm).C.rows = [] ∧ (poll factCfg d w perm).C.lastTs = 0 ∧ (poll factCfg d w perm).C.seed = w.S.seed ∧
    ((step factCfg d (poll factCfg d w perm) .pollA).1.pending.map (·.after)) = some 0 := by
  obtain ⟨a, _, _⟩ := poll_wipes factCfg factCfg_serviceFirst factCfg_restartOnWipe d w perm h1 h2
  refine ⟨by rw [a], by rw [a], by rw [a], ?_⟩
  simp only [step, a, Option.map_some]
  split <;> rfl

/-- **search_sound.** After any history (map iteration orders being permutations) the client's search returns only
    rows that have not expired and whose presentation the client's OWN `verifyRegistration` accepted at an earlier
    clock value — i.e. that satisfied the registration predicate with the client's own `VerifyVP` verdict. -/
theorem search_sound (d : Def) (evs : List Ev) (t0 : Nat) (hq : ∀ e ∈ evs, PermOK e) :
    let w := run factCfg d { t := t0 } evs
    ∀ r ∈ w.C.search w.t, w.t < r.exp ∧
      ∃ s now subj e, now ≤ w.t ∧ Acceptable d .client s now r.vp subj e := by
  intro w r hr
  have h := srchInv_run factCfg factCfg_serviceFirst factCfg_restartOnWipe d evs t0 hq
  have hm := List.mem_filter.mp hr
  have hv : w.C.isValidated r = true ∧ ¬ r.exp ≤ w.t := by
    have := hm.2
    simp only [Bool.and_eq_true, Bool.not_eq_true', decide_eq_false_iff_not] at this
    exact this
  refine ⟨by omega, ?_⟩
  obtain ⟨s, now, h1, h2⟩ := h.cv.ver r hm.1 hv.1
  obtain ⟨subj, e, hA⟩ := (verify_ok_acceptable d .client s now r.vp).mp h2
  exact ⟨s, now, subj, e, h1, hA⟩


/-- the full-strength statement: no side condition on the order of a subject's expiry times or on id reuse -/
def replica_convergesStmt : Prop :=
  ∀ (d : Def) (evs : List Ev) (t0 : Nat), (∀ e ∈ evs, PermOK e) →
    let w := run factCfg d { t := t0 } evs
    let w2 := poll factCfg d (poll factCfg d w id) id
    LiveEq w2.S w2.C w2.t

/-- history: `a` registers v1 (exp 100); the client polls; `a` refreshes with the SHORTER-lived v2 (exp 20), which deletes v1
    on the server; v2 expires (clock 30); `b` registers v3, whose `add` prunes v2; the client polls twice -/
def staleHistory : List Ev :=
  [.register (exVP "a" "v1" 100), .pollA, .pollB id, .register (exVP "a" "v2" 20), .tick 20, .register (exVP "b" "v3" 110)]

theorem replica_converges_full_false : ¬ replica_convergesStmt := by
  intro h
  have h1 := h exDef staleHistory 10 (by
    intro e he
    simp only [staleHistory, List.mem_cons, List.mem_nil_iff, or_false] at he
    rcases he with rfl | rfl | rfl | rfl | rfl | rfl <;> first | trivial | (intro l; exact List.Perm.refl _))
  have h2 := (h1 ("a", "v1")).mpr (by decide)
  revert h2
  decide


/-- `ExpMono` is needed: the counterexample replayed on the real code is harness/corpus/C16/03-*.jsonl (open finding) -/
theorem staleHistory_violates_only_expMono :
    ¬ ExpMono exDef (run factCfg exDef { t := 10 } (staleHistory.take 3)) (exVP "a" "v2" 20) := by
  intro h
  have := h (by decide) "a" "example" 20 rfl rfl
    ((run factCfg exDef { t := 10 } (staleHistory.take 3)).S.rows.head (by decide)) (by decide) (by decide)
  revert this
  decide

/-- `IdFun` is needed: a signer that re-uses a presentation id for a DIFFERENT presentation (v1 again, now expiring at 200)
    makes the replica skip it as a duplicate; once the old one (exp 100) has expired the live sets differ for good -/
theorem id_reuse_diverges :
    let w := run factCfg exDef { t := 10 }
      [.register (exVP "a" "v1" 100), .pollA, .pollB id, .register (exVP "a" "v2" 100), .register (exVP "a" "v1" 105), .tick 92]
    let w2 := poll factCfg exDef (poll factCfg exDef w id) id
    ("a", "v1") ∈ w2.S.liveKeys w2.t ∧ ("a", "v1") ∉ w2.C.liveKeys w2.t := by decide

/-- **the read order of `get` matters.** With the mirrored order (rows first, then seed/timestamp) a registration between
    the two reads is lost for good: the replica ends with the list's seed AND timestamp but without the entry. -/
def mirroredCfg : Cfg := { serviceFirst := false, restartOnWipe := true }
theorem get_mirrored_order_unsafe :
    let w := run mirroredCfg exDef { t := 10 } [.register (exVP "a" "v1" 100), .pollA, .register (exVP "a" "v2" 105), .pollB id]
    let w2 := poll mirroredCfg exDef (poll mirroredCfg exDef w id) id
    ("a", "v2") ∈ w2.S.liveKeys w2.t ∧ ("a", "v2") ∉ w2.C.liveKeys w2.t ∧ w2.C.seed = w2.S.seed ∧ w2.C.lastTs = w2.S.lastTs := by
  decide

/-- **starting over after a seed change matters** (the defect repaired by 305f8e3): applying the response after the wipe
    loses the new list's entries at or below the old timestamp for good -/
def unfixedCfg : Cfg := { serviceFirst := true, restartOnWipe := false }
theorem seed_change_partial_response_unsafe :
    let w := run unfixedCfg exDef { t := 10 }
      [.register (exVP "a" "v1" 100), .pollA, .pollB id, .reset, .register (exVP "a" "v2" 100), .register (exVP "b" "v3" 100)]
    let w2 := poll unfixedCfg exDef (poll unfixedCfg exDef w id) id
    ("a", "v2") ∈ w2.S.liveKeys w2.t ∧ ("a", "v2") ∉ w2.C.liveKeys w2.t ∧ w2.C.seed = w2.S.seed := by
  decide


/-! ### overlapping polls of one client (`updateService` is not serialised) — outside `Reach`, shown by witnesses -/

/-- two overlapping polls, the older response applied last after a refresh: the replica re-installs the superseded entry
    but rolls its timestamp back with it, so the following polls heal it -/
theorem overlapping_polls_heal :
    let w := run factCfg exDef { t := 10 }
      [.register (exVP "a" "v1" 100), .dpollStart, .register (exVP "a" "v2" 105), .pollA, .pollB id, .dpollFinish 0 id]
    let w2 := poll factCfg exDef (poll factCfg exDef w id) id
    w.C.rows.map (·.id) = ["v1"] ∧ w.C.lastTs = 1 ∧ w2.C.rows.map (·.id) = ["v2"] ∧ w2.C.lastTs = 2 := by decide

/-- but two poller threads are enough to lose an entry for good: thread 1's response A is slow; thread 2 completes poll B,
    then starts poll C (answered by the server) BEFORE A is applied and applies C AFTER it: A rolls the timestamp back to 1,
    C moves it to 3 without delivering the entry at 2 -/
theorem overlapping_polls_can_diverge :
    let w := run factCfg exDef { t := 10 }
      [.register (exVP "a" "v1" 100), .dpollStart, .register (exVP "a" "v2" 105), .pollA, .pollB id,
       .register (exVP "b" "v3" 100), .dpollStart, .dpollFinish 0 id, .dpollFinish 0 id]
    let w2 := poll factCfg exDef (poll factCfg exDef w id) id
    ("a", "v2") ∈ w2.S.liveKeys w2.t ∧ ("a", "v2") ∉ w2.C.liveKeys w2.t ∧ ("a", "v1") ∈ w2.C.liveKeys w2.t ∧
    w2.C.seed = w2.S.seed ∧ w2.C.lastTs = w2.S.lastTs := by decide

/-- one slow response is NOT harmless when the replica is wiped (seed change) while it is in flight: it was requested relative
    to the old copy's timestamp and is applied to the fresh one -/
theorem overlapping_poll_across_wipe_diverges :
    let w := run factCfg exDef { t := 10 }
      [.register (exVP "a" "v1" 100), .pollA, .pollB id, .reset, .register (exVP "b" "v2" 100), .register (exVP "a" "v3" 105),
       .dpollStart, .pollA, .pollB id, .dpollFinish 0 id]
    let w2 := poll factCfg exDef (poll factCfg exDef w id) id
    ("b", "v2") ∈ w2.S.liveKeys w2.t ∧ ("b", "v2") ∉ w2.C.liveKeys w2.t ∧ w2.C.seed = w2.S.seed ∧ w2.C.lastTs = w2.S.lastTs := by decide

/-! ### restarts -/

/-- a restart of the serving node changes nothing that is persistent (list, seed, timestamp, replica); a restart of the client
    node only drops polls in progress. Both are admissible events of `Reach`, so every replica theorem holds across restarts:
    timestamps stay strictly increasing and the seed stays the same. -/
theorem restart_is_identity (cfg : Cfg) (d : Def) (w : World) :
    (step cfg d w .restartServer).1 = w ∧
    (step cfg d w .restartClient).1.S = w.S ∧ (step cfg d w .restartClient).1.C = w.C ∧ (step cfg d w .restartClient).1.t = w.t ∧
    (step cfg d w .restartClient).1.pending = none ∧ EvOK (fun _ => True) d w .restartServer ∧ EvOK (fun _ => True) d w .restartClient :=
  ⟨rfl, rfl, rfl, rfl, rfl, trivial, trivial⟩

/-! ### totality -/

/-- `Register` accepts exactly when the registration predicate holds and the same presentation is not listed already -/
theorem register_accepts_iff (d : Def) (s : Store) (now fresh : Nat) (vp : VP) :
    (register d s now fresh vp).2 = .ok () ↔
      ∃ subj e id, Acceptable d .server s now vp subj e ∧ vp.id = some id ∧ s.hasKey subj id = false :=
  register_ok_iff d s now fresh vp

/-- `Register` never panics, whatever is submitted (every dereference sits behind the check that guards it) -/
theorem register_never_panics (d : Def) (s : Store) (now fresh : Nat) (vp : VP) (p : String) :
    (register d s now fresh vp).2 ≠ .panic p :=
  register_ne_panic d s now fresh vp p

/-- against the real server, in every reachable world, the replica's update ends without error or panic (the
    `presentation.ID` dereferences in `updateService` / `storePresentation` are safe because the server lists only
    presentations with an id, an expiry and a signer) -/
theorem poll_never_fails (d : Def) (K : VP → Prop) (hK : IdFun K) (w : World) (hw : Reach factCfg d K w)
    (perm : List VP → List VP) (hperm : ∀ l, (perm l).Perm l) (p : Pending) (hp : w.pending = some p) :
    (step factCfg d w (.pollB perm)).2 = .ok () :=
  pollB_ok factCfg factCfg_serviceFirst factCfg_restartOnWipe d w perm hperm
    (winv_reach hK factCfg factCfg_serviceFirst factCfg_restartOnWipe d hw) p hp

/-- a presentation holding a credential WITHOUT id (an optional member of the data model) is refused before anything is
    stored, whatever the other verdicts say — by `Register` on the server, and by `sqlStore.add` itself (a client stores what
    a server hands out BEFORE verifying it): an error, never a panic, and no row -/
theorem credential_without_id_refused (d : Def) (s : Store) (now seed ts fresh : Nat) (vp : VP)
    (h : vp.creds.any (fun c => !c.hasId) = true) :
    (∀ p, (s.add now vp seed ts fresh).2 ≠ .panic p ∨ vp.id = none ∨ vp.jwt = false) ∧
    (s.add now vp seed ts fresh).2 ≠ .ok (Inhabited.default) ∧
    (∀ row, (s.add now vp seed ts fresh).2 ≠ .ok row) ∧
    (register d s now fresh vp).2 ≠ .ok () ∧ (register d s now fresh vp).1 = s ∧ ∀ p, (register d s now fresh vp).2 ≠ .panic p := by
  have hadd : ∀ row, (s.add now vp seed ts fresh).2 ≠ .ok row := by
    intro row
    unfold Store.add
    split
    · simp
    · split
      · simp
      · split
        · simp
        · simp [h]
  have hreg : (register d s now fresh vp).2 ≠ .ok () := by
    intro hok
    obtain ⟨subj, e, id, hA, _, _⟩ := (register_ok_iff d s now fresh vp).mp hok
    rw [hA.credsHaveId] at h
    cases h
  refine ⟨?_, hadd _, hadd, hreg, ?_, fun p => register_ne_panic d s now fresh vp p⟩
  · intro p
    unfold Store.add
    split
    · left; simp
    · split
      · right; left; assumption
      · split
        · right; right; assumption
        · left; simp [h]
  · rcases register_cases d s now fresh vp with ⟨o, ho, _⟩ | ⟨_, _, _, _, _, _, hreg'⟩
    · rw [ho]
    · rw [hreg'] at hreg; exact absurd rfl hreg

/-- the shapes in question are accepted by nothing: a registration whose only flaw is a credential without id -/
example : (register exDef {} 10 1 { exVP "a" "v1" 50 with creds := [{ exp := some 60, hasId := false }, { exp := none }] }).2
    = .err "cred-no-id" := by decide
example : (({} : Store).add 10 { exVP "a" "v1" 50 with creds := [{ exp := none }, { exp := some 60, hasId := false }] } 1 3 7).2
    = .err "cred-no-id" := by decide

/-! ### non-vacuity of the replica theorems -/

def exK : VP → Prop := fun vp => vp = exVP "a" "v1" 100 ∨ vp = exVP "b" "v2" 110 ∨ vp = exRetract "a" "v3" "v1" 100

theorem exK_idFun : IdFun exK := by
  intro a b ha hb s ma mb hsa hsb hid
  rcases ha with rfl | rfl | rfl <;> rcases hb with rfl | rfl | rfl <;>
    first | rfl | (simp [exVP, exRetract] at hsa hsb hid; try (rw [← hsa.1] at hsb; simp at hsb))

/-- an admissible history with a registration racing a poll, a retraction by the owner and a reset -/
def exWorld : World := run factCfg exDef { t := 10 }
  [.register (exVP "a" "v1" 100), .pollA, .register (exVP "b" "v2" 110), .pollB id, .register (exRetract "a" "v3" "v1" 100), .tick 3]

example : Reach factCfg exDef exK exWorld := by
  have h0 := Reach.init (cfg := factCfg) (d := exDef) (K := exK) 10
  have h1 := Reach.step _ (.register (exVP "a" "v1" 100)) h0 ⟨Or.inl rfl, by intro _ s m e hs he r hr; cases hr⟩
  have h2 := Reach.step _ .pollA h1 trivial
  have h3 := Reach.step _ (.register (exVP "b" "v2" 110)) h2 ⟨Or.inr (Or.inl rfl), by
    intro _ s m e hs he r hr hsub
    simp [exVP] at hs he
    have hs1 := hs.1; subst hs1; subst he
    have : ∀ r ∈ (step factCfg exDef (step factCfg exDef { t := 10 } (Ev.register (exVP "a" "v1" 100))).fst Ev.pollA).fst.S.rows,
        r.subject = "b" → r.exp ≤ 110 := by decide
    exact this r hr hsub⟩
  have h4 := Reach.step _ (.pollB id) h3 (fun l => List.Perm.refl _)
  have h5 := Reach.step _ (.register (exRetract "a" "v3" "v1" 100)) h4 ⟨Or.inr (Or.inr rfl), by
    intro _ s m e hs he r hr hsub
    simp [exRetract] at hs he
    have hs1 := hs.1; subst hs1; subst he
    have : ∀ r ∈ (step factCfg exDef (step factCfg exDef (step factCfg exDef (step factCfg exDef { t := 10 }
        (Ev.register (exVP "a" "v1" 100))).fst Ev.pollA).fst (Ev.register (exVP "b" "v2" 110))).fst (Ev.pollB id)).fst.S.rows,
        r.subject = "a" → r.exp ≤ 100 := by decide
    exact this r hr hsub⟩
  exact Reach.step _ (.tick 3) h5 trivial

example : exWorld.S.rows.map (fun r => (r.ts, r.subject, r.id)) = [(2, "b", "v2"), (3, "a", "v3")] ∧
    exWorld.C.rows.map (fun r => (r.subject, r.id)) = [("a", "v1"), ("b", "v2")] ∧ exWorld.C.seed = exWorld.S.seed := by decide

/-- search returns something: both rows were verified by the client itself -/
example : (exWorld.C.search exWorld.t).length = 2 := by decide


/-- `poll_idempotent_on_duplicates` applies: a response made of a presentation the replica holds -/
example : ∀ vp ∈ [exVP "a" "v1" 100], ∃ subj id e, VPWF vp subj id e ∧ exWorld.C.hasKey subj id = true := by
  intro vp hvp
  simp only [List.mem_singleton] at hvp
  subst hvp
  exact ⟨"a", "v1", 100, ⟨⟨"example", rfl⟩, rfl, rfl, rfl, rfl⟩, by decide⟩

/-- `reset_restarts` applies: after a reset and a new first registration the replica's seed is another one -/
def exResetWorld : World := run factCfg exDef { t := 10 }
  [.register (exVP "a" "v1" 100), .pollA, .pollB id, .reset, .register (exVP "b" "v2" 110), .pollA]
example : exResetWorld.C.seed ≠ exResetWorld.S.seed ∧ exResetWorld.C.seed ≠ 0 ∧ exResetWorld.S.seed ≠ 0 ∧
    exResetWorld.pending.isSome = true := by decide

end Nuts.C16.Props
