/-
  C05, request-level layer — property theorems about NutsModel/C05/Forms.lean (token endpoint, OpenID4VP response
  endpoint as sequences of requests) + the obligations on the regenerated facts that layer mirrors / consumes.
-/
import NutsModel.C05.Forms
import NutsModel.C05.Today
import NutsModel.Facts.C05
import NutsProofs.Lemmas.C05Forms

namespace Nuts.C05.Props
open Nuts.C05

/-! ### Obligations on the regenerated facts -/

/-- the statements of every function Forms.lean mirrors are the ones it was written against (normalised source text) -/
theorem fact_form_sources :
    Facts.C05.src_HandleTokenRequest =
  ["{",
   "err := r.subjectExists(ctx, request.SubjectID)",
   "if err != nil {",
   "return nil, err",
   "}",
   "switch request.Body.GrantType {",
   "case oauth.AuthorizationCodeGrantType:",
   "return r.handleAccessTokenRequest(ctx, *request.Body)",
   "case oauth.PreAuthorizedCodeGrantType:",
   "return nil, oauth.OAuth2Error{",
   "Code: oauth.UnsupportedGrantType,",
   "Description: \"not implemented yet\",",
   "}",
   "case oauth.VpTokenGrantType:",
   "if request.Body.PresentationSubmission == nil || request.Body.Scope == nil || request.Body.Assertion == nil || request.Body.ClientId == nil {",
   "return nil, oauth.OAuth2Error{",
   "Code: oauth.InvalidRequest,",
   "Description: \"missing required parameters\",",
   "}",
   "}",
   "return r.handleS2SAccessTokenRequest(ctx, *request.Body.ClientId, request.SubjectID, *request.Body.Scope, *request.Body.PresentationSubmission, *request.Body.Assertion)",
   "default:",
   "return nil, oauth.OAuth2Error{",
   "Code: oauth.UnsupportedGrantType,",
   "Description: fmt.Sprintf(\"grant_type '%s' is not supported\", request.Body.GrantType),",
   "}",
   "}",
   "}"] ∧
    Facts.C05.src_dpopFromRequest =
  ["{",
   "dpopHeader := httpRequest.Header.Get(\"DPoP\")",
   "if dpopHeader == \"\" {",
   "return nil, nil",
   "}",
   "dpopProof, err := dpop.Parse(dpopHeader)",
   "if err != nil {",
   "return nil, oauth.OAuth2Error{",
   "Code: oauth.InvalidDPopProof,",
   "Description: \"DPoP header is invalid\",",
   "InternalError: err,",
   "}",
   "}",
   "return dpopProof, nil",
   "}"] ∧
    Facts.C05.src_extractChallenge =
  ["{",
   "var nonce string",
   "switch presentation.Format() {",
   "case vc.JWTPresentationProofFormat:",
   "nonceRaw, _ := presentation.JWT().Get(\"nonce\")",
   "nonce, _ = nonceRaw.(string)",
   "case vc.JSONLDPresentationProofFormat:",
   "proof, err := credential.ParseLDProof(presentation)",
   "if err != nil {",
   "return \"\", err",
   "}",
   "if proof.Challenge != nil && *proof.Challenge != \"\" {",
   "nonce = *proof.Challenge",
   "}",
   "}",
   "return nonce, nil",
   "}"] ∧
    Facts.C05.src_extractNonce =
  ["{",
   "var nonce string",
   "switch presentation.Format() {",
   "case vc.JWTPresentationProofFormat:",
   "nonceRaw, _ := presentation.JWT().Get(\"nonce\")",
   "nonce, _ = nonceRaw.(string)",
   "case vc.JSONLDPresentationProofFormat:",
   "proof, err := credential.ParseLDProof(presentation)",
   "if err != nil {",
   "return \"\", err",
   "}",
   "if proof.Nonce != nil && *proof.Nonce != \"\" {",
   "nonce = *proof.Nonce",
   "}",
   "}",
   "return nonce, nil",
   "}"] ∧
    Facts.C05.src_handleAccessTokenRequest =
  ["{",
   "if request.Code == nil {",
   "return nil, oauthError(oauth.InvalidRequest, \"missing code parameter\")",
   "}",
   "defer func() {",
   "_ = r.oauthCodeStore().Delete(*request.Code)",
   "}()",
   "if request.CodeVerifier == nil {",
   "return nil, oauthError(oauth.InvalidRequest, \"missing code_verifier parameter\")",
   "}",
   "if request.ClientId == nil {",
   "return nil, oauthError(oauth.InvalidRequest, \"missing client_id parameter\")",
   "}",
   "var oauthSession OAuthSession",
   "err := r.oauthCodeStore().GetAndDelete(*request.Code, &oauthSession)",
   "if err != nil {",
   "return nil, oauthError(oauth.InvalidGrant, \"invalid authorization code\", err)",
   "}",
   "if oauthSession.ClientID != *request.ClientId {",
   "return nil, oauthError(oauth.InvalidRequest, fmt.Sprintf(\"client_id does not match: %s vs %s\", oauthSession.ClientID, *request.ClientId))",
   "}",
   "oauthSession.PKCEParams.Verifier = *request.CodeVerifier",
   "if !validatePKCEParams(oauthSession.PKCEParams) {",
   "return nil, oauthError(oauth.InvalidGrant, \"invalid code_verifier\")",
   "}",
   "httpRequest := ctx.Value(httpRequestContextKey{}).(*http.Request)",
   "dpopProof, err := dpopFromRequest(*httpRequest)",
   "if err != nil {",
   "return nil, err",
   "}",
   "issuerURL := r.subjectToBaseURL(*oauthSession.OwnSubject)",
   "response, err := r.createAccessToken(issuerURL.String(), oauthSession.ClientID, time.Now(), oauthSession.Scope, *oauthSession.OpenID4VPVerifier, dpopProof)",
   "if err != nil {",
   "return nil, oauthError(oauth.ServerError, fmt.Sprintf(\"failed to create access token: %s\", err.Error()))",
   "}",
   "return HandleTokenRequest200JSONResponse(*response), nil",
   "}"] ∧
    Facts.C05.src_responsePrefix =
  ["{",
   "if request.Body.State == nil {",
   "return nil, oauthError(oauth.InvalidRequest, \"missing state\")",
   "}",
   "if request.Body.VpToken == nil {",
   "return nil, oauthError(oauth.InvalidRequest, \"missing vp_token\")",
   "}",
   "pexEnvelope, err := pe.ParseEnvelope([]byte(*request.Body.VpToken))",
   "if err != nil || len(pexEnvelope.Presentations) == 0 {",
   "return nil, oauthError(oauth.InvalidRequest, \"invalid vp_token\", err)",
   "}",
   "var session OAuthSession",
   "state := *request.Body.State",
   "if err = r.oauthClientStateStore().Get(state, &session); err != nil {",
   "return nil, oauthError(oauth.InvalidRequest, \"invalid or expired session\", err)",
   "}",
   "if request.SubjectID != *session.OwnSubject {",
   "return nil, oauthError(oauth.InvalidRequest, \"incorrect tenant\", fmt.Errorf(\"expected: %s, was: %s\", *session.OwnSubject, request.SubjectID))",
   "}",
   "callbackURI := session.redirectURI()",
   "if err = r.validatePresentationNonce(pexEnvelope.Presentations, state); err != nil {"] ∧
    Facts.C05.src_s2sAfterNonce =
  ["return nil, err",
   "dpopProof, err := dpopFromRequest(*httpRequest)",
   "return nil, err",
   "_, err = r.vcr.Verifier().VerifyVP(presentation, true, true, nil)",
   "return nil, oauth.OAuth2Error{",
   "response, err := r.createAccessToken(issuerURL.String(), clientID, time.Now(), scope, *pexConsumer, dpopProof)",
   "return nil, err",
   "return HandleTokenRequest200JSONResponse(*response), nil"] ∧
    Facts.C05.src_s2sNonceLoop =
  ["for _, presentation := range pexEnvelope.Presentations {",
   "if err := r.validateS2SPresentationNonce(presentation); err != nil {",
   "return nil, err",
   "}",
   "}"] ∧
    Facts.C05.src_validatePKCEParams =
  ["{",
   "switch params.ChallengeMethod {",
   "case \"S256\":",
   "sha := sha256.Sum256([]byte(params.Verifier))",
   "challenge := base64.RawURLEncoding.EncodeToString(sha[:])",
   "return challenge == params.Challenge",
   "default:",
   "return false",
   "}",
   "}"] ∧
    Facts.C05.src_validatePresentationNonce =
  ["{",
   "allPresent := true",
   "nonces := make([]string, 0, 1)",
   "var errs []error",
   "for _, presentation := range presentations {",
   "nonce, err := extractChallenge(presentation)",
   "if err != nil {",
   "errs = append(errs, err)",
   "}",
   "if nonce == \"\" {",
   "nonce, err = extractNonce(presentation)",
   "if err != nil {",
   "errs = append(errs, err)",
   "}",
   "}",
   "if nonce == \"\" {",
   "allPresent = false",
   "}",
   "if nonce != \"\" && !slices.Contains(nonces, nonce) {",
   "nonces = append(nonces, nonce)",
   "}",
   "}",
   "if len(nonces) > 1 {",
   "errs = append(errs, errors.New(\"not all presentations have the same nonce\"))",
   "}",
   "if !allPresent {",
   "errs = append(errs, errors.New(\"presentation is missing nonce\"))",
   "}",
   "if len(errs) > 0 {",
   "for _, nonce := range nonces {",
   "_ = r.oauthNonceStore().Delete(nonce)",
   "}",
   "return oauth.OAuth2Error{",
   "Code: oauth.InvalidRequest,",
   "Description: \"invalid or missing nonce/challenge in presentation\",",
   "InternalError: errors.Join(errs...),",
   "}",
   "}",
   "var stateFromNonce string",
   "err := r.oauthNonceStore().GetAndDelete(nonces[0], &stateFromNonce)",
   "if err != nil {",
   "return oauthError(oauth.InvalidRequest, \"invalid or expired session\", err)",
   "}",
   "if state != stateFromNonce {",
   "return oauthError(oauth.InvalidRequest, \"invalid nonce/state\")",
   "}",
   "return nil",
   "}"] ∧
    Facts.C05.src_validateS2SPresentationNonce =
  ["{",
   "nonce, err := extractNonce(presentation)",
   "if nonce == \"\" {",
   "return oauth.OAuth2Error{",
   "Code: oauth.InvalidRequest,",
   "InternalError: err,",
   "Description: \"presentation has invalid/missing nonce\",",
   "}",
   "}",
   "fresh, err := r.s2sNonceStore().PutIfAbsent(nonce, true)",
   "if err != nil {",
   "return fmt.Errorf(\"unable to store nonce: %w\", err)",
   "}",
   "if !fresh {",
   "return oauth.OAuth2Error{",
   "Code: oauth.InvalidRequest,",
   "Description: \"presentation nonce has already been used\",",
   "}",
   "}",
   "return nil",
   "}"] := by
  refine ⟨rfl, rfl, rfl, rfl, rfl, rfl, rfl, rfl, rfl, rfl, rfl⟩

set_option maxRecDepth 8000 in
/-- the data the model consumes: grant-type switch, required vp_token parameters, PKCE methods, error codes and the
    (code, description) pairs of every handler's error returns in source order -/
theorem fact_form_tables :
    Facts.C05.tokenGrantSwitchTag = "request.Body.GrantType" ∧
    Facts.C05.tokenGrantSwitch = [("authorization_code", "handleAccessTokenRequest"), ("urn:ietf:params:oauth:grant-type:pre-authorized_code", "error:UnsupportedGrantType"), ("vp_token-bearer", "handleS2SAccessTokenRequest"), ("*", "error:UnsupportedGrantType")] ∧
    Facts.C05.vpTokenRequired = ["PresentationSubmission", "Scope", "Assertion", "ClientId"] ∧
    Facts.C05.pkceMethods = ["S256"] ∧
    Facts.C05.errs_HandleTokenRequest = [("UnsupportedGrantType", "not implemented yet"), ("InvalidRequest", "missing required parameters"), ("UnsupportedGrantType", "grant_type '%s' is not supported")] ∧
    Facts.C05.errs_handleAccessTokenRequest = [("InvalidRequest", "missing code parameter"), ("InvalidRequest", "missing code_verifier parameter"), ("InvalidRequest", "missing client_id parameter"), ("InvalidGrant", "invalid authorization code"), ("InvalidRequest", "client_id does not match: %s vs %s"), ("InvalidGrant", "invalid code_verifier"), ("ServerError", "failed to create access token: %s")] ∧
    Facts.C05.errs_dpopFromRequest = [("InvalidDPopProof", "DPoP header is invalid")] ∧
    Facts.C05.errs_validatePresentationNonce = [("InvalidRequest", "invalid or missing nonce/challenge in presentation"), ("InvalidRequest", "invalid or expired session"), ("InvalidRequest", "invalid nonce/state")] ∧
    Facts.C05.errs_validateS2SPresentationNonce = [("InvalidRequest", "presentation has invalid/missing nonce"), ("InvalidRequest", "presentation nonce has already been used")] ∧
    Facts.C05.errs_handleAuthorizeResponseSubmission.take 5 = [("InvalidRequest", "missing state"), ("InvalidRequest", "missing vp_token"), ("InvalidRequest", "invalid vp_token"), ("InvalidRequest", "invalid or expired session"), ("InvalidRequest", "incorrect tenant")] ∧
    (∀ c ∈ ["InvalidRequest", "InvalidGrant", "UnsupportedGrantType", "InvalidDPopProof"], (alGet Facts.C05.oauthErrorCodes c).isSome) := by
  refine ⟨by decide, by decide, by decide, by decide, by decide, by decide, by decide, by decide, by decide, by decide, by decide⟩

/-! ### Property theorems: sequences of requests at the real endpoints' level (all request contents, all histories, any
    amount of time between requests, both back-end expiry conventions) -/

/-- **An authorization code is dead after ANY attempt at the token endpoint** — honoured, wrong client_id, wrong or missing
    code_verifier, missing client_id, unparsable DPoP header, unknown code: once `HandleTokenRequest` has dispatched a request
    naming `code` to the authorization-code handler, no later request naming it is honoured, whatever requests (token
    requests of any grant, authorization responses) are served in between and however much time passes. -/
theorem code_dead_after_any_attempt (incl : Bool) (ttl : Kind → Nat) (pk : Pkce) (now : Nat) (st : Store)
    (f : TokenForm) (code : String) (hf : f.code = some code) (hr : grantAction f.grantType = "handleAccessTokenRequest")
    (later : List (Nat × Form)) (dt : Nat) (g : TokenForm) (hg : g.code = some code) :
    (handleCode ⟨incl, (runForms incl ttl pk now (handleToken ⟨incl, now, ttl⟩ pk st f).2 later).2.2 + dt, ttl⟩ pk
        (runForms incl ttl pk now (handleToken ⟨incl, now, ttl⟩ pk st f).2 later).2.1 g).1 ≠ .ok := by
  have h1 : stGet incl (handleToken ⟨incl, now, ttl⟩ pk st f).2 now (codeKey code) = none := by
    unfold handleToken
    simp only [hr, if_true]
    exact handleCode_kills ⟨incl, now, ttl⟩ pk st f code hf
  have h2 := runForms_keeps_dead incl ttl pk (codeKey code) .code rfl later now _ h1
  exact handleCode_not_ok_of_dead ⟨incl, _, ttl⟩ pk _ g code hg (stGet_none_later incl _ _ dt _ h2)

/-- non-vacuity: a first attempt with the wrong client_id kills a live code; the honest request that follows is refused -/
example :
    let pk : Pkce := ⟨"S256", fun v => v == "v"⟩
    let st : Store := [(codeKey "c1", ⟨"clientA", 60⟩)]
    let wrong : TokenForm := { grantType := "authorization_code", code := some "c1", codeVerifier := some "v", clientId := some "clientB" }
    let good : TokenForm := { wrong with clientId := some "clientA" }
    (handleToken ⟨true, 0, todayTTL⟩ pk st good).1 = .ok ∧
    (runForms true todayTTL pk 0 st [(0, .token wrong), (1, .token good)]).1 =
      [.err "invalid_request" "client_id does not match: %s vs %s", .err "invalid_grant" "invalid authorization code"] := by
  decide

/-- **Burn them all**: whatever the response endpoint answers once it reached the nonce check, every nonce that ANY of its
    presentations named (JWT claim, LD challenge, LD nonce fallback) is dead: no later authorization response naming it —
    alone or among others — passes the nonce check. -/
theorem vp_nonce_dead_after_any_response (incl : Bool) (ttl : Kind → Nat) (pk : Pkce) (now : Nat) (st : Store)
    (ps : List Pres) (state : String) (n : String) (hn : n ∈ (collect ps).nonces)
    (later : List (Nat × Form)) (dt : Nat) (ps2 : List Pres) (state2 : String) (hn2 : n ∈ (collect ps2).nonces) :
    (validateNonce ⟨incl, (runForms incl ttl pk now (validateNonce ⟨incl, now, ttl⟩ st ps state).2 later).2.2 + dt, ttl⟩
        (runForms incl ttl pk now (validateNonce ⟨incl, now, ttl⟩ st ps state).2 later).2.1 ps2 state2).1 ≠ .ok := by
  have h1 := validateNonce_kills ⟨incl, now, ttl⟩ st ps state n hn
  have h2 := runForms_keeps_dead incl ttl pk (vpKey n) .vpNonce rfl later now _ h1
  exact validateNonce_not_ok_of_dead ⟨incl, _, ttl⟩ _ ps2 state2 n hn2 (stGet_none_later incl _ _ dt _ h2)

/-- non-vacuity: a response whose presentations disagree burns both live nonces -/
example :
    let st : Store := [(vpKey "n1", ⟨"s", 60⟩), (vpKey "n2", ⟨"s", 60⟩)]
    let p1 : Pres := { fmt := .ld, challenge := "n1" }
    let p2 : Pres := { fmt := .jwt, jwtNonce := "n2" }
    (collect [p1, p2]).nonces = ["n1", "n2"] ∧
    (validateNonce ⟨true, 0, todayTTL⟩ st [p1] "s").1 = .ok ∧
    (validateNonce ⟨true, 0, todayTTL⟩ st [p1, p2] "s").2 = [] := by
  decide

/-- a request the token endpoint does not dispatch to a handler (unknown, differently-cased or not-implemented grant type;
    vp_token grant with a required parameter missing) leaves the session store untouched -/
theorem refused_grant_touches_nothing (c : Sq) (pk : Pkce) (st : Store) (f : TokenForm)
    (h1 : grantAction f.grantType ≠ "handleAccessTokenRequest")
    (h2 : grantAction f.grantType ≠ "handleS2SAccessTokenRequest" ∨ f.assertion = none ∨ f.submission = false ∨ f.scope = false ∨ f.clientId = none) :
    (handleToken c pk st f).2 = st ∧ (handleToken c pk st f).1 ≠ .ok := by
  unfold handleToken
  simp only [h1, if_false]
  by_cases hs : grantAction f.grantType = "handleS2SAccessTokenRequest"
  · simp only [hs, if_true]
    cases ha : f.assertion with
    | none => simp [errAt_ne_ok]
    | some ns =>
      rcases h2 with h | h | h | h | h
      · exact absurd hs h
      · rw [ha] at h; cases h
      · simp [h, errAt_ne_ok]
      · simp [h, errAt_ne_ok]
      · simp [h, errAt_ne_ok]
  · simp only [hs, if_false]
    split <;> simp [errAt_ne_ok]

example : grantAction "Authorization_Code" ≠ "handleAccessTokenRequest" ∧ grantAction "authorization_code" = "handleAccessTokenRequest" ∧
    grantAction "vp_token-bearer" = "handleS2SAccessTokenRequest" ∧ grantAction "*" = "error:UnsupportedGrantType" := by decide

end Nuts.C05.Props
