/-
  C05, request-level layer — property theorems about NutsModel/C05/Forms.lean (token endpoint, OpenID4VP response
  endpoint as sequences of requests) + the obligations on the regenerated facts that layer mirrors / consumes.
-/
import NutsModel.C05.Forms
import NutsModel.C05.Today
import NutsModel.Facts.C05
import NutsProofs.Lemmas.C05Forms
import NutsProofs.Props.C05

namespace Nuts.C05.Props
open Nuts.C05

/-! ### Obligations on the regenerated facts -/

/-- the statements of every function Forms.lean mirrors are the ones it was written against (normalised source text) -/
theorem fact_form_sources :
    Facts.C05.src_HandleTokenRequest =
  ["{",
   "err := r.subjectExists(ctx, request.SubjectID)",
   "if err != nil {",
   "return nil, err",
   "}",
   "switch request.Body.GrantType {",
   "case oauth.AuthorizationCodeGrantType:",
   "return r.handleAccessTokenRequest(ctx, *request.Body)",
   "case oauth.PreAuthorizedCodeGrantType:",
   "return nil, oauth.OAuth2Error{",
   "Code: oauth.UnsupportedGrantType,",
   "Description: \"not implemented yet\",",
   "}",
   "case oauth.VpTokenGrantType:",
   "if request.Body.PresentationSubmission == nil || request.Body.Scope == nil || request.Body.Assertion == nil || request.Body.ClientId == nil {",
   "return nil, oauth.OAuth2Error{",
   "Code: oauth.InvalidRequest,",
   "Description: \"missing required parameters\",",
   "}",
   "}",
   "return r.handleS2SAccessTokenRequest(ctx, *request.Body.ClientId, request.SubjectID, *request.Body.Scope, *request.Body.PresentationSubmission, *request.Body.Assertion)",
   "default:",
   "return nil, oauth.OAuth2Error{",
   "Code: oauth.UnsupportedGrantType,",
   "Description: fmt.Sprintf(\"grant_type '%s' is not supported\", request.Body.GrantType),",
   "}",
   "}",
   "}"] ∧
    Facts.C05.src_RequestJWTByGet =
  ["{",
   "ro := new(jarRequest)",
   "err := r.authzRequestObjectStore().GetAndDelete(request.Id, ro)",
   "if err != nil {",
   "return nil, oauth.OAuth2Error{",
   "Code: oauth.InvalidRequest,",
   "Description: \"request object not found\",",
   "}",
   "}",
   "expected := r.subjectToBaseURL(request.SubjectID)",
   "if ro.Client != expected.String() {",
   "return nil, oauth.OAuth2Error{",
   "Code: oauth.InvalidRequest,",
   "Description: \"client_id does not match request\",",
   "}",
   "}",
   "if ro.RequestURIMethod != \"get\" {",
   "return nil, oauth.OAuth2Error{",
   "Code: oauth.InvalidRequest,",
   "Description: \"used request_uri_method 'get' on a 'post' request_uri\",",
   "InternalError: errors.New(\"wrong 'request_uri_method' authorization server or wallet probably does not support 'request_uri_method'\"),",
   "}",
   "}",
   "token, err := r.jar.Sign(ctx, ro.Claims)",
   "if err != nil {",
   "return nil, oauth.OAuth2Error{",
   "Code: oauth.ServerError,",
   "Description: \"unable to create Request Object\",",
   "InternalError: fmt.Errorf(\"failed to sign authorization Request Object: %w\", err),",
   "}",
   "}",
   "return RequestJWTByGet200ApplicationoauthAuthzReqJwtResponse{",
   "Body: bytes.NewReader([]byte(token)),",
   "ContentLength: int64(len(token)),",
   "}, nil",
   "}"] ∧
    Facts.C05.src_RequestJWTByPost =
  ["{",
   "ro := new(jarRequest)",
   "err := r.authzRequestObjectStore().GetAndDelete(request.Id, ro)",
   "if err != nil {",
   "return nil, oauth.OAuth2Error{",
   "Code: oauth.InvalidRequest,",
   "Description: \"request object not found\",",
   "}",
   "}",
   "expected := r.subjectToBaseURL(request.SubjectID)",
   "if ro.Client != expected.String() {",
   "return nil, oauth.OAuth2Error{",
   "Code: oauth.InvalidRequest,",
   "Description: \"client_id does not match request\",",
   "}",
   "}",
   "if ro.RequestURIMethod != \"post\" {",
   "return nil, oauth.OAuth2Error{",
   "Code: oauth.InvalidRequest,",
   "Description: \"used request_uri_method 'post' on a 'get' request_uri\",",
   "}",
   "}",
   "walletMetadata := staticAuthorizationServerMetadata()",
   "if request.Body != nil {",
   "if request.Body.WalletMetadata != nil {",
   "walletMetadata = *request.Body.WalletMetadata",
   "}",
   "if request.Body.WalletNonce != nil {",
   "ro.Claims[oauth.WalletNonceParam] = *request.Body.WalletNonce",
   "}",
   "}",
   "if walletMetadata.Issuer != \"https://self-issued.me/v2\" {",
   "ro.Claims[jwt.AudienceKey] = walletMetadata.Issuer",
   "}",
   "token, err := r.jar.Sign(ctx, ro.Claims)",
   "if err != nil {",
   "return nil, oauth.OAuth2Error{",
   "Code: oauth.ServerError,",
   "Description: \"unable to create Request Object\",",
   "InternalError: fmt.Errorf(\"failed to sign authorization Request Object: %w\", err),",
   "}",
   "}",
   "return RequestJWTByPost200ApplicationoauthAuthzReqJwtResponse{",
   "Body: bytes.NewReader([]byte(token)),",
   "ContentLength: int64(len(token)),",
   "}, nil",
   "}"] ∧
    Facts.C05.src_ValidateDPoPProof =
  ["{",
   "dpopToken, err := dpop.Parse(request.Body.DpopProof)",
   "if err != nil {",
   "reason := fmt.Sprintf(\"failed to parse DPoP header: %s\", err.Error())",
   "return ValidateDPoPProof200JSONResponse{Reason: &reason}, nil",
   "}",
   "if ok, err := dpopToken.Match(request.Body.Thumbprint, request.Body.Method, request.Body.Url); !ok {",
   "reason := err.Error()",
   "return ValidateDPoPProof200JSONResponse{Reason: &reason}, nil",
   "}",
   "ath, ok := dpopToken.Token.Get(dpop.ATHKey)",
   "if !ok {",
   "reason := \"missing ath claim\"",
   "return ValidateDPoPProof200JSONResponse{Reason: &reason}, nil",
   "}",
   "hash := nutsHash.SHA256Sum([]byte(request.Body.Token))",
   "if ath != base64.RawURLEncoding.EncodeToString(hash.Slice()) {",
   "reason := \"ath/token claim mismatch\"",
   "return ValidateDPoPProof200JSONResponse{Reason: &reason}, nil",
   "}",
   "fresh, err := r.useNonceOnceStore().PutIfAbsent(dpopToken.Token.JwtID(), struct{}{})",
   "if err != nil {",
   "log.Logger().WithError(err).Error(\"ValidateDPoPProof: failed to store jti usage state\")",
   "return nil, err",
   "}",
   "if !fresh {",
   "reason := \"jti already used\"",
   "return ValidateDPoPProof200JSONResponse{Reason: &reason}, nil",
   "}",
   "return ValidateDPoPProof200JSONResponse{Valid: true}, nil",
   "}"] ∧
    Facts.C05.src_dpopFromRequest =
  ["{",
   "dpopHeader := httpRequest.Header.Get(\"DPoP\")",
   "if dpopHeader == \"\" {",
   "return nil, nil",
   "}",
   "dpopProof, err := dpop.Parse(dpopHeader)",
   "if err != nil {",
   "return nil, oauth.OAuth2Error{",
   "Code: oauth.InvalidDPopProof,",
   "Description: \"DPoP header is invalid\",",
   "InternalError: err,",
   "}",
   "}",
   "return dpopProof, nil",
   "}"] ∧
    Facts.C05.src_extractChallenge =
  ["{",
   "var nonce string",
   "switch presentation.Format() {",
   "case vc.JWTPresentationProofFormat:",
   "nonceRaw, _ := presentation.JWT().Get(\"nonce\")",
   "nonce, _ = nonceRaw.(string)",
   "case vc.JSONLDPresentationProofFormat:",
   "proof, err := credential.ParseLDProof(presentation)",
   "if err != nil {",
   "return \"\", err",
   "}",
   "if proof.Challenge != nil && *proof.Challenge != \"\" {",
   "nonce = *proof.Challenge",
   "}",
   "}",
   "return nonce, nil",
   "}"] ∧
    Facts.C05.src_extractNonce =
  ["{",
   "var nonce string",
   "switch presentation.Format() {",
   "case vc.JWTPresentationProofFormat:",
   "nonceRaw, _ := presentation.JWT().Get(\"nonce\")",
   "nonce, _ = nonceRaw.(string)",
   "case vc.JSONLDPresentationProofFormat:",
   "proof, err := credential.ParseLDProof(presentation)",
   "if err != nil {",
   "return \"\", err",
   "}",
   "if proof.Nonce != nil && *proof.Nonce != \"\" {",
   "nonce = *proof.Nonce",
   "}",
   "}",
   "return nonce, nil",
   "}"] ∧
    Facts.C05.src_handleAccessTokenRequest =
  ["{",
   "if request.Code == nil {",
   "return nil, oauthError(oauth.InvalidRequest, \"missing code parameter\")",
   "}",
   "defer func() {",
   "_ = r.oauthCodeStore().Delete(*request.Code)",
   "}()",
   "if request.CodeVerifier == nil {",
   "return nil, oauthError(oauth.InvalidRequest, \"missing code_verifier parameter\")",
   "}",
   "if request.ClientId == nil {",
   "return nil, oauthError(oauth.InvalidRequest, \"missing client_id parameter\")",
   "}",
   "var oauthSession OAuthSession",
   "err := r.oauthCodeStore().GetAndDelete(*request.Code, &oauthSession)",
   "if err != nil {",
   "return nil, oauthError(oauth.InvalidGrant, \"invalid authorization code\", err)",
   "}",
   "if oauthSession.ClientID != *request.ClientId {",
   "return nil, oauthError(oauth.InvalidRequest, fmt.Sprintf(\"client_id does not match: %s vs %s\", oauthSession.ClientID, *request.ClientId))",
   "}",
   "oauthSession.PKCEParams.Verifier = *request.CodeVerifier",
   "if !validatePKCEParams(oauthSession.PKCEParams) {",
   "return nil, oauthError(oauth.InvalidGrant, \"invalid code_verifier\")",
   "}",
   "httpRequest := ctx.Value(httpRequestContextKey{}).(*http.Request)",
   "dpopProof, err := dpopFromRequest(*httpRequest)",
   "if err != nil {",
   "return nil, err",
   "}",
   "issuerURL := r.subjectToBaseURL(*oauthSession.OwnSubject)",
   "response, err := r.createAccessToken(issuerURL.String(), oauthSession.ClientID, time.Now(), oauthSession.Scope, *oauthSession.OpenID4VPVerifier, dpopProof)",
   "if err != nil {",
   "return nil, oauthError(oauth.ServerError, fmt.Sprintf(\"failed to create access token: %s\", err.Error()))",
   "}",
   "return HandleTokenRequest200JSONResponse(*response), nil",
   "}"] ∧
    Facts.C05.src_handleUserLanding =
  ["{",
   "token := echoCtx.QueryParam(\"token\")",
   "if token == \"\" {",
   "log.Logger().Debug(\"missing token\")",
   "return echoCtx.NoContent(http.StatusForbidden)",
   "}",
   "redirectSession := RedirectSession{}",
   "err := r.userRedirectStore().GetAndDelete(token, &redirectSession)",
   "if err != nil {",
   "log.Logger().Debug(\"token not found in store\")",
   "return echoCtx.NoContent(http.StatusForbidden)",
   "}"] ∧
    Facts.C05.src_responsePrefix =
  ["{",
   "if request.Body.State == nil {",
   "return nil, oauthError(oauth.InvalidRequest, \"missing state\")",
   "}",
   "if request.Body.VpToken == nil {",
   "return nil, oauthError(oauth.InvalidRequest, \"missing vp_token\")",
   "}",
   "pexEnvelope, err := pe.ParseEnvelope([]byte(*request.Body.VpToken))",
   "if err != nil || len(pexEnvelope.Presentations) == 0 {",
   "return nil, oauthError(oauth.InvalidRequest, \"invalid vp_token\", err)",
   "}",
   "var session OAuthSession",
   "state := *request.Body.State",
   "if err = r.oauthClientStateStore().Get(state, &session); err != nil {",
   "return nil, oauthError(oauth.InvalidRequest, \"invalid or expired session\", err)",
   "}",
   "if request.SubjectID != *session.OwnSubject {",
   "return nil, oauthError(oauth.InvalidRequest, \"incorrect tenant\", fmt.Errorf(\"expected: %s, was: %s\", *session.OwnSubject, request.SubjectID))",
   "}",
   "callbackURI := session.redirectURI()",
   "if err = r.validatePresentationNonce(pexEnvelope.Presentations, state); err != nil {"] ∧
    Facts.C05.src_s2sAfterNonce =
  ["return nil, err",
   "dpopProof, err := dpopFromRequest(*httpRequest)",
   "return nil, err",
   "_, err = r.vcr.Verifier().VerifyVP(presentation, true, true, nil)",
   "return nil, oauth.OAuth2Error{",
   "response, err := r.createAccessToken(issuerURL.String(), clientID, time.Now(), scope, *pexConsumer, dpopProof)",
   "return nil, err",
   "return HandleTokenRequest200JSONResponse(*response), nil"] ∧
    Facts.C05.src_s2sNonceLoop =
  ["for _, presentation := range pexEnvelope.Presentations {",
   "if err := r.validateS2SPresentationNonce(presentation); err != nil {",
   "return nil, err",
   "}",
   "}"] ∧
    Facts.C05.src_validatePKCEParams =
  ["{",
   "switch params.ChallengeMethod {",
   "case \"S256\":",
   "sha := sha256.Sum256([]byte(params.Verifier))",
   "challenge := base64.RawURLEncoding.EncodeToString(sha[:])",
   "return challenge == params.Challenge",
   "default:",
   "return false",
   "}",
   "}"] ∧
    Facts.C05.src_validatePresentationNonce =
  ["{",
   "allPresent := true",
   "nonces := make([]string, 0, 1)",
   "var errs []error",
   "for _, presentation := range presentations {",
   "nonce, err := extractChallenge(presentation)",
   "if err != nil {",
   "errs = append(errs, err)",
   "}",
   "if nonce == \"\" {",
   "nonce, err = extractNonce(presentation)",
   "if err != nil {",
   "errs = append(errs, err)",
   "}",
   "}",
   "if nonce == \"\" {",
   "allPresent = false",
   "}",
   "if nonce != \"\" && !slices.Contains(nonces, nonce) {",
   "nonces = append(nonces, nonce)",
   "}",
   "}",
   "if len(nonces) > 1 {",
   "errs = append(errs, errors.New(\"not all presentations have the same nonce\"))",
   "}",
   "if !allPresent {",
   "errs = append(errs, errors.New(\"presentation is missing nonce\"))",
   "}",
   "if len(errs) > 0 {",
   "for _, nonce := range nonces {",
   "_ = r.oauthNonceStore().Delete(nonce)",
   "}",
   "return oauth.OAuth2Error{",
   "Code: oauth.InvalidRequest,",
   "Description: \"invalid or missing nonce/challenge in presentation\",",
   "InternalError: errors.Join(errs...),",
   "}",
   "}",
   "var stateFromNonce string",
   "err := r.oauthNonceStore().GetAndDelete(nonces[0], &stateFromNonce)",
   "if err != nil {",
   "return oauthError(oauth.InvalidRequest, \"invalid or expired session\", err)",
   "}",
   "if state != stateFromNonce {",
   "return oauthError(oauth.InvalidRequest, \"invalid nonce/state\")",
   "}",
   "return nil",
   "}"] ∧
    Facts.C05.src_validateS2SPresentationNonce =
  ["{",
   "nonce, err := extractNonce(presentation)",
   "if nonce == \"\" {",
   "return oauth.OAuth2Error{",
   "Code: oauth.InvalidRequest,",
   "InternalError: err,",
   "Description: \"presentation has invalid/missing nonce\",",
   "}",
   "}",
   "fresh, err := r.s2sNonceStore().PutIfAbsent(nonce, true)",
   "if err != nil {",
   "return fmt.Errorf(\"unable to store nonce: %w\", err)",
   "}",
   "if !fresh {",
   "return oauth.OAuth2Error{",
   "Code: oauth.InvalidRequest,",
   "Description: \"presentation nonce has already been used\",",
   "}",
   "}",
   "return nil",
   "}"] := by
  refine ⟨rfl, rfl, rfl, rfl, rfl, rfl, rfl, rfl, rfl, rfl, rfl, rfl, rfl, rfl, rfl⟩

set_option maxRecDepth 8000 in
/-- the data the model consumes: grant-type switch, required vp_token parameters, PKCE methods, error codes and the
    (code, description) pairs of every handler's error returns in source order -/
theorem fact_form_tables :
    Facts.C05.tokenGrantSwitchTag = "request.Body.GrantType" ∧
    Facts.C05.tokenGrantSwitch = [("authorization_code", "handleAccessTokenRequest"), ("urn:ietf:params:oauth:grant-type:pre-authorized_code", "error:UnsupportedGrantType"), ("vp_token-bearer", "handleS2SAccessTokenRequest"), ("*", "error:UnsupportedGrantType")] ∧
    Facts.C05.vpTokenRequired = ["PresentationSubmission", "Scope", "Assertion", "ClientId"] ∧
    Facts.C05.pkceMethods = ["S256"] ∧
    Facts.C05.errs_HandleTokenRequest = [("UnsupportedGrantType", "not implemented yet"), ("InvalidRequest", "missing required parameters"), ("UnsupportedGrantType", "grant_type '%s' is not supported")] ∧
    Facts.C05.errs_handleAccessTokenRequest = [("InvalidRequest", "missing code parameter"), ("InvalidRequest", "missing code_verifier parameter"), ("InvalidRequest", "missing client_id parameter"), ("InvalidGrant", "invalid authorization code"), ("InvalidRequest", "client_id does not match: %s vs %s"), ("InvalidGrant", "invalid code_verifier"), ("ServerError", "failed to create access token: %s")] ∧
    Facts.C05.errs_dpopFromRequest = [("InvalidDPopProof", "DPoP header is invalid")] ∧
    Facts.C05.errs_validatePresentationNonce = [("InvalidRequest", "invalid or missing nonce/challenge in presentation"), ("InvalidRequest", "invalid or expired session"), ("InvalidRequest", "invalid nonce/state")] ∧
    Facts.C05.errs_validateS2SPresentationNonce = [("InvalidRequest", "presentation has invalid/missing nonce"), ("InvalidRequest", "presentation nonce has already been used")] ∧
    Facts.C05.errs_RequestJWTByGet = [("InvalidRequest", "request object not found"), ("InvalidRequest", "client_id does not match request"), ("InvalidRequest", "used request_uri_method 'get' on a 'post' request_uri"), ("ServerError", "unable to create Request Object")] ∧
    Facts.C05.errs_RequestJWTByPost = [("InvalidRequest", "request object not found"), ("InvalidRequest", "client_id does not match request"), ("InvalidRequest", "used request_uri_method 'post' on a 'get' request_uri"), ("ServerError", "unable to create Request Object")] ∧
    Facts.C05.errs_handleAuthorizeResponseSubmission.take 5 = [("InvalidRequest", "missing state"), ("InvalidRequest", "missing vp_token"), ("InvalidRequest", "invalid vp_token"), ("InvalidRequest", "invalid or expired session"), ("InvalidRequest", "incorrect tenant")] ∧
    (∀ c ∈ ["InvalidRequest", "InvalidGrant", "UnsupportedGrantType", "InvalidDPopProof"], (alGet Facts.C05.oauthErrorCodes c).isSome) := by
  refine ⟨by decide, by decide, by decide, by decide, by decide, by decide, by decide, by decide, by decide, by decide, by decide, by decide, by decide⟩

/-! ### Property theorems: sequences of requests at the real endpoints' level (all request contents, all histories, any
    amount of time between requests, both back-end expiry conventions) -/

/-- **An authorization code is dead after ANY attempt at the token endpoint** — honoured, wrong client_id, wrong or missing
    code_verifier, missing client_id, unparsable DPoP header, unknown code: once `HandleTokenRequest` has dispatched a request
    naming `code` to the authorization-code handler, no later request naming it is honoured, whatever requests (token
    requests of any grant, authorization responses) are served in between and however much time passes. -/
theorem code_dead_after_any_attempt (incl : Bool) (ttl : Kind → Nat) (pk : Pkce) (now : Nat) (st : Store)
    (f : TokenForm) (code : String) (hf : f.code = some code) (hr : grantAction f.grantType = "handleAccessTokenRequest")
    (later : List (Nat × Form)) (dt : Nat) (g : TokenForm) (hg : g.code = some code) :
    (handleCode ⟨incl, (runForms incl ttl pk now (handleToken ⟨incl, now, ttl⟩ pk st f).2 later).2.2 + dt, ttl⟩ pk
        (runForms incl ttl pk now (handleToken ⟨incl, now, ttl⟩ pk st f).2 later).2.1 g).1 ≠ .ok := by
  have h1 : stGet incl (handleToken ⟨incl, now, ttl⟩ pk st f).2 now (codeKey code) = none := by
    unfold handleToken
    simp only [hr, if_true]
    exact handleCode_kills ⟨incl, now, ttl⟩ pk st f code hf
  have h2 := runForms_keeps_dead incl ttl pk (codeKey code) .code rfl later now _ h1
  exact handleCode_not_ok_of_dead ⟨incl, _, ttl⟩ pk _ g code hg (stGet_none_later incl _ _ dt _ h2)

/-- non-vacuity: a first attempt with the wrong client_id kills a live code; the honest request that follows is refused -/
example :
    let pk : Pkce := ⟨"S256", fun v => v == "v"⟩
    let st : Store := [(codeKey "c1", ⟨"clientA", 60⟩)]
    let wrong : TokenForm := { grantType := "authorization_code", code := some "c1", codeVerifier := some "v", clientId := some "clientB" }
    let good : TokenForm := { wrong with clientId := some "clientA" }
    (handleToken ⟨true, 0, todayTTL⟩ pk st good).1 = .ok ∧
    (runForms true todayTTL pk 0 st [(0, .token wrong), (1, .token good)]).1 =
      [.err "invalid_request" "client_id does not match: %s vs %s", .err "invalid_grant" "invalid authorization code"] := by
  decide

/-- **Burn them all**: whatever the response endpoint answers once it reached the nonce check, every nonce that ANY of its
    presentations named (JWT claim, LD challenge, LD nonce fallback) is dead: no later authorization response naming it —
    alone or among others — passes the nonce check. -/
theorem vp_nonce_dead_after_any_response (incl : Bool) (ttl : Kind → Nat) (pk : Pkce) (now : Nat) (st : Store)
    (ps : List Pres) (state : String) (n : String) (hn : n ∈ (collect ps).nonces)
    (later : List (Nat × Form)) (dt : Nat) (ps2 : List Pres) (state2 : String) (hn2 : n ∈ (collect ps2).nonces) :
    (validateNonce ⟨incl, (runForms incl ttl pk now (validateNonce ⟨incl, now, ttl⟩ st ps state).2 later).2.2 + dt, ttl⟩
        (runForms incl ttl pk now (validateNonce ⟨incl, now, ttl⟩ st ps state).2 later).2.1 ps2 state2).1 ≠ .ok := by
  have h1 := validateNonce_kills ⟨incl, now, ttl⟩ st ps state n hn
  have h2 := runForms_keeps_dead incl ttl pk (vpKey n) .vpNonce rfl later now _ h1
  exact validateNonce_not_ok_of_dead ⟨incl, _, ttl⟩ _ ps2 state2 n hn2 (stGet_none_later incl _ _ dt _ h2)

/-- non-vacuity: a response whose presentations disagree burns both live nonces -/
example :
    let st : Store := [(vpKey "n1", ⟨"s", 60⟩), (vpKey "n2", ⟨"s", 60⟩)]
    let p1 : Pres := { fmt := .ld, challenge := "n1" }
    let p2 : Pres := { fmt := .jwt, jwtNonce := "n2" }
    (collect [p1, p2]).nonces = ["n1", "n2"] ∧
    (validateNonce ⟨true, 0, todayTTL⟩ st [p1] "s").1 = .ok ∧
    (validateNonce ⟨true, 0, todayTTL⟩ st [p1, p2] "s").2 = [] := by
  decide

/-- **The nonce check passes only for a common nonce**: every presentation of the response carries one and the same non-empty
    nonce (JWT claim, LD challenge, or LD nonce as fallback), that nonce is stored and alive, and it is stored for the state the
    response names — for every list of presentations, every store. -/
theorem vp_nonce_accepted_only_if_common (c : Sq) (st : Store) (ps : List Pres) (state : String)
    (h : (validateNonce c st ps state).1 = .ok) :
    ∃ n, n ≠ "" ∧ (∀ p ∈ ps, presNonce p = n) ∧ stGet c.incl st c.now (vpKey n) = some state :=
  validateNonce_ok c st ps state h

example : (validateNonce ⟨true, 0, todayTTL⟩ [(vpKey "n1", ⟨"s", 60⟩)]
    [{ fmt := .ld, challenge := "n1" }, { fmt := .ld, nonce := "n1" }, { fmt := .jwt, jwtNonce := "n1" }] "s").1 = .ok := by decide

/-- a request the token endpoint does not dispatch to a handler (unknown, differently-cased or not-implemented grant type;
    vp_token grant with a required parameter missing) leaves the session store untouched -/
theorem refused_grant_touches_nothing (c : Sq) (pk : Pkce) (st : Store) (f : TokenForm)
    (h1 : grantAction f.grantType ≠ "handleAccessTokenRequest")
    (h2 : grantAction f.grantType ≠ "handleS2SAccessTokenRequest" ∨ f.assertion = none ∨ f.submission = false ∨ f.scope = false ∨ f.clientId = none) :
    (handleToken c pk st f).2 = st ∧ (handleToken c pk st f).1 ≠ .ok := by
  unfold handleToken
  simp only [h1, if_false]
  by_cases hs : grantAction f.grantType = "handleS2SAccessTokenRequest"
  · simp only [hs, if_true]
    cases ha : f.assertion with
    | none => simp [errAt_ne_ok]
    | some ns =>
      rcases h2 with h | h | h | h | h
      · exact absurd hs h
      · rw [ha] at h; cases h
      · simp [h, errAt_ne_ok]
      · simp [h, errAt_ne_ok]
      · simp [h, errAt_ne_ok]
  · simp only [hs, if_false]
    split <;> simp [errAt_ne_ok]

example : grantAction "Authorization_Code" ≠ "handleAccessTokenRequest" ∧ grantAction "authorization_code" = "handleAccessTokenRequest" ∧
    grantAction "vp_token-bearer" = "handleS2SAccessTokenRequest" ∧ grantAction "*" = "error:UnsupportedGrantType" := by decide

/-! ### Refinement of the request level to the thread level, and the end-to-end corollary -/

/-- today's GetAndDelete holds the database mutex, on every back-end (regenerated fact `gadShape`) -/
theorem today_gad_locked (strict incl : Bool) : (today strict incl).gad = .locked := by
  show Facts.C05.gadShape = .locked
  decide

/-- **Refinement**: `handleAccessTokenRequest`, mirrored statement by statement (parameter checks, deferred Delete, GetAndDelete,
    client_id comparison, PKCE, DPoP header), answers and leaves the store exactly as the thread `TokenForm.toBurn` of the
    abstract layer does when it runs alone (lock, Get, Delete, unlock, deferred Delete) under today's configuration on any
    back-end — for every request, every store and every instant.  The thread model's `pre / want / post` are thereby the
    handler's own checks, and the theorems over ALL schedules of the thread model speak about this handler. -/
theorem handleCode_refines_thread (strict incl : Bool) (ttl : Kind → Nat) (pk : Pkce) (now : Nat) (st : Store) (f : TokenForm) (r : BurnReq)
    (hr : f.toBurn pk = some r) :
    ((run (today strict incl) soloSched { store := st, now := now, lock := none, ths := [.burn r .start 0] }).ths[0]?.bind Thread.outcome)
        = codeOutcome (handleCode ⟨incl, now, ttl⟩ pk st f).1 ∧
    (run (today strict incl) soloSched { store := st, now := now, lock := none, ths := [.burn r .start 0] }).store
        = (handleCode ⟨incl, now, ttl⟩ pk st f).2 := by
  have hprops : r.kind = .code ∧ r.failGet = false ∧ r.failDel = false := by
    unfold TokenForm.toBurn at hr
    cases hc : f.code with
    | none => simp [hc] at hr
    | some code => simp only [hc, Option.some.injEq] at hr; subst hr; exact ⟨rfl, rfl, rfl⟩
  have h1 := solo_code_run (today strict incl) (today_gad_locked strict incl) rfl r hprops.1 hprops.2.1 hprops.2.2 st now
  have h2 : codeOutcome (handleCode ⟨incl, now, ttl⟩ pk st f).1 = some (soloOutcome (today strict incl) st now r).1 ∧
      (handleCode ⟨incl, now, ttl⟩ pk st f).2 = (soloOutcome (today strict incl) st now r).2 :=
    handleCode_eq_solo (today strict incl) ttl pk now st f r hr
  exact ⟨by rw [h1.1, h2.1], by rw [h1.2.1, h2.2]⟩

/-- non-vacuity: an honest request against a live code; both sides answer `ok` and erase the code -/
example :
    let pk : Pkce := ⟨"S256", fun v => v == "v"⟩
    let f : TokenForm := { grantType := "authorization_code", code := some "c1", codeVerifier := some "v", clientId := some "clientA" }
    let st : Store := [(codeKey "c1", ⟨"clientA", 60⟩)]
    f.toBurn pk = some { kind := .code, id := "c1", want := "clientA" } ∧ handleCode ⟨true, 0, todayTTL⟩ pk st f = (.ok, []) := by
  decide

/-- the threads a list of token requests stands for (requests without `code` never reach the store) -/
def compileForms (pk : Pkce) (fs : List TokenForm) : List Req := fs.filterMap (fun f => (f.toBurn pk).map Req.burn)

/-- **End to end** (request contents → decision, all interleavings): any number of authorization-code token requests with any
    contents, started in any order and interleaved in EVERY way at the granularity of single store calls, with clock ticks
    anywhere, on any back-end: at most one of them is honoured per code.  Composition of `handleCode_refines_thread`
    (each thread is its handler) with `at_most_one_success_atomic` and today's facts. -/
theorem token_endpoint_at_most_once_all_schedules (strict incl : Bool) (pk : Pkce) (st : Store) (fs : List TokenForm)
    (sched : List Ev) (code : String) :
    successes (run (today strict incl) sched (init st (compileForms pk fs))) (codeKey code) ≤ 1 :=
  at_most_one_success_atomic (today strict incl) (Or.inr (Or.inl (today_gad_locked strict incl))) st _ sched (codeKey code) .code rfl

/-! ### the vp_token-bearer grant: the nonce loop over ALL presentations of the envelope -/

/-- an envelope is accepted by the nonce loop only if its nonces are pairwise different, none is missing and none was
    registered before — and then every one of them is registered -/
theorem s2s_envelope_accepted_only_if_all_fresh (c : Sq) (httl : 0 < c.ttl (.mark .s2s)) (st : Store) (ns : List String)
    (h : (s2sLoop c st ns).1 = .ok) :
    ns.Nodup ∧ (∀ n ∈ ns, n ≠ "" ∧ stGet c.incl st c.now (s2sKey n) = none) ∧
    (∀ n ∈ ns, stGet c.incl (s2sLoop c st ns).2 c.now (s2sKey n) ≠ none) :=
  s2sLoop_ok c httl ns st h

/-- **No replay inside the nonce TTL, at envelope level, through any history**: once an envelope was accepted, any envelope
    that contains ANY of its nonces (at any position, among any other nonces) is refused as long as less than the TTL has
    passed — whatever token requests and authorization responses were served in between. -/
theorem s2s_nonce_no_replay_within_ttl (incl : Bool) (ttl : Kind → Nat) (pk : Pkce) (now : Nat) (st : Store)
    (ns : List String) (n : String) (hn : n ∈ ns) (httl : 0 < ttl (.mark .s2s))
    (hok : (s2sLoop ⟨incl, now, ttl⟩ st ns).1 = .ok)
    (later : List (Nat × Form)) (dt : Nat) (ns2 : List String) (hn2 : n ∈ ns2)
    (hwin : (runForms incl ttl pk now (s2sLoop ⟨incl, now, ttl⟩ st ns).2 later).2.2 + dt < now + ttl (.mark .s2s)) :
    (s2sLoop ⟨incl, (runForms incl ttl pk now (s2sLoop ⟨incl, now, ttl⟩ st ns).2 later).2.2 + dt, ttl⟩
        (runForms incl ttl pk now (s2sLoop ⟨incl, now, ttl⟩ st ns).2 later).2.1 ns2).1 ≠ .ok := by
  obtain ⟨e, hfind, hexp⟩ := s2sLoop_ok_find ⟨incl, now, ttl⟩ httl ns st hok n hn
  simp only at hexp
  have hkeep := runForms_keeps_find_live incl ttl pk n e later now _ hfind (by omega)
  apply s2sLoop_refuses_used _ ns2 n hn2
  rw [stGet_of_find_live incl _ _ _ e hkeep (by show _ + dt < e.exp; omega)]
  simp

/-- non-vacuity: [x1, x2] is accepted; 14 s later [x3, x2] is refused, and so is [x1, x1] on an empty store -/
example :
    let pk : Pkce := ⟨"S256", fun _ => false⟩
    (s2sLoop ⟨false, 0, todayTTL⟩ [] ["x1", "x2"]).1 = .ok ∧
    (runForms false todayTTL pk 0 [] [(0, .token { grantType := "vp_token-bearer", assertion := some ["x1", "x2"], submission := true, scope := true, clientId := some "c" }),
                                     (14, .token { grantType := "vp_token-bearer", assertion := some ["x3", "x2"], submission := true, scope := true, clientId := some "c" })]).1
      = [.ok, .err "invalid_request" "presentation nonce has already been used"] ∧
    (s2sLoop ⟨false, 0, todayTTL⟩ [] ["x1", "x1"]).1 ≠ .ok := by
  decide

/-! ### request objects, landing-page tokens, DPoP proof ids at request level -/

/-- **A request object is dead after any fetch** that named it — by GET or POST, by the right or a wrong subject, with the
    right or the wrong request_uri_method — through any later history and waiting time. -/
theorem request_object_dead_after_any_fetch (incl : Bool) (ttl : Kind → Nat) (pk : Pkce) (now : Nat) (st : Store) (r : ReqObjFetch)
    (later : List (Nat × Form)) (dt : Nat) (r2 : ReqObjFetch) (hid : r2.id = r.id) :
    (handleReqObj ⟨incl, (runForms incl ttl pk now (handleReqObj ⟨incl, now, ttl⟩ st r).2 later).2.2 + dt, ttl⟩
        (runForms incl ttl pk now (handleReqObj ⟨incl, now, ttl⟩ st r).2 later).2.1 r2).1 ≠ .ok := by
  have h1 := handleReqObj_kills ⟨incl, now, ttl⟩ st r
  have h2 := runForms_keeps_dead incl ttl pk (reqObjKey r.id) .reqObj rfl later now _ h1
  apply handleReqObj_not_ok_of_dead
  rw [hid]
  exact stGet_none_later incl _ _ dt _ h2

/-- **A landing-page token is dead after its first use**, through any later history and waiting time. -/
theorem landing_token_dead_after_use (incl : Bool) (ttl : Kind → Nat) (pk : Pkce) (now : Nat) (st : Store) (t : String) (ht : t ≠ "")
    (later : List (Nat × Form)) (dt : Nat) :
    (handleLanding ⟨incl, (runForms incl ttl pk now (handleLanding ⟨incl, now, ttl⟩ st t).2 later).2.2 + dt, ttl⟩
        (runForms incl ttl pk now (handleLanding ⟨incl, now, ttl⟩ st t).2 later).2.1 t).1 ≠ .ok := by
  have h1 := handleLanding_kills ⟨incl, now, ttl⟩ st t ht
  have h2 := runForms_keeps_dead incl ttl pk (redirectKey t) .redirect rfl later now _ h1
  exact handleLanding_not_ok_of_dead _ _ t (stGet_none_later incl _ _ dt _ h2)

/-- ValidateDPoPProof: a proof that is not accepted (unparsable, not matching the request, ath missing or wrong, jti used)
    leaves the store as it was — a jti is registered only by a proof that passed every other check -/
theorem dpop_refusal_registers_nothing (c : Sq) (st : Store) (r : DpopReq) (h : (handleDpop c st r).1 ≠ .ok) :
    (handleDpop c st r).2 = st := handleDpop_unchanged_on_refusal c st r h

/-- … and once a proof was accepted, any proof with the same jti presented less than the TTL later is refused -/
theorem dpop_jti_replay_refused (c : Sq) (st : Store) (r r2 : DpopReq) (hj : r2.jti = r.jti) (hok : (handleDpop c st r).1 = .ok)
    (dt : Nat) (hdt : dt < c.ttl (.mark .jti)) :
    (handleDpop { c with now := c.now + dt } (handleDpop c st r).2 r2).1 ≠ .ok :=
  handleDpop_replay_refused c st r r2 hj hok dt hdt

/-- **No replay of a DPoP proof id inside its TTL, through any history**: once a proof was accepted, every proof with the
    same jti is refused as long as less than the TTL has passed, whatever requests of any endpoint were served in between. -/
theorem dpop_jti_no_replay_within_ttl (incl : Bool) (ttl : Kind → Nat) (pk : Pkce) (now : Nat) (st : Store) (r : DpopReq)
    (hok : (handleDpop ⟨incl, now, ttl⟩ st r).1 = .ok)
    (later : List (Nat × Form)) (dt : Nat) (r2 : DpopReq) (hj : r2.jti = r.jti)
    (hwin : (runForms incl ttl pk now (handleDpop ⟨incl, now, ttl⟩ st r).2 later).2.2 + dt < now + ttl (.mark .jti)) :
    (handleDpop ⟨incl, (runForms incl ttl pk now (handleDpop ⟨incl, now, ttl⟩ st r).2 later).2.2 + dt, ttl⟩
        (runForms incl ttl pk now (handleDpop ⟨incl, now, ttl⟩ st r).2 later).2.1 r2).1 ≠ .ok := by
  have hfind := handleDpop_ok_find ⟨incl, now, ttl⟩ st r hok
  have hkeep := runForms_keeps_jti_live incl ttl pk r.jti _ later now _ hfind (by show _ < now + ttl (.mark .jti); omega)
  apply handleDpop_refuses_used
  rw [hj, stGet_of_find_live incl _ _ _ _ hkeep (by show _ + dt < now + ttl (.mark .jti); omega)]
  simp

example :
    (handleReqObj ⟨true, 0, todayTTL⟩ [] ⟨"r1", "holderA", false⟩) = (.err "invalid_request" "request object not found", []) ∧
    (gadSeq ⟨true, 0, todayTTL⟩ [(reqObjKey "r1", ⟨"holderA|get", 60⟩)] (reqObjKey "r1")) = (some "holderA|get", []) ∧
    (handleLanding ⟨true, 0, todayTTL⟩ [(redirectKey "t1", ⟨"", 60⟩)] "t1") = (.ok, []) ∧
    (handleDpop ⟨true, 0, todayTTL⟩ [] { jti := "j1" }).1 = .ok ∧
    (handleDpop ⟨true, 0, todayTTL⟩ [] { jti := "j1", athOk := false }) = (.err "invalid" "ath/token claim mismatch", []) := by
  decide

end Nuts.C05.Props
