/-
  C05, request-level layer — property theorems about NutsModel/C05/Forms.lean (token endpoint, OpenID4VP response
  endpoint as sequences of requests) + the obligations on the regenerated facts that layer mirrors / consumes.
-/
import NutsModel.C05.Forms
import NutsModel.C05.Today
import NutsModel.Facts.C05
import NutsProofs.Lemmas.C05Forms

namespace Nuts.C05.Props
open Nuts.C05

/-! ### Obligations on the regenerated facts -/

/-- the statements of every function Forms.lean mirrors are the ones it was written against (normalised source text) -/
theorem fact_form_sources :
    Facts.C05.src_HandleTokenRequest =
  ["{",
   "err := r.subjectExists(ctx, request.SubjectID)",
   "if err != nil {",
   "return nil, err",
   "}",
   "switch request.Body.GrantType {",
   "case oauth.AuthorizationCodeGrantType:",
   "return r.handleAccessTokenRequest(ctx, *request.Body)",
   "case oauth.PreAuthorizedCodeGrantType:",
   "return nil, oauth.OAuth2Error{",
   "Code: oauth.UnsupportedGrantType,",
   "Description: \"not implemented yet\",",
   "}",
   "case oauth.VpTokenGrantType:",
   "if request.Body.PresentationSubmission == nil || request.Body.Scope == nil || request.Body.Assertion == nil || request.Body.ClientId == nil {",
   "return nil, oauth.OAuth2Error{",
   "Code: oauth.InvalidRequest,",
   "Description: \"missing required parameters\",",
   "}",
   "}",
   "return r.handleS2SAccessTokenRequest(ctx, *request.Body.ClientId, request.SubjectID, *request.Body.Scope, *request.Body.PresentationSubmission, *request.Body.Assertion)",
   "default:",
   "return nil, oauth.OAuth2Error{",
   "Code: oauth.UnsupportedGrantType,",
   "Description: fmt.Sprintf(\"grant_type '%s' is not supported\", request.Body.GrantType),",
   "}",
   "}",
   "}"] ∧
    Facts.C05.src_dpopFromRequest =
  ["{",
   "dpopHeader := httpRequest.Header.Get(\"DPoP\")",
   "if dpopHeader == \"\" {",
   "return nil, nil",
   "}",
   "dpopProof, err := dpop.Parse(dpopHeader)",
   "if err != nil {",
   "return nil, oauth.OAuth2Error{",
   "Code: oauth.InvalidDPopProof,",
   "Description: \"DPoP header is invalid\",",
   "InternalError: err,",
   "}",
   "}",
   "return dpopProof, nil",
   "}"] ∧
    Facts.C05.src_extractChallenge =
  ["{",
   "var nonce string",
   "switch presentation.Format() {",
   "case vc.JWTPresentationProofFormat:",
   "nonceRaw, _ := presentation.JWT().Get(\"nonce\")",
   "nonce, _ = nonceRaw.(string)",
   "case vc.JSONLDPresentationProofFormat:",
   "proof, err := credential.ParseLDProof(presentation)",
   "if err != nil {",
   "return \"\", err",
   "}",
   "if proof.Challenge != nil && *proof.Challenge != \"\" {",
   "nonce = *proof.Challenge",
   "}",
   "}",
   "return nonce, nil",
   "}"] ∧
    Facts.C05.src_extractNonce =
  ["{",
   "var nonce string",
   "switch presentation.Format() {",
   "case vc.JWTPresentationProofFormat:",
   "nonceRaw, _ := presentation.JWT().Get(\"nonce\")",
   "nonce, _ = nonceRaw.(string)",
   "case vc.JSONLDPresentationProofFormat:",
   "proof, err := credential.ParseLDProof(presentation)",
   "if err != nil {",
   "return \"\", err",
   "}",
   "if proof.Nonce != nil && *proof.Nonce != \"\" {",
   "nonce = *proof.Nonce",
   "}",
   "}",
   "return nonce, nil",
   "}"] ∧
    Facts.C05.src_handleAccessTokenRequest =
  ["{",
   "if request.Code == nil {",
   "return nil, oauthError(oauth.InvalidRequest, \"missing code parameter\")",
   "}",
   "defer func() {",
   "_ = r.oauthCodeStore().Delete(*request.Code)",
   "}()",
   "if request.CodeVerifier == nil {",
   "return nil, oauthError(oauth.InvalidRequest, \"missing code_verifier parameter\")",
   "}",
   "if request.ClientId == nil {",
   "return nil, oauthError(oauth.InvalidRequest, \"missing client_id parameter\")",
   "}",
   "var oauthSession OAuthSession",
   "err := r.oauthCodeStore().GetAndDelete(*request.Code, &oauthSession)",
   "if err != nil {",
   "return nil, oauthError(oauth.InvalidGrant, \"invalid authorization code\", err)",
   "}",
   "if oauthSession.ClientID != *request.ClientId {",
   "return nil, oauthError(oauth.InvalidRequest, fmt.Sprintf(\"client_id does not match: %s vs %s\", oauthSession.ClientID, *request.ClientId))",
   "}",
   "oauthSession.PKCEParams.Verifier = *request.CodeVerifier",
   "if !validatePKCEParams(oauthSession.PKCEParams) {",
   "return nil, oauthError(oauth.InvalidGrant, \"invalid code_verifier\")",
   "}",
   "httpRequest := ctx.Value(httpRequestContextKey{}).(*http.Request)",
   "dpopProof, err := dpopFromRequest(*httpRequest)",
   "if err != nil {",
   "return nil, err",
   "}",
   "issuerURL := r.subjectToBaseURL(*oauthSession.OwnSubject)",
   "response, err := r.createAccessToken(issuerURL.String(), oauthSession.ClientID, time.Now(), oauthSession.Scope, *oauthSession.OpenID4VPVerifier, dpopProof)",
   "if err != nil {",
   "return nil, oauthError(oauth.ServerError, fmt.Sprintf(\"failed to create access token: %s\", err.Error()))",
   "}",
   "return HandleTokenRequest200JSONResponse(*response), nil",
   "}"] ∧
    Facts.C05.src_responsePrefix =
  ["{",
   "if request.Body.State == nil {",
   "return nil, oauthError(oauth.InvalidRequest, \"missing state\")",
   "}",
   "if request.Body.VpToken == nil {",
   "return nil, oauthError(oauth.InvalidRequest, \"missing vp_token\")",
   "}",
   "pexEnvelope, err := pe.ParseEnvelope([]byte(*request.Body.VpToken))",
   "if err != nil || len(pexEnvelope.Presentations) == 0 {",
   "return nil, oauthError(oauth.InvalidRequest, \"invalid vp_token\", err)",
   "}",
   "var session OAuthSession",
   "state := *request.Body.State",
   "if err = r.oauthClientStateStore().Get(state, &session); err != nil {",
   "return nil, oauthError(oauth.InvalidRequest, \"invalid or expired session\", err)",
   "}",
   "if request.SubjectID != *session.OwnSubject {",
   "return nil, oauthError(oauth.InvalidRequest, \"incorrect tenant\", fmt.Errorf(\"expected: %s, was: %s\", *session.OwnSubject, request.SubjectID))",
   "}",
   "callbackURI := session.redirectURI()",
   "if err = r.validatePresentationNonce(pexEnvelope.Presentations, state); err != nil {"] ∧
    Facts.C05.src_s2sAfterNonce =
  ["return nil, err",
   "dpopProof, err := dpopFromRequest(*httpRequest)",
   "return nil, err",
   "_, err = r.vcr.Verifier().VerifyVP(presentation, true, true, nil)",
   "return nil, oauth.OAuth2Error{",
   "response, err := r.createAccessToken(issuerURL.String(), clientID, time.Now(), scope, *pexConsumer, dpopProof)",
   "return nil, err",
   "return HandleTokenRequest200JSONResponse(*response), nil"] ∧
    Facts.C05.src_s2sNonceLoop =
  ["for _, presentation := range pexEnvelope.Presentations {",
   "if err := r.validateS2SPresentationNonce(presentation); err != nil {",
   "return nil, err",
   "}",
   "}"] ∧
    Facts.C05.src_validatePKCEParams =
  ["{",
   "switch params.ChallengeMethod {",
   "case \"S256\":",
   "sha := sha256.Sum256([]byte(params.Verifier))",
   "challenge := base64.RawURLEncoding.EncodeToString(sha[:])",
   "return challenge == params.Challenge",
   "default:",
   "return false",
   "}",
   "}"] ∧
    Facts.C05.src_validatePresentationNonce =
  ["{",
   "allPresent := true",
   "nonces := make([]string, 0, 1)",
   "var errs []error",
   "for _, presentation := range presentations {",
   "nonce, err := extractChallenge(presentation)",
   "if err != nil {",
   "errs = append(errs, err)",
   "}",
   "if nonce == \"\" {",
   "nonce, err = extractNonce(presentation)",
   "if err != nil {",
   "errs = append(errs, err)",
   "}",
   "}",
   "if nonce == \"\" {",
   "allPresent = false",
   "}",
   "if nonce != \"\" && !slices.Contains(nonces, nonce) {",
   "nonces = append(nonces, nonce)",
   "}",
   "}",
   "if len(nonces) > 1 {",
   "errs = append(errs, errors.New(\"not all presentations have the same nonce\"))",
   "}",
   "if !allPresent {",
   "errs = append(errs, errors.New(\"presentation is missing nonce\"))",
   "}",
   "if len(errs) > 0 {",
   "for _, nonce := range nonces {",
   "_ = r.oauthNonceStore().Delete(nonce)",
   "}",
   "return oauth.OAuth2Error{",
   "Code: oauth.InvalidRequest,",
   "Description: \"invalid or missing nonce/challenge in presentation\",",
   "InternalError: errors.Join(errs...),",
   "}",
   "}",
   "var stateFromNonce string",
   "err := r.oauthNonceStore().GetAndDelete(nonces[0], &stateFromNonce)",
   "if err != nil {",
   "return oauthError(oauth.InvalidRequest, \"invalid or expired session\", err)",
   "}",
   "if state != stateFromNonce {",
   "return oauthError(oauth.InvalidRequest, \"invalid nonce/state\")",
   "}",
   "return nil",
   "}"] ∧
    Facts.C05.src_validateS2SPresentationNonce =
  ["{",
   "nonce, err := extractNonce(presentation)",
   "if nonce == \"\" {",
   "return oauth.OAuth2Error{",
   "Code: oauth.InvalidRequest,",
   "InternalError: err,",
   "Description: \"presentation has invalid/missing nonce\",",
   "}",
   "}",
   "fresh, err := r.s2sNonceStore().PutIfAbsent(nonce, true)",
   "if err != nil {",
   "return fmt.Errorf(\"unable to store nonce: %w\", err)",
   "}",
   "if !fresh {",
   "return oauth.OAuth2Error{",
   "Code: oauth.InvalidRequest,",
   "Description: \"presentation nonce has already been used\",",
   "}",
   "}",
   "return nil",
   "}"] := by
  refine ⟨rfl, rfl, rfl, rfl, rfl, rfl, rfl, rfl, rfl, rfl, rfl⟩

set_option maxRecDepth 8000 in
/-- the data the model consumes: grant-type switch, required vp_token parameters, PKCE methods, error codes and the
    (code, description) pairs of every handler's error returns in source order -/
theorem fact_form_tables :
    Facts.C05.tokenGrantSwitchTag = "request.Body.GrantType" ∧
    Facts.C05.tokenGrantSwitch = [("authorization_code", "handleAccessTokenRequest"), ("urn:ietf:params:oauth:grant-type:pre-authorized_code", "error:UnsupportedGrantType"), ("vp_token-bearer", "handleS2SAccessTokenRequest"), ("*", "error:UnsupportedGrantType")] ∧
    Facts.C05.vpTokenRequired = ["PresentationSubmission", "Scope", "Assertion", "ClientId"] ∧
    Facts.C05.pkceMethods = ["S256"] ∧
    Facts.C05.errs_HandleTokenRequest = [("UnsupportedGrantType", "not implemented yet"), ("InvalidRequest", "missing required parameters"), ("UnsupportedGrantType", "grant_type '%s' is not supported")] ∧
    Facts.C05.errs_handleAccessTokenRequest = [("InvalidRequest", "missing code parameter"), ("InvalidRequest", "missing code_verifier parameter"), ("InvalidRequest", "missing client_id parameter"), ("InvalidGrant", "invalid authorization code"), ("InvalidRequest", "client_id does not match: %s vs %s"), ("InvalidGrant", "invalid code_verifier"), ("ServerError", "failed to create access token: %s")] ∧
    Facts.C05.errs_dpopFromRequest = [("InvalidDPopProof", "DPoP header is invalid")] ∧
    Facts.C05.errs_validatePresentationNonce = [("InvalidRequest", "invalid or missing nonce/challenge in presentation"), ("InvalidRequest", "invalid or expired session"), ("InvalidRequest", "invalid nonce/state")] ∧
    Facts.C05.errs_validateS2SPresentationNonce = [("InvalidRequest", "presentation has invalid/missing nonce"), ("InvalidRequest", "presentation nonce has already been used")] ∧
    Facts.C05.errs_handleAuthorizeResponseSubmission.take 5 = [("InvalidRequest", "missing state"), ("InvalidRequest", "missing vp_token"), ("InvalidRequest", "invalid vp_token"), ("InvalidRequest", "invalid or expired session"), ("InvalidRequest", "incorrect tenant")] ∧
    (∀ c ∈ ["InvalidRequest", "InvalidGrant", "UnsupportedGrantType", "InvalidDPopProof"], (alGet Facts.C05.oauthErrorCodes c).isSome) := by
  refine ⟨by decide, by decide, by decide, by decide, by decide, by decide, by decide, by decide, by decide, by decide, by decide⟩

end Nuts.C05.Props
