/-
  Composition C06 ∘ C08 ∘ C07 — the DAG transaction network end to end.
  ONLY the composition theorems + non-vacuity examples.  Maps: NutsModel/Compose/Dag.lean; helper lemmas:
  NutsProofs/Lemmas/ComposeDag.lean.

  What the single properties leave open and this file closes:
    * C08's theorems quantify over ANY call sequence of its own `add` (with its own prev/clock/root verifier) and speak
      about "the stored set"; C06's theorems stop at the admitted list.  Here the admitted list of C06 IS the stored set of
      C08: every C06-admitted transaction passes C08's verifier (discharged by C06's chain invariant), so all of C08's
      observables are its reference folds over exactly C06's admitted set.
    * the only hypothesis: delivered refs are SHA-256 values (`Small`, `< 2^256`).  C06 models refs as unbounded `Nat`,
      C08 as `BitVec 256`; the embedding is injective exactly there (witness: `small_refs_needed`).
    * C07's DAG is an unconstrained abstract list with its own `addCheck`, `xorOf`, `lcOf`, `ibltSet`, `findBetween`.  Here it
      is the view of C06's admitted list: `DagOK` is discharged by C06 (`admitted_view_is_valid_dag`), its `Add` decision is
      C06's (`add_decisions_agree`, `protocol_add_simulates_admission`), its digests are C08's (`gossip_digests_are_c08_digests`,
      `range_reply_is_c08_listing`), XOR faithfulness is restated about C08's `XOR(c)` (`xor_faithfulness_from_c08` / `_to_c08`)
      and `converges` applies to C06 ∘ C08-reachable nodes (`converges_end_to_end`).  What C07 assumes and C06 does not provide:
      `public_payload_not_provided_by_add`.
-/
import NutsProofs.Lemmas.ComposeDag
import NutsModel.C06.Cfg
import NutsProofs.Props.C06
import NutsProofs.Props.C08
import NutsProofs.Props.C07

namespace Nuts.Compose.Dag.Props
open Nuts Nuts.Compose.Dag
open Nuts.C08.Props (cfg NB cfg_good Observables Reachable)
open Nuts.Proto Nuts.Proto.L Nuts.Proto.Live

/-- a fold of C08 `add`s from the empty store is one of C08's reachable states -/
theorem reachable_build (w : Wire) : ∀ (l : List C06.Tx), Reachable (build cfg w l : C08.State NB) := by
  intro l
  induction l with
  | nil => exact .init
  | cons t rest ih => rw [build_cons]; exact .add _ _ ih

/-- **Admission feeds the digests (target 2).** For EVERY sequence of deliveries to the admission layer — bytes or parsed
    transactions; valid, invalid, duplicate, in any order — whose refs are SHA-256 values (`< 2^256`): the composed node's
    digest state, built by handing exactly what C06 admitted to C08's `add` at the moment of admission,
    * is the state obtained by feeding the admitted list in admission order to C08's `add` from the empty store (`digests`);
    * stores exactly the image of C06's admitted set — no `add` of the digest layer was refused: C08's own verifier
      (prevs present, clock = highest prev + 1, single root, ref not yet stored) passed every time, discharged by C06's
      DAG invariant and not assumed;
    * and every observable — `XOR(c)` and `IBLT(c)` with their clocks for EVERY requested clock, `FindBetweenLC(a, b)` for
      every window, transaction count, highest clock (atomic and stored), head — equals C08's reference fold over exactly
      C06's admitted set. -/
theorem admitted_stream_digests (a : Adm) (w : Wire) (ds : List Delivery) (hs : ∀ d ∈ ds, Small d.ref) :
    let nd : Node NB := Node.run a cfg w ds
    nd.st = run6 a ds ∧ nd.dg = digests cfg w nd.st ∧ nd.dg.disk.txs = embSet w nd.st ∧ Reachable nd.dg ∧
    Observables nd.dg (embSet w nd.st) := by
  intro nd
  have hok : NodeOK a cfg w nd := NodeOK.run ds (NodeOK.init a cfg w) hs
  obtain ⟨hsinv, hrel⟩ := hok.sinv cfg_good
  have hr : Reachable nd.dg := by rw [hok.2, digests_eq_build]; exact reachable_build w _
  refine ⟨run_st a cfg w ds _, hok.2, hrel.txs, hr, ?_⟩
  have := C08.Props.state_refines_spec hr
  rw [hrel.txs] at this
  exact this



/-- **The digest layer never refuses what the admission layer admitted.** In every state the composed node can reach, a
    delivery that changes the admission layer's state at all is the admission of exactly one transaction `tx` (the
    delivered one), and C08's `add` of its image on the current digest state reports success, stores exactly it — and
    that is the node's new digest state. -/
theorem admitted_never_refused_by_digest_layer (a : Adm) (w : Wire) (ds : List Delivery) (hs : ∀ d ∈ ds, Small d.ref)
    (d : Delivery) (hd : Small d.ref) :
    let nd : Node NB := Node.run a cfg w ds
    (nd.deliver a cfg w d).1.st ≠ nd.st →
    ∃ tx p, tx.ref = d.ref ∧ (nd.deliver a cfg w d).2 = .ok () ∧ C06.Admitted a.env nd.st tx p (nd.deliver a cfg w d).1.st ∧
      C08.add cfg nd.dg (embTx w tx) {} = ((nd.deliver a cfg w d).1.dg, .ok ()) ∧
      (nd.deliver a cfg w d).1.dg.disk.txs = nd.dg.disk.txs ++ [embTx w tx] := by
  intro nd hne
  have hok : NodeOK a cfg w nd := NodeOK.run ds (NodeOK.init a cfg w) hs
  obtain ⟨hsinv, hrel⟩ := hok.sinv cfg_good
  rcases deliver6_cases a nd.st d with e | ⟨tx, p, hr, hres, ha⟩
  · exact absurd e hne
  · have hf := feed_admitted cfg_good hsinv hrel (hr ▸ hd) ha.fresh ha.prevsOK ha.rootOK (w := w)
    have hdg : (nd.deliver a cfg w d).1.dg = feed cfg nd.dg (embTx w tx) := by
      show (embList w (newTxs nd.st (deliver6 a nd.st d).1)).foldl (feed cfg) nd.dg = _
      rw [newTxs_cons ha.txs]; simp [embList]
    refine ⟨tx, p, hr, hres, ha, ?_, ?_⟩
    · rw [hdg]; exact Prod.ext rfl hf.1
    · rw [hdg, hf.2.2.txs, hrel.txs, embList_cons]

/-- **A rejected or duplicate delivery changes no digest (target 3; C06 `rejected_no_trace` / `add_idempotent` ∘ C08).**
    For ANY node state: a delivery the admission layer answers with an error (parse error, missing prev, wrong clock, bad
    signature, payload hash mismatch, second root, …) or whose ref is already stored leaves the whole node — admission
    state and digest state — exactly as it was; so `XOR(c)`, `IBLT(c)` for every clock `c`, every listing window, count,
    clocks and head are unchanged. -/
theorem rejected_delivery_changes_no_digest (a : Adm) (w : Wire) (nd : Node NB) (d : Delivery)
    (h : (nd.deliver a cfg w d).2 ≠ .ok () ∨ d.ref ∈ C06.refsOf nd.st.txs) :
    (nd.deliver a cfg w d).1 = nd ∧
    (∀ c, C08.xorAt (nd.deliver a cfg w d).1.dg c = C08.xorAt nd.dg c) ∧
    (∀ c, C08.ibltAt (nd.deliver a cfg w d).1.dg c = C08.ibltAt nd.dg c) ∧
    (∀ x y, C08.listing (nd.deliver a cfg w d).1.dg x y = C08.listing nd.dg x y) ∧
    C08.diagnostics (nd.deliver a cfg w d).1.dg = C08.diagnostics nd.dg := by
  have e : (deliver6 a nd.st d).1 = nd.st := by
    rcases h with h | h
    · exact deliver6_not_ok a nd.st d h
    · exact deliver6_dup a nd.st d h
  have hn : (nd.deliver a cfg w d).1 = nd := by
    show ({ st := (deliver6 a nd.st d).1, dg := (embList w (newTxs nd.st (deliver6 a nd.st d).1)).foldl (feed cfg) nd.dg } : Node NB) = nd
    rw [newTxs_same e, e]; rfl
  rw [hn]
  exact ⟨rfl, fun _ => rfl, fun _ => rfl, fun _ _ => rfl, rfl⟩

/-- the same on the observables of the reference folds: along any history, after a rejected or duplicate delivery the
    digests are still C08's folds over C06's (unchanged) admitted set -/
theorem rejected_delivery_keeps_spec (a : Adm) (w : Wire) (ds : List Delivery) (hs : ∀ d ∈ ds, Small d.ref) (d : Delivery)
    (h : ((Node.run a cfg w ds : Node NB).deliver a cfg w d).2 ≠ .ok () ∨ d.ref ∈ C06.refsOf (run6 a ds).txs) :
    Observables ((Node.run a cfg w ds : Node NB).deliver a cfg w d).1.dg (embSet w (run6 a ds)) := by
  have m := admitted_stream_digests a w ds hs
  simp only at m
  have := (rejected_delivery_changes_no_digest a w (Node.run a cfg w ds) d (by rw [m.1]; exact h)).1
  rw [this, ← m.1]
  exact m.2.2.2.2

/-! ### non-vacuity: a concrete history on the configuration of the source -/

namespace Ex
def env : C06.Env :=
  { sha := fun p => p + 100, sigJwk := fun t => t.ref != 15, sigKey := fun _ _ => false, kidDid := fun _ => none,
    resolve := fun _ _ => .notFound }
def adm : Adm := { cfg := C06.srcCfg, b64 := fun _ => true, env := env, subs := [] }
def wire : Wire :=
  { hk := fun r => BitVec.ofNat 64 (r * 7), idx := fun r => [r % 1024, (r * 3 + 1) % 1024], palId := String.length, size := fun _ => 100 }
def mk (ref clock : Nat) (prevs : List Nat) (ph : Nat) : C06.Tx :=
  { ref := ref, alg := "ES256", payloadHash := ph, cty := "a/b", jwk := true, kid := "", sigt := 1, ver := 2, prevs := prevs,
    pal := [], clock := clock }
def root : C06.Tx := mk 11 0 [] 101
def child : C06.Tx := mk 12 1 [11] 102
/-- valid root, child with a wrong clock, orphan, valid child, the root again, a second root, a child with a bad signature,
    a payload that does not hash to the declared hash, bytes that do not parse -/
def ds : List Delivery :=
  [.tx root (some 1), .tx (mk 13 5 [11] 103) none, .tx (mk 14 1 [99] 104) none, .tx child (some 2), .tx root (some 1),
   .tx (mk 16 0 [] 106) (some 6), .tx (mk 15 2 [12] 105) none, .tx (mk 17 2 [12] 107) (some 9),
   .bytes { nSigs := 2, alg := "ES256", cty := "a/b", hasJwk := true, kid := none, priv := [], payload := "", ref := 18 } none]
end Ex

example : ∀ d ∈ Ex.ds, Small d.ref := by decide
/-- what the admission layer answers to each delivery once root and child are stored -/
example : (Ex.ds.map fun d => (deliver6 Ex.adm (run6 Ex.adm [.tx Ex.root (some 1), .tx Ex.child (some 2)]) d).2) =
    [.ok (), .err "clock", .err "prev-missing", .ok (), .ok (), .err "root-exists", .err "signature", .err "payload-hash",
     .err "multiple-signatures"] := by decide
example : (run6 Ex.adm Ex.ds).txs = [Ex.child, Ex.root] := by decide
example : (Node.run Ex.adm cfg Ex.wire Ex.ds : Node NB).dg.disk.txs = [embTx Ex.wire Ex.root, embTx Ex.wire Ex.child] := by decide
example : (C08.xorAt (Node.run Ex.adm cfg Ex.wire Ex.ds : Node NB).dg 0).1 = 11 ^^^ 12 := by decide
/-! ### target 4 — the gossip protocol (C07) over C06 ∘ C08-reachable nodes -/

/-- **Every admitted DAG is a valid DAG of the protocol model.** After ANY sequence of deliveries the protocol's view of
    C06's admitted list satisfies C07's `DagOK` (good verdict, no duplicate, prevs present before, clock = `expectedClock`,
    one root) — the hypothesis `DagOK` of `safety_any_schedule`, `round_progress`, `converges` is discharged by C06. -/
theorem admitted_view_is_valid_dag (a : Adm) (w : Wire) (ds : List Delivery) :
    DagOK (view w a.env (run6 a ds)) := by
  have h : ∀ (ds : List Delivery) (s : C06.St), C06.Inv a.env s → C06.Inv a.env (ds.foldl (step6 a) s) := by
    intro ds
    induction ds with
    | nil => intro s h; exact h
    | cons d t ih => intro s h; exact ih _ (inv_deliver6 a h d)
  exact dagOK_view w a.env _ (h ds {} (C06.inv_empty a.env)).chain

/-- **The two models of `state.Add`'s decision agree** (C06 `add` vs C07 `addCheck`), in EVERY state and for every
    transaction and payload: the protocol model admits exactly what the admission model stores. -/
theorem add_decisions_agree (a : Adm) (w : Wire) (s : C06.St) (tx : C06.Tx) (p : Option Nat) :
    addCheck (view w a.env s) (viewTx w a.env tx) (p.map (viewPayload a.env.sha)) = .added ↔
      (C06.add a.env a.subs s tx p).1.txs = tx :: s.txs :=
  addCheck_added_iff w a.env a.subs s tx p

/-- **The digests the protocol exchanges are C08's digests of C06's admitted set.** Along every delivery history (refs
    SHA-256 values), with `d7` the protocol's view of the admitted list:
    * the `(xor, clock)` pair a node gossips / answers `State` with — C07's abstract `xorOf d7`, `lcOf d7` — is what C08's
      `XOR(c)` returns for every `c` at or above the highest clock;
    * the IBLT C08's `IBLT(c)` returns for EVERY clock `c` is the IBLT of exactly the ref set C07 abstracts it as
      (`ibltSet`, same page size);
    * C06's own copies (`xor`, `lcHigh`, `count`) are the same values;
    * and what C08 alone stores determines the same DAG skeleton (ref, clock, prevs) as C06's list. -/
theorem gossip_digests_are_c08_digests (a : Adm) (w : Wire) (cfg7 : Proto.Cfg) (hps : cfg7.pageSize = cfg.pageSize)
    (ds : List Delivery) (hs : ∀ d ∈ ds, Small d.ref) :
    let nd : Node NB := Node.run a cfg w ds
    let d7 := view w a.env nd.st
    (∀ c, lcOf d7 ≤ c → C08.xorAt nd.dg c = (embRef (xorOf d7), lcOf d7)) ∧
    (∀ c, (C08.ibltAt nd.dg c).1 = ibltOfSet NB w (ibltSet cfg7 d7 c)) ∧
    (nd.st.xor = xorOf d7 ∧ nd.st.lcHigh = lcOf d7 ∧ nd.st.count = d7.length ∧ nd.dg.disk.count = d7.length) ∧
    (viewOfDigests nd.dg).map skeleton = d7.map skeleton := by
  intro nd d7
  have hok : NodeOK a cfg w nd := NodeOK.run ds (NodeOK.init a cfg w) hs
  obtain ⟨hsinv, hrel⟩ := hok.sinv cfg_good
  have m := admitted_stream_digests a w ds hs
  simp only at m
  obtain ⟨_, _, htxs, hr, ob⟩ := m
  have hlc : nd.dg.mem.lcHigh = lcOf d7 := by
    rw [ob.lcMem]; show C08.maxClock (embList w nd.st.txs) = _
    rw [maxClock_embList]; exact (lcOf_view w a.env nd.st.txs).symm
  have hinv := hok.1.inv
  refine ⟨?_, ?_, ⟨?_, ?_, ?_, ?_⟩, ?_⟩
  · intro c hc
    have hd := C08.Props.diagnostics_spec hr
    have hroot : nd.dg.mem.xorTree.rootData C08.xorOps = embRef (xorOf d7) := by
      have := congrArg (·.1) hd
      simp only [C08.diagnostics] at this
      rw [this, htxs]
      show C08.specAll C08.xorOps (C08.refClocks (embList w nd.st.txs)) = _
      rw [specAll_xor_embList]
      exact congrArg embRef (xorOf_view w a.env nd.st.txs).symm
    unfold C08.xorAt
    have : ¬ c < lcOf d7 := by omega
    simp only [hroot, hlc, this, if_false]
  · intro c
    rw [ob.iblt c]
    show C08.specUpTo (C08.ibltOps NB) cfg.pageSize (C08.keyClocks (embList w nd.st.txs)) c = _
    rw [← hps]
    exact iblt_of_ibltSet NB w a.env cfg7 c nd.st.txs
  · rw [hinv.xor]; exact (xorOf_view w a.env nd.st.txs).symm
  · rw [hinv.lcHigh]; exact (lcOf_view w a.env nd.st.txs).symm
  · rw [hinv.count]; simp [d7, view]
  · rw [ob.count]; simp [d7, nd, view, embSet, embList]
  · refine skeleton_view w a.env hrel ?_
    intro t ht p hp
    obtain ⟨u, hu, hru, _⟩ := (C06.chain_mem hinv.chain t ht).1 p hp
    rw [← hru]; exact hrel.small u hu

/-- **Convergence for nodes whose DAGs are C06-admitted (and hence carry C08's digests).** Two protocol nodes whose
    DAGs are the views of what C06 admitted along ANY two delivery histories (same resolver) converge under C07's fair
    round pairs to the union — C07's `converges` with its `DagOK` hypotheses discharged by C06. What is still assumed is
    exactly what C07 states and neither C06 nor C08 provides: the decode and sort contracts (`Hyp`), XOR faithfulness on
    `U` (`hxf`: no two valid sub-DAGs of `U` with different content and equal XOR — a collision assumption on SHA-256
    values, about which C08 only says that the XOR exchanged IS the XOR of the stored set), the universe `U` with
    unique refs holding both DAGs and its root in both, and the node bookkeeping invariants (`NI`: payload store sound,
    every public transaction HAS its payload — not provided by C06's `Add`, see `public_payload_not_provided_by_add` —,
    gossip queues in sync; `Linked`). -/
theorem converges_for_admitted_dags {cfg7 : Proto.Cfg} {env7 : Proto.Env} (H : Hyp cfg7 env7)
    (adm : Adm) (w : Wire) (dsA dsB : List Delivery) (U : List Proto.Tx)
    (hU : ∀ t ∈ U, ∀ t' ∈ U, t.ref = t'.ref → t = t')
    (hxf : ∀ d d' : List Proto.Tx, DagOK d → DagOK d' → (∀ t ∈ d, t ∈ U) → (∀ t ∈ d', t ∈ U) → xorOf d' = xorOf d → ∀ t ∈ d', t ∈ d)
    (pA pB : Peer) (fuel : Nat) (hfuel : pageOf cfg7 (lcOf U) + 3 ≤ fuel) (a b : Proto.Node)
    (hda : a.dag = view w adm.env (run6 adm dsA)) (hdb : b.dag = view w adm.env (run6 adm dsB))
    (nia : NI a) (nib : NI b) (ua : ∀ t ∈ a.dag, t ∈ U) (ub : ∀ t ∈ b.dag, t ∈ U)
    (ra : ∀ t ∈ U, t.prevs = [] → t ∈ a.dag) (rb : ∀ t ∈ U, t.prevs = [] → t ∈ b.dag)
    (la : Linked a pB.key) (lb : Linked b pA.key)
    (k : Nat) (hk : 2 * U.length < a.dag.length + b.dag.length + k) :
    (∀ t, t ∈ (roundPairs cfg7 env7 pA pB fuel k (a, b)).1.dag ↔ (t ∈ a.dag ∨ t ∈ b.dag)) ∧
    (∀ t, t ∈ (roundPairs cfg7 env7 pA pB fuel k (a, b)).2.dag ↔ (t ∈ a.dag ∨ t ∈ b.dag)) ∧
    DagOK (roundPairs cfg7 env7 pA pB fuel k (a, b)).1.dag ∧ DagOK (roundPairs cfg7 env7 pA pB fuel k (a, b)).2.dag := by
  have oka : DagOK a.dag := by rw [hda]; exact admitted_view_is_valid_dag adm w dsA
  have okb : DagOK b.dag := by rw [hdb]; exact admitted_view_is_valid_dag adm w dsB
  exact Nuts.C07.Props.converges H U hU hxf pA pB fuel hfuel a b ⟨nia, nib, oka, okb, ua, ub, ra, rb, la, lb⟩ k hk



/-! ### where the seams do not close by themselves (witnesses) -/

/-- **Seam C06/C08 (ref width).** C06 models a ref as an unbounded `Nat` (`Hdr.ref`: "SHA-256 of the input bytes (supplied)"),
    C08 as `BitVec 256`. Without the hypothesis `Small` the composition fails: the admission model stores two transactions
    whose refs differ by `2^256`, the digest model takes the second for a duplicate of the first. (No statement about the
    Go code — a real ref is 32 bytes; it is the reason every theorem above assumes `Small`.) -/
theorem small_refs_needed :
    ¬ Small (2 ^ 256 + 11) ∧ embRef (2 ^ 256 + 11) = embRef 11 ∧
    (Node.run Ex.adm cfg Ex.wire [.tx Ex.root (some 1), .tx (Ex.mk (2 ^ 256 + 11) 1 [11] 102) none] : Node NB).st.txs.length = 2 ∧
    (Node.run Ex.adm cfg Ex.wire [.tx Ex.root (some 1), .tx (Ex.mk (2 ^ 256 + 11) 1 [11] 102) none] : Node NB).dg.disk.txs.length = 1 := by
  decide

/-- **Seam C06/C07 (payload of a public transaction).** C07's liveness invariant `NI` contains `PubHave`: every public
    transaction (empty PAL) on the DAG has its payload in the store. C06's `Add` does not provide it: it admits a public
    transaction delivered WITHOUT payload (only the TransactionList door `handleList` refuses that), so a protocol node
    mirroring such a C06 state violates `PubHave` — `converges_for_admitted_dags` has to keep `NI` as a hypothesis. -/
theorem public_payload_not_provided_by_add :
    (deliver6 Ex.adm {} (.tx Ex.root none)).2 = .ok () ∧ (run6 Ex.adm [.tx Ex.root none]).payloads = [] ∧
    ¬ PubHave { (default : Proto.Node) with dag := view Ex.wire Ex.env (run6 Ex.adm [.tx Ex.root none]), payloads := [] } := by
  refine ⟨by decide, by decide, ?_⟩
  intro h
  have := h (viewTx Ex.wire Ex.env Ex.root) (by decide) (by decide)
  revert this
  decide

/-! ### non-vacuity of target 4 -/

example : Nuts.C07.Ex.exCfg.pageSize = cfg.pageSize := by decide
example : xorOf (view Ex.wire Ex.env (run6 Ex.adm Ex.ds)) = 11 ^^^ 12 ∧ lcOf (view Ex.wire Ex.env (run6 Ex.adm Ex.ds)) = 1 ∧
    ibltSet Nuts.C07.Ex.exCfg (view Ex.wire Ex.env (run6 Ex.adm Ex.ds)) 0 = [12, 11] := by decide
example : addCheck (view Ex.wire Ex.env (run6 Ex.adm [.tx Ex.root none])) (viewTx Ex.wire Ex.env Ex.child) none = .added := by decide

/-- C07's own two-node instance (`exA` holds the root, `exB` is one transaction ahead) IS the view of two C06 histories -/
def c7root : C06.Tx := Ex.mk 1 0 [] 10
def c7x : C06.Tx := Ex.mk 2 1 [1] 20
example : Nuts.C07.Ex.exA.dag = view Ex.wire Ex.env (run6 Ex.adm [.tx c7root none]) ∧
    Nuts.C07.Ex.exB.dag = view Ex.wire Ex.env (run6 Ex.adm [.tx c7x none, .tx c7root none, .tx c7x none]) := by decide
example : ∀ t, t ∈ (roundPairs Nuts.C07.Ex.exCfg Nuts.C07.Ex.idealEnv { key := 0 } { key := 1 } 4 2
      (Nuts.C07.Ex.exA, Nuts.C07.Ex.exB)).1.dag ↔ (t ∈ Nuts.C07.Ex.exA.dag ∨ t ∈ Nuts.C07.Ex.exB.dag) :=
  (converges_for_admitted_dags
    (Nuts.C07.Ex.fact_hyp 524288 30 Nuts.C07.Ex.idealEnv Nuts.C07.Ex.idealEnv_DC Nuts.C07.Ex.idealEnv_OrderOK)
    Ex.adm Ex.wire [.tx c7root none] [.tx c7x none, .tx c7root none, .tx c7x none] Nuts.C07.Ex.exU (by decide) Nuts.C07.Ex.exXF
    { key := 0 } { key := 1 } 4 (by decide) Nuts.C07.Ex.exA Nuts.C07.Ex.exB (by decide) (by decide)
    Nuts.C07.Ex.exPairInv.nia Nuts.C07.Ex.exPairInv.nib Nuts.C07.Ex.exPairInv.ua Nuts.C07.Ex.exPairInv.ub
    Nuts.C07.Ex.exPairInv.ra Nuts.C07.Ex.exPairInv.rb Nuts.C07.Ex.exPairInv.la Nuts.C07.Ex.exPairInv.lb 2 (by decide)).1

/-! ### any valid admission state, however it was reached: the other doors, concurrency, restart -/

/-- **Static form.** For ANY state of the admission layer that satisfies C06's invariant (`C06.Inv`: the conclusion of
    `dag_inv`, kept by every door — `other_doors_keep_invariant` — and every interleaving —
    `concurrent_adds_keep_invariant`) and holds SHA-256 refs: feeding its admitted list in admission order to C08's `add`
    never fails, and the resulting digest state's observables are C08's folds over exactly that list. -/
theorem digests_of_valid_admission_state (env : C06.Env) (w : Wire) (s : C06.St) (hi : C06.Inv env s)
    (hs : ∀ t ∈ s.txs, Small t.ref) :
    (digests cfg w s : C08.State NB).disk.txs = embSet w s ∧ Reachable (digests cfg w s : C08.State NB) ∧
    Observables (digests cfg w s : C08.State NB) (embSet w s) ∧ DagOK (view w env s) := by
  obtain ⟨_, hrel⟩ := build_chain (n := NB) cfg_good w s.txs hi.chain hs
  have hr : Reachable (digests cfg w s : C08.State NB) := reachable_build w _
  have := C08.Props.state_refines_spec hr
  rw [show (digests cfg w s : C08.State NB).disk.txs = embSet w s from hrel.txs] at this
  exact ⟨hrel.txs, hr, this, dagOK_view w env _ hi.chain⟩

/-- **Restart (C08 `restart_equiv` ∘ C06).** Stopping the node and reloading the digest trees from the persisted leaves
    gives the same observables: C08's folds over C06's admitted set. -/
theorem admitted_stream_digests_survive_restart (a : Adm) (w : Wire) (ds : List Delivery) (hs : ∀ d ∈ ds, Small d.ref) :
    let nd : Node NB := Node.run a cfg w ds
    (C08.restart cfg nd.dg).disk.txs = embSet w nd.st ∧ Observables (C08.restart cfg nd.dg) (embSet w nd.st) := by
  intro nd
  have m := admitted_stream_digests a w ds hs
  simp only at m
  obtain ⟨_, _, htxs, hr, _⟩ := m
  have r := C08.Props.restart_equiv hr
  have h1 : (C08.restart cfg nd.dg).disk.txs = embSet w nd.st := by rw [r.1]; exact htxs
  refine ⟨h1, ?_⟩
  have := r.2.1
  rw [show nd.dg.disk.txs = embSet w nd.st from htxs] at this
  exact this

/-- **Concurrent submissions.** After any delivery history, ANY number of concurrent `Add` calls under ANY interleaving of
    their read / write transactions (C06 `concurrent_adds_serialise`) end in an admission state whose digests — built by
    feeding its admitted list to C08 — are C08's folds over that list, and whose protocol view is a valid DAG. -/
theorem concurrent_admission_digests (a : Adm) (w : Wire) (ds : List Delivery) (hs : ∀ d ∈ ds, Small d.ref)
    (calls : List C06.Call) (hc : ∀ c ∈ calls, Small c.tx.ref) (sched : List Nat) :
    let wd := C06.run a.env a.subs calls sched { st := run6 a ds, pcs := List.replicate calls.length .start }
    (digests cfg w wd.st : C08.State NB).disk.txs = embSet w wd.st ∧
    Observables (digests cfg w wd.st : C08.State NB) (embSet w wd.st) ∧ DagOK (view w a.env wd.st) := by
  intro wd
  obtain ⟨order, _, _, hst, _⟩ := C06.Props.concurrent_adds_serialise a.env a.subs calls sched (run6 a ds)
  obtain ⟨ds', hd', he⟩ := seqRun_is_deliveries a calls order (run6 a ds, [])
  have h6 : Inv6 a wd.st := by
    rw [← hst]
    show Inv6 a (order.foldl (C06.seqStep a.env a.subs calls) (run6 a ds, [])).1
    rw [he]
    refine Inv6.run ds' (inv6_run6 a ds hs) ?_
    intro d hd
    obtain ⟨c, hcm, rfl⟩ := hd' d hd
    exact hc c hcm
  have := digests_of_valid_admission_state a.env w wd.st h6.inv h6.small
  exact ⟨this.1, this.2.2.1, this.2.2.2⟩

/-- **The TransactionList door is a sequence of single deliveries**: `handleList` (transport/v2 `handleTransactionList`
    once the message parsed) ends in the state reached by delivering a prefix of its items one by one — so every theorem
    over "every sequence of deliveries" covers it; and a payload arriving later (`latePayload`) does not touch the admitted
    list, hence no digest. -/
theorem other_doors_are_covered (a : Adm) (w : Wire) (s : C06.St) :
    (∀ items, ∃ k, k ≤ items.length ∧ (C06.handleList a.env a.subs s items).1 =
        ((items.take k).map (fun it => Delivery.tx it.tx it.payload)).foldl (step6 a) s) ∧
    (∀ ref p, (digests cfg w (C06.latePayload a.env a.subs s ref p).1 : C08.State NB) = digests cfg w s) := by
  refine ⟨fun items => handleList_prefix a items s, fun ref p => ?_⟩
  rw [digests_eq_build, digests_eq_build, latePayload_txs]

/-- **A range reply is C08's listing.** For every window `[x, y)`, C08's `FindBetweenLC` on the composed node's digest
    state returns exactly the refs of C07's `findBetween` on the protocol view, in the same (clock, ref) order. -/
theorem range_reply_is_c08_listing (a : Adm) (w : Wire) (ds : List Delivery) (hs : ∀ d ∈ ds, Small d.ref) (x y : Nat) :
    let nd : Node NB := Node.run a cfg w ds
    C08.listing nd.dg x y = .ok ((findBetween (view w a.env nd.st) x y).map (fun t => embRef t.ref)) := by
  intro nd
  have hok : NodeOK a cfg w nd := NodeOK.run ds (NodeOK.init a cfg w) hs
  have m := admitted_stream_digests a w ds hs
  simp only at m
  rw [m.2.2.2.2.listing x y]
  congr 1
  exact listing_view w a.env hok.1.small (C06.chain_nodup hok.1.inv.chain) x y

example : (C06.handleList Ex.adm.env Ex.adm.subs {} [⟨Ex.root, some 1⟩, ⟨Ex.mk 13 5 [11] 103, some 3⟩, ⟨Ex.child, some 2⟩]).1.txs = [Ex.root] := by decide
example : C08.listing (Node.run Ex.adm cfg Ex.wire Ex.ds : Node NB).dg 0 5 = .ok [11, 12] := by decide

/-! ### the models of `state.Add` agree pairwise (C06 ↔ C08 here; C06 ↔ C07 is `add_decisions_agree`) -/

/-- **The heads agree.** C06 (`St.head`, 0 = empty hash) and C08 (`Disk.head`) each apply `dag.add`'s head rule to their
    own copy of the highest clock; along every delivery history they record the same head transaction. -/
theorem heads_agree (a : Adm) (w : Wire) (ds : List Delivery) (hs : ∀ d ∈ ds, Small d.ref) :
    let nd : Node NB := Node.run a cfg w ds
    (nd.st.txs = [] ∧ nd.st.head = 0 ∧ nd.dg.disk.head = none) ∨
    (nd.st.txs ≠ [] ∧ nd.dg.disk.head = some (embRef nd.st.head) ∧ ∃ t ∈ nd.st.txs, t.ref = nd.st.head ∧ t.clock = nd.st.lcHigh) := by
  intro nd
  have hok : NodeOK a cfg w nd := NodeOK.run ds (NodeOK.init a cfg w) hs
  have hh : HeadOK nd := headOK_run cfg_good ds (NodeOK.init a cfg w) (Or.inl ⟨rfl, rfl⟩) hs
  rcases hh with ⟨e, h8⟩ | ⟨ne, h8⟩
  · rcases hok.1.inv.head with ⟨_, h0⟩ | ⟨t, ht, _⟩
    · exact Or.inl ⟨e, h0, h8⟩
    · rw [e] at ht; cases ht
  · rcases hok.1.inv.head with ⟨e, _⟩ | h
    · exact absurd e ne
    · exact Or.inr ⟨ne, h8, h⟩

/-- **The two models of the prev verifier agree, outcome by outcome** (`NewPrevTransactionsVerifier`: C06 counts the
    highest prev clock from −1 in `Int`, C08 its successor from 0 in `Nat`; they look the prevs up in differently ordered
    shelves keyed by differently typed refs): on every reachable composed node, for ANY transaction with SHA-256 prevs,
    C08's verifier on the image returns C06's verdict — ok, missing prev, or wrong clock. -/
theorem prev_verifiers_agree (a : Adm) (w : Wire) (ds : List Delivery) (hs : ∀ d ∈ ds, Small d.ref) (tx : C06.Tx)
    (hp : ∀ p ∈ tx.prevs, Small p) :
    let nd : Node NB := Node.run a cfg w ds
    nd.dg.disk.verifyPrevs (embTx w tx) = prevErr8 (C06.verifyPrevs nd.st.txs tx) := by
  intro nd
  have hok : NodeOK a cfg w nd := NodeOK.run ds (NodeOK.init a cfg w) hs
  exact (hok.sinv cfg_good).2.verifyPrevs_agree tx hp

/-- **The digest layer on its own is exactly as strict as the admission layer's structural checks.** If the digest state
    of a reachable composed node is handed ANY transaction directly (bypassing admission; SHA-256 ref and prevs), C08's
    `add` stores it if and only if C06's structural conditions hold: ref not stored, prev verifier ok, single-root rule.
    So what C06 adds on top is exactly the signature and payload-hash checks, and a C06-rejected delivery whose
    rejection is structural (duplicate, missing prev, wrong clock, second root) would be refused by C08 as well. -/
theorem digest_layer_stores_iff_structurally_admissible (a : Adm) (w : Wire) (ds : List Delivery)
    (hs : ∀ d ∈ ds, Small d.ref) (tx : C06.Tx) (ht : Small tx.ref) (hp : ∀ p ∈ tx.prevs, Small p) :
    let nd : Node NB := Node.run a cfg w ds
    (C08.add cfg nd.dg (embTx w tx) {}).1.disk.txs = nd.dg.disk.txs ++ [embTx w tx] ↔
      (tx.ref ∉ C06.refsOf nd.st.txs ∧ C06.verifyPrevs nd.st.txs tx = .ok () ∧ (tx.prevs = [] → C06.hasRoot nd.st.txs = false)) := by
  intro nd
  have hok : NodeOK a cfg w nd := NodeOK.run ds (NodeOK.init a cfg w) hs
  obtain ⟨hsinv, hrel⟩ := hok.sinv cfg_good
  exact add8_stores_iff cfg_good hsinv hrel tx ht hp

example : (Node.run Ex.adm cfg Ex.wire Ex.ds : Node NB).dg.disk.head = some (embRef 12) ∧ (run6 Ex.adm Ex.ds).head = 12 := by decide
example : (Node.run Ex.adm cfg Ex.wire Ex.ds : Node NB).dg.disk.verifyPrevs (embTx Ex.wire (Ex.mk 13 5 [11] 103)) = .err "bad-clock" ∧
    C06.verifyPrevs (run6 Ex.adm Ex.ds).txs (Ex.mk 13 5 [11] 103) = .err "clock" := by decide

/-! ### XOR faithfulness stated about C08's digests; convergence end to end -/

/-- the `(xor, clock)` C08 returns at or above the highest clock, for any valid admitted list -/
theorem xorAt_top (env : C06.Env) (w : Wire) (l : List C06.Tx) (hc : C06.ChainOK env l) (hs : ∀ t ∈ l, Small t.ref)
    (c : Nat) (hge : C06.maxClock l ≤ c) :
    C08.xorAt (build cfg w l : C08.State NB) c = (embRef (C06.xorAll l), C06.maxClock l) := by
  obtain ⟨hsinv, hrel⟩ := build_chain (n := NB) cfg_good w l hc hs
  have hr : Reachable (build cfg w l : C08.State NB) := reachable_build w l
  have hd := C08.Props.diagnostics_spec hr
  have hroot : (build cfg w l : C08.State NB).mem.xorTree.rootData C08.xorOps = embRef (C06.xorAll l) := by
    have := congrArg (·.1) hd
    simp only [C08.diagnostics] at this
    rw [this, hrel.txs]
    exact specAll_xor_embList w l
  have hlc : (build cfg w l : C08.State NB).mem.lcHigh = C06.maxClock l := by
    rw [hsinv.lc, hsinv.g.lc, hrel.txs, maxClock_embList]
  unfold C08.xorAt
  have : ¬ c < C06.maxClock l := by omega
  simp only [hroot, hlc, this, if_false]

/-- **XOR faithfulness, instantiated with C08's digest over C06-admitted sets.** C07's liveness theorems assume `hxf`: within
    the universe `U`, two valid DAGs with equal XOR hold the same transactions — stated about C07's abstract `xorOf` over
    ALL `DagOK` lists. Here that hypothesis is derived from the same statement about what the implementation layers
    compute: for valid C06 chains `l`, `l'` inside a universe `U6` of C06 transactions (SHA-256 refs), if the XOR that
    C08's `XOR(c)` returns at the top clock on the digest state built from `l'` equals the one built from `l`, then
    `l' ⊆ l`. (A collision assumption on SHA-256 values; neither model can discharge it — see `exXF` for an instance.) -/
theorem xor_faithfulness_from_c08 (env : C06.Env) (w : Wire) (U6 : List C06.Tx) (hs : ∀ t ∈ U6, Small t.ref)
    (hxf8 : ∀ l l' : List C06.Tx, C06.ChainOK env l → C06.ChainOK env l' → (∀ t ∈ l, t ∈ U6) → (∀ t ∈ l', t ∈ U6) →
      (C08.xorAt (build cfg w l' : C08.State NB) (C06.maxClock l')).1 = (C08.xorAt (build cfg w l : C08.State NB) (C06.maxClock l)).1 →
      ∀ t ∈ l', t ∈ l) :
    ∀ d d' : List Proto.Tx, DagOK d → DagOK d' → (∀ t ∈ d, t ∈ U6.map (viewTx w env)) → (∀ t ∈ d', t ∈ U6.map (viewTx w env)) →
      xorOf d' = xorOf d → ∀ t ∈ d', t ∈ d := by
  intro d d' hd hd' hu hu' hx t ht
  obtain ⟨l, rfl, hl⟩ := preimage_of_view w env U6 d hu
  obtain ⟨l', rfl, hl'⟩ := preimage_of_view w env U6 d' hu'
  have c := chainOK_of_dagOK_view w env l hd
  have c' := chainOK_of_dagOK_view w env l' hd'
  rw [xorOf_view, xorOf_view] at hx
  have h8 := hxf8 l l' c c' hl hl'
    (by rw [xorAt_top env w l' c' (fun t ht => hs t (hl' t ht)) _ (Nat.le_refl _),
            xorAt_top env w l c (fun t ht => hs t (hl t ht)) _ (Nat.le_refl _), hx])
  obtain ⟨u, hu, rfl⟩ := List.mem_map.mp ht
  exact List.mem_map.mpr ⟨u, h8 u hu, rfl⟩



/-- … and conversely: on a universe with unique SHA-256 refs the two formulations of XOR faithfulness are equivalent, so
    nothing is lost by stating the hypothesis about C08's digests -/
theorem xor_faithfulness_to_c08 (env : C06.Env) (w : Wire) (U6 : List C06.Tx) (hs : ∀ t ∈ U6, Small t.ref)
    (hU6 : ∀ t ∈ U6, ∀ t' ∈ U6, t.ref = t'.ref → t = t')
    (hxf : ∀ d d' : List Proto.Tx, DagOK d → DagOK d' → (∀ t ∈ d, t ∈ U6.map (viewTx w env)) →
      (∀ t ∈ d', t ∈ U6.map (viewTx w env)) → xorOf d' = xorOf d → ∀ t ∈ d', t ∈ d) :
    ∀ l l' : List C06.Tx, C06.ChainOK env l → C06.ChainOK env l' → (∀ t ∈ l, t ∈ U6) → (∀ t ∈ l', t ∈ U6) →
      (C08.xorAt (build cfg w l' : C08.State NB) (C06.maxClock l')).1 = (C08.xorAt (build cfg w l : C08.State NB) (C06.maxClock l)).1 →
      ∀ t ∈ l', t ∈ l := by
  intro l l' c c' hl hl' hx u hu
  have sl : ∀ t ∈ l, Small t.ref := fun t ht => hs t (hl t ht)
  have sl' : ∀ t ∈ l', Small t.ref := fun t ht => hs t (hl' t ht)
  rw [xorAt_top env w l' c' sl' _ (Nat.le_refl _), xorAt_top env w l c sl _ (Nat.le_refl _)] at hx
  have hx' : C06.xorAll l' = C06.xorAll l := embRef_inj (small_xorAll l' sl') (small_xorAll l sl) hx
  have := hxf (viewL w env l) (viewL w env l') (dagOK_view w env l c) (dagOK_view w env l' c')
    (fun t ht => by obtain ⟨x, hx, rfl⟩ := List.mem_map.mp ht; exact List.mem_map.mpr ⟨x, hl x hx, rfl⟩)
    (fun t ht => by obtain ⟨x, hx, rfl⟩ := List.mem_map.mp ht; exact List.mem_map.mpr ⟨x, hl' x hx, rfl⟩)
    (by rw [xorOf_view, xorOf_view, hx'])
    (viewTx w env u) (List.mem_map.mpr ⟨u, hu, rfl⟩)
  obtain ⟨u2, hu2, he⟩ := List.mem_map.mp this
  have : u2.ref = u.ref := congrArg (·.ref) he
  rw [← hU6 u2 (hl u2 hu2) u (hl' u hu) this]
  exact hu2

/-- **End to end.** Two nodes whose DAGs are what C06 admitted along ANY two delivery histories inside a universe `U6`
    of transactions (unique SHA-256 refs), and whose digests are therefore C08's folds (`admitted_stream_digests`), converge
    under C07's fair round pairs to the union of their DAGs — with `DagOK` discharged by C06 and XOR faithfulness stated
    about C08's `XOR(c)` on C06-admitted sets. Remaining hypotheses are C07's own: decode/sort contracts (`Hyp`), the
    node bookkeeping invariants `NI` / `Linked`, the shared root, enough fuel and rounds. -/
theorem converges_end_to_end {cfg7 : Proto.Cfg} {env7 : Proto.Env} (H : Hyp cfg7 env7)
    (adm : Adm) (w : Wire) (dsA dsB : List Delivery) (U6 : List C06.Tx) (hs : ∀ t ∈ U6, Small t.ref)
    (hU6 : ∀ t ∈ U6, ∀ t' ∈ U6, t.ref = t'.ref → t = t')
    (hxf8 : ∀ l l' : List C06.Tx, C06.ChainOK adm.env l → C06.ChainOK adm.env l' → (∀ t ∈ l, t ∈ U6) → (∀ t ∈ l', t ∈ U6) →
      (C08.xorAt (build cfg w l' : C08.State NB) (C06.maxClock l')).1 = (C08.xorAt (build cfg w l : C08.State NB) (C06.maxClock l)).1 →
      ∀ t ∈ l', t ∈ l)
    (pA pB : Peer) (fuel : Nat) (hfuel : pageOf cfg7 (lcOf (U6.map (viewTx w adm.env))) + 3 ≤ fuel) (a b : Proto.Node)
    (hda : a.dag = view w adm.env (run6 adm dsA)) (hdb : b.dag = view w adm.env (run6 adm dsB))
    (nia : NI a) (nib : NI b) (ua : ∀ t ∈ (run6 adm dsA).txs, t ∈ U6) (ub : ∀ t ∈ (run6 adm dsB).txs, t ∈ U6)
    (ra : ∀ t ∈ U6, t.prevs = [] → t ∈ (run6 adm dsA).txs) (rb : ∀ t ∈ U6, t.prevs = [] → t ∈ (run6 adm dsB).txs)
    (la : Linked a pB.key) (lb : Linked b pA.key)
    (k : Nat) (hk : 2 * U6.length < a.dag.length + b.dag.length + k) :
    (∀ t, t ∈ (roundPairs cfg7 env7 pA pB fuel k (a, b)).1.dag ↔ (t ∈ a.dag ∨ t ∈ b.dag)) ∧
    (∀ t, t ∈ (roundPairs cfg7 env7 pA pB fuel k (a, b)).2.dag ↔ (t ∈ a.dag ∨ t ∈ b.dag)) ∧
    DagOK (roundPairs cfg7 env7 pA pB fuel k (a, b)).1.dag ∧ DagOK (roundPairs cfg7 env7 pA pB fuel k (a, b)).2.dag := by
  refine converges_for_admitted_dags H adm w dsA dsB (U6.map (viewTx w adm.env)) ?_
    (xor_faithfulness_from_c08 adm.env w U6 hs hxf8) pA pB fuel hfuel a b hda hdb nia nib ?_ ?_ ?_ ?_ la lb k (by simpa using hk)
  · intro t ht t' ht' he
    obtain ⟨u, hu, rfl⟩ := List.mem_map.mp ht
    obtain ⟨u', hu', rfl⟩ := List.mem_map.mp ht'
    rw [hU6 u hu u' hu' he]
  · intro t ht
    rw [hda] at ht
    obtain ⟨u, hu, rfl⟩ := List.mem_map.mp ht
    exact List.mem_map.mpr ⟨u, ua u hu, rfl⟩
  · intro t ht
    rw [hdb] at ht
    obtain ⟨u, hu, rfl⟩ := List.mem_map.mp ht
    exact List.mem_map.mpr ⟨u, ub u hu, rfl⟩
  · intro t ht hp
    obtain ⟨u, hu, rfl⟩ := List.mem_map.mp ht
    rw [hda]
    exact List.mem_map.mpr ⟨u, ra u hu hp, rfl⟩
  · intro t ht hp
    obtain ⟨u, hu, rfl⟩ := List.mem_map.mp ht
    rw [hdb]
    exact List.mem_map.mpr ⟨u, rb u hu hp, rfl⟩

/-- non-vacuity: C07's own example universe is the view of a C06 universe; its XOR faithfulness (`exXF`) gives the C08 form -/
example : [c7x, c7root].map (viewTx Ex.wire Ex.env) = Nuts.C07.Ex.exU := by decide
example : ∀ t, t ∈ (roundPairs Nuts.C07.Ex.exCfg Nuts.C07.Ex.idealEnv { key := 0 } { key := 1 } 4 2
      (Nuts.C07.Ex.exA, Nuts.C07.Ex.exB)).1.dag ↔ (t ∈ Nuts.C07.Ex.exA.dag ∨ t ∈ Nuts.C07.Ex.exB.dag) :=
  (converges_end_to_end
    (Nuts.C07.Ex.fact_hyp 524288 30 Nuts.C07.Ex.idealEnv Nuts.C07.Ex.idealEnv_DC Nuts.C07.Ex.idealEnv_OrderOK)
    Ex.adm Ex.wire [.tx c7root none] [.tx c7x none, .tx c7root none, .tx c7x none] [c7x, c7root] (by decide) (by decide)
    (xor_faithfulness_to_c08 Ex.env Ex.wire [c7x, c7root] (by decide) (by decide)
      (by rw [show [c7x, c7root].map (viewTx Ex.wire Ex.env) = Nuts.C07.Ex.exU from by decide]; exact Nuts.C07.Ex.exXF))
    { key := 0 } { key := 1 } 4 (by decide) Nuts.C07.Ex.exA Nuts.C07.Ex.exB (by decide) (by decide)
    Nuts.C07.Ex.exPairInv.nia Nuts.C07.Ex.exPairInv.nib (by decide) (by decide) (by decide) (by decide)
    Nuts.C07.Ex.exPairInv.la Nuts.C07.Ex.exPairInv.lb 2 (by decide)).1

/-! ### the three layers in step -/

/-- **The protocol model's `Add` simulates the admission model's.** If a protocol node's DAG is the view of an admission
    state, then after C07's `addTx` (decision `addCheck`, then `commitTx`) of the view of ANY transaction and payload its
    DAG is the view of the admission state after C06's `add` of that transaction — admitted, rejected or duplicate alike.
    Hence along any sequence of `Add` calls the three layers stay in step: C07's DAG = view of C06's list, C08's stored set
    = image of C06's list (`admitted_stream_digests`). -/
theorem protocol_add_simulates_admission (a : Adm) (w : Wire) (cfg7 : Proto.Cfg) (env7 : Proto.Env) (s : C06.St)
    (n : Proto.Node) (hn : n.dag = view w a.env s) (tx : C06.Tx) (p : Option Nat) :
    (addTx cfg7 env7 n (viewTx w a.env tx) (p.map (viewPayload a.env.sha))).1.dag = view w a.env (C06.add a.env a.subs s tx p).1 ∧
    ((addTx cfg7 env7 n (viewTx w a.env tx) (p.map (viewPayload a.env.sha))).2.2 = .added ↔
      (C06.add a.env a.subs s tx p).1.txs = tx :: s.txs) := by
  have hiff := add_decisions_agree a w s tx p
  rw [← hn] at hiff
  unfold addTx
  cases hc : addCheck n.dag (viewTx w a.env tx) (p.map (viewPayload a.env.sha)) with
  | added =>
    have h6 := hiff.mp hc
    refine ⟨?_, by simp [h6]⟩
    show (commitTx cfg7 n _ _).dag = _
    unfold view
    rw [h6, List.map_cons, ← show view w a.env s = s.txs.map (viewTx w a.env) from rfl, ← hn]
    rfl
  | present | prevMissing | badClock | badSig | payloadMismatch | rootExists =>
    have hne : ¬ (C06.add a.env a.subs s tx p).1.txs = tx :: s.txs := by
      intro h; have := hiff.mpr h; rw [hc] at this; cases this
    have hsame : (C06.add a.env a.subs s tx p).1 = s := by
      rcases @C06.add_cases a.env a.subs s tx p with e | ⟨_, ha⟩
      · exact e
      · exact absurd ha.txs hne
    refine ⟨?_, ?_⟩
    · show n.dag = _
      rw [hsame]; exact hn
    · constructor
      · intro h; cases h
      · intro h; exact absurd h hne

end Nuts.Compose.Dag.Props
