/-
  Composition C06 ∘ C08 ∘ C07 — the DAG transaction network end to end.
  ONLY the composition theorems + non-vacuity examples.  Maps: NutsModel/Compose/Dag.lean; helper lemmas:
  NutsProofs/Lemmas/ComposeDag.lean.

  What the single properties leave open and this file closes:
    * C08's theorems quantify over ANY call sequence of its own `add` (with its own prev/clock/root verifier) and speak
      about "the stored set"; C06's theorems stop at the admitted list.  Here the admitted list of C06 IS the stored set of
      C08: every C06-admitted transaction passes C08's verifier (discharged by C06's chain invariant), so all of C08's
      observables are its reference folds over exactly C06's admitted set.
    * the only hypothesis: delivered refs are SHA-256 values (`Small`, `< 2^256`).  C06 models refs as unbounded `Nat`,
      C08 as `BitVec 256`; the embedding is injective exactly there (see `embRef_not_injective_beyond_256_bits`).
-/
import NutsProofs.Lemmas.ComposeDag
import NutsModel.C06.Cfg
import NutsProofs.Props.C08

namespace Nuts.Compose.Dag.Props
open Nuts Nuts.Compose.Dag
open Nuts.C08.Props (cfg NB cfg_good Observables Reachable)

/-- a fold of C08 `add`s from the empty store is one of C08's reachable states -/
theorem reachable_build (w : Wire) : ∀ (l : List C06.Tx), Reachable (build cfg w l : C08.State NB) := by
  intro l
  induction l with
  | nil => exact .init
  | cons t rest ih => rw [build_cons]; exact .add _ _ ih

/-- **Admission feeds the digests (target 2).** For EVERY sequence of deliveries to the admission layer — bytes or parsed
    transactions; valid, invalid, duplicate, in any order — whose refs are SHA-256 values (`< 2^256`): the composed node's
    digest state, built by handing exactly what C06 admitted to C08's `add` at the moment of admission,
    * is the state obtained by feeding the admitted list in admission order to C08's `add` from the empty store (`digests`);
    * stores exactly the image of C06's admitted set — no `add` of the digest layer was refused: C08's own verifier
      (prevs present, clock = highest prev + 1, single root, ref not yet stored) passed every time, discharged by C06's
      DAG invariant and not assumed;
    * and every observable — `XOR(c)` and `IBLT(c)` with their clocks for EVERY requested clock, `FindBetweenLC(a, b)` for
      every window, transaction count, highest clock (atomic and stored), head — equals C08's reference fold over exactly
      C06's admitted set. -/
theorem admitted_stream_digests (a : Adm) (w : Wire) (ds : List Delivery) (hs : ∀ d ∈ ds, Small d.ref) :
    let nd : Node NB := Node.run a cfg w ds
    nd.st = run6 a ds ∧ nd.dg = digests cfg w nd.st ∧ nd.dg.disk.txs = embSet w nd.st ∧ Reachable nd.dg ∧
    Observables nd.dg (embSet w nd.st) := by
  intro nd
  have hok : NodeOK a cfg w nd := NodeOK.run ds (NodeOK.init a cfg w) hs
  obtain ⟨hsinv, hrel⟩ := hok.sinv cfg_good
  have hr : Reachable nd.dg := by rw [hok.2, digests_eq_build]; exact reachable_build w _
  refine ⟨run_st a cfg w ds _, hok.2, hrel.txs, hr, ?_⟩
  have := C08.Props.state_refines_spec hr
  rw [hrel.txs] at this
  exact this



/-- **The digest layer never refuses what the admission layer admitted.** In every state the composed node can reach, a
    delivery that changes the admission layer's state at all is the admission of exactly one transaction `tx` (the
    delivered one), and C08's `add` of its image on the current digest state reports success, stores exactly it — and
    that is the node's new digest state. -/
theorem admitted_never_refused_by_digest_layer (a : Adm) (w : Wire) (ds : List Delivery) (hs : ∀ d ∈ ds, Small d.ref)
    (d : Delivery) (hd : Small d.ref) :
    let nd : Node NB := Node.run a cfg w ds
    (nd.deliver a cfg w d).1.st ≠ nd.st →
    ∃ tx p, tx.ref = d.ref ∧ (nd.deliver a cfg w d).2 = .ok () ∧ C06.Admitted a.env nd.st tx p (nd.deliver a cfg w d).1.st ∧
      C08.add cfg nd.dg (embTx w tx) {} = ((nd.deliver a cfg w d).1.dg, .ok ()) ∧
      (nd.deliver a cfg w d).1.dg.disk.txs = nd.dg.disk.txs ++ [embTx w tx] := by
  intro nd hne
  have hok : NodeOK a cfg w nd := NodeOK.run ds (NodeOK.init a cfg w) hs
  obtain ⟨hsinv, hrel⟩ := hok.sinv cfg_good
  rcases deliver6_cases a nd.st d with e | ⟨tx, p, hr, hres, ha⟩
  · exact absurd e hne
  · have hf := feed_admitted cfg_good hsinv hrel (hr ▸ hd) ha.fresh ha.prevsOK ha.rootOK (w := w)
    have hdg : (nd.deliver a cfg w d).1.dg = feed cfg nd.dg (embTx w tx) := by
      show (embList w (newTxs nd.st (deliver6 a nd.st d).1)).foldl (feed cfg) nd.dg = _
      rw [newTxs_cons ha.txs]; simp [embList]
    refine ⟨tx, p, hr, hres, ha, ?_, ?_⟩
    · rw [hdg]; exact Prod.ext rfl hf.1
    · rw [hdg, hf.2.2.txs, hrel.txs, embList_cons]

/-- **A rejected or duplicate delivery changes no digest (target 3; C06 `rejected_no_trace` / `add_idempotent` ∘ C08).**
    For ANY node state: a delivery the admission layer answers with an error (parse error, missing prev, wrong clock, bad
    signature, payload hash mismatch, second root, …) or whose ref is already stored leaves the whole node — admission
    state and digest state — exactly as it was; so `XOR(c)`, `IBLT(c)` for every clock `c`, every listing window, count,
    clocks and head are unchanged. -/
theorem rejected_delivery_changes_no_digest (a : Adm) (w : Wire) (nd : Node NB) (d : Delivery)
    (h : (nd.deliver a cfg w d).2 ≠ .ok () ∨ d.ref ∈ C06.refsOf nd.st.txs) :
    (nd.deliver a cfg w d).1 = nd ∧
    (∀ c, C08.xorAt (nd.deliver a cfg w d).1.dg c = C08.xorAt nd.dg c) ∧
    (∀ c, C08.ibltAt (nd.deliver a cfg w d).1.dg c = C08.ibltAt nd.dg c) ∧
    (∀ x y, C08.listing (nd.deliver a cfg w d).1.dg x y = C08.listing nd.dg x y) ∧
    C08.diagnostics (nd.deliver a cfg w d).1.dg = C08.diagnostics nd.dg := by
  have e : (deliver6 a nd.st d).1 = nd.st := by
    rcases h with h | h
    · exact deliver6_not_ok a nd.st d h
    · exact deliver6_dup a nd.st d h
  have hn : (nd.deliver a cfg w d).1 = nd := by
    show ({ st := (deliver6 a nd.st d).1, dg := (embList w (newTxs nd.st (deliver6 a nd.st d).1)).foldl (feed cfg) nd.dg } : Node NB) = nd
    rw [newTxs_same e, e]; rfl
  rw [hn]
  exact ⟨rfl, fun _ => rfl, fun _ => rfl, fun _ _ => rfl, rfl⟩

/-- the same on the observables of the reference folds: along any history, after a rejected or duplicate delivery the
    digests are still C08's folds over C06's (unchanged) admitted set -/
theorem rejected_delivery_keeps_spec (a : Adm) (w : Wire) (ds : List Delivery) (hs : ∀ d ∈ ds, Small d.ref) (d : Delivery)
    (h : ((Node.run a cfg w ds : Node NB).deliver a cfg w d).2 ≠ .ok () ∨ d.ref ∈ C06.refsOf (run6 a ds).txs) :
    Observables ((Node.run a cfg w ds : Node NB).deliver a cfg w d).1.dg (embSet w (run6 a ds)) := by
  have m := admitted_stream_digests a w ds hs
  simp only at m
  have := (rejected_delivery_changes_no_digest a w (Node.run a cfg w ds) d (by rw [m.1]; exact h)).1
  rw [this, ← m.1]
  exact m.2.2.2.2

/-! ### non-vacuity: a concrete history on the configuration of the source -/

namespace Ex
def env : C06.Env :=
  { sha := fun p => p + 100, sigJwk := fun t => t.ref != 15, sigKey := fun _ _ => false, kidDid := fun _ => none,
    resolve := fun _ _ => .notFound }
def adm : Adm := { cfg := C06.srcCfg, b64 := fun _ => true, env := env, subs := [] }
def wire : Wire :=
  { hk := fun r => BitVec.ofNat 64 (r * 7), idx := fun r => [r % 1024, (r * 3 + 1) % 1024], palId := String.length, size := fun _ => 100 }
def mk (ref clock : Nat) (prevs : List Nat) (ph : Nat) : C06.Tx :=
  { ref := ref, alg := "ES256", payloadHash := ph, cty := "a/b", jwk := true, kid := "", sigt := 1, ver := 2, prevs := prevs,
    pal := [], clock := clock }
def root : C06.Tx := mk 11 0 [] 101
def child : C06.Tx := mk 12 1 [11] 102
/-- valid root, child with a wrong clock, orphan, valid child, the root again, a second root, a child with a bad signature,
    a payload that does not hash to the declared hash, bytes that do not parse -/
def ds : List Delivery :=
  [.tx root (some 1), .tx (mk 13 5 [11] 103) none, .tx (mk 14 1 [99] 104) none, .tx child (some 2), .tx root (some 1),
   .tx (mk 16 0 [] 106) (some 6), .tx (mk 15 2 [12] 105) none, .tx (mk 17 2 [12] 107) (some 9),
   .bytes { nSigs := 2, alg := "ES256", cty := "a/b", hasJwk := true, kid := none, priv := [], payload := "", ref := 18 } none]
end Ex

example : ∀ d ∈ Ex.ds, Small d.ref := by decide
/-- what the admission layer answers to each delivery once root and child are stored -/
example : (Ex.ds.map fun d => (deliver6 Ex.adm (run6 Ex.adm [.tx Ex.root (some 1), .tx Ex.child (some 2)]) d).2) =
    [.ok (), .err "clock", .err "prev-missing", .ok (), .ok (), .err "root-exists", .err "signature", .err "payload-hash",
     .err "multiple-signatures"] := by decide
example : (run6 Ex.adm Ex.ds).txs = [Ex.child, Ex.root] := by decide
example : (Node.run Ex.adm cfg Ex.wire Ex.ds : Node NB).dg.disk.txs = [embTx Ex.wire Ex.root, embTx Ex.wire Ex.child] := by decide
example : (C08.xorAt (Node.run Ex.adm cfg Ex.wire Ex.ds : Node NB).dg 0).1 = 11 ^^^ 12 := by decide
end Nuts.Compose.Dag.Props
