/-
  C11 — wire layer of status list entries (deepening round 2026-09-28): `strconv.Atoi`/`Itoa`, `StatusList2021Entry.Validate`,
  the literal `Entry()` returns, and how they compose with the abstract layer (NutsProofs.Props.C11).
  All statements quantify over every string / index / schedule; nothing is a bounded enumeration.
-/
import NutsProofs.Lemmas.C11Wire
import NutsProofs.Props.C11
namespace Nuts.C11.Props
open Nuts Nuts.C11 Nuts.C11.Wire

/-- `atoi_itoa_roundtrip`: what `Entry()` prints with `strconv.Itoa` is read back by the `strconv.Atoi` of `Revoke`, `Verify`
    and `Validate` as the same number — for EVERY 64-bit `int`. -/
theorem atoi_itoa_roundtrip (i : Int) (hlo : -(intLimit : Int) ≤ i) (hhi : i < (intLimit : Int)) : atoi (itoa i) = some i :=
  atoi_itoa i hlo hhi

example : atoi (itoa (-9223372036854775808)) = some (-9223372036854775808) := atoi_itoa_roundtrip _ (by decide) (by decide)
example : itoa 131071 = "131071" ∧ itoa (-15) = "-15" ∧ itoa 0 = "0" := by simp [itoa, itoaChars, natDigits]

/-- `atoi_fits_int`: whatever string is parsed, an accepted value is a 64-bit `int` (so the `Int` index of the model's
    `Bits.bit`/`revoke` ranges over exactly the values the Go `int` can take). -/
theorem atoi_fits_int (s : String) (i : Int) (h : atoi s = some i) : -(intLimit : Int) ≤ i ∧ i < (intLimit : Int) :=
  atoiChars_range _ _ h

example : atoi "9223372036854775807" = some 9223372036854775807 ∧ atoi "9223372036854775808" = none ∧
    atoi "+7" = some 7 ∧ atoi "007" = some 7 ∧ atoi "-0" = some 0 ∧ atoi "1_0" = none ∧ atoi "" = none ∧ atoi "-" = none ∧
    atoi " 7" = none ∧ atoi "٧" = none := by decide

/-- `index_strings_injective`: different positions are printed as different `statusListIndex` strings. -/
theorem index_strings_injective (a b : Nat) (h : itoa (a : Int) = itoa (b : Int)) : a = b := itoa_nat_injective a b h

theorem validateWith_ok_iff (checks : List Check) (urlOk : String → Bool) (e : WireEntry) :
    validateWith checks urlOk e = .ok () ↔ ∀ c ∈ checks, c.fails urlOk e = false := by
  unfold validateWith
  split
  · rename_i c hc
    have := List.find?_some hc
    have hm := List.mem_of_find?_eq_some hc
    constructor
    · intro h; cases h
    · intro h; have := h c hm; simp_all
  · rename_i hn
    simp only [true_iff]
    intro c hc
    have := List.find?_eq_none.mp hn c hc
    simpa using this

/-- `validated_entry_fields`: an entry that passed `Validate` has every field the revocation logic later relies on:
    a parsable non-negative 64-bit index, the entry type, a purpose, an id that is not the list URL. -/
theorem validated_entry_fields (urlOk : String → Bool) (e : WireEntry) (h : validateEntry urlOk e = .ok ()) :
    e.id ≠ e.list ∧ e.type = "StatusList2021Entry" ∧ e.purpose ≠ "" ∧ urlOk e.list = true ∧
      ∃ i : Int, atoi e.index = some i ∧ 0 ≤ i ∧ i < (intLimit : Int) := by
  have h' := (validateWith_ok_iff _ _ _).mp h
  have h1 := h' .idIsList (by simp [validateOrder])
  have h2 := h' .type (by simp [validateOrder])
  have h3 := h' .purpose (by simp [validateOrder])
  have h4 := h' .index (by simp [validateOrder])
  have h5 := h' .url (by simp [validateOrder])
  simp only [Check.fails] at h1 h2 h3 h4 h5
  refine ⟨by simpa using h1, by simpa using h2, by simpa using h3, by simpa using h5, ?_⟩
  cases ha : atoi e.index with
  | none => simp [ha] at h4
  | some i =>
    simp [ha] at h4
    exact ⟨i, rfl, h4, (atoiChars_range _ _ ha).2⟩

/-- `issued_entry_validates`: the literal `Entry()` returns passes `Validate`, for every URL the `url` package accepts and
    every index an `int` can hold. -/
theorem issued_entry_validates (urlOk : String → Bool) (url : String) (idx : Nat) (hu : urlOk url = true)
    (hi : idx < intLimit) : validateEntry urlOk (issuedEntry url idx) = .ok () := by
  apply (validateWith_ok_iff _ _ _).mpr
  have hpos : (0 : Int) < (intLimit : Int) := by decide
  have hat : atoi (itoa (idx : Int)) = some (idx : Int) := atoi_itoa _ (by omega) (by omega)
  have hne : (url ++ "#" ++ itoa (idx : Int) == url) = false := by
    apply beq_false_of_ne
    intro h
    have := congrArg String.length h
    simp only [String.length_append] at this
    have h1 : "#".length = 1 := by decide
    omega
  intro c hc
  simp only [validateOrder, List.mem_cons, List.mem_nil_iff, or_false] at hc
  rcases hc with h | h | h | h | h <;> subst h <;> simp [Check.fails, issuedEntry, hat, hu, hne]


theorem bit_err_is_index (bs : Bits) (i : Int) (x : String) (h : bs.bit i = .err x) : x = "index" := by
  unfold Bits.bit at h
  split at h
  · cases h; rfl
  · split at h
    · cases h; rfl
    · split at h <;> cases h

/-- the `Atoi` error branch of `(cs *StatusList2021) Verify` ("can't happen, checked during validation") is dead for
    every entry that passed `Validate`, and the abstract status entry carries a non-negative index that fits `int` -/
theorem validated_entry_never_atoi_error (urlOk : String → Bool) (p : String → Url) (e : WireEntry)
    (h : validateEntry urlOk e = .ok ()) :
    (∃ i : Int, 0 ≤ i ∧ i < (intLimit : Int) ∧
      e.toStatus p = { type := "StatusList2021Entry", purpose := e.purpose, list := p e.list, idx := some i }) ∧
    ∀ (E : Env) (now : Nat) (n : Node) (f : Fetch), (checkStatus E now n (e.toStatus p) f).1 ≠ some (.err "atoi") := by
  obtain ⟨_, ht, _, _, i, hi, h0, h1⟩ := validated_entry_fields urlOk e h
  refine ⟨⟨i, h0, h1, by simp [WireEntry.toStatus, hi, ht]⟩, ?_⟩
  intro E now n f
  unfold checkStatus
  simp only [WireEntry.toStatus, hi]
  split
  · split
    · simp
    · split
      · simp
      · simp
      · rename_i x hx
        have := bit_err_is_index _ _ _ hx
        subst this
        simp
      · rename_i x hx
        intro hc
        have hc' : "panic:" ++ x = "atoi" := by simpa using hc
        have := congrArg String.length hc'
        simp only [String.length_append] at this
        have h6 : "panic:".length = 6 := by decide
        have h4 : "atoi".length = 4 := by decide
        omega
  · simp
  · rename_i x hx
    intro hc
    have hc' : "panic:" ++ x = "atoi" := by simpa using hc
    have := congrArg String.length hc'
    simp only [String.length_append] at this
    have h6 : "panic:".length = 6 := by decide
    have h4 : "atoi".length = 4 := by decide
    omega

/-- `wire_entries_distinct`: `entries_injective` carried to the wire. For every schedule of `Entry` calls, two calls never
    return the same (statusListCredential, statusListIndex) STRING pair, and every returned entry passes `Validate`
    (given only that the list URL is rendered injectively and parses as a request URI — the `url` package contract). -/
theorem wire_entries_distinct (E : Env) (w0 : EWorld) (h0 : EInv E w0) (acts : List EAct)
    (render : Url → String) (hr : ∀ a b, render a = render b → a = b) (urlOk : String → Bool) (hu : ∀ u, urlOk (render u) = true)
    (hmax : E.maxIndex < intLimit) :
    (∀ (t1 t2 : Nat) (th1 th2 : EThread) l1 i1 l2 i2, t1 ≠ t2 → (eRun E w0 acts).threads[t1]? = some th1 →
        (eRun E w0 acts).threads[t2]? = some th2 → th1.phase = .done l1 i1 → th2.phase = .done l2 i2 →
        ((issuedEntry (render l1) i1).list, (issuedEntry (render l1) i1).index) ≠
          ((issuedEntry (render l2) i2).list, (issuedEntry (render l2) i2).index)) ∧
    (∀ (t : Nat) (th : EThread) l i, (eRun E w0 acts).threads[t]? = some th → th.phase = .done l i →
        validateEntry urlOk (issuedEntry (render l) i) = .ok ()) := by
  obtain ⟨hinj, hle⟩ := entries_injective E w0 h0 acts
  constructor
  · intro t1 t2 th1 th2 l1 i1 l2 i2 hne h1 h2 hp1 hp2 heq
    simp only [issuedEntry, Prod.mk.injEq] at heq
    have hl := hr _ _ heq.1
    have hi := itoa_nat_injective _ _ heq.2
    subst hl; subst hi
    exact hinj t1 t2 th1 th2 l1 i1 hne h1 h2 hp1 hp2
  · intro t th l i ht hp
    have := hle t th l i ht hp
    exact issued_entry_validates urlOk _ _ (hu l) (by omega)

/-- non-vacuity: the racing schedule of `entries_injective`'s example ends with positions 0 and 1, printed "0" and "1" -/
example :
    ((eRun exEnv { node := exNode "https://n0" }
        [.spawn "did:a", .spawn "did:a", .read 0 none, .read 1 none, .write 0, .write 1,
         .read 1 (some (.sl "https://n0" "did:a" 1)), .write 1]).threads.map
      (fun th => match th.phase with | .done _ i => some i | _ => none)) = [some 0, some 1] := by decide
example : (issuedEntry "https://n0/statuslist/did:a/1" 0).index = "0" ∧ (issuedEntry "https://n0/statuslist/did:a/1" 1).index = "1" := by
  simp [issuedEntry, itoa, itoaChars, natDigits]

example : validateEntry (fun _ => true) (issuedEntry "https://n0/statuslist/did:a/1" 131071) = .ok () :=
  issued_entry_validates _ _ _ rfl (by decide)
example : validateEntry (fun _ => true) { id := "x", type := "StatusList2021Entry", purpose := "revocation", index := "-1", list := "https://l" }
    = .err "index" := by decide
example : validateEntry (fun _ => true) { id := "https://l", type := "T", purpose := "", index := "x", list := "https://l" }
    = .err "id-is-list" := by decide

/-- `status_list_urls_injective`: under one base URL, `statusListURL` renders different (issuer, page) pairs as different URLs —
    for every issuer string (no assumption on its characters) and every page number. -/
theorem status_list_urls_injective (base i1 i2 : String) (p1 p2 : Nat) (h : renderSl base i1 p1 = renderSl base i2 p2) :
    i1 = i2 ∧ p1 = p2 := renderSl_injective base i1 i2 p1 p2 h

example : renderSl "https://n0.example" "did:web:example.com:iam:alice" 12 = "https://n0.example/statuslist/did:web:example.com:iam:alice/12" := by
  simp [renderSl, renderSlChars, natDigits]

/-- `wire_entries_distinct_same_base`: `wire_entries_distinct` without the rendering contract for lists of one base URL: two
    `Entry` calls of any schedule whose lists are pages under the same base never share the (statusListCredential,
    statusListIndex) strings that go into the credentials. -/
theorem wire_entries_distinct_same_base (E : Env) (w0 : EWorld) (h0 : EInv E w0) (acts : List EAct)
    (t1 t2 : Nat) (th1 th2 : EThread) (base is1 is2 : String) (p1 p2 i1 i2 : Nat) (hne : t1 ≠ t2)
    (h1 : (eRun E w0 acts).threads[t1]? = some th1) (h2 : (eRun E w0 acts).threads[t2]? = some th2)
    (hp1 : th1.phase = .done (.sl base is1 p1) i1) (hp2 : th2.phase = .done (.sl base is2 p2) i2) :
    ((issuedEntry (renderUrl (.sl base is1 p1)) i1).list, (issuedEntry (renderUrl (.sl base is1 p1)) i1).index) ≠
      ((issuedEntry (renderUrl (.sl base is2 p2)) i2).list, (issuedEntry (renderUrl (.sl base is2 p2)) i2).index) := by
  intro heq
  simp only [issuedEntry, renderUrl, Prod.mk.injEq] at heq
  obtain ⟨hi, hp⟩ := renderSl_injective _ _ _ _ _ heq.1
  have hx := itoa_nat_injective _ _ heq.2
  subst hi; subst hp; subst hx
  exact (entries_injective E w0 h0 acts).1 t1 t2 th1 th2 _ _ hne h1 h2 hp1 hp2

/-! ### regenerated facts the wire model relies on -/

/-- the top-level statements of `StatusList2021Entry.Validate` are exactly the five checks, in the model's order, each
    returning a non-nil error, then `return nil` -/
theorem fact_entry_validate_order :
    checksOfChain Nuts.Facts.C11.entryValidateChain = some validateOrder ∧
    Nuts.Facts.C11.entryValidateReturns = ["return errors.New(…)", "return errors.New(…)", "return errors.New(…)",
      "return errors.New(…)", "return fmt.Errorf(…)"] := by decide

/-- `Entry()` returns the literal `issuedEntry` describes; `Revoke`/`Verify`/`Validate` parse the index with `strconv.Atoi`
    and nothing else converts numbers in these files -/
theorem fact_entry_literal_and_strconv_sites :
    Nuts.Facts.C11.entryLiteral =
      ["ID:fmt.Sprintf(\"%s#%d\",credentialIssuer.SubjectID,credentialIssuer.LastIssuedIndex)", "Type:StatusList2021EntryType",
       "StatusPurpose:StatusPurposeRevocation", "StatusListIndex:strconv.Itoa(credentialIssuer.LastIssuedIndex)",
       "StatusListCredential:credentialIssuer.SubjectID"] ∧
    Nuts.Facts.C11.strconvSites =
      ["Entry:strconv.Itoa(credentialIssuer.LastIssuedIndex)", "Revoke:strconv.Atoi(entry.StatusListIndex)",
       "statusListURL:strconv.Itoa(page)", "Verify:strconv.Atoi(slEntry.StatusListIndex)", "Validate:strconv.Atoi(e.StatusListIndex)"] ∧
    (issuedEntry "u" 0).type = Nuts.Facts.C11.const_StatusList2021EntryType ∧
    (issuedEntry "u" 0).purpose = Nuts.Facts.C11.const_StatusPurposeRevocation ∧
    Nuts.Facts.C11.maxBitstringIndex < intLimit := by decide

end Nuts.C11.Props
