/-
  C11 — Revocation is effective, permanent and issuer-only; status-list slots are unique.
  Property theorems over NutsModel.C11 (model of vcr/revocation, vcr/verifier revocation handling).
-/
import NutsProofs.Lemmas.C11
import NutsModel.Facts.C11
namespace Nuts.C11.Props
open Nuts Nuts.C11

/-! ### bitstring: `bit (setBit b i v) j` -/

/-- `bit_set_get`: for every bitstring, all in-range positions `i`, `j` and every value: after `setBit i v` succeeds,
    position `j` reads `v` if `j = i` and what it read before otherwise. -/
theorem bit_set_get (bs bs' : Bits) (i j : Nat) (v : Bool) (hj : j < 8 * bs.length)
    (h : bs.setBit (i : Int) v = .ok bs') :
    bs'.bit (j : Int) = if i = j then .ok v else bs.bit (j : Int) :=
  bit_setBit bs bs' i j v hj h

example : (newBits 2).setBit 11 true = .ok [0#8, 16#8] ∧ Bits.bit [0#8, 16#8] 11 = .ok true := by decide

/-- `bit`/`setBit` never panic (the guard covers every index, negative ones included) and fail exactly out of range -/
theorem bit_total (bs : Bits) (i : Int) :
    (0 ≤ i ∧ i < 8 * bs.length → ∃ v, bs.bit i = .ok v) ∧ (¬ (0 ≤ i ∧ i < 8 * bs.length) → bs.bit i = .err "index") := by
  unfold Bits.bit
  constructor
  · intro ⟨h0, h1⟩
    have h2 : ¬ (i < 0) := by omega
    have h3 : ¬ (i.toNat / 8 ≥ bs.length) := by omega
    simp only [h2, h3, if_false]
    have : i.toNat / 8 < bs.length := by omega
    rw [List.getElem?_eq_getElem this]
    exact ⟨_, rfl⟩
  · intro h
    by_cases h0 : i < 0
    · simp [h0]
    · have : i.toNat / 8 ≥ bs.length := by omega
      simp [h0, this]

example : Bits.bit [0#8] (-1) = .err "index" ∧ Bits.bit [0#8] 8 = .err "index" ∧ Bits.bit [128#8] 0 = .ok true := by decide

/-! ### regenerated facts the model relies on -/

theorem fact_bitstring_arithmetic :
    Facts.C11.bitstring_bit = ["q,r := statusListIndex / 8,byte(statusListIndex % 8)", "if statusListIndex < 0 || q >= len(*bs)",
      "return false,ErrIndexNotInBitstring", "return isSet((*bs)[q],r),nil"] ∧
    Facts.C11.bitstring_setBit = ["q,r := statusListIndex / 8,byte(statusListIndex % 8)", "if statusListIndex < 0 || q >= len(*bs)",
      "return ErrIndexNotInBitstring", "if isSet((*bs)[q],r) != value", "(*bs)[q] ^= 1 << (7 - r)", "return nil"] ∧
    Facts.C11.bitstring_isSet = ["return b >> (7 - r) & 1 == 1"] := by decide

theorem fact_max_index : Facts.C11.maxBitstringIndex + 1 = 8 * Facts.C11.defaultBitstringLengthInBytes := by decide

theorem fact_min_left_le_validity : Facts.C11.minTimeUntilExpired ≤ Facts.C11.statusListValidity ∧ 0 < Facts.C11.minTimeUntilExpired := by decide

end Nuts.C11.Props
