/-
  C11 — Revocation is effective, permanent and issuer-only; status-list slots are unique.
  Property theorems over NutsModel.C11 (model of vcr/revocation and of the revocation handling of vcr/verifier).
  All statements quantify over every schedule / history / input; nothing here is a bounded enumeration.
-/
import NutsProofs.Lemmas.C11
import NutsModel.Facts.C11
namespace Nuts.C11.Props
open Nuts Nuts.C11

/-! ### a small concrete environment for the non-vacuity examples -/

def exEnv : Env :=
  { lenBytes := 1, maxIndex := 7, validity := 100, minLeft := 25, maxAge := 15
    keyOf := fun i => some (i ++ "#k"), sign := fun kid _ => kid
    verify := fun vc => vc.proof == some (vc.body.issuer ++ "#k") }

theorem exEnv_ok : EnvOK exEnv := by
  refine ⟨by decide, by decide, ?_⟩
  intro issuer kid body hk hb
  simp only [exEnv, Option.some.injEq] at hk
  simp [exEnv, ← hk, hb]

def exNode (base : String) : Node := { base := base, dids := ["did:a", "did:b"] }
def exWorld : World := { a := exNode "https://n0", b := exNode "https://n1" }

theorem exWorld_inv : WInv exEnv exWorld := ⟨NInv.empty _ _ _, NInv.empty _ _ _, by decide⟩

theorem exWorld_cache : CacheSound exWorld := by
  intro i iss p rec h
  cases i <;> simp [exWorld, exNode, World.get, Node.cred?] at h

def exK : KeyEnv := ⟨fun _ _ => none, fun _ _ _ => false⟩
def exList : Url := .sl "https://n0" "did:a" 1
def exEntry : StatusEntry := { list := exList, idx := some 0 }
def exCred : Cred := { id := some "did:a#1", issuer := "did:a", statuses := some [{ type := "Other", list := .raw "x", idx := none }, exEntry] }
/-- node 0 issues an entry and revokes it; node 1 verifies a credential naming it (downloads the list) -/
def exHistory : List Act := [.entryTx false "did:a" none, .revoke false "did:a#1" exEntry, .verify true exCred]

/-! ### 1. status-list positions are never shared (all schedules, several issuers, retries, page roll-over) -/

/-- a node without running `Entry` calls whose pages have distinct ids and indexes within the bitstring (e.g. a new node) -/
theorem einv_fresh (E : Env) (base : String) (dids : List String) (now : Nat) :
    EInv E { node := { base := base, dids := dids }, threads := [], now := now } := by
  refine { fn := ?_, le := ?_, done := ?_, lock := ?_, uniq := ?_ }
  · intro r1 r2 h; cases h
  · intro r h; cases h
  · intro t th l i h; simp at h
  · intro t th r _ h; simp at h
  · intro t1 t2 th1 th2 l i _ h; simp at h

example : EInv exEnv { node := exNode "https://n0" } := einv_fresh exEnv _ _ 0

/-- `entries_injective`: whatever the schedule of read steps (with any row the database may hand out, `none` included),
    write steps, new `Entry` calls of any issuers, `Revoke`/`Credential` transactions and clock ticks — no two `Entry`
    calls return the same (list, index), and every returned index fits the bitstring. Retries after a duplicate key and
    page roll-over at `maxBitstringIndex` are steps of the same machine. -/
theorem entries_injective (E : Env) (w0 : EWorld) (h0 : EInv E w0) (acts : List EAct) :
    (∀ (t1 t2 : Nat) (th1 th2 : EThread) l i, t1 ≠ t2 → (eRun E w0 acts).threads[t1]? = some th1 →
        (eRun E w0 acts).threads[t2]? = some th2 → th1.phase = .done l i → th2.phase ≠ .done l i) ∧
    (∀ (t : Nat) (th : EThread) l i, (eRun E w0 acts).threads[t]? = some th → th.phase = .done l i → i ≤ E.maxIndex) := by
  have h := eRun_inv (E := E) acts h0
  refine ⟨h.uniq, ?_⟩
  intro t th l i ht hd
  obtain ⟨r, hr, _, hi⟩ := h.done t th l i ht hd
  exact Nat.le_trans hi (h.le r hr)

/-- non-vacuity: two calls of a first-time issuer race (both selects see no row); the loser gets a duplicate key, retries
    on the pinned page, and both end with different positions -/
example :
    ((eRun exEnv { node := exNode "https://n0" }
        [.spawn "did:a", .spawn "did:a", .read 0 none, .read 1 none, .write 0, .write 1,
         .read 1 (some (.sl "https://n0" "did:a" 1)), .write 1]).threads.map (·.phase)) =
      [.done (.sl "https://n0" "did:a" 1) 0, .done (.sl "https://n0" "did:a" 1) 1] := by decide

/-! ### 2. bitstring -/

/-- `bit_set_get`: for every bitstring, all in-range positions `i`, `j` and every value: after `setBit i v` succeeds,
    position `j` reads `v` if `j = i` and what it read before otherwise. -/
theorem bit_set_get (bs bs' : Bits) (i j : Nat) (v : Bool) (hj : j < 8 * bs.length)
    (h : bs.setBit (i : Int) v = .ok bs') :
    bs'.bit (j : Int) = if i = j then .ok v else bs.bit (j : Int) :=
  bit_setBit bs bs' i j v hj h

example : (newBits 2).setBit 11 true = .ok [0#8, 16#8] ∧ Bits.bit [0#8, 16#8] 11 = .ok true := by decide

/-- `bit`/`setBit` never panic (the guard covers every index, negative ones included) and fail exactly out of range -/
theorem bit_total (bs : Bits) (i : Int) :
    (0 ≤ i ∧ i < 8 * bs.length → ∃ v, bs.bit i = .ok v) ∧ (¬ (0 ≤ i ∧ i < 8 * bs.length) → bs.bit i = .err "index") := by
  unfold Bits.bit
  constructor
  · intro ⟨h0, h1⟩
    have h2 : ¬ (i < 0) := by omega
    have h3 : ¬ (i.toNat / 8 ≥ bs.length) := by omega
    simp only [h2, h3, if_false]
    have : i.toNat / 8 < bs.length := by omega
    rw [List.getElem?_eq_getElem this]
    exact ⟨_, rfl⟩
  · intro h
    by_cases h0 : i < 0
    · simp [h0]
    · have : i.toNat / 8 ≥ bs.length := by omega
      simp [h0, this]

example : Bits.bit [0#8] (-1) = .err "index" ∧ Bits.bit [0#8] 8 = .err "index" ∧ Bits.bit [128#8] 0 = .ok true := by decide

/-! ### 3. every served list is validly signed, not about to expire, and says exactly what was revoked -/

/-- `served_list_signed_and_fresh`: after every history, whatever list a node serves (API call or another node's download)
    verifies under `VerifySignature`, expires no earlier than `now + minTimeUntilExpired`, names the requested list and
    its set bits are exactly the revoked positions of that list. -/
theorem served_list_signed_and_fresh (E : Env) (K : KeyEnv) (hE : EnvOK E) (w0 : World) (h0 : WInv E w0) (acts : List Act)
    (k : Bool) (issuer : String) (page : Nat) (vc : VC) (n' : Node)
    (h : credential E (run E K w0 acts).now ((run E K w0 acts).get k) issuer page = .ok (vc, n')) :
    E.verify vc = true ∧ (∃ e, vc.body.expires = some e ∧ (run E K w0 acts).now + E.minLeft ≤ e) ∧
    Served n' (((run E K w0 acts).get k).url issuer page) vc := by
  have hw := ((run_path (K := K) hE acts h0).nodes h0).1
  obtain ⟨h1, h2, h3, _, _⟩ := credential_served hE (hw.node k) h
  exact ⟨h1, h2, h3⟩

/-- `list_signed_in_same_transaction`: in every reachable state the stored credential of every managed list is signed by
    the list issuer's key and carries exactly the revocations: there is no committed state in which a revocation is
    recorded but missing from the signed list. -/
theorem list_signed_in_same_transaction (E : Env) (K : KeyEnv) (hE : EnvOK E) (w0 : World) (h0 : WInv E w0) (acts : List Act)
    (k : Bool) (u : Url) (hu : ((run E K w0 acts).get k).isManaged u = true) :
    ∃ rec, ((run E K w0 acts).get k).cred? u = some rec ∧ E.verify rec.raw = true ∧ Signed E rec ∧
      ∀ j, getB rec.bits j = true ↔ j ∈ ((run E K w0 acts).get k).revsOf u := by
  have hw := ((run_path (K := K) hE acts h0).nodes h0).1
  obtain ⟨rec, hrec⟩ := (hw.node k).has u hu
  obtain ⟨h1, _, _, _, h5⟩ := signed_served hE (hw.node k) hu hrec
  exact ⟨rec, hrec, h1, ((hw.node k).crec u rec hu hrec).2, h5⟩

example : (credential exEnv 0 (step exEnv ⟨fun _ _ => none, fun _ _ _ => false⟩ exWorld (.entryTx false "did:a" none)).a "did:a" 1).isOk = true := by
  decide

/-- `Credential` dereferences `*credRecord.Expires`; in every reachable state the record of a managed list has an expiry
    (it was built by `updateCredential`), so serving a list never panics -/
theorem credential_never_panics (E : Env) (K : KeyEnv) (hE : EnvOK E) (w0 : World) (h0 : WInv E w0) (acts : List Act)
    (k : Bool) (issuer : String) (page : Nat) (s : String) :
    credential E (run E K w0 acts).now ((run E K w0 acts).get k) issuer page ≠ .panic s := by
  have hw := ((run_path (K := K) hE acts h0).nodes h0).1
  have hn := hw.node k
  generalize (run E K w0 acts).get k = n at hn
  generalize (run E K w0 acts).now = now
  intro h
  unfold credential at h
  simp only at h
  cases hrow : n.page? (n.url issuer page) with
  | none => rw [hrow] at h; cases h
  | some row =>
    rw [hrow] at h
    simp only at h
    have hm : n.isManaged (n.url issuer page) = true := by simp only [Node.isManaged, hrow]; rfl
    obtain ⟨rec, hrec⟩ := hn.has _ hm
    obtain ⟨_, _, _, t, _, _, _, hexp, _⟩ := hn.crec _ rec hm hrec
    have hlen : ∀ i, i ∈ n.revsOf (n.url issuer page) → i ≤ E.maxIndex := hn.revsOf_le _
    rw [hrec] at h
    simp only [hexp] at h
    split at h
    · rename_i hc; split at hc <;> cases hc
    · rename_i hc; split at hc <;> cases hc
    · cases h
    · split at h
      · cases h
      · rename_i kid _
        cases hsf : E.signFails with
        | false =>
          obtain ⟨vc, rec', hup⟩ := updateCredential_ok E hE hsf now row (n.revsOf (n.url issuer page)) kid hlen
          rw [hup] at h
          cases h
        | true =>
          have hlen' : (newBits E.lenBytes).length = E.lenBytes := by simp [newBits]
          obtain ⟨bs, hset, _, _⟩ := setAll_spec (n.revsOf (n.url issuer page)) (newBits E.lenBytes)
            (by intro i hi; rw [hlen']; have := hlen i hi; have := hE.idx; omega)
          simp [updateCredential, hset, hsf] at h

/-- `sign_failure_is_atomic`: when the injected `Sign` fails (key store outage; `ResolveKey` before the transaction still
    worked) `Revoke` does not succeed — it returns the error and, being an error, leaves no revocation row and no changed
    list —; `Credential` either serves the stored list unchanged or fails; the write half of `Entry` never creates a page.
    (A later, healthy call then behaves as if the failed one had not happened: all other theorems apply to the history
    without it.) -/
theorem sign_failure_is_atomic (E : Env) (hf : E.signFails = true) (now : Nat) (n : Node) :
    (∀ credId e n', revoke E now n credId e ≠ .ok n') ∧
    (∀ issuer page vc n', credential E now n issuer page = .ok (vc, n') → n' = n ∧ ∃ rec, n.cred? (n.url issuer page) = some rec ∧ vc = rec.raw) ∧
    (∀ issuer kid row nr rec, entryDecide E now n issuer kid row ≠ .create nr rec) := by
  refine ⟨?_, ?_, ?_⟩
  · intro credId e n' h
    obtain ⟨_, row, kid, vc, rec, _, _, _, _, _, _, hup, _⟩ := revoke_ok h
    exact updateCredential_sign_fails hf _ _ _ _ vc rec hup
  · intro issuer page vc n' h
    obtain ⟨row, _, h1 | h1⟩ := credential_ok h
    · obtain ⟨rec, e, hrec, _, _, hvc, hn⟩ := h1
      exact ⟨hn, rec, hrec, hvc⟩
    · obtain ⟨kid, rec, _, hup, _⟩ := h1
      exact absurd hup (updateCredential_sign_fails hf _ _ _ _ vc rec)
  · intro issuer kid row nr rec h
    obtain ⟨_, _, _, _, ⟨vc, hup⟩, _⟩ := entryDecide_create' h
    exact updateCredential_sign_fails hf _ _ _ _ vc rec hup

example : revoke { exEnv with signFails := true } 0 (run exEnv exK exWorld [.entryTx false "did:a" none]).a "did:a#1" exEntry = .err "sign" := by decide

/-! ### 4. a set bit is never cleared; revocation is idempotent -/

/-- `set_monotone`: along every history the revoked positions of every list only grow … -/
theorem set_monotone (E : Env) (K : KeyEnv) (hE : EnvOK E) (w0 : World) (h0 : WInv E w0) (acts : List Act) (k : Bool) (u : Url) (j : Nat)
    (h : j ∈ (w0.get k).revsOf u) : j ∈ ((run E K w0 acts).get k).revsOf u :=
  (((run_path (K := K) hE acts h0).nodes h0).2 k).revs u j h

/-- … so a bit that was set in a served list is set in every list served later, whatever happened in between. -/
theorem served_bit_never_cleared (E : Env) (K : KeyEnv) (hE : EnvOK E) (w0 : World) (h0 : WInv E w0)
    (k : Bool) (issuer : String) (page : Nat) (vc1 : VC) (n1 : Node) (bits1 : Bits) (j : Nat)
    (h1 : credential E w0.now (w0.get k) issuer page = .ok (vc1, n1))
    (hb1 : vc1.body.subjects = [{ id := (w0.get k).url issuer page, purpose := "revocation", enc := .ok bits1 }]) (hj : getB bits1 j = true)
    (acts : List Act) (vc2 : VC) (n2 : Node) (bits2 : Bits)
    (h2 : credential E (run E K (w0.set k n1) acts).now ((run E K (w0.set k n1) acts).get k) issuer page = .ok (vc2, n2))
    (hb2 : vc2.body.subjects = [{ id := (w0.get k).url issuer page, purpose := "revocation", enc := .ok bits2 }]) :
    getB bits2 j = true := by
  obtain ⟨_, _, ⟨b1, hs1, hiff1⟩, _, _⟩ := credential_served hE (h0.node k) h1
  rw [hb1] at hs1
  simp only [List.cons.injEq, Subject.mk.injEq, Enc.ok.injEq, and_true, true_and] at hs1
  subst hs1
  have hp1 : WPrim E K w0 (w0.set k n1) := WPrim.cred w0 k issuer page vc1 n1 h1
  have hw1 := (hp1.nodes h0).1
  have hpath := run_path (K := K) hE acts hw1
  have hw2 := (hpath.nodes hw1).1
  have hm := (hpath.nodes hw1).2 k
  obtain ⟨_, _, ⟨b2, hs2, hiff2⟩, _, hrevs⟩ := credential_served hE (hw2.node k) h2
  have hbase : ((run E K (w0.set k n1) acts).get k).url issuer page = (w0.get k).url issuer page := by
    simp only [Node.url]
    rw [hm.base, get_set_same, (NMono.of_credential h1).base]
  rw [hbase, hb2] at hs2
  simp only [List.cons.injEq, Subject.mk.injEq, Enc.ok.injEq, and_true, true_and] at hs2
  subst hs2
  rw [hbase] at hiff2
  rw [hiff2]
  have : j ∈ n2.revsOf ((w0.get k).url issuer page) ↔ j ∈ ((run E K (w0.set k n1) acts).get k).revsOf ((w0.get k).url issuer page) := by
    unfold Node.revsOf; rw [hrevs]
  rw [this]
  apply hm.revs
  rw [get_set_same]
  exact (hiff1 j).mp hj

/-- `revoke_idempotent`: once `Revoke` of an entry succeeded, every later `Revoke` of the same list position — after any
    history, with any credential id — answers errRevoked and (being an error) changes nothing. -/
theorem revoke_idempotent (E : Env) (K : KeyEnv) (hE : EnvOK E) (w0 : World) (h0 : WInv E w0) (k : Bool) (credId : String)
    (e : StatusEntry) (n1 : Node) (h1 : revoke E w0.now (w0.get k) credId e = .ok n1) (acts : List Act) (credId' : String) :
    revoke E (run E K (w0.set k n1) acts).now ((run E K (w0.set k n1) acts).get k) credId' e = .err "revoked" := by
  obtain ⟨i, row, kid, vc, rec, hi, hp, hrow, hkid, _, _, _, hn1⟩ := revoke_ok h1
  have hp1 : WPrim E K w0 (w0.set k n1) := WPrim.revoke w0 k credId e n1 h1
  have hw1 := (hp1.nodes h0).1
  have hpath := run_path (K := K) hE acts hw1
  have hw2 := (hpath.nodes hw1).1
  have hm := (hpath.nodes hw1).2 k
  have hmem1 : i ∈ n1.revsOf e.list := by
    rw [hn1]
    have : (Node.putCred { (w0.get k) with revs := (w0.get k).revs ++ [{ list := e.list, idx := i, credId := credId }] } rec).revsOf e.list =
        ({ (w0.get k) with revs := (w0.get k).revs ++ [{ list := e.list, idx := i, credId := credId }] } : Node).revsOf e.list := rfl
    rw [this, revsOf_append]
    simp
  refine revoke_again (hw2.node k) hi hp (hm.revs _ _ (by rw [get_set_same]; exact hmem1)) ?_ _ _
  intro row' hrow'
  have : row'.issuer = row.issuer :=
    page_issuer (h0.node k) (hw2.node k) (by rw [hm.base, get_set_same, (NMono.of_revoke h1).base]) hrow hrow'
  exact ⟨kid, by rw [this]; exact hkid⟩

example : 0 ∈ ((run exEnv exK exWorld exHistory).get false).revsOf exList := by decide
example : (revoke exEnv 0 (run exEnv exK exWorld [.entryTx false "did:a" none]).a "did:a#1" exEntry).isOk = true := by decide

/-! ### 5. network revocations: permanent, also when they arrive before the credential; issuer-only -/

/-- `revoked_forever` (network): once a node holds a revocation whose subject is the credential's id, every later
    verification of that credential on that node — after any history of credentials, revocations, lists, ticks — answers
    revoked. -/
theorem revoked_forever_network (E : Env) (K : KeyEnv) (hE : EnvOK E) (w0 : World) (h0 : WInv E w0) (i : Bool) (r : Revocation) (c : Cred)
    (hr : r ∈ (w0.get i).netRevs) (hc : c.id = some r.subject) (acts : List Act) :
    (verify E i (run E K w0 acts) c).1 = .revoked := by
  have := (((run_path (K := K) hE acts h0).nodes h0).2 i).net r hr
  have hrev : ((run E K w0 acts).get i).credRevoked c = true := by
    simp only [Node.credRevoked, hc, Node.isRevoked, List.any_eq_true]
    exact ⟨r, this, by simp⟩
  simp [verify, hrev]

/-- `revocation_before_credential`: the revocation is accepted at some point of a history; wherever the credential itself
    is received or verified (`Act.verify`, before or after, or never), every verification after the revocation answers
    revoked. -/
theorem revocation_before_credential (E : Env) (K : KeyEnv) (hE : EnvOK E) (w0 : World) (h0 : WInv E w0) (i : Bool) (r : Revocation) (c : Cred)
    (before after : List Act) (n' : Node)
    (hacc : registerRevocation K ((run E K w0 before).get i) r = .ok n') (hc : c.id = some r.subject) :
    (verify E i (run E K w0 (before ++ [.register i r] ++ after)) c).1 = .revoked := by
  have hw1 := ((run_path (K := K) hE before h0).nodes h0).1
  have hrun : run E K w0 (before ++ [.register i r] ++ after) = run E K ((run E K w0 before).set i n') after := by
    simp only [run, List.foldl_append, List.foldl_cons, List.foldl_nil, step]
    rw [show registerRevocation K ((List.foldl (step E K) w0 before).get i) r = .ok n' from hacc]
  rw [hrun]
  have hp : WPrim E K (run E K w0 before) ((run E K w0 before).set i n') := WPrim.register _ i r n' hacc
  refine revoked_forever_network E K hE _ (hp.nodes hw1).1 i r c ?_ hc after
  rw [get_set_same]
  obtain ⟨rfl, _⟩ := registerRevocation_ok hacc
  simp

/-- `revocation_event_stored_or_retried`: a revocation that passes `RegisterRevocation`'s checks and is delivered by the
    network is stored (event done), or — when the store fails with a context time-out / cancellation, however often that
    error was wrapped — the event is handed back for a retry; it is dropped for good only for a non-transient storage error.
    Nothing is stored on a failed delivery. -/
theorem revocation_event_stored_or_retried (K : KeyEnv) (n n1 : Node) (r : Revocation) (fault : StoreFault)
    (hacc : registerRevocation K n r = .ok n1) :
    (fault = .none ∧ handleRevocationEvent K n r fault = (.done, n1) ∧ r ∈ n1.netRevs) ∨
    ((∃ k, fault = .transient k) ∧ handleRevocationEvent K n r fault = (.retry, n)) ∨
    (fault = .other ∧ handleRevocationEvent K n r fault = (.fatal, n)) := by
  have hmem : r ∈ n1.netRevs := by obtain ⟨rfl, _⟩ := registerRevocation_ok hacc; simp
  cases fault with
  | none => exact Or.inl ⟨rfl, by simp [handleRevocationEvent, registerRevocationF, hacc], hmem⟩
  | transient k => exact Or.inr (Or.inl ⟨⟨k, rfl⟩, by simp [handleRevocationEvent, registerRevocationF, hacc]⟩)
  | other => exact Or.inr (Or.inr ⟨rfl, by simp [handleRevocationEvent, registerRevocationF, hacc]⟩)

/-- `redelivered_revocation_effective`: after any number of deliveries that failed with transient store errors, the
    retried delivery (store healthy) stores the revocation, and from then on the credential is answered revoked for ever -/
theorem redelivered_revocation_effective (E : Env) (K : KeyEnv) (hE : EnvOK E) (w0 : World) (h0 : WInv E w0) (i : Bool) (r : Revocation) (c : Cred)
    (wraps : List Nat) (n1 : Node) (hacc : registerRevocation K (w0.get i) r = .ok n1) (hc : c.id = some r.subject) (acts : List Act) :
    (wraps.foldl (fun n k => (handleRevocationEvent K n r (.transient k)).2) (w0.get i)) = w0.get i ∧
    (handleRevocationEvent K (w0.get i) r .none) = (.done, n1) ∧
    (verify E i (run E K (w0.set i n1) acts) c).1 = .revoked := by
  refine ⟨?_, by simp [handleRevocationEvent, registerRevocationF, hacc], ?_⟩
  · induction wraps with
    | nil => rfl
    | cons k rest ih => simp only [List.foldl_cons]; rw [show (handleRevocationEvent K (w0.get i) r (.transient k)).2 = w0.get i by simp [handleRevocationEvent, registerRevocationF, hacc]]; exact ih
  · have hp : WPrim E K w0 (w0.set i n1) := WPrim.register w0 i r n1 hacc
    refine revoked_forever_network E K hE _ (hp.nodes h0).1 i r c ?_ hc acts
    rw [get_set_same]
    obtain ⟨rfl, _⟩ := registerRevocation_ok hacc
    simp

/-- `issuer_only`: `RegisterRevocation` stores a revocation only if its issuer is the DID prefix of the revoked credential's
    id, the proof's key id is prefixed by the same issuer, that key resolves and the signature verifies under it; in every
    other case nothing is stored. Consequently every revocation a node ever holds satisfies this. -/
theorem issuer_only (K : KeyEnv) (n n' : Node) (r : Revocation) (h : registerRevocation K n r = .ok n') :
    Accepted K r ∧ n'.netRevs = n.netRevs ++ [r] := by
  obtain ⟨rfl, hacc⟩ := registerRevocation_ok h
  exact ⟨hacc, rfl⟩

theorem stored_revocations_accepted (E : Env) (K : KeyEnv) (hE : EnvOK E) (w0 : World) (h0 : WInv E w0) (hn : NetOK K w0) (acts : List Act) :
    NetOK K (run E K w0 acts) :=
  netok_path (run_path hE acts h0) hn

/-- for a credential whose id is prefixed by its issuer (what the node's issuer produces and the Nuts validators demand), a
    revoked verdict caused by a network revocation is caused by a revocation naming that issuer, signed with a key of that
    issuer -/
theorem network_revocation_is_by_issuer (E : Env) (K : KeyEnv) (hE : EnvOK E) (w0 : World) (h0 : WInv E w0) (hn : NetOK K w0)
    (acts : List Act) (i : Bool) (c : Cred) (id : String) (hid : c.id = some id) (hpre : prefixOf id = c.issuer)
    (h : ((run E K w0 acts).get i).credRevoked c = true) :
    ∃ r p pk, r ∈ ((run E K w0 acts).get i).netRevs ∧ r.subject = id ∧ r.issuer = c.issuer ∧ r.proof = some p ∧
      prefixOf p.vm = c.issuer ∧ K.resolveKey p.vm r.date = some pk ∧ K.sigOK pk r p.sig = true := by
  simp only [Node.credRevoked, hid, Node.isRevoked, List.any_eq_true, beq_iff_eq] at h
  obtain ⟨r, hr, hs⟩ := h
  obtain ⟨p, pk, h1, h2, h3, h4, h5⟩ := stored_revocations_accepted E K hE w0 h0 hn acts i r hr
  refine ⟨r, p, pk, hr, hs, ?_, h1, ?_, h4, h5⟩
  · rw [← h2, hs, hpre]
  · rw [h3, ← h2, hs, hpre]

/-- the forged documents of the property text are rejected: another issuer than the id prefix, a key of another party, an
    unresolvable key, a bad signature -/
theorem forged_revocations_rejected (K : KeyEnv) (n : Node) (r : Revocation) (p : RevProof) (hp : r.proof = some p) :
    (prefixOf r.subject ≠ r.issuer → ∃ e, registerRevocation K n r = .err e) ∧
    (prefixOf p.vm ≠ r.issuer → ∃ e, registerRevocation K n r = .err e) ∧
    (K.resolveKey p.vm r.date = none → ∃ e, registerRevocation K n r = .err e) ∧
    (∀ pk, K.resolveKey p.vm r.date = some pk → K.sigOK pk r p.sig = false → ∃ e, registerRevocation K n r = .err e) := by
  have key : ∀ n', registerRevocation K n r = .ok n' → Accepted K r := fun n' h => (issuer_only K n n' r h).1
  have nopanic : ∀ s, registerRevocation K n r ≠ .panic s := by
    intro s h
    unfold registerRevocation at h
    split at h
    · repeat (first | cases h | split at h)
    · cases h
    · rename_i s' hv
      unfold validateRevocation at hv
      repeat (first | cases hv | split at hv)
  have rej : ¬ Accepted K r → ∃ e, registerRevocation K n r = .err e := by
    intro hna
    cases hreg : registerRevocation K n r with
    | ok n' => exact absurd (key n' hreg) hna
    | err e => exact ⟨e, rfl⟩
    | panic s => exact absurd hreg (nopanic s)
  refine ⟨fun h => rej ?_, fun h => rej ?_, fun h => rej ?_, fun pk h1 h2 => rej ?_⟩
  · rintro ⟨_, _, _, h2, _⟩; exact h h2
  · rintro ⟨p', _, h1, _, h3, _⟩; rw [hp] at h1; cases h1; exact h h3
  · rintro ⟨p', pk, h1, _, _, h4, _⟩; rw [hp] at h1; cases h1; rw [h] at h4; cases h4
  · rintro ⟨p', pk', h1, _, _, h4, h5⟩; rw [hp] at h1; cases h1; rw [h1] at h4; cases h4; rw [h2] at h5; cases h5

def exKeys : KeyEnv :=
  { resolveKey := fun vm _ => if vm == "did:nuts:B#k" then some "pkB" else if vm == "did:nuts:A#k" then some "pkA" else none
    sigOK := fun pk r sig => sig == pk ++ "|" ++ r.subject }

def exRevByB : Revocation :=
  { subject := "did:nuts:B#1", issuer := "did:nuts:B", date := some 5, proof := some { vm := "did:nuts:B#k", sig := "pkB|did:nuts:B#1" } }

example : Accepted exKeys exRevByB := by
  refine ⟨_, "pkB", rfl, by decide, by decide, by decide, by decide⟩

example : handleRevocationEvent exKeys (exNode "https://n0") exRevByB (.transient 3) = (.retry, exNode "https://n0") := by decide
example : (handleRevocationEvent exKeys (exNode "https://n0") exRevByB .none).1 = .done := by decide

/-- `foreign_prefix_witness` (candidate defect 16): the check keys on the DID prefix of the credential *id*. For a credential
    of issuer A whose id is not prefixed by A but by B (the default validator does not forbid it), B's revocation is stored
    and the credential is then answered revoked, while A's own revocation of it is refused. For such credentials "only the
    credential's issuer" does not hold; it holds for id-prefixed credentials (`network_revocation_is_by_issuer`). -/
theorem foreign_prefix_witness :
    let c : Cred := { id := some "did:nuts:B#1", issuer := "did:nuts:A", statuses := none }
    let byA : Revocation := { subject := "did:nuts:B#1", issuer := "did:nuts:A", date := some 5,
                              proof := some { vm := "did:nuts:A#k", sig := "pkA|did:nuts:B#1" } }
    (match registerRevocation exKeys (exNode "https://n0") exRevByB with
      | .ok n' => n'.credRevoked c
      | _ => false) = true ∧
    (match registerRevocation exKeys (exNode "https://n0") byA with
      | .err e => e == "issuer-mismatch"
      | _ => false) = true := by
  decide

/-- the full-strength reading of "only the credential's issuer can cause this": a stored revocation whose subject is a
    credential's id names that credential's issuer. It is FALSE of the code (`issuer_only_stmt_false`, known finding
    C11:foreign-id-prefix, replayed on the real verifier by harness/corpus/C11/v_foreign_prefix.jsonl); what holds is
    `issuer_only_partial`: it is true of every credential whose id is prefixed by its issuer. -/
def IssuerOnlyStmt : Prop :=
  ∀ (K : KeyEnv) (n n' : Node) (r : Revocation) (c : Cred),
    registerRevocation K n r = .ok n' → c.id = some r.subject → r.issuer = c.issuer

theorem issuer_only_stmt_false : ¬ IssuerOnlyStmt := by
  intro h
  have := h exKeys (exNode "https://n0") { exNode "https://n0" with netRevs := [exRevByB] } exRevByB
    { id := some "did:nuts:B#1", issuer := "did:nuts:A", statuses := none } (by decide) rfl
  exact absurd this (by decide)

/-- `issuer_only_partial`: the part of `IssuerOnlyStmt` that holds. Missing: credentials whose id is not prefixed by their
    issuer (accepted by the default validator; refused by the two Nuts validators, see `nuts_validators_enforce_prefix`). -/
theorem issuer_only_partial (K : KeyEnv) (n n' : Node) (r : Revocation) (c : Cred) (id : String)
    (h : registerRevocation K n r = .ok n') (_hid : c.id = some id) (hs : id = r.subject) (hpre : prefixOf id = c.issuer) :
    r.issuer = c.issuer := by
  obtain ⟨⟨_, _, _, h2, _⟩, _⟩ := issuer_only K n n' r h
  rw [← h2, ← hs, hpre]

/-- the validators of NutsOrganizationCredential / NutsAuthorizationCredential refuse a credential whose id is not prefixed
    by its issuer before any revocation check: for those types "only the issuer" holds without further assumption -/
theorem nuts_validators_enforce_prefix (E : Env) (i : Bool) (w : World) (c : Cred)
    (h : ∀ e, (verifyFull E i w c true).1 ≠ .err e) : ∃ id, c.id = some id ∧ prefixOf id = c.issuer := by
  unfold verifyFull validateNutsId at h
  cases hid : c.id with
  | none => simp [hid] at h
  | some id =>
    refine ⟨id, rfl, ?_⟩
    by_cases hp : prefixOf id = c.issuer
    · exact hp
    · simp [hid, hp] at h

example : (verifyFull exEnv false exWorld { id := some "did:nuts:B#1", issuer := "did:nuts:A", statuses := none } true).1 = .err "validation" := by decide
example : (verifyFull exEnv false exWorld { id := some "did:nuts:A#1", issuer := "did:nuts:A", statuses := none } true).1 = .ok := by decide

/-! ### 6. status list revocation: effective at once on the issuing node, permanent on every node that refreshed -/

/-- `revoked_forever` (status list, issuing node): from the moment a position is revoked, the node that manages the list
    answers revoked for every credential whose first relevant status entry names that list and position, after any history.
    (Entries before it may be of another type or purpose; those are skipped.) -/
theorem revoked_forever_local (E : Env) (K : KeyEnv) (hE : EnvOK E) (w0 : World) (h0 : WInv E w0) (i : Bool) (u : Url) (j : Nat)
    (hj : j ∈ (w0.get i).revsOf u) (acts : List Act) (c : Cred) (pre post : List StatusEntry) (st : StatusEntry)
    (hc : c.statuses = some (pre ++ st :: post)) (hpre : ∀ s, s ∈ pre → s.relevant = false)
    (hst : st.list = u) (hty : st.type = "StatusList2021Entry") (hpu : st.purpose = "revocation") (hidx : st.idx = some (j : Int)) :
    (verify E i (run E K w0 acts) c).1 = .revoked := by
  have hpath := run_path (K := K) hE acts h0
  have hw := (hpath.nodes h0).1
  have hj' := ((hpath.nodes h0).2 i).revs u j hj
  apply verify_of_status_revoked
  simp only [statusVerify, hc]
  exact verifyStatuses_local hE st hst hty hpu hidx post pre hpre hw hj'

example : (verify exEnv false (run exEnv exK exWorld exHistory) exCred).1 = .revoked := by decide

/-- a successful `Revoke` makes the position revoked on the issuing node -/
theorem revoke_effective (E : Env) (now : Nat) (n n' : Node) (credId : String) (e : StatusEntry)
    (h : revoke E now n credId e = .ok n') : ∃ j : Nat, e.idx = some (j : Int) ∧ j ∈ n'.revsOf e.list := by
  obtain ⟨i, row, kid, vc, rec, hi, _, _, _, _, _, _, rfl⟩ := revoke_ok h
  refine ⟨i, hi, ?_⟩
  have : (Node.putCred { n with revs := n.revs ++ [{ list := e.list, idx := i, credId := credId }] } rec).revsOf e.list =
      ({ n with revs := n.revs ++ [{ list := e.list, idx := i, credId := credId }] } : Node).revsOf e.list := rfl
  rw [this, revsOf_append]
  simp

/-- `revoked_forever` (status list, other node): once node `i` holds a record of the other node's list with the bit set
    (it refreshed the list after the revocation, see `refresh_after_revocation_pins`), it answers revoked for that position
    after any further history: refreshes only bring supersets, failed refreshes keep the old record. -/
theorem revoked_forever_remote (E : Env) (K : KeyEnv) (hE : EnvOK E) (w0 : World) (h0 : WInv E w0) (hc0 : CacheSound w0)
    (i : Bool) (ob iss : String) (p j : Nat) (hpin : Pin w0 i ob iss p j) (acts : List Act)
    (c : Cred) (pre post : List StatusEntry) (st : StatusEntry)
    (hc : c.statuses = some (pre ++ st :: post)) (hpre : ∀ s, s ∈ pre → s.relevant = false)
    (hst : st.list = .sl ob iss p) (hty : st.type = "StatusList2021Entry") (hpu : st.purpose = "revocation") (hidx : st.idx = some (j : Int)) :
    (verify E i (run E K w0 acts) c).1 = .revoked := by
  have hpath := run_path (K := K) hE acts h0
  have hw := (hpath.nodes h0).1
  apply verify_of_status_revoked
  simp only [statusVerify, hc]
  exact verifyStatuses_pinned (K := K) hE st hst hty hpu hidx post pre hpre hw (cache_path hpath h0 hc0) (pin_path hpath h0 hc0 hpin)

/-- non-vacuity: after `exHistory` node 1 holds node 0's list with bit 0 set (it downloaded it while verifying) -/
example : Pin (run exEnv exK exWorld exHistory) true "https://n0" "did:a" 1 0 := by
  have h : (match ((run exEnv exK exWorld exHistory).get true).cred? exList with
      | some rec => rec.purpose == "revocation" && getB rec.bits 0
      | none => false) = true := by decide
  refine ⟨by decide, ?_⟩
  split at h
  · rename_i rec hrec
    simp only [Bool.and_eq_true, beq_iff_eq] at h
    exact ⟨rec, hrec, h.1, h.2⟩
  · cases h

example : (verify exEnv true (run exEnv exK exWorld (exHistory ++ [.tick 1000, .verify true exCred])) exCred).1 = .revoked := by decide

/-- "refreshed the list": a successful `update` of node `i`'s record of the other node's list, made from that node's
    `Credential` answer while position `j` is revoked there, pins bit `j` -/
theorem refresh_after_revocation_pins (E : Env) (w : World) (i : Bool) (iss : String) (p j : Nat) (f : Fetch) (rec : CredRec) (n' : Node)
    (hj : j ∈ (w.get (!i)).revsOf (.sl (w.get (!i)).base iss p)) (hf : FetchOK w (.sl (w.get (!i)).base iss p) f)
    (hup : update E w.now (w.get i) (.sl (w.get (!i)).base iss p) f = .ok (rec, n')) :
    Pin (w.set i n') i (w.get (!i)).base iss p j :=
  refresh_pins hj hf hup

/-- no false revocations through the cache either: in every reachable state what a node holds about the other node's lists
    is a subset of what that node revoked -/
theorem cache_sound (E : Env) (K : KeyEnv) (hE : EnvOK E) (w0 : World) (h0 : WInv E w0) (hc0 : CacheSound w0) (acts : List Act) :
    CacheSound (run E K w0 acts) :=
  cache_path (run_path hE acts h0) h0 hc0

/-! ### 7. a status entry is honoured only from the list the credential names -/

/-- `status_only_from_named_list`: if the status check answers revoked, the credential carries a status entry of type
    StatusList2021Entry and purpose revocation, and the bit consulted is bit `statusListIndex` of a record whose id is that
    entry's `statusListCredential`, whose stored credential has exactly one subject with that same id and that bitstring,
    and whose purpose equals the entry's. Lists stored under other URLs, or downloaded credentials naming another list
    (`update` refuses them), cannot revoke it. -/
theorem status_only_from_named_list (E : Env) (K : KeyEnv) (hE : EnvOK E) (w : World) (hw : WInv E w) (i : Bool) (c : Cred)
    (h : (statusVerify E i w c).1 = .revoked) :
    ∃ sts st, c.statuses = some sts ∧ st ∈ sts ∧ st.type = "StatusList2021Entry" ∧ st.purpose = "revocation" ∧
      ∃ (j : Int) (rec : CredRec), st.idx = some j ∧ rec.bits.bit j = .ok true ∧ rec.id = st.list ∧
        (∃ s, rec.raw.body.subjects = [s] ∧ s.id = st.list ∧ s.enc = .ok rec.bits) ∧ rec.purpose = st.purpose := by
  unfold statusVerify at h
  split at h
  · cases h
  · rename_i sts hs
    obtain ⟨st, hm, hrel, j, rec, h1, h2, h3, ⟨s, h4, h5, h6⟩, h7⟩ := verifyStatuses_revoked (K := K) hE i sts hw h
    simp only [StatusEntry.relevant, Bool.and_eq_true, beq_iff_eq] at hrel
    exact ⟨sts, st, hs, hm, hrel.1, hrel.2, j, rec, h1, h2, h3, ⟨s, h4, by rw [h5, h3], h6⟩, h7⟩

example : (statusVerify exEnv true (run exEnv exK exWorld exHistory) exCred).1 = .revoked := by decide

/-- a downloaded credential whose subject names another list is refused, whoever signed it -/
theorem update_refuses_other_list (E : Env) (now : Nat) (n : Node) (u : Url) (v : VC) (rec : CredRec) (n' : Node)
    (h : update E now n u (.vc v) = .ok (rec, n')) : ∃ s, v.body.subjects = [s] ∧ s.id = u ∧ E.verify v = true := by
  obtain ⟨v', s, hv, h1, h2, _, h3, _⟩ := update_ok h
  cases hv
  exact ⟨s, h1, h2, h3⟩

/-! ### 8. the issuer's `Revoke`: which mechanism, which entry, which revocation document -/

/-- `revokeStatusList` picks the FIRST relevant status entry of the credential — the same entry the verifier's loop reaches
    first (`revoked_forever_local` / `revoked_forever_remote` are stated for exactly that decomposition) -/
theorem first_revocation_entry_is_first_relevant (sts : List StatusEntry) (e : StatusEntry) (h : firstRevocationEntry sts = some e) :
    ∃ pre post, sts = pre ++ e :: post ∧ (∀ s, s ∈ pre → s.relevant = false) ∧ e.type = "StatusList2021Entry" ∧ e.purpose = "revocation" := by
  induction sts with
  | nil => cases h
  | cons st rest ih =>
    unfold firstRevocationEntry at h
    by_cases ht : st.type = "StatusList2021Entry"
    · by_cases hp : st.purpose = "revocation"
      · simp [ht, hp] at h
        subst h
        exact ⟨[], rest, rfl, (by intro s hs; cases hs), ht, hp⟩
      · simp [ht, hp] at h
        obtain ⟨pre, post, h1, h2, h3⟩ := ih h
        refine ⟨st :: pre, post, by rw [h1]; rfl, ?_, h3⟩
        intro s hs
        rcases List.mem_cons.mp hs with rfl | hs
        · simp [StatusEntry.relevant, hp]
        · exact h2 s hs
    · simp [ht] at h
      obtain ⟨pre, post, h1, h2, h3⟩ := ih h
      refine ⟨st :: pre, post, by rw [h1]; rfl, ?_, h3⟩
      intro s hs
      rcases List.mem_cons.mp hs with rfl | hs
      · simp [StatusEntry.relevant, ht]
      · exact h2 s hs

/-- `issuer_revoke_status_list_effective`: the issuer revokes a credential that is not did:nuts: the route is the status
    list, the entry is the credential's first relevant one, and once that `Revoke` succeeded every verification of the
    credential on the issuing node answers revoked, after any history -/
theorem issuer_revoke_status_list_effective (E : Env) (K : KeyEnv) (hE : EnvOK E) (w0 : World) (h0 : WInv E w0) (i : Bool) (c : Cred)
    (id kid sig : String) (date : Nat) (already : Bool) (e : StatusEntry) (n1 : Node)
    (hroute : issuerRevokeRoute false already c id kid sig date = .statusList e)
    (hrev : revoke E w0.now (w0.get i) id e = .ok n1) (acts : List Act) :
    (verify E i (run E K (w0.set i n1) acts) c).1 = .revoked := by
  unfold issuerRevokeRoute at hroute
  simp only [Bool.false_eq_true, if_false] at hroute
  cases hs : c.statuses with
  | none => rw [hs] at hroute; cases hroute
  | some sts =>
    rw [hs] at hroute
    simp only at hroute
    cases hf : firstRevocationEntry sts with
    | none => rw [hf] at hroute; cases hroute
    | some e' =>
      rw [hf] at hroute
      simp only [RevokeRoute.statusList.injEq] at hroute
      subst hroute
      obtain ⟨pre, post, hsts, hpre, hty, hpu⟩ := first_revocation_entry_is_first_relevant sts e' hf
      obtain ⟨j, hj, hmem⟩ := revoke_effective E w0.now (w0.get i) n1 id e' hrev
      have hp1 : WPrim E K w0 (w0.set i n1) := WPrim.revoke w0 i id e' n1 hrev
      exact revoked_forever_local E K hE _ (hp1.nodes h0).1 i e'.list j (by rw [get_set_same]; exact hmem) acts c pre post e'
        (by rw [hs, hsts]) hpre rfl hty hpu hj

/-- `issuer_network_revocation_accepted`: the document `buildRevocation` makes for a credential id (issuer = the DID part of
    the id, proof by that DID's key) passes `RegisterRevocation` wherever that key resolves and the proof verifies — so the
    issuer's own revocation of an id-prefixed credential is never refused -/
theorem issuer_network_revocation_accepted (K : KeyEnv) (n : Node) (id kid sig pk : String) (date : Nat)
    (hfrag : fragmentOf id ≠ "") (hid : id ≠ "") (hiss : prefixOf id ≠ "") (hkid : prefixOf kid = prefixOf id)
    (hres : K.resolveKey kid (some date) = some pk) (hsig : K.sigOK pk (buildRevocation id kid sig date) sig = true) :
    registerRevocation K n (buildRevocation id kid sig date) = .ok { n with netRevs := n.netRevs ++ [buildRevocation id kid sig date] } := by
  simp [registerRevocation, validateRevocation, buildRevocation, hfrag, hid, hiss, hkid, hres] at hsig ⊢
  simp [hsig]

example : issuerRevokeRoute false false exCred "did:a#1" "did:a#k" "s" 1 = .statusList exEntry := by decide
example : issuerRevokeRoute true false exCred "did:nuts:B#1" "did:nuts:B#k" "pkB|did:nuts:B#1" 5 = .network exRevByB := by decide

/-! ### 9. several status entries; store read faults -/

/-- `each_entry_judged_by_its_own_list`: on the node that manages the lists, a credential with any number of status entries
    (different lists, different issuers, any order, irrelevant entries in between) is answered revoked exactly when some
    relevant entry's position is revoked in the list THAT entry names; otherwise the status check passes. Nothing is
    downloaded. (`status_only_from_named_list` gives the "only from its own list" direction on every node.) -/
theorem each_entry_judged_by_its_own_list (E : Env) (hE : EnvOK E) (i : Bool) (w : World) (hw : WInv E w) (c : Cred) (sts : List StatusEntry)
    (hc : c.statuses = some sts) (hl : LocalEntries E (w.get i) sts) :
    ((statusVerify E i w c).1 = .revoked ↔
      ∃ st j, st ∈ sts ∧ st.relevant = true ∧ st.idx = some ((j : Nat) : Int) ∧ j ∈ (w.get i).revsOf st.list) ∧
    ((statusVerify E i w c).1 = .revoked ∨ (statusVerify E i w c).1 = .ok) := by
  simp only [statusVerify, hc]
  exact verifyStatuses_local_exact hE i sts hw hl

/-- non-vacuity: two entries naming different lists of node 0; only the second one's position is revoked -/
example :
    let w := run exEnv exK exWorld [.entryTx false "did:a" none, .entryTx false "did:b" none, .revoke false "x" exEntry];
    (statusVerify exEnv false w (Cred.mk (some "did:a#2") "did:a"
        (some [StatusEntry.mk "StatusList2021Entry" "revocation" (.sl "https://n0" "did:b" 1) (some 0), exEntry]))).1 = .revoked ∧
    (statusVerify exEnv false w (Cred.mk (some "did:a#3") "did:a"
        (some [StatusEntry.mk "StatusList2021Entry" "revocation" (.sl "https://n0" "did:b" 1) (some 0)]))).1 = .ok := by decide

/-- `store_read_fault_never_accepts`: while the revocation store cannot be read, `Verify` of a credential (it has an id:
    both validators demand one) answers the store's error — never "valid" —, whether or not a revocation is stored -/
theorem store_read_fault_never_accepts (E : Env) (i : Bool) (w : World) (c : Cred) (nutsType : Bool) :
    (verifyFullF E i w c nutsType true).1 ≠ .ok := by
  unfold verifyFullF verifyWithStore validateNutsId
  cases hid : c.id with
  | none => cases nutsType <;> simp
  | some id =>
    cases nutsType
    · simp
    · by_cases hp : prefixOf id = c.issuer <;> simp [hp]

set_option maxRecDepth 1000000 in
/-- every statement of `(cs *StatusList2021) Verify` and of `verifier.Verify`: the list is fetched inside the loop for every
    entry (`sList,err := cs.statusList(slEntry.StatusListCredential)`), an error of `IsRevoked` is returned, and the
    soft-fail block (`errors.Is(err,types.ErrRevoked)` else log) follows `v.credentialStatus.Verify` only -/
theorem fact_verify_soft_fail_scope :
    Facts.C11.statusVerifyStmts = ["if credentialToVerify.CredentialStatus == nil", "return nil", "statuses,err := credentialToVerify.CredentialStatuses()", "if err != nil", "return err", "range statuses", "if status.Type != StatusList2021EntryType", "continue", "if err != nil", "err = json.Unmarshal(status.Raw(),&slEntry)", "return err", "if slEntry.StatusPurpose != \"revocation\"", "continue", "sList,err := cs.statusList(slEntry.StatusListCredential)", "if err != nil", "return fmt.Errorf(\"status list: %w\",err)", "if sList.StatusPurpose != slEntry.StatusPurpose", "return fmt.Errorf(\"StatusList2021Credential.credentialSubject.statusPuspose='%s' does not match vc.credentialStatus.statusPurpose='%s'\",sList.StatusPurpose,slEntry.StatusPurpose)", "index,err := strconv.Atoi(slEntry.StatusListIndex)", "if err != nil", "return err", "revoked,err := sList.Bitstring.bit(index)", "if err != nil", "return err", "if revoked", "return errRevoked", "return nil"] ∧
    Facts.C11.verifierVerifyStmts = ["validator := credential.FindValidator(credentialToVerify)", "if err != nil", "err := validator.Validate(credentialToVerify)", "return err", "if len(credentialToVerify.Type) > 2", "return errors.New(\"verifiable credential must list at most 2 types\")", "if credentialToVerify.ID != nil", "revoked,err := v.IsRevoked(*credentialToVerify.ID)", "if err != nil", "return err", "if revoked", "return types.ErrRevoked", "err := v.credentialStatus.Verify(credentialToVerify)", "if err != nil", "if errors.Is(err,types.ErrRevoked)", "return err", "bs,_ := json.Marshal(credentialToVerify)", "if !allowUntrusted", "range credentialToVerify.Type", "if t.String() == verifiableCredentialType", "continue", "if !v.trustConfig.IsTrusted(t,credentialToVerify.Issuer)", "return types.ErrUntrusted", "validAtNotNil := time.Now()", "if validAt != nil", "validAtNotNil = *validAt", "if !credentialToVerify.ValidAt(validAtNotNil,maxSkew)", "return types.ErrCredentialNotValidAtTime", "if checkSignature", "issuerDID,err := did.ParseDID(credentialToVerify.Issuer.String())", "if err != nil", "return fmt.Errorf(\"could not validate issuer: %w\",err)", "metadata := resolver.ResolveMetadata{ResolveTime:validAt,AllowDeactivated:false}", "rawJwt := credentialToVerify.Raw()", "if rawJwt != \"\"", "headers,err := ExtractProtectedHeaders(rawJwt)", "if err != nil", "return err", "metadata.JwtProtectedHeaders = headers", "_,_,err = v.didResolver.Resolve(*issuerDID,&metadata)", "if err != nil", "return fmt.Errorf(\"could not validate issuer: %w\",err)", "return v.VerifySignature(credentialToVerify,validAt)", "return nil"] := by
  decide

/-! ### 10. when a cached external list is refreshed -/

/-- `refresh_iff_expired_or_too_old`: a cached record of a list this node does not manage is refreshed exactly when it has an
    expiry that lies in the past OR its (first) download is older than `maxAgeExternal` — in particular a list WITHOUT
    expirationDate is refreshed as soon as it is too old -/
theorem refresh_iff_expired_or_too_old (E : Env) (now : Nat) (rec : CredRec) :
    (stale E now rec = true ↔ (∃ e, rec.expires = some e ∧ e < now) ∨ rec.createdAt + E.maxAge < now) ∧
    (∀ hasExpiry expired tooOld, refreshDecision hasExpiry expired tooOld = true ↔ (hasExpiry = true ∧ expired = true) ∨ tooOld = true) ∧
    (∀ expired, refreshDecision false expired true = true) := by
  refine ⟨?_, ?_, ?_⟩
  · unfold stale refreshDecision
    cases h : rec.expires with
    | none => simp
    | some e => simp
  · intro a b c; cases a <;> cases b <;> cases c <;> simp [refreshDecision]
  · intro b; cases b <;> rfl

/-- and then `statusList` does ask for a download (`needsFetch`) -/
theorem too_old_external_list_is_fetched (E : Env) (now : Nat) (n : Node) (u : Url) (rec : CredRec)
    (hrec : n.cred? u = some rec) (hnm : n.isManaged u = false) (hold : rec.createdAt + E.maxAge < now) :
    needsFetch E now n u = true := by
  have := ((refresh_iff_expired_or_too_old E now rec).1).mpr (Or.inr hold)
  simp [needsFetch, hrec, hnm, this]

set_option maxRecDepth 100000 in
/-- the operator tree of the refresh condition in the source: `||` at the root, the `Expires != nil` guard only over the
    expiry test (a moved parenthesis changes this tree even where a textual comparison might be normalised away) -/
theorem fact_status_list_refresh_tree :
    Facts.C11.statusListRefreshTree =
      "(|| (&& [cr.Expires != nil] [time.Unix(*cr.Expires,0).Before(time.Now())]) [time.Unix(cr.CreatedAt,0).Add(maxAgeExternal).Before(time.Now())])" := by
  decide

/-! ### regenerated facts the model relies on -/

theorem fact_bitstring_arithmetic :
    Facts.C11.bitstring_bit = ["q,r := statusListIndex / 8,byte(statusListIndex % 8)", "if statusListIndex < 0 || q >= len(*bs)",
      "return false,ErrIndexNotInBitstring", "return isSet((*bs)[q],r),nil"] ∧
    Facts.C11.bitstring_setBit = ["q,r := statusListIndex / 8,byte(statusListIndex % 8)", "if statusListIndex < 0 || q >= len(*bs)",
      "return ErrIndexNotInBitstring", "if isSet((*bs)[q],r) != value", "(*bs)[q] ^= 1 << (7 - r)", "return nil"] ∧
    Facts.C11.bitstring_isSet = ["return b >> (7 - r) & 1 == 1"] ∧
    Facts.C11.bitstring_new = ["bs := bitstring(make([]byte,defaultBitstringLengthInBytes))", "return &bs"] := by decide

/-- `EnvOK` for the regenerated constants: the last index is the last bit of the bitstring, and a list is re-issued for
    longer than the minimum remaining validity -/
theorem fact_constants :
    Facts.C11.maxBitstringIndex + 1 = 8 * Facts.C11.defaultBitstringLengthInBytes ∧
    Facts.C11.minTimeUntilExpired ≤ Facts.C11.statusListValidity ∧ 0 < Facts.C11.minTimeUntilExpired ∧
    0 < Facts.C11.maxAgeExternal := by decide

theorem fact_env_ok (keyOf : String → Option String) (sign : String → VCBody → String) (verify : VC → Bool)
    (hs : ∀ issuer kid body, keyOf issuer = some kid → body.issuer = issuer → verify { body := body, proof := some (sign kid body) } = true) :
    EnvOK { lenBytes := Facts.C11.defaultBitstringLengthInBytes, maxIndex := Facts.C11.maxBitstringIndex,
            validity := Facts.C11.statusListValidity, minLeft := Facts.C11.minTimeUntilExpired, maxAge := Facts.C11.maxAgeExternal,
            keyOf := keyOf, sign := sign, verify := verify } :=
  ⟨fact_constants.1, fact_constants.2.1, hs⟩

/-- the status list URL is `<base>/statuslist/<issuer>/<page>` (the model's `Url.sl base issuer page`) -/
theorem fact_status_list_url :
    Facts.C11.statusListURL = ["result,_ := url.Parse(cs.baseURL)",
      "return result.JoinPath(\"statuslist\",issuer.String(),strconv.Itoa(page)).String()"] := by decide

theorem fact_entry_structure :
    Facts.C11.entryConds = ["purpose != StatusPurposeRevocation", "!errors.Is(err,gorm.ErrRecordNotFound)",
      "credentialIssuer.LastIssuedIndex > maxBitstringIndex", "errors.Is(err,gorm.ErrDuplicatedKey)"] ∧
    Facts.C11.entryFirstTimeLiteral = ["LastIssuedIndex:maxBitstringIndex", "Page:0"] ∧
    Facts.C11.entryAssignments = ["credentialIssuer.LastIssuedIndex++", "credentialIssuer.LastIssuedIndex = 0", "credentialIssuer.Page++",
      "credentialIssuer.SubjectID = cs.statusListURL(issuer,credentialIssuer.Page)"] ∧
    Facts.C11.entrySelectsForUpdate = true ∧ Facts.C11.entryRetriesInLoop = true ∧
    Facts.C11.entryCalls = ["cs.ResolveKey", "cs.db.Transaction", "tx.Create", "cs.updateCredential", "tx.Create",
      "tx.Model().Where().UpdateColumn"] ∧
    Facts.C11.primaryKeys = ["credentialIssuerRecord.SubjectID", "credentialRecord.SubjectID",
      "revocationRecord.StatusListCredential", "revocationRecord.StatusListIndex"] := by decide

/-- `Revoke` and `Credential` read the revocations of the list (`Preload("Revocations")`) on the transaction handle, after
    `lockCredentialRecord`: this is what makes the model's atomic `revoke` / `credential` (whose only reads before the
    transaction decide between "serve the stored list" and "re-issue") a faithful description -/
theorem fact_revoke_and_credential_structure :
    Facts.C11.revokeConds = ["entry.StatusPurpose != StatusPurposeRevocation", "!cs.isManaged(entry.StatusListCredential)",
      "errors.Is(err,gorm.ErrDuplicatedKey)", "statusListIndex < 0 || statusListIndex > issuerRecord.LastIssuedIndex"] ∧
    Facts.C11.revokeCalls = ["cs.db.Transaction", "lockCredentialRecord", "tx.Create", "tx.Preload().First", "tx.Preload",
      "cs.updateCredential", "tx.Clauses().Create"] ∧
    Facts.C11.credentialConds = ["!cs.isManaged(statusListCredentialURL)",
      "err == nil && time.Now().Add(minTimeUntilExpired).Before(time.Unix(*credRecord.Expires,0))"] ∧
    Facts.C11.credentialCalls = ["cs.isManaged", "cs.loadCredential", "cs.db.Transaction", "lockCredentialRecord", "tx.Preload().First",
      "tx.Preload", "cs.updateCredential", "tx.Clauses().Create"] ∧
    Facts.C11.signValidity = ["iss := time.Now()", "exp := iss.Add(statusListValidity)"] := by decide

set_option maxRecDepth 100000 in
theorem fact_status_verifier_structure :
    Facts.C11.statusVerifyConds = ["credentialToVerify.CredentialStatus == nil", "status.Type != StatusList2021EntryType",
      "slEntry.StatusPurpose != \"revocation\"", "sList.StatusPurpose != slEntry.StatusPurpose", "revoked"] ∧
    Facts.C11.statusListConds = ["err != nil", "cs.isManaged(statusListCredential)",
      "(cr.Expires != nil && time.Unix(*cr.Expires,0).Before(time.Now())) || time.Unix(cr.CreatedAt,0).Add(maxAgeExternal).Before(time.Now())",
      "err == nil", "cr.Expires != nil && time.Unix(*cr.Expires,0).Before(time.Now())"] ∧
    Facts.C11.updateConds = ["statusListCredential != credSubject.ID"] ∧
    Facts.C11.updateCalls = ["cs.download", "cs.verify", "cs.db.Clauses().Create"] ∧
    Facts.C11.verifyListCalls = ["cs.validate", "expand", "cs.VerifySignature"] ∧
    Facts.C11.validateConds = ["!cred.ContainsContext(vc.VCContextV1URI())", "!cred.ContainsContext(StatusList2021ContextURI)",
      "!cred.IsType(vc.VerifiableCredentialTypeV1URI())", "!cred.IsType(statusList2021CredentialTypeURI)", "len(cred.Type) > 2",
      "cred.ID == nil", "cred.IssuanceDate.IsZero()", "cred.Format() == vc.JSONLDCredentialProofFormat && cred.Proof == nil",
      "cred.CredentialStatus != nil", "err != nil", "len(target) != 1", "credentialSubject.Type != StatusList2021CredentialSubjectType",
      "credentialSubject.StatusPurpose == \"\"", "credentialSubject.EncodedList == \"\""] := by decide

set_option maxRecDepth 100000 in
theorem fact_register_and_verify_order :
    Facts.C11.registerConds = ["subjectIssuer != revocation.Issuer.String()", "vmIssuer != revocation.Issuer.String()"] ∧
    Facts.C11.registerCalls = ["credential.ValidateRevocation", "strings.Split", "strings.Split", "v.keyResolver.ResolveKeyByID",
      "ldProof.Verify", "v.store.StoreRevocation"] ∧
    Facts.C11.verifyConds = ["credentialToVerify.ID != nil", "revoked", "errors.Is(err,types.ErrRevoked)"] ∧
    Facts.C11.verifyCalls = ["v.IsRevoked", "v.credentialStatus.Verify", "v.trustConfig.IsTrusted", "v.VerifySignature"] ∧
    Facts.C11.isRevokedConds = ["err != nil", "errors.Is(err,ErrNotFound)"] ∧
    Facts.C11.isRevokedCalls = ["v.store.GetRevocations"] ∧
    Facts.C11.validateRevocationConds = ["r.Subject.String() == \"\" || r.Subject.Fragment == \"\"", "len(r.Context) != 0",
      "val == RevocationType", "!foundType", "r.Issuer.String() == \"\"", "r.Date.IsZero()", "r.Proof == nil"] ∧
    Facts.C11.ambassadorRevocationCalls = ["n.verifier.RegisterRevocation"] := by decide

set_option maxRecDepth 100000 in
/-- the ambassador hands a failed revocation event to `handleError`, which recognises context time-outs / cancellations with
    `errors.Is` (through any `%w` wrapping; no identity `switch err`) before anything is declared fatal -/
theorem fact_ambassador_transient_errors :
    Facts.C11.ambassadorHandleRevocationCalls = ["n.jsonLDRevocationCallback", "n.handleError"] ∧
    Facts.C11.ambassadorHandleErrorSwitches = [] ∧
    Facts.C11.ambassadorHandleErrorConds = ["errors.Is(err,context.Canceled) || errors.Is(err,context.DeadlineExceeded)",
      "errors.Is(err,jsonld.ContextURLNotAllowedErr)",
      "errors.As(err,&jsonLDError) && jsonLDError.Code == ld.LoadingRemoteContextFailed && !errors.Is(err,jsonld.ContextURLNotAllowedErr)"] := by
  decide

set_option maxRecDepth 1000000 in
/-- coverage audit: the sites around the core mechanism that the model's routing / wiring assumptions rest on — the issuer's
    `Revoke` routing (did:nuts ⇒ network revocation, else status list), the `revokeStatusList` loop (`continue` on another
    purpose), `revokeDIDNuts` (already-revoked check, publish, store), `buildRevocation` (issuer = id without path/fragment),
    the constructors that inject Sign / ResolveKey / VerifySignature into the shared StatusList2021, the credential id and
    status entry made by `buildAndSignVC`, the ambassador's two subscriptions with their filters, and the revocation
    store's exact-match query on `subject` -/
theorem fact_issuer_ambassador_store_sites :
    Facts.C11.issuerRevoke = ["credentialDIDURL,err := did.ParseDIDURL(credentialID.String())", "if err != nil || credentialDIDURL.Method == didnuts.MethodName", "return i.revokeDIDNuts(ctx,credentialID)", "return nil,i.revokeStatusList(ctx,credentialID)"] ∧
    Facts.C11.issuerRevokeStatusList = ["cred,err := i.store.GetCredential(credentialID)", "if err != nil", "return err", "statuses,err := cred.CredentialStatuses()", "if err != nil", "return err", "range statuses", "if status.Type == revocation.StatusList2021EntryType", "err = json.Unmarshal(status.Raw(),&slEntry)", "if err != nil", "return err", "if slEntry.StatusPurpose != revocation.StatusPurposeRevocation", "continue", "return i.statusList.Revoke(ctx,credentialID,slEntry)", "return types.ErrStatusNotFound"] ∧
    Facts.C11.issuerRevokeDIDNuts = ["isRevoked,err := i.isRevoked(credentialID)", "if err != nil", "return nil,fmt.Errorf(\"error while checking revocation status: %w\",err)", "if isRevoked", "return nil,types.ErrRevoked", "revocation,err := i.buildRevocation(ctx,credentialID)", "if err != nil", "return nil,err", "err = i.networkPublisher.PublishRevocation(ctx,*revocation)", "if err != nil", "return nil,fmt.Errorf(\"failed to publish revocation: %w\",err)", "if err != nil", "err := i.store.StoreRevocation(*revocation)", "return nil,fmt.Errorf(\"unable to store revocation: %w\",err)", "return revocation,nil"] ∧
    Facts.C11.issuerBuildRevocation = ["issuer := credentialID", "issuer.Path = \"\"", "issuer.Fragment = \"\"", "issuerDID,err := did.ParseDID(issuer.String())", "return nil,fmt.Errorf(\"failed to extract issuer: %w\",err)", "keyURI,_,err := i.keyResolver.ResolveKey(*issuerDID,nil,resolver.AssertionMethod)", "revocation := credential.BuildRevocation(issuerDID.URI(),credentialID)", "signingResult,err := ldProof.Sign(ctx,revocationAsMap,webSig,keyURI)"] ∧
    Facts.C11.issuerWiring = ["statusList.Sign = i.buildJSONLDCredential", "statusList.ResolveKey = i.keyResolver.ResolveKey"] ∧
    Facts.C11.verifierWiring = ["credentialStatus.VerifySignature = v.VerifySignature"] ∧
    Facts.C11.issuerStatusEntry = ["credentialID := ssi.MustParseURI(fmt.Sprintf(\"%s#%s\",issuerDID.String(),uuid.New().String()))", "if options.WithStatusListRevocation", "credentialStatusEntry,err := i.statusList.Entry(ctx,*issuerDID,revocation.StatusPurposeRevocation)", "unsignedCredential.CredentialStatus = append(unsignedCredential.CredentialStatus,credentialStatusEntry)"] ∧
    Facts.C11.ambassadorConfigure = ["err := n.networkClient.Subscribe(\"vcr_vcs\",n.handleNetworkVCs,n.networkClient.WithPersistency(),network.WithSelectionFilter(<*ast.FuncLit>))", "return event.Type == dag.PayloadEventType && event.Transaction.PayloadType() == types.VcDocumentType", "if err != nil", "return err", "return n.networkClient.Subscribe(\"vcr_revocations\",n.handleNetworkRevocations,n.networkClient.WithPersistency(),network.WithSelectionFilter(<*ast.FuncLit>))", "return event.Type == dag.PayloadEventType && event.Transaction.PayloadType() == types.RevocationLDDocumentType"] ∧
    Facts.C11.leiaGetRevocations = ["query := leia.New(leia.Eq(leia.NewJSONPath(credential.RevocationSubjectPath),leia.MustParseScalar(id.String())))", "results,err := s.revocationCollection().Find(context.Background(),query)", "if err != nil", "return nil,fmt.Errorf(\"error while getting revocation by id: %w\",err)", "if len(results) == 0", "return nil,ErrNotFound", "revocations := make([]*credential.Revocation,len(results))", "range results", "revocation := &credential.Revocation{}", "if err != nil", "err := json.Unmarshal(result,revocation)", "return nil,err", "revocations[i] = revocation", "return revocations,nil"] ∧
    Facts.C11.verifierIsRevoked = ["_,err := v.store.GetRevocations(credentialID)", "if err != nil", "if errors.Is(err,ErrNotFound)", "return false,nil", "return false,err", "return true,nil"] := by
  decide

set_option maxRecDepth 1000000 in
/-- every statement of `Revoke`, `Credential` and `updateCredential` (assignments, conditions, returns in source order): in
    particular an error of `updateCredential` / `buildAndSignVC` is RETURNED from the transaction function (`return err`,
    `return nil,nil,err`), so a failing `Sign` rolls the revocation row back instead of committing a stale list -/
theorem fact_revoke_credential_statements :
    Facts.C11.revokeStmts = ["statusListIndex,err := strconv.Atoi(entry.StatusListIndex)", "if err != nil", "return err", "if entry.StatusPurpose != StatusPurposeRevocation", "return errUnsupportedPurpose", "if !cs.isManaged(entry.StatusListCredential)", "return errNotFound", "err = cs.db.Model(&credentialIssuerRecord{}).Select(\"issuer\").First(&issuerStr,\"subject_id = ?\",entry.StatusListCredential).Error", "if err != nil", "return err", "issuerDID,err := did.ParseDID(issuerStr)", "if err != nil", "return err", "kid,_,err := cs.ResolveKey(*issuerDID,nil,resolver.AssertionMethod)", "if err != nil", "return err", "return cs.db.Transaction(<*ast.FuncLit>)", "err = lockCredentialRecord(tx,entry.StatusListCredential)", "if err != nil", "return err", "revocation := revocationRecord{StatusListCredential:entry.StatusListCredential,StatusListIndex:statusListIndex,CredentialID:credentialID.String()}", "err = tx.Create(&revocation).Error", "if err != nil", "if errors.Is(err,gorm.ErrDuplicatedKey)", "return errRevoked", "return err", "issuerRecord := new(credentialIssuerRecord)", "err = tx.Preload(\"Revocations\").First(issuerRecord,\"subject_id = ?\",entry.StatusListCredential).Error", "if err != nil", "if errors.Is(err,gorm.ErrRecordNotFound)", "return errNotFound", "return err", "if statusListIndex < 0 || statusListIndex > issuerRecord.LastIssuedIndex", "return ErrIndexNotInBitstring", "transactionContext := context.WithValue(ctx,storage.TransactionKey{},tx)", "_,credRecord,err := cs.updateCredential(transactionContext,issuerRecord,kid)", "if err != nil", "return err", "return tx.Clauses(clause.OnConflict{UpdateAll:true}).Create(credRecord).Error"] ∧
    Facts.C11.credentialStmts = ["statusListCredentialURL := cs.statusListURL(issuerDID,page)", "if !cs.isManaged(statusListCredentialURL)", "return nil,errNotFound", "credRecord,err := cs.loadCredential(statusListCredentialURL)", "if err == nil && time.Now().Add(minTimeUntilExpired).Before(time.Unix(*credRecord.Expires,0))", "cred,err := vc.ParseVerifiableCredential(credRecord.Raw)", "if err == nil", "return cred,nil", "info := audit.InfoFromContext(ctx)", "if info != nil", "module,operation,ok := strings.Cut(info.Operation,\".\")", "if ok", "ctx = audit.Context(ctx,\"_system_signing_expired_statuslist2021credential\",module,operation)", "kid,_,err := cs.ResolveKey(issuerDID,nil,resolver.AssertionMethod)", "if err != nil", "return nil,err", "err = cs.db.Transaction(<*ast.FuncLit>)", "err = lockCredentialRecord(tx,statusListCredentialURL)", "if err != nil", "return err", "issuerRecord := new(credentialIssuerRecord)", "err = tx.Preload(\"Revocations\").First(issuerRecord,\"subject_id = ?\",statusListCredentialURL).Error", "if err != nil", "return err", "transactionContext := context.WithValue(ctx,storage.TransactionKey{},tx)", "cred,credRecord,err = cs.updateCredential(transactionContext,issuerRecord,kid)", "if err != nil", "return err", "err = tx.Clauses(clause.OnConflict{UpdateAll:true}).Create(credRecord).Error", "if err != nil", "return nil", "if err != nil", "return nil,err", "return cred,nil"] ∧
    Facts.C11.updateCredentialStmts = ["issuerDID,err := did.ParseDID(issuerRecord.Issuer)", "if err != nil", "return nil,nil,err", "expanded := newBitstring()", "range issuerRecord.Revocations", "if err != nil", "err = expanded.setBit(rev.StatusListIndex,true)", "return nil,nil,err", "encodedList,err := compress(*expanded)", "if err != nil", "return nil,nil,err", "credSubject := &StatusList2021CredentialSubject{ID:issuerRecord.SubjectID,Type:StatusList2021CredentialSubjectType,StatusPurpose:StatusPurposeRevocation,EncodedList:encodedList}", "statusListCredential,err := cs.buildAndSignVC(ctx,*issuerDID,*credSubject,kid)", "if err != nil", "return nil,nil,err", "expires := statusListCredential.ExpirationDate.Unix()", "credRecord := &credentialRecord{SubjectID:credSubject.ID,StatusPurpose:credSubject.StatusPurpose,Bitstring:*expanded,Expires:&expires,Raw:statusListCredential.Raw()}", "return statusListCredential,credRecord,nil"] := by
  decide

set_option maxRecDepth 1000000 in
/-- every statement of the verifier's `update`: the downloaded list is stored with `OnConflict{UpdateAll:true}` — ALL columns
    of the row (bitstring, purpose, expiry, raw) are replaced by a refresh, which is what the model's `putCred` does (only
    gorm's autoCreateTime column `created_at` is left alone, see `Node.stored`) -/
theorem fact_update_upserts_all_columns :
    Facts.C11.updateStmts = ["cred,err := cs.download(statusListCredential)", "if err != nil", "return nil,err", "credSubject,err := cs.verify(*cred)", "if err != nil", "return nil,err", "if statusListCredential != credSubject.ID", "return nil,fmt.Errorf(\"status list: wrong credential: expected '%s', got '%s'\",statusListCredential,credSubject.ID)", "expanded,err := expand(credSubject.EncodedList)", "if err != nil", "return nil,err", "if cred.ExpirationDate != nil && !cred.ExpirationDate.IsZero()", "expires := cred.ExpirationDate.Unix()", "expiresPtr = &expires", "sl := credentialRecord{SubjectID:statusListCredential,StatusPurpose:credSubject.StatusPurpose,Bitstring:expanded,Expires:expiresPtr,Raw:cred.Raw()}", "err = cs.db.Clauses(clause.OnConflict{UpdateAll:true}).Create(&sl).Error", "if err != nil", "return &sl,nil"] := by
  decide

end Nuts.C11.Props
