/-
  C20 — deepening round 3: loadFromFlagSet over ANY flag set (server, CLI client, a command's own flags) with the
  regenerated secret suffixes; the CLI client's token; storage.initSQLDatabase on the connection STRING (adapter switch
  regenerated) with the data directory's content not an input.
-/
import NutsModel.C20.FlagsSql
import NutsModel.C20.Dummy
import NutsModel.Facts.C20
import NutsProofs.Lemmas.C20
import NutsProofs.Props.C20

namespace Nuts.C20.Props
open Nuts Nuts.C18 Nuts.C20

abbrev suffixes := Facts.C20.secretSuffixes
abbrev adapters := Facts.C20.sqlAdapters

/-! ### facts -/

/-- the suffixes of the secret rule, resolved from the source expression (literals, constants, `+`): exactly `token`
    and `password` — not `.token` / `.password`, which would let the CLI client's `--token` through -/
theorem fact_secret_suffixes : Facts.C20.secretSuffixes = [sToken, sPassword] := by decide

/-- statement shape of `loadFromFlagSet`: one visitor over ALL flags, the error checked before anything is loaded -/
theorem fact_load_from_flagset_shape : Facts.C20.loadFromFlagSetShape =
    ["var err error // error out if flag name ends with .token or .password (which indicates a secret) and is set on the command line",
     "flags.VisitAll(func(flag *pflag.Flag) { if strings.HasSuffix(flag.Name, \"token\") || strings.HasSuffix(flag.Name, \"password\") { if flag.Changed { err = fmt.Errorf(\"flag %s is a secret, please set it in the config file or environment variable to avoid leaking it\", flag.Name) return } } })",
     "if err != nil {", "return err", "}",
     "return configMap.Load(posflag.Provider(flags, defaultDelimiter, configMap), nil)"] := rfl

/-- the CLI client: its flags (address, timeout, verbosity, token, token-file) and its loader (environment, then the
    SAME loadFromFlagSet, a refusal panics) -/
theorem fact_client_loader :
    Facts.C20.clientFlags = [[97, 100, 100, 114, 101, 115, 115], [116, 105, 109, 101, 111, 117, 116], [118, 101, 114, 98, 111, 115, 105, 116, 121],
      sToken, [116, 111, 107, 101, 110, 45, 102, 105, 108, 101]] ∧
    Facts.C20.clientLoaderShape = ["configMap := koanf.New(defaultDelimiter)", "if err := loadFromEnv(configMap); err != nil {", "panic(err)", "}",
      "if err := loadFromFlagSet(configMap, cmd.Flags()); err != nil {", "panic(err)", "}", "cfg := ClientConfig{}",
      "if err := loadConfigIntoStruct(&cfg, configMap); err != nil {", "panic(err)", "}", "return cfg"] := ⟨by decide, rfl⟩

/-- `initSQLDatabase` up to the adapter choice: strict + no connection string returns at once — nothing (no file in the
    data directory) is consulted; the adapter switch and the default SQLite string -/
theorem fact_sql_init :
    Facts.C20.sqlInitHead = ["connectionString := e.config.SQL.ConnectionString", "if len(connectionString) == 0 {", "if strictmode {",
      "return errors.New(\"no database configured: storage.sql.connection must be set in strictmode\")", "}",
      "connectionString = sqliteConnectionString(e.datadir)", "}", "dbType := strings.Split(connectionString, \":\")[0]"] ∧
    Facts.C20.sqlAdapters = [[115, 113, 108, 105, 116, 101], [109, 121, 115, 113, 108], [112, 111, 115, 116, 103, 114, 101, 115],
      [97, 122, 117, 114, 101, 115, 113, 108], [115, 113, 108, 115, 101, 114, 118, 101, 114]] ∧
    Facts.C20.sqliteDefaultPrefix = [115, 113, 108, 105, 116, 101, 58, 102, 105, 108, 101, 58] := ⟨rfl, by decide, by decide⟩

/-! ### loadFromFlagSet over any flag set -/

/-- the regenerated rule IS the rule of the abstract `load` -/
theorem secret_rule_regenerated (name : Bytes) : isSecretBy suffixes name = isSecretFlag name := by
  show isSecretBy Facts.C20.secretSuffixes name = _
  rw [fact_secret_suffixes]
  simp [isSecretBy, isSecretFlag]

theorem visit_some_stays (s : List Bytes) : ∀ (flags : List Flag) (n : Bytes), (flags.foldl (visitStep s) (some n)).isSome = true
  | [], _ => rfl
  | f :: fs, n => by
    simp only [List.foldl_cons]
    unfold visitStep
    split
    · split
      · exact visit_some_stays s fs _
      · exact visit_some_stays s fs _
    · exact visit_some_stays s fs _

theorem visit_reports (s : List Bytes) : ∀ (flags : List Flag) (acc : Option Bytes) (n : Bytes),
    flags.foldl (visitStep s) acc = some n → acc = some n ∨ ∃ f ∈ flags, f.name = n ∧ f.changed = true ∧ isSecretBy s f.name = true
  | [], acc, n, h => Or.inl h
  | f :: fs, acc, n, h => by
    simp only [List.foldl_cons] at h
    rcases visit_reports s fs _ n h with h1 | ⟨g, hg, hn⟩
    · unfold visitStep at h1
      by_cases hs : isSecretBy s f.name = true
      · by_cases hc : f.changed = true
        · simp [hs, hc] at h1
          exact Or.inr ⟨f, List.mem_cons_self, h1, hc, hs⟩
        · simp [hs, hc] at h1; exact Or.inl h1
      · simp [hs] at h1; exact Or.inl h1
    · exact Or.inr ⟨g, List.mem_cons_of_mem _ hg, hn⟩

theorem visit_hits (s : List Bytes) : ∀ (flags : List Flag) (acc : Option Bytes) (f : Flag), f ∈ flags → f.changed = true →
    isSecretBy s f.name = true → (flags.foldl (visitStep s) acc).isSome = true
  | g :: gs, acc, f, hm, hc, hs => by
    simp only [List.foldl_cons]
    rcases List.mem_cons.mp hm with rfl | hm'
    · simp only [visitStep, hs, hc, if_true]
      exact visit_some_stays s gs _
    · exact visit_hits s gs _ f hm' hc hs

/-- **flagset_refused_iff.** Whatever the flag set (the node's, the CLI client's, a sub-command's own flags), in whatever
    order it is visited: the load is refused exactly when SOME flag under the secret rule was set on the command line —
    no position, neighbour or number of other flags hides it -/
theorem flagset_refused_iff (s : List Bytes) (flags : List Flag) :
    (loadFromFlagSet s flags).isSome = true ↔ ∃ f ∈ flags, f.changed = true ∧ isSecretBy s f.name = true := by
  constructor
  · intro h
    obtain ⟨n, hn⟩ := Option.isSome_iff_exists.mp h
    rcases visit_reports s flags none n hn with h0 | ⟨f, hf, _, hc, hs⟩
    · cases h0
    · exact ⟨f, hf, hc, hs⟩
  · rintro ⟨f, hf, hc, hs⟩
    exact visit_hits s flags none f hf hc hs

/-- the flag named in the refusal is a secret flag that was set -/
theorem flagset_reports_a_set_secret (s : List Bytes) (flags : List Flag) (n : Bytes) (h : loadFromFlagSet s flags = some n) :
    ∃ f ∈ flags, f.name = n ∧ f.changed = true ∧ isSecretBy s f.name = true := by
  rcases visit_reports s flags none n h with h0 | h1
  · cases h0
  · exact h1

/-- **flagset_verdict_order_independent.** The verdict does not depend on the order in which pflag visits the flags (only
    the NAME reported in the error does): the sorted-order contract of `VisitAll` is not needed for the refusal -/
theorem flagset_verdict_order_independent (s : List Bytes) (a b : List Flag) (h : a.Perm b) :
    (loadFromFlagSet s a).isSome = (loadFromFlagSet s b).isSome := by
  apply Bool.eq_iff_iff.mpr
  rw [flagset_refused_iff, flagset_refused_iff]
  constructor
  · rintro ⟨f, hf, hr⟩; exact ⟨f, h.mem_iff.mp hf, hr⟩
  · rintro ⟨f, hf, hr⟩; exact ⟨f, h.mem_iff.mpr hf, hr⟩

/-- adding flags to a command (its own options, persistent flags of a parent) never un-refuses a secret -/
theorem flagset_refusal_monotone (s : List Bytes) (a extra : List Flag) (h : (loadFromFlagSet s a).isSome = true) :
    (loadFromFlagSet s (a ++ extra)).isSome = true ∧ (loadFromFlagSet s (extra ++ a)).isSome = true := by
  obtain ⟨f, hf, hr⟩ := (flagset_refused_iff s a).mp h
  exact ⟨(flagset_refused_iff s _).mpr ⟨f, List.mem_append_left _ hf, hr⟩, (flagset_refused_iff s _).mpr ⟨f, List.mem_append_right _ hf, hr⟩⟩

example : (loadFromFlagSet suffixes [{ name := sToken, changed := true }, { name := [97], changed := true }]).isSome = true ∧
    loadFromFlagSet suffixes [{ name := [97], changed := true }, { name := sToken, changed := false }] = none := by
  refine ⟨?_, ?_⟩ <;> decide

/-- the abstract `load` (names of the flags given on the command line) is this loader on the flags marked changed -/
theorem load_refines_flagset (c : Config) :
    (load c = some ("load", "cli-secret")) ↔
      (loadFromFlagSet suffixes (c.cliFlags.map fun n => { name := n, changed := true })).isSome = true := by
  rw [flagset_refused_iff]
  constructor
  · intro h
    unfold load at h
    by_cases ha : c.cliFlags.any isSecretFlag = true
    · obtain ⟨n, hn, hs⟩ := List.any_eq_true.mp ha
      exact ⟨{ name := n, changed := true }, List.mem_map.mpr ⟨n, hn, rfl⟩, rfl, by rw [secret_rule_regenerated]; exact hs⟩
    · simp [ha] at h
  · rintro ⟨f, hf, _, hs⟩
    obtain ⟨n, hn, rfl⟩ := List.mem_map.mp hf
    rw [secret_rule_regenerated] at hs
    have : c.cliFlags.any isSecretFlag = true := List.any_eq_true.mpr ⟨n, hn, hs⟩
    simp [load, this]

/-- **client_token_cli_refused.** The CLI client: `--token=…` on the command line stops the command (any other flags,
    any environment) -/
theorem client_token_cli_refused (flags : List Flag) (env : Option Bytes) (f : Flag) (hf : f ∈ flags) (hn : f.name = sToken)
    (hc : f.changed = true) : clientToken suffixes flags env = .panic "NewClientConfigForCommand:secret-flag" := by
  have hs : isSecretBy suffixes f.name = true := by rw [secret_rule_regenerated, hn]; decide
  have := (flagset_refused_iff suffixes flags).mpr ⟨f, hf, hc, hs⟩
  obtain ⟨n, hn'⟩ := Option.isSome_iff_exists.mp this
  simp [clientToken, hn']

/-- **client_token_never_from_cli.** When the CLI client does get a configuration, no flag named `token` (or ending in
    token / password) was set on the command line: the token it sends comes from the environment or a file -/
theorem client_token_never_from_cli (flags : List Flag) (env : Option Bytes) (t : Bytes)
    (h : clientToken suffixes flags env = .ok t) : ∀ f ∈ flags, isSecretFlag f.name = true → f.changed = false := by
  intro f hf hs
  cases hc : f.changed with
  | false => rfl
  | true =>
    have := (flagset_refused_iff suffixes flags).mpr ⟨f, hf, hc, by rw [secret_rule_regenerated]; exact hs⟩
    obtain ⟨n, hn'⟩ := Option.isSome_iff_exists.mp this
    simp [clientToken, hn'] at h

/-- non-vacuity on the real client flag set: `--token` alone is refused, with `.token`-style suffixes it would not be
    (the reason `fact_secret_suffixes` matters); the environment's token is used when no secret is on the command line -/
example : clientToken suffixes (Facts.C20.clientFlags.map fun n => { name := n, changed := n == sToken, value := [120] }) none
      = .panic "NewClientConfigForCommand:secret-flag" ∧
    clientToken [cDot :: sToken, cDot :: sPassword] (Facts.C20.clientFlags.map fun n => { name := n, changed := n == sToken, value := [120] }) none
      = .ok [120] ∧
    clientToken suffixes (Facts.C20.clientFlags.map fun n => { name := n, changed := false }) (some [121]) = .ok [121] := by
  refine ⟨?_, ?_, ?_⟩ <;> decide

/-! ### storage.initSQLDatabase on the connection string -/

theorem sqlDbType_ok (conn : Bytes) : ∃ t, sqlDbType conn = .ok t := by
  unfold sqlDbType
  cases h : splitOn cColon conn with
  | nil => exact absurd h (splitOn_ne_nil _ _)
  | cons t _ => exact ⟨t, rfl⟩

/-- **implicit_sql_refused_any_datadir.** Strict mode, no connection string: refused — for EVERY data directory (the
    default string computed from it is arbitrary, its content is not an input at all) -/
theorem implicit_sql_refused_any_datadir (dflt : Bytes) : initSQL adapters [] true dflt = .err "sql-implicit" := by
  simp [initSQL]

/-- **strict_sql_opened_is_configured.** In strict mode the adapter that gets opened is the one the operator's own
    connection string names; the SQLite default is never substituted -/
theorem strict_sql_opened_is_configured (conn dflt t : Bytes) (h : initSQL adapters conn true dflt = .ok t) :
    conn ≠ [] ∧ sqlDbType conn = .ok t ∧ t ∈ adapters := by
  unfold initSQL at h
  by_cases hc : conn.length = 0
  · simp [hc] at h
  · simp only [hc, if_false] at h
    obtain ⟨t', ht'⟩ := sqlDbType_ok conn
    rw [ht'] at h
    simp only at h
    by_cases ha : t' ∈ adapters
    · simp [ha] at h
      subst h
      exact ⟨fun e => hc (by simp [e]), ht', ha⟩
    · simp [ha] at h

/-- **init_sql_never_panics / exact refusal reasons.** -/
theorem init_sql_outcomes (conn dflt : Bytes) (strict : Bool) :
    (∃ t ∈ adapters, initSQL adapters conn strict dflt = .ok t) ∨
    (initSQL adapters conn strict dflt = .err "sql-implicit" ∧ conn = [] ∧ strict = true) ∨
    initSQL adapters conn strict dflt = .err "sql-unsupported" := by
  unfold initSQL
  by_cases hc : conn.length = 0
  · cases strict
    · obtain ⟨t, ht⟩ := sqlDbType_ok dflt
      by_cases ha : t ∈ adapters
      · left; exact ⟨t, ha, by simp [hc, ht, ha]⟩
      · right; right; simp [hc, ht, ha]
    · right; left; simp [List.length_eq_zero_iff.mp hc]
  · obtain ⟨t, ht⟩ := sqlDbType_ok conn
    by_cases ha : t ∈ adapters
    · left; exact ⟨t, ha, by simp [hc, ht, ha]⟩
    · right; right; simp [hc, ht, ha]

/-- lenient mode, no connection string: the default (`sqlite:file:` ++ anything) opens the sqlite adapter -/
theorem lenient_default_sqlite (rest : Bytes) :
    initSQL adapters [] false (Facts.C20.sqliteDefaultPrefix ++ rest) = .ok [115, 113, 108, 105, 116, 101] := by
  have hsplit : sqlDbType (Facts.C20.sqliteDefaultPrefix ++ rest) = .ok [115, 113, 108, 105, 116, 101] := by
    rw [fact_sql_init.2.2]
    show sqlDbType ([115, 113, 108, 105, 116, 101] ++ cColon :: ([102, 105, 108, 101, 58] ++ rest)) = _
    unfold sqlDbType
    rw [splitOn_append cColon _ _ (by decide)]
  simp only [initSQL, List.length_nil, if_true, Bool.false_eq_true, if_false, hsplit]
  decide

/-- **start_conn_refines.** Start-up on the connection string is the abstract `start` with `sqlExplicit := conn ≠ ""`,
    for every string whose adapter the switch knows (and for the empty string in strict mode) -/
theorem start_conn_refines (c : Config) (conn dflt : Bytes)
    (h : initSQL adapters conn c.strict dflt ≠ .err "sql-unsupported") :
    startConn adapters tlds l2s c conn dflt = start tlds l2s { c with sqlExplicit := conn.length ≠ 0 } := by
  unfold startConn
  simp only
  generalize hc' : ({ c with sqlExplicit := decide (conn.length ≠ 0) } : Config) = c'
  have hst : c'.strict = c.strict := by subst hc'; rfl
  have hsq : c'.sqlExplicit = decide (conn.length ≠ 0) := by subst hc'; rfl
  cases hl : load c' with
  | some p => obtain ⟨e, r⟩ := p; simp [start, hl]
  | none =>
    rcases init_sql_outcomes conn dflt c.strict with ⟨t, _, ht⟩ | ⟨he, hc, hs⟩ | hu
    · simp [ht]
    · simp only [he]
      subst hc
      simp [start, hl, storageConfigure, hsq, hst, hs]
    · exact absurd hu h

/-- **strict_conn_refuses_implicit.** config text -> decision: strict, no connection string, clean command line, no
    moved key: refused by the storage engine whatever the other options and whatever the data directory -/
theorem strict_conn_refuses_implicit (c : Config) (dflt : Bytes) (hs : c.strict = true)
    (hl : load { c with sqlExplicit := false } = none) :
    startConn adapters tlds l2s c [] dflt = .refuse "storage" "sql-implicit" := by
  have h0 : initSQL adapters [] c.strict dflt = .err "sql-implicit" := by rw [hs]; exact implicit_sql_refused_any_datadir dflt
  have hc : ({ c with sqlExplicit := decide (([] : Bytes).length ≠ 0) } : Config) = { c with sqlExplicit := false } := rfl
  unfold startConn
  simp only [h0]
  rw [hc, hl]

/-- non-vacuity: the secure configuration with its connection string removed, on a data directory whose default string
    is anything; and an unknown adapter is refused in either mode -/
example : startConn adapters tlds l2s secureCfg [] [1, 2, 3] = .refuse "storage" "sql-implicit" ∧
    startConn adapters tlds l2s sloppyCfg [98, 111, 103, 117, 115, 58, 120] [] = .refuse "storage" "sql-unsupported" ∧
    initSQL adapters [115, 113, 108, 105, 116, 101, 58, 120] true [] = .ok [115, 113, 108, 105, 116, 101] := by
  refine ⟨?_, ?_, ?_⟩ <;> decide

/-! ### the dummy (test-only) means behind its registration check -/
/-- the guards as the source has them: each of the three entry points tests `d.InStrictMode` first -/
def dummyGuards : DummyGuards :=
  { verify := Facts.C20.strictCondsDummy.contains "VerifyVP: d.InStrictMode",
    status := Facts.C20.strictCondsDummy.contains "SigningSessionStatus: d.InStrictMode",
    start := Facts.C20.strictCondsDummy.contains "StartSigningSession: d.InStrictMode" }

theorem fact_dummy_guards : dummyGuards = { verify := true, status := true, start := true } := by decide

/-- **dummy_strict_inert.** A dummy means in strict mode — however it got registered — refuses EVERY call of EVERY
    history and its session state never changes (defence in depth behind `strict_running`) -/
theorem dummy_strict_inert (d : DummyMeans) (hs : d.strict = true) :
    ∀ acts : List DummyAct, dummyRun dummyGuards d acts = (d, acts.map fun _ => "not-enabled")
  | [] => rfl
  | a :: r => by
    have hstep : dummyStep dummyGuards d a = (d, "not-enabled") := by
      rw [fact_dummy_guards]; cases a <;> simp [dummyStep, hs]
    simp only [dummyRun, hstep, dummy_strict_inert d hs r, List.map_cons]

/-- lenient: the means works (session life cycle); were one guard missing, the strict means would act -/
example : (dummyRun dummyGuards { strict := false } [.start, .status 0, .status 0, .status 0, .status 0, .verify]).2
      = ["started", "created", "in-progress", "completed", "not-found", "verifier-reached"] ∧
    (dummyRun { dummyGuards with start := false } { strict := true } [.start]).2 = ["started"] := by
  refine ⟨?_, ?_⟩ <;> decide

end Nuts.C20.Props
