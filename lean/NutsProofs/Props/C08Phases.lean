/-
  C08 — `state.Add` as two store transactions, and ALL interleavings of concurrent callers (NutsModel/C08/Phases.lean).
  The verdict of a caller's read transaction is computed on an older state than the one its write transaction works on;
  the theorems say that this never matters for what the property promises.
-/
import NutsProofs.Props.C08
import NutsModel.C08.Phases

namespace Nuts.C08.Props
open Nuts Nuts.C08

variable {n : Nat}

/-- **Regenerated from state.go (`Add`, `Start`).** The read function (`present`, then the verifiers), what follows it,
    the head of the write function (presence AGAIN, then `txAdded = true`), the only two assignments of `txAdded`, and
    the three `AfterCommit` hooks — the counter hook is guarded by `txAdded` (`metricHook`). -/
theorem fact_add_phases :
    Facts.C08.addReadFn = ["present = s.graph.isPresent(tx, transaction.Ref())", "if present { return nil }",
      "return s.verifyTX(tx, transaction)", "then: if err != nil { return err }"] ∧
    Facts.C08.addAfterRead = ["if present { return nil }"] ∧
    Facts.C08.addWriteFnHead = ["if s.graph.isPresent(tx, transaction.Ref()) { return nil }", "txAdded = true"] ∧
    Facts.C08.addTxAddedAssigns = ["txAdded := false", "txAdded = true"] ∧
    Facts.C08.addAfterCommitHooks = ["unlock",
      "func() { if txAdded { s.notify(txEvent) if emitPayloadEvent { s.notify(payloadEvent) } } }",
      "func() { if txAdded { s.transactionCount.Inc() } }"] ∧
    Facts.C08.startCounterInit = ["s.transactionCount.Add(float64(currentTXCount))"] := by decide

/-! ### the serial model is "read transaction, then write transaction on the same state" -/

theorem addRead_proceed {s : State n} {tx : Tx} (h : addRead s tx = .proceed) :
    s.disk.isPresent tx.ref = false ∧ s.disk.verifyPrevs tx = .ok () := by
  unfold addRead at h
  cases hp : s.disk.isPresent tx.ref
  · rw [hp] at h
    simp only [Bool.false_eq_true, if_false] at h
    cases hv : s.disk.verifyPrevs tx with
    | ok u => cases u; exact ⟨rfl, rfl⟩
    | err e => rw [hv] at h; cases h
    | panic e => rw [hv] at h; cases h
  · rw [hp] at h; simp at h

theorem add_of_verified (c : Cfg) (s : State n) (tx : Tx) (opt : AddOpts)
    (hp : s.disk.isPresent tx.ref = false) (hv : s.disk.verifyPrevs tx = .ok ()) :
    add c s tx opt = writeBody c s tx opt := by
  unfold Nuts.C08.add writeBody
  simp only [hp, hv, Bool.false_eq_true, if_false]
  rfl

/-- **`Add` = read transaction, then write transaction.** The serial `add` of the state model (which every state
    theorem speaks about) is exactly: the read transaction's verdict, then — for `proceed` — the write transaction on the
    same state, whose `txAdded` is then always true. -/
theorem add_is_read_then_write (c : Cfg) (s : State n) (tx : Tx) (opt : AddOpts) :
    add c s tx opt = (match addRead s tx with
      | .present => (s, .ok ())
      | .refused r => (s, r)
      | .proceed => ((addWrite c s tx opt).1, (addWrite c s tx opt).2.1)) ∧
    (addRead s tx = .proceed → (addWrite c s tx opt).2.2 = true) := by
  cases hp : s.disk.isPresent tx.ref
  · cases hv : s.disk.verifyPrevs tx with
    | ok u =>
      cases u
      have hr : addRead s tx = .proceed := by unfold addRead; simp only [hp, hv, Bool.false_eq_true, if_false]
      rw [hr, add_of_verified c s tx opt hp hv]
      unfold addWrite
      simp only [hp, Bool.false_eq_true, if_false]
      exact ⟨trivial, fun _ => trivial⟩
    | err e =>
      have hr : addRead s tx = .refused (.err e) := by unfold addRead; simp only [hp, hv, Bool.false_eq_true, if_false]
      rw [hr]
      refine ⟨?_, fun h => by cases h⟩
      unfold Nuts.C08.add
      simp only [hp, hv, Bool.false_eq_true, if_false]
    | panic e =>
      have hr : addRead s tx = .refused (.panic e) := by unfold addRead; simp only [hp, hv, Bool.false_eq_true, if_false]
      rw [hr]
      refine ⟨?_, fun h => by cases h⟩
      unfold Nuts.C08.add
      simp only [hp, hv, Bool.false_eq_true, if_false]
  · have hr : addRead s tx = .present := by unfold addRead; simp only [hp, if_true]
    rw [hr]
    refine ⟨?_, fun h => by cases h⟩
    unfold Nuts.C08.add
    simp only [hp, if_true]

/-! ### a verdict of the read transaction stays valid while the store grows -/

theorem getTx_grow {d d' : Disk n} {l : List Tx} (h : d'.txs = d.txs ++ l) {p : Ref} {pt : Tx}
    (hg : d.getTx p = some pt) : d'.getTx p = some pt := by
  unfold Disk.getTx at hg ⊢
  rw [h, List.find?_append, hg]
  rfl

theorem verifyPrevsLoop_grow {d d' : Disk n} {l : List Tx} (h : d'.txs = d.txs ++ l) :
    ∀ (ps : List Ref) (hi r : Nat), d.verifyPrevsLoop ps hi = .ok r → d'.verifyPrevsLoop ps hi = .ok r := by
  intro ps
  induction ps with
  | nil => intro hi r hh; simpa [Disk.verifyPrevsLoop] using hh
  | cons p rest ih =>
    intro hi r hh
    unfold Disk.verifyPrevsLoop at hh ⊢
    cases hg : d.getTx p with
    | none => rw [hg] at hh; cases hh
    | some pt =>
      rw [hg] at hh
      rw [getTx_grow h hg]
      exact ih _ _ hh

/-- the prev/clock verifier's acceptance survives any growth of the transactions shelf -/
theorem verifyPrevs_grow {d d' : Disk n} {l : List Tx} (h : d'.txs = d.txs ++ l) {tx : Tx}
    (hv : d.verifyPrevs tx = .ok ()) : d'.verifyPrevs tx = .ok () := by
  unfold Disk.verifyPrevs at hv ⊢
  cases hl : d.verifyPrevsLoop tx.prevs 0 with
  | ok r => rw [hl] at hv; rw [verifyPrevsLoop_grow h _ _ _ hl]; exact hv
  | err e => rw [hl] at hv; cases hv
  | panic e => rw [hl] at hv; cases hv

/-! ### all interleavings -/

/-- what holds between any two store transactions of any schedule -/
structure CInv (c : Conc NB) : Prop where
  s : SInv cfg c.m.s
  metric : c.m.metric = c.m.s.disk.txs.length
  /-- every waiting caller's verdict is still the verdict the CURRENT store would give -/
  pend : ∀ tx ∈ c.pending, c.m.s.disk.verifyPrevs tx = .ok ()

theorem CInv.start {s : State NB} (r : Reachable s) : CInv { m := MState.start { s := s } } :=
  ⟨reachable_inv r, by simp only [MState.start, metricAfterStart, Nat.zero_add]; exact (reachable_inv r).g.count,
   fun _ h => by cases h⟩

theorem CInv.enter {c : Conc NB} (h : CInv c) (tx : Tx) : CInv (c.enter tx).1 := by
  unfold Conc.enter
  cases hr : addRead c.m.s tx with
  | present => exact h
  | refused r => exact h
  | proceed =>
    refine ⟨h.s, h.metric, ?_⟩
    intro t ht
    simp only [List.mem_append, List.mem_singleton] at ht
    rcases ht with ht | rfl
    · exact h.pend t ht
    · exact (addRead_proceed hr).2

/-- the write transaction of a waiting caller, whatever happened since its read transaction -/
theorem CInv.finish {c : Conc NB} (h : CInv c) (i : Nat) (opt : AddOpts) : CInv (c.finish cfg i opt).1 := by
  unfold Conc.finish
  cases hi : c.pending[i]? with
  | none => exact h
  | some tx =>
    have hmem : tx ∈ c.pending := List.mem_of_getElem? hi
    have hv := h.pend tx hmem
    have hsub : ∀ t ∈ c.pending.eraseIdx i, t ∈ c.pending := fun t ht => List.mem_of_mem_eraseIdx ht
    simp only
    unfold addWrite
    cases hp : c.m.s.disk.isPresent tx.ref
    · -- absent: the write function is the serial `add` on the current state
      simp only [Bool.false_eq_true, if_false]
      rw [← add_of_verified cfg c.m.s tx opt hp hv]
      obtain ⟨hS, hE, hO⟩ := h.s.add cfg_good tx opt
      by_cases hok : (add cfg c.m.s tx opt).2 = .ok ()
      · rcases hO hok with ⟨_, hp'⟩ | ⟨ht, _⟩
        · rw [hp] at hp'; cases hp'
        · refine ⟨hS, ?_, fun t hm => verifyPrevs_grow ht (h.pend t (hsub t hm))⟩
          simp only [metricHook, hok, true_and, if_true, ht, List.length_append, List.length_singleton, h.metric]
      · refine ⟨hS, ?_, fun t hm => ?_⟩
        · simp only [metricHook, hok, false_and, if_false, hE hok, h.metric]
        · have : (add cfg c.m.s tx opt).1.disk.txs = c.m.s.disk.txs ++ [] := by rw [hE hok, List.append_nil]
          exact verifyPrevs_grow this (h.pend t (hsub t hm))
    · -- a concurrent caller stored it meanwhile: `return nil`, the empty write transaction commits or not
      simp only [if_true]
      cases hc : opt.commitFails
      · simp only [Bool.false_eq_true, if_false]
        exact ⟨h.s, by simp only [metricHook, Bool.false_eq_true, and_false, if_false]; exact h.metric,
          fun t hm => h.pend t (hsub t hm)⟩
      · simp only [if_true]
        exact ⟨h.s.rollback cfg_good, by simp only [metricHook, Bool.false_eq_true, and_false, if_false]; exact h.metric,
          fun t hm => h.pend t (hsub t hm)⟩

theorem CInv.repair {c : Conc NB} (h : CInv c) (lcSeen : Nat) : CInv (c.repair cfg lcSeen) := by
  have ht := checkPageWith_txs cfg lcSeen c.m.s
  refine ⟨(h.s.checkPageWith cfg_good lcSeen).1, ?_, fun t hm => ?_⟩
  · show c.m.metric = (checkPageWith cfg lcSeen c.m.s).disk.txs.length
    rw [ht]; exact h.metric
  · have : (checkPageWith cfg lcSeen c.m.s).disk.txs = c.m.s.disk.txs ++ [] := by rw [ht, List.append_nil]
    exact verifyPrevs_grow this (h.pend t hm)

theorem CInv.crash {c : Conc NB} (h : CInv c) : CInv (c.crash cfg) := by
  refine ⟨h.s.restart cfg_good, ?_, fun _ hm => by cases hm⟩
  show 0 + (restart cfg c.m.s).disk.count = (restart cfg c.m.s).disk.txs.length
  rw [Nat.zero_add]
  exact (h.s.restart cfg_good).g.count

theorem CInv.step {c : Conc NB} (h : CInv c) (st : CStep) : CInv (c.step cfg st) := by
  cases st with
  | enter tx => exact h.enter tx
  | finish i opt => exact h.finish i opt
  | repair lc => exact h.repair lc
  | signal => exact ⟨⟨h.s.g, h.s.lc, h.s.x, h.s.i⟩, h.metric, h.pend⟩
  | crash => exact h.crash

/-- the states of a node whose `Add` callers interleave at the granularity the code allows: opened on any reachable
    file content and started; then ANY schedule of: a caller's read transaction, a waiting caller's write transaction
    (any waiting caller, any payload / fault / commit outcome), repair steps, signals, crash + reopen -/
inductive CReach : Conc NB → Prop
  | start {s} : Reachable s → CReach { m := MState.start { s := s } }
  | step {c} (st : CStep) : CReach c → CReach (c.step cfg st)

theorem creach_inv {c : Conc NB} (r : CReach c) : CInv c := by
  induction r with
  | start hs => exact CInv.start hs
  | step st _ ih => exact ih.step st

/-- **Concurrent additions.** After ANY interleaving of the read and write transactions of any number of `Add` callers
    (with repair steps, rejected / rolled-back writes and restarts in between) `XOR(c)`, `IBLT(c)` for every clock, every
    listing window, count, highest clock and head are the folds over the stored set, and the transaction counter metric is
    the size of the stored set. -/
theorem concurrent_adds_refine_spec {c : Conc NB} (r : CReach c) :
    Observables c.m.s c.m.s.disk.txs ∧ c.m.metric = c.m.s.disk.txs.length :=
  ⟨observables_of_sinv (creach_inv r).s, (creach_inv r).metric⟩

/-- the same for a whole schedule given as a list of steps -/
theorem concurrent_schedule_refines_spec {s : State NB} (r : Reachable s) (l : List CStep) :
    let c := Conc.run cfg { m := MState.start { s := s } } l
    Observables c.m.s c.m.s.disk.txs ∧ c.m.metric = c.m.s.disk.txs.length := by
  have : ∀ (l : List CStep) (c : Conc NB), CReach c → CReach (Conc.run cfg c l) := by
    intro l
    induction l with
    | nil => intro c h; exact h
    | cons st rest ih => intro c h; exact ih _ (CReach.step st h)
  exact concurrent_adds_refine_spec (this l _ (CReach.start r))

/-- **A stale verdict is never wrong**: whatever was stored between a caller's read and write transaction, the
    verifier would still accept its transaction on the store as it is now -/
theorem stale_verdict_still_valid {c : Conc NB} (r : CReach c) :
    ∀ tx ∈ c.pending, c.m.s.disk.verifyPrevs tx = .ok () := (creach_inv r).pend

/-- **The caller that lost the race** (its transaction was stored by another caller after its read transaction):
    nothing on disk changes, the metric does not move, and when its empty write transaction commits the call reports
    success and the whole state is untouched -/
theorem lost_race_changes_nothing {c : Conc NB} (i : Nat) (tx : Tx) (opt : AddOpts)
    (hi : c.pending[i]? = some tx) (hp : c.m.s.disk.isPresent tx.ref = true) :
    (c.finish cfg i opt).1.m.s.disk = c.m.s.disk ∧ (c.finish cfg i opt).1.m.metric = c.m.metric ∧
    (opt.commitFails = false → (c.finish cfg i opt).1.m.s = c.m.s ∧ (c.finish cfg i opt).2 = some (.ok ())) := by
  unfold Conc.finish
  simp only [hi]
  unfold addWrite
  simp only [hp, if_true]
  cases hc : opt.commitFails
  · simp only [Bool.false_eq_true, if_false, metricHook, and_false]
    exact ⟨trivial, trivial, fun _ => ⟨trivial, trivial⟩⟩
  · simp only [if_true, metricHook, Bool.false_eq_true, and_false, if_false]
    exact ⟨rfl, trivial, fun h => by cases h⟩

/-- **The caller that won**: a write transaction that finds the transaction absent and reports success stored exactly
    it and moved the metric by one; one that reports an error left the disk and the metric alone -/
theorem winner_stores_once {c : Conc NB} (r : CReach c) (i : Nat) (tx : Tx) (opt : AddOpts)
    (hi : c.pending[i]? = some tx) (hp : c.m.s.disk.isPresent tx.ref = false) :
    ((c.finish cfg i opt).2 = some (.ok ()) →
      (c.finish cfg i opt).1.m.s.disk.txs = c.m.s.disk.txs ++ [tx] ∧ (c.finish cfg i opt).1.m.metric = c.m.metric + 1) ∧
    ((c.finish cfg i opt).2 ≠ some (.ok ()) →
      (c.finish cfg i opt).1.m.s.disk = c.m.s.disk ∧ (c.finish cfg i opt).1.m.metric = c.m.metric) := by
  have h := creach_inv r
  have hv := h.pend tx (List.mem_of_getElem? hi)
  obtain ⟨_, hE, hO⟩ := h.s.add cfg_good tx opt
  unfold Conc.finish
  simp only [hi]
  unfold addWrite
  simp only [hp, Bool.false_eq_true, if_false]
  rw [← add_of_verified cfg c.m.s tx opt hp hv]
  constructor
  · intro hok
    have hok' : (add cfg c.m.s tx opt).2 = .ok () := by simpa using hok
    rcases hO hok' with ⟨_, hp'⟩ | ⟨ht, _⟩
    · rw [hp] at hp'; cases hp'
    · exact ⟨ht, by simp only [metricHook, hok', true_and, if_true]⟩
  · intro hne
    have hne' : (add cfg c.m.s tx opt).2 ≠ .ok () := fun e => hne (by simp [e])
    exact ⟨hE hne', by simp only [metricHook, hne', false_and, if_false]⟩

/-! ### non-vacuity: two callers with the same root, both past the read transaction before either writes -/

def exC0 : Conc NB := { m := exM0 }
def exRace : Conc NB := Conc.run cfg exC0 [.enter exRoot, .enter exRoot, .finish 0 {}, .finish 0 {}]

example : exRace.m.metric = 1 ∧ exRace.m.s.disk.count = 1 ∧ exRace.pending = [] ∧
    (Conc.run cfg exC0 [.enter exRoot, .enter exRoot]).pending = [exRoot, exRoot] := by decide

/-- the hook without its `txAdded` guard would count the lost race (what `metricHook`'s second argument is for) -/
example : metricHook 1 true (.ok ()) = 2 ∧ metricHook 1 false (.ok ()) = 1 ∧ metricHook 1 true (.err "x") = 1 := by decide

/-- a verdict on an older state: the child is verified while only the root is stored, a sibling is stored in between -/
example : (Conc.run cfg exC0 [.enter exRoot, .finish 0 {}, .enter exChild, .crash, .enter exChild, .finish 0 {}]).m.metric = 2 := by
  decide

/-! ### the stored set stays a valid DAG under every schedule -/

theorem add_ok_graphAdd (c : Cfg) (s : State n) (tx : Tx) (opt : AddOpts) (hp : s.disk.isPresent tx.ref = false)
    (h : (add c s tx opt).2 = .ok ()) : s.disk.verifyPrevs tx = .ok () ∧ ∃ d, s.disk.graphAdd tx = .ok d := by
  unfold Nuts.C08.add at h
  simp only [hp, Bool.false_eq_true, if_false] at h
  cases hv : s.disk.verifyPrevs tx with
  | err e => rw [hv] at h; cases h
  | panic e => rw [hv] at h; cases h
  | ok u =>
    cases u
    refine ⟨rfl, ?_⟩
    rw [hv] at h
    cases hg : s.disk.graphAdd tx with
    | ok d => exact ⟨d, rfl⟩
    | err e =>
      exfalso
      simp only [hg] at h
      repeat' (split at h)
      all_goals (first | cases h | simp at h)
    | panic e =>
      exfalso
      simp only [hg] at h
      repeat' (split at h)
      all_goals (first | cases h | simp at h)

theorem graphAdd_root {d d' : Disk n} {tx : Tx} (hp : d.isPresent tx.ref = false) (h : d.graphAdd tx = .ok d')
    (hr : tx.prevs = []) : (getSorted 0 d.clocks).getD [] = [] := by
  unfold Disk.graphAdd at h
  simp only [hp, Bool.false_eq_true, if_false, hr, List.isEmpty_nil, Bool.true_and] at h
  cases he : ((getSorted 0 d.clocks).getD []).isEmpty
  · rw [he] at h; simp at h
  · exact List.isEmpty_iff.mp he


/-- one root, and roots have clock 0 -/
structure RootInv (l : List Tx) : Prop where
  clock0 : ∀ t ∈ l, t.prevs = [] → t.clock = 0
  one : ∀ t ∈ l, ∀ t' ∈ l, t.prevs = [] → t'.prevs = [] → t = t'

theorem rootInv_add {s : State NB} (h : SInv cfg s) (r : RootInv s.disk.txs) (tx : Tx) (opt : AddOpts) :
    RootInv (add cfg s tx opt).1.disk.txs := by
  obtain ⟨_, hE, hO⟩ := h.add cfg_good tx opt
  by_cases hok : (add cfg s tx opt).2 = .ok ()
  · rcases hO hok with ⟨he, _⟩ | ⟨ht, hp⟩
    · rw [he]; exact r
    · obtain ⟨hv, d, hg⟩ := add_ok_graphAdd cfg s tx opt hp hok
      have noroot : tx.prevs = [] → ∀ u ∈ s.disk.txs, u.prevs ≠ [] := by
        intro hr u hu hup
        have h0 := graphAdd_root hp hg hr
        rw [h.g.idx 0] at h0
        have hnil : s.disk.txs.filter (fun t => t.clock == 0) = [] := by simpa using h0
        have : u ∈ s.disk.txs.filter (fun t => t.clock == 0) := by
          simp only [List.mem_filter, hu, r.clock0 u hu hup, true_and]; rfl
        rw [hnil] at this; cases this
      rw [ht]
      constructor
      · intro t hm hpr
        simp only [List.mem_append, List.mem_singleton] at hm
        rcases hm with hm | rfl
        · exact r.clock0 t hm hpr
        · unfold Disk.verifyPrevs at hv
          rw [hpr] at hv
          simp only [Disk.verifyPrevsLoop] at hv
          by_cases hc : t.clock = 0
          · exact hc
          · simp [hc] at hv
      · intro t hm t' hm' hpr hpr'
        simp only [List.mem_append, List.mem_singleton] at hm hm'
        rcases hm with hm | rfl <;> rcases hm' with hm' | rfl
        · exact r.one t hm t' hm' hpr hpr'
        · exact absurd hpr (noroot hpr' t hm)
        · exact absurd hpr' (noroot hpr t' hm')
        · rfl
  · rw [hE hok]; exact r

theorem reachable_root {s : State NB} (r : Reachable s) : RootInv s.disk.txs := by
  induction r with
  | init => exact ⟨fun _ h => (by cases h), fun _ h => (by cases h)⟩
  | add tx opt hr ih => exact rootInv_add (reachable_inv hr) ih tx opt
  | restart _ ih => exact ih
  | signalIncorrect _ ih => exact ih
  | signalCorrect _ ih => exact ih
  | checkPage _ ih => rw [show (checkPage cfg _).disk.txs = _ from checkPageWith_txs cfg _ _]; exact ih
  | checkPageWith lc _ ih => rw [checkPageWith_txs]; exact ih

theorem creach_root {c : Conc NB} (r : CReach c) : RootInv c.m.s.disk.txs := by
  induction r with
  | start hs => exact reachable_root hs
  | @step c st hc ih =>
    have inv := creach_inv hc
    cases st with
    | enter tx =>
      show RootInv (c.enter tx).1.m.s.disk.txs
      unfold Conc.enter
      cases addRead c.m.s tx <;> exact ih
    | finish i opt =>
      show RootInv (c.finish cfg i opt).1.m.s.disk.txs
      unfold Conc.finish
      cases hi : c.pending[i]? with
      | none => exact ih
      | some tx =>
        have hv := inv.pend tx (List.mem_of_getElem? hi)
        simp only
        unfold addWrite
        cases hp : c.m.s.disk.isPresent tx.ref
        · simp only [Bool.false_eq_true, if_false]
          rw [← add_of_verified cfg c.m.s tx opt hp hv]
          exact rootInv_add inv.s ih tx opt
        · simp only [if_true]
          cases opt.commitFails <;> exact ih
    | repair lc =>
      show RootInv (checkPageWith cfg lc c.m.s).disk.txs
      rw [checkPageWith_txs]; exact ih
    | signal => exact ih
    | crash => exact ih

/-- **Concurrent additions keep the stored set a valid DAG**, whatever the schedule: a ref is stored once, there is at
    most one root, roots have clock 0, and every other transaction has a stored transaction one clock below -/
theorem concurrent_adds_keep_dag_valid {c : Conc NB} (r : CReach c) :
    (c.m.s.disk.txs.map (·.ref)).Nodup ∧
    (∀ t ∈ c.m.s.disk.txs, ∀ t' ∈ c.m.s.disk.txs, t.prevs = [] → t'.prevs = [] → t = t') ∧
    (∀ t ∈ c.m.s.disk.txs, t.prevs = [] → t.clock = 0) ∧
    (∀ t ∈ c.m.s.disk.txs, t.clock ≠ 0 → ∃ t' ∈ c.m.s.disk.txs, t'.clock + 1 = t.clock) :=
  ⟨(creach_inv r).s.g.nodup, (creach_root r).one, (creach_root r).clock0, (creach_inv r).s.g.closed⟩

/-- two callers with two different roots, both verified before either is stored: one root is stored -/
example : (Conc.run cfg exC0 [.enter exRoot, .enter { exRoot with ref := 77 }, .finish 1 {}, .finish 0 {}]).m.s.disk.txs.length = 1 := by
  decide

end Nuts.C08.Props
