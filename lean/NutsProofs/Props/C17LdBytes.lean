/-
  C17 — LDProof.Verify from the BYTES of the proof's `jws` and the kind of the key: composition of the byte-level pieces
  (Split on "..", base64url decode, SignatureAlgorithm) with the abstract `ldProofVerify`.
  ONLY property theorems (+ non-vacuity examples).
-/
import NutsModel.C17.LdBytes
import NutsModel.Facts.C17
import NutsProofs.Lemmas.C17LdBytes
import NutsProofs.Props.C17Framing

namespace Nuts.C17.Props
open Nuts.C17 Nuts.C17.Framing Nuts.C17.LdBytes

/-- LDProof.Verify, end to end on the jws bytes and the key kind: an accepted proof has a `jws` of the exact shape `header..signature`
    (one separator, detached payload), its signature part base64url-decodes, exactly one verification was made — with the key handed in and
    the algorithm DERIVED from that key's kind by SignatureAlgorithm (asymmetric, on the regenerated list; never the header's) -/
theorem accept_ldProof_bytes (kind : KeyKind) (L : LdEnv) (key : Key) (canon : Bool) (jws : Bytes) (vs : List Verified)
    (h : ldProofVerifyBytes Facts.C17.ecAlgBitsTable Facts.C17.sigAlgRsa Facts.C17.sigAlgEd kind L key canon jws = .accept vs) :
    ∃ v hdr sig, vs = [v] ∧ v.key = key ∧ v.src = .caller ∧ derivedAlg kind = some v.alg ∧ v.alg ∉ symmetricOrNone ∧
      L.verifiesDetached key v.alg = true ∧ L.fits key v.alg = true ∧
      jws = hdr ++ 46 :: 46 :: sig ∧ (decode sig).isSome = true := by
  unfold ldProofVerifyBytes at h
  obtain ⟨v, hv, hk, hsrc, halg, hasym, hver, hparts, hfit⟩ :=
    accept_ldProof_derived (fun _ => kind) _ key canon _ _ vs rfl h
  have hdec : ldSigDecodes jws = true := by
    unfold ldProofVerify at h
    split at h; · cases h
    split at h; · cases h
    split at h; · cases h
    split at h; · cases h
    split at h
    · cases h
    · next hd => simpa using hd
  have hj := joinDD_splitDD jws
  unfold ldSigDecodes at hdec
  unfold ldJwsParts at hparts
  generalize splitDD jws = p at hdec hparts hj
  obtain ⟨hd, t⟩ := p
  match t, hdec, hparts, hj with
  | [sig], hdec, _, hj =>
    exact ⟨v, hd, sig, hv, hk, hsrc, halg, hasym, hver, hfit, by simpa [joinDD] using hj.symm, by simpa using hdec⟩
  | [], hdec, _, _ => simp at hdec
  | _ :: _ :: _, hdec, _, _ => simp at hdec

example : (ldProofVerifyBytes Facts.C17.ecAlgBitsTable Facts.C17.sigAlgRsa Facts.C17.sigAlgEd (.ecdsa 256)
    { keyAlg := fun _ => none, verifiesDetached := fun _ a => a == "ES256" } "K" true ("eyJ..c2ln".toList.map Char.toNat)).accepted = true := by decide
example : (ldProofVerifyBytes Facts.C17.ecAlgBitsTable Facts.C17.sigAlgRsa Facts.C17.sigAlgEd (.ecdsa 256)
    { keyAlg := fun _ => none, verifiesDetached := fun _ _ => true } "K" true ("eyJ.e30.c2ln".toList.map Char.toNat)).accepted = false := by decide
example : ldJwsParts ("a....b".toList.map Char.toNat) = 3 ∧ ldJwsParts ("a...b".toList.map Char.toNat) = 2 ∧ ldSigDecodes ("a...b".toList.map Char.toNat) = false := by decide

/-! ### wave 9: WHERE the verification algorithm comes from -/

/-- the regenerated source of the algorithm in LDProof.Verify: ONE assignment, from the key; that `alg` is what AlgorithmFitsKey and
    jws.NewVerifier get; no function of jsonld.go reads an `alg` out of JWS headers -/
theorem fact_ldProof_alg_source :
    Facts.C17.ldProofAlgAssign = ["alg, err := nutsCrypto.SignatureAlgorithm(key)"] ∧
    Facts.C17.ldProofAlgUses = ["jwx.AlgorithmFitsKey(alg, key)", "jws.NewVerifier(alg)"] ∧
    Facts.C17.ldProofHeaderAlgReaders = [] ∧ Facts.C17.sigAlgRsa = "PS256" := by decide

/-- **ldProof_rsa_key_only_ps256**: with an RSA key handed in, whatever the bytes of the proof's jws (its header included) say, an accepted
    proof was verified with PS256 — the algorithm the key determines, which is on the shared allow-list; never RS256/384/512 -/
theorem ldProof_rsa_key_only_ps256 (L : LdEnv) (key : Key) (canon : Bool) (jws : Bytes) (vs : List Verified)
    (h : ldProofVerifyBytes Facts.C17.ecAlgBitsTable Facts.C17.sigAlgRsa Facts.C17.sigAlgEd .rsa L key canon jws = .accept vs) :
    ∃ v, vs = [v] ∧ v.alg = "PS256" ∧ v.alg ∈ Facts.C17.supportedAlgs ∧ L.verifiesDetached key "PS256" = true := by
  obtain ⟨v, _, _, hv, _, _, halg, _, hver, _, _, _⟩ := accept_ldProof_bytes .rsa L key canon jws vs h
  have ha : v.alg = "PS256" := by
    have : derivedAlg .rsa = some "PS256" := by decide
    rw [this] at halg; injection halg with halg; exact halg.symm
  exact ⟨v, hv, ha, by rw [ha]; decide, by rw [← ha]; exact hver⟩

/-- negation for the header rule of seeded mutation C17-w9m1: an RSA key holder's RS256 proof is accepted, although RS256 is on no allow-list -/
theorem header_alg_rule_accepts_rs256 :
    ∃ vs v, ldProofVerifyHdr { keyAlg := fun _ => some "PS256", verifiesDetached := fun _ a => a == "RS256" } "K" (some "RS256") true 2 true = .accept vs ∧
      vs = [v] ∧ v.alg = "RS256" ∧ v.alg ∉ Facts.C17.supportedAlgs ∧
      ldProofVerify { keyAlg := fun _ => some "PS256", verifiesDetached := fun _ a => a == "RS256" } "K" true 2 true = .reject :=
  ⟨_, { key := "K", src := .caller, alg := "RS256", idx := 0, overSigningInput := true }, by decide, rfl, rfl, by decide, by decide⟩

end Nuts.C17.Props
