/-
  C17 — LDProof.Verify from the BYTES of the proof's `jws` and the kind of the key: composition of the byte-level pieces
  (Split on "..", base64url decode, SignatureAlgorithm) with the abstract `ldProofVerify`.
  ONLY property theorems (+ non-vacuity examples).
-/
import NutsModel.C17.LdBytes
import NutsModel.Facts.C17
import NutsProofs.Lemmas.C17LdBytes
import NutsProofs.Props.C17Framing

namespace Nuts.C17.Props
open Nuts.C17 Nuts.C17.Framing Nuts.C17.LdBytes

/-- LDProof.Verify, end to end on the jws bytes and the key kind: an accepted proof has a `jws` of the exact shape `header..signature`
    (one separator, detached payload), its signature part base64url-decodes, exactly one verification was made — with the key handed in and
    the algorithm DERIVED from that key's kind by SignatureAlgorithm (asymmetric, on the regenerated list; never the header's) -/
theorem accept_ldProof_bytes (kind : KeyKind) (L : LdEnv) (key : Key) (canon : Bool) (jws : Bytes) (vs : List Verified)
    (h : ldProofVerifyBytes Facts.C17.ecAlgBitsTable Facts.C17.sigAlgRsa Facts.C17.sigAlgEd kind L key canon jws = .accept vs) :
    ∃ v hdr sig, vs = [v] ∧ v.key = key ∧ v.src = .caller ∧ derivedAlg kind = some v.alg ∧ v.alg ∉ symmetricOrNone ∧
      L.verifiesDetached key v.alg = true ∧ L.fits key v.alg = true ∧
      jws = hdr ++ 46 :: 46 :: sig ∧ (decode sig).isSome = true := by
  unfold ldProofVerifyBytes at h
  obtain ⟨v, hv, hk, hsrc, halg, hasym, hver, hparts, hfit⟩ :=
    accept_ldProof_derived (fun _ => kind) _ key canon _ _ vs rfl h
  have hdec : ldSigDecodes jws = true := by
    unfold ldProofVerify at h
    split at h; · cases h
    split at h; · cases h
    split at h; · cases h
    split at h; · cases h
    split at h
    · cases h
    · next hd => simpa using hd
  have hj := joinDD_splitDD jws
  unfold ldSigDecodes at hdec
  unfold ldJwsParts at hparts
  generalize splitDD jws = p at hdec hparts hj
  obtain ⟨hd, t⟩ := p
  match t, hdec, hparts, hj with
  | [sig], hdec, _, hj =>
    exact ⟨v, hd, sig, hv, hk, hsrc, halg, hasym, hver, hfit, by simpa [joinDD] using hj.symm, by simpa using hdec⟩
  | [], hdec, _, _ => simp at hdec
  | _ :: _ :: _, hdec, _, _ => simp at hdec

example : (ldProofVerifyBytes Facts.C17.ecAlgBitsTable Facts.C17.sigAlgRsa Facts.C17.sigAlgEd (.ecdsa 256)
    { keyAlg := fun _ => none, verifiesDetached := fun _ a => a == "ES256" } "K" true ("eyJ..c2ln".toList.map Char.toNat)).accepted = true := by decide
example : (ldProofVerifyBytes Facts.C17.ecAlgBitsTable Facts.C17.sigAlgRsa Facts.C17.sigAlgEd (.ecdsa 256)
    { keyAlg := fun _ => none, verifiesDetached := fun _ _ => true } "K" true ("eyJ.e30.c2ln".toList.map Char.toNat)).accepted = false := by decide
example : ldJwsParts ("a....b".toList.map Char.toNat) = 3 ∧ ldJwsParts ("a...b".toList.map Char.toNat) = 2 ∧ ldSigDecodes ("a...b".toList.map Char.toNat) = false := by decide

end Nuts.C17.Props
