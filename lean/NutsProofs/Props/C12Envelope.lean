/-
  C12 — theorems about the envelope routing layer (vcr/pe/util.go: Envelope.UnmarshalJSON / ParseEnvelope /
  tryParseJSONArray / parseJSONArrayEnvelope / parseJSONObjectOrStringEnvelope / Envelope.MarshalJSON).
-/
import NutsModel.C12.EnvelopeJSON
import NutsModel.Facts.C12

namespace Nuts.C12.Props
open Nuts Nuts.C12

/-! ### regenerated facts -/

/-- the byte literals `Envelope.MarshalJSON` compares `e.raw[0]` with -/
theorem fact_envelope_as_is_bytes : Facts.C12.envelopeAsIsFirstBytes = asIsBytes := by decide

theorem fact_envelope_unmarshal_source : Facts.C12.envelopeUnmarshalShape =
    ["var raw interface{}", "if err := json.Unmarshal(bytes, &raw); err != nil { return err }",
     "if asString, isJSONString := raw.(string); isJSONString { bytes = []byte(asString) }",
     "envelope, err := ParseEnvelope(bytes)", "if err != nil { return err }", "*e = *envelope", "return nil"] := by decide

theorem fact_envelope_marshal_source : Facts.C12.envelopeMarshalShape =
    ["if e.raw[0] == '[' || e.raw[0] == '{' { return e.raw, nil }", "return json.Marshal(string(e.raw))"] := by decide

theorem fact_try_parse_json_array_source : Facts.C12.tryParseJSONArrayShape =
    ["var asInterface interface{}", "if err := json.Unmarshal(bytes, &asInterface); err != nil { return nil }",
     "arr, _ := asInterface.([]interface{})", "return arr"] := by decide

set_option maxRecDepth 8000 in
/-- `ParseEnvelope`: array test first (`jsonArray != nil`), the single-presentation branch only afterwards -/
theorem fact_parse_envelope_source : Facts.C12.parseEnvelopeShape.take 2 =
    ["jsonArray := tryParseJSONArray(envelopeBytes)",
     "if jsonArray != nil { asInterface, presentations, err := parseJSONArrayEnvelope(jsonArray) if err != nil { return nil, err } return &Envelope{ asInterface: asInterface, Presentations: presentations, raw: envelopeBytes, }, nil }"] := by decide

/-! ### the array loop -/

theorem parseArrayEntries_spec : ∀ (es : List ArrEntry) (n : Nat), parseArrayEntries es = .ok n →
    n = es.length ∧ ∀ e ∈ es, parseSingleOK e.bytes = true
  | [], n, h => by
    simp [parseArrayEntries] at h
    subst h; simp
  | e :: rest, n, h => by
    unfold parseArrayEntries at h
    by_cases he : parseSingleOK e.bytes = true
    · rw [if_pos he] at h
      cases hr : parseArrayEntries rest with
      | ok k =>
        rw [hr] at h
        simp at h
        obtain ⟨hk, hall⟩ := parseArrayEntries_spec rest k hr
        refine ⟨by simp [← h, hk], ?_⟩
        intro x hx
        rcases List.mem_cons.mp hx with rfl | hx
        · exact he
        · exact hall x hx
      | err x => rw [hr] at h; simp at h
      | panic s => rw [hr] at h; simp at h
    · rw [if_neg he] at h; simp at h

theorem parseArrayEntries_complete : ∀ (es : List ArrEntry), (∀ e ∈ es, parseSingleOK e.bytes = true) →
    parseArrayEntries es = .ok es.length
  | [], _ => rfl
  | e :: rest, h => by
    unfold parseArrayEntries
    rw [if_pos (h e (List.mem_cons_self ..)), parseArrayEntries_complete rest (fun x hx => h x (List.mem_cons_of_mem _ hx))]
    rfl

theorem parseArrayEntries_no_panic : ∀ (es : List ArrEntry) (site : String), parseArrayEntries es ≠ .panic site
  | [], _ => by simp [parseArrayEntries]
  | e :: rest, site => by
    unfold parseArrayEntries
    by_cases he : parseSingleOK e.bytes = true
    · rw [if_pos he]
      cases hr : parseArrayEntries rest with
      | ok k => simp
      | err x => simp
      | panic s => exact absurd hr (parseArrayEntries_no_panic rest s)
    · rw [if_neg he]; simp

/-! ### ParseEnvelope / UnmarshalJSON -/

theorem parseEnvelopeShape_no_panic (b : EnvBytes) (site : String) : parseEnvelopeShape b ≠ .panic site := by
  unfold parseEnvelopeShape
  cases ht : tryParseJSONArray b with
  | some es =>
    simp only
    cases hr : parseArrayEntries es with
    | ok k => simp
    | err x => simp
    | panic s => exact absurd hr (parseArrayEntries_no_panic es s)
  | none =>
    simp only
    split <;> simp

theorem keepParsed_ok_iff (b raw : EnvBytes) (sh : Shape) :
    keepParsed b = .ok (raw, sh) ↔ b = raw ∧ parseEnvelopeShape raw = .ok sh := by
  unfold keepParsed
  generalize hq : parseEnvelopeShape b = q
  cases q with
  | ok k =>
    constructor
    · intro h
      simp at h
      obtain ⟨rfl, rfl⟩ := h
      exact ⟨rfl, hq⟩
    · rintro ⟨rfl, h⟩
      rw [hq] at h
      simp at h
      simp [h]
  | err x =>
    constructor
    · intro h; simp at h
    · rintro ⟨rfl, h⟩; rw [hq] at h; simp at h
  | panic s =>
    constructor
    · intro h; simp at h
    · rintro ⟨rfl, h⟩; rw [hq] at h; simp at h

theorem keepParsed_no_panic (b : EnvBytes) (site : String) : keepParsed b ≠ .panic site := by
  unfold keepParsed
  generalize hq : parseEnvelopeShape b = q
  cases q with
  | ok k => simp
  | err x => simp
  | panic s => exact absurd hq (parseEnvelopeShape_no_panic b s)

/-- `Envelope.UnmarshalJSON` never panics, whatever text it is given and whatever the libraries say about it -/
theorem envelope_unmarshal_total (o : Outer) (site : String) : unmarshalEnvelope o ≠ .panic site := by
  cases o with
  | invalid => simp [unmarshalEnvelope]
  | str b => exact keepParsed_no_panic b site
  | other b => exact keepParsed_no_panic b site

/-- what `UnmarshalJSON` keeps: the bytes of the text itself, or the content of the JSON string -/
def _root_.Nuts.C12.Outer.bytes : Outer → Option EnvBytes
  | .invalid => none
  | .str b => some b
  | .other b => some b

theorem unmarshal_ok_iff (o : Outer) (raw : EnvBytes) (sh : Shape) :
    unmarshalEnvelope o = .ok (raw, sh) ↔ o.bytes = some raw ∧ parseEnvelopeShape raw = .ok sh := by
  cases o with
  | invalid => simp [unmarshalEnvelope, Outer.bytes]
  | str b => simp only [unmarshalEnvelope, Outer.bytes, keepParsed_ok_iff, Option.some.injEq]
  | other b => simp only [unmarshalEnvelope, Outer.bytes, keepParsed_ok_iff, Option.some.injEq]

/-- ARRAY ENVELOPES: accepted with n presentations exactly when the kept bytes are a JSON array of n entries and
    EVERY entry — the content of a string entry, the re-marshalled value of any other entry — parses as a
    presentation: no entry is skipped, none is added, a junk entry rejects the envelope. -/
theorem envelope_array_iff (o : Outer) (raw : EnvBytes) (n : Nat) :
    unmarshalEnvelope o = .ok (raw, .array n) ↔
      o.bytes = some raw ∧ ∃ es, raw.top = .array es ∧ es.length = n ∧ ∀ e ∈ es, parseSingleOK e.bytes = true := by
  rw [unmarshal_ok_iff]
  constructor
  · rintro ⟨hb, h⟩
    refine ⟨hb, ?_⟩
    unfold parseEnvelopeShape tryParseJSONArray at h
    cases ht : raw.top with
    | array es =>
      rw [ht] at h; simp only at h
      cases hr : parseArrayEntries es with
      | ok k =>
        rw [hr] at h; simp at h
        obtain ⟨hk, hall⟩ := parseArrayEntries_spec es k hr
        exact ⟨es, rfl, by omega, hall⟩
      | err x => rw [hr] at h; simp at h
      | panic s => rw [hr] at h; simp at h
    | invalid => rw [ht] at h; simp only at h; split at h <;> simp at h
    | other => rw [ht] at h; simp only at h; split at h <;> simp at h
  · rintro ⟨hb, es, ht, hn, hall⟩
    refine ⟨hb, ?_⟩
    unfold parseEnvelopeShape tryParseJSONArray
    rw [ht]; simp only
    rw [parseArrayEntries_complete es hall, hn]

/-- SINGLE ENVELOPES: accepted as one presentation exactly when the kept bytes are NOT a JSON array and go-did parses
    them — as a JWT that jwx can parse, or as another format whose text is valid JSON. A JSON array is never read as
    one presentation. -/
theorem envelope_single_iff (o : Outer) (raw : EnvBytes) :
    unmarshalEnvelope o = .ok (raw, .single) ↔
      o.bytes = some raw ∧ (∀ es, raw.top ≠ .array es) ∧
        (raw.vp = .jwt true ∨ (raw.vp = .ld ∧ raw.top.valid = true)) := by
  rw [unmarshal_ok_iff]
  have key : parseEnvelopeShape raw = .ok .single ↔
      (∀ es, raw.top ≠ .array es) ∧ (raw.vp = .jwt true ∨ (raw.vp = .ld ∧ raw.top.valid = true)) := by
    unfold parseEnvelopeShape tryParseJSONArray
    cases ht : raw.top with
    | array es =>
      simp only
      constructor
      · intro h
        cases hr : parseArrayEntries es with
        | ok k => rw [hr] at h; simp at h
        | err x => rw [hr] at h; simp at h
        | panic s => rw [hr] at h; simp at h
      · rintro ⟨h, _⟩; exact absurd rfl (h es)
    | invalid =>
      simp only [parseSingleOK, EnvBytes.single, ht, JTop.valid]
      cases hv : raw.vp with
      | bad => simp
      | jwt b => cases b <;> simp
      | ld => simp
    | other =>
      simp only [parseSingleOK, EnvBytes.single, ht, JTop.valid]
      cases hv : raw.vp with
      | bad => simp
      | jwt b => cases b <;> simp
      | ld => simp
  rw [key]

/-- STRING WRAPPING IS TRANSPARENT: a JSON string whose content is an envelope text (a JWT, but also an array or an
    object) is read exactly as that text itself. -/
theorem envelope_string_wrapping_transparent (b : EnvBytes) : unmarshalEnvelope (.str b) = unmarshalEnvelope (.other b) := rfl

/-- ROUND TRIP through the session store: an envelope that `UnmarshalJSON` accepted is marshalled without panic
    (`raw[0]` exists), and reading the marshalled text back yields the same bytes and the same parse.
    Library contracts used, both checked by the harness on every generated text: `hempty` — the empty byte string is
    neither valid JSON nor a presentation; `hjwt` — a text go-did takes for a JWT does not begin with `[` or `{`. -/
theorem envelope_json_round_trip (o : Outer) (raw : EnvBytes) (sh : Shape)
    (h : unmarshalEnvelope o = .ok (raw, sh))
    (hempty : raw.first = none → raw.vp = .bad ∧ raw.top = .invalid)
    (hjwt : raw.vp = .jwt true → ∀ c, raw.first = some c → asIsBytes.contains c = false) :
    ∃ m, marshalEnvelope asIsBytes raw = .ok m ∧ unmarshalEnvelope (reread raw m) = .ok (raw, sh) := by
  obtain ⟨_, hp⟩ := (unmarshal_ok_iff o raw sh).mp h
  cases hf : raw.first with
  | none =>
    obtain ⟨hv, ht⟩ := hempty hf
    unfold parseEnvelopeShape tryParseJSONArray at hp
    rw [ht] at hp
    simp [parseSingleOK, EnvBytes.single, hv] at hp
  | some c =>
    unfold marshalEnvelope
    rw [hf]; simp only
    by_cases hc : asIsBytes.contains c = true
    · rw [if_pos hc]
      refine ⟨.asIs, rfl, ?_⟩
      cases ht : raw.top with
      | invalid =>
        -- accepted with invalid JSON: only as a JWT; excluded by `hjwt`
        unfold parseEnvelopeShape tryParseJSONArray at hp
        rw [ht] at hp
        simp only [parseSingleOK, EnvBytes.single, ht, JTop.valid] at hp
        cases hv : raw.vp with
        | bad => rw [hv] at hp; simp at hp
        | ld => rw [hv] at hp; simp at hp
        | jwt b =>
          cases b with
          | false => rw [hv] at hp; simp at hp
          | true => have := hjwt hv c hf; rw [this] at hc; exact absurd hc (by simp)
      | array es => simp only [reread, ht]; exact (unmarshal_ok_iff (.other raw) raw sh).mpr ⟨rfl, hp⟩
      | other => simp only [reread, ht]; exact (unmarshal_ok_iff (.other raw) raw sh).mpr ⟨rfl, hp⟩
    · rw [if_neg hc]
      exact ⟨.quoted, rfl, (unmarshal_ok_iff (.str raw) raw sh).mpr ⟨rfl, hp⟩⟩

/-- the form on the wire: JSON-LD presentations and arrays go out as JSON values, everything else (JWT) as a string -/
theorem envelope_marshal_form (raw : EnvBytes) (m : Marshalled) (h : marshalEnvelope asIsBytes raw = .ok m) :
    (m = .asIs ↔ (raw.first = some '[' ∨ raw.first = some '{')) := by
  unfold marshalEnvelope at h
  cases hf : raw.first with
  | none => rw [hf] at h; simp at h
  | some c =>
    rw [hf] at h; simp only at h
    by_cases hc : asIsBytes.contains c = true
    · rw [if_pos hc] at h; simp at h; subst h
      simp [asIsBytes] at hc
      simp [hc]
    · rw [if_neg hc] at h; simp at h; subst h
      simp [asIsBytes] at hc
      simp [hc]

/-! ### non-vacuity -/

def xJwt : EnvBytes := { first := some 'e', top := .invalid, vp := .jwt true }
def xLd : EnvBytes := { first := some '{', top := .other, vp := .ld }
def xArr : EnvBytes :=
  { first := some '[', vp := .bad,
    top := .array [{ isString := true, asString := { vp := .jwt true } }, { isString := false, asMarshalled := { vp := .ld, validJSON := true } }] }

example : unmarshalEnvelope (.str xJwt) = .ok (xJwt, .single) := rfl
example : unmarshalEnvelope (.other xLd) = .ok (xLd, .single) := rfl
example : unmarshalEnvelope (.other xArr) = .ok (xArr, .array 2) := rfl
example : unmarshalEnvelope (.str xArr) = .ok (xArr, .array 2) := rfl
example : marshalEnvelope asIsBytes xJwt = .ok .quoted ∧ marshalEnvelope asIsBytes xArr = .ok .asIs := by decide
-- a junk entry rejects the array; the zero value of `Envelope` cannot be marshalled
example : unmarshalEnvelope (.other { xArr with top := .array [{ isString := true, asString := { vp := .jwt true } }, { isString := false }] }) = .err "entry" := rfl
example : marshalEnvelope asIsBytes { first := none, top := .invalid, vp := .bad } = .panic "raw[0]" := by decide
-- the hypotheses of the round trip are satisfiable together with acceptance
example : ∃ m, marshalEnvelope asIsBytes xJwt = .ok m ∧ unmarshalEnvelope (reread xJwt m) = .ok (xJwt, .single) :=
  envelope_json_round_trip (.str xJwt) xJwt .single rfl (by intro h; cases h) (by intro _ c hc; cases hc; decide)

end Nuts.C12.Props
