/-
  C01 — deepening round 2026-09-28: theorems about the layers that were inputs of the first model
  (NutsModel/C01/Subject.lean): the type-specific credentialSubject validators, the presentation dates read by
  auth/api/iam, the wallet's DID-method filter and AutoCorrectSelfAttestedCredential.
-/
import NutsModel.C01.Subject
import NutsModel.Facts.C01
import NutsProofs.Props.C01
namespace Nuts.C01.Props
open Nuts.C01

/-! ## 1. the validators' loops are universal statements -/

theorem operationsValid_iff (valid : List String) (os : List String) :
    operationsValid valid os = true ↔ ∀ o ∈ os, validOperation valid o = true := by
  induction os with
  | nil => simp [operationsValid]
  | cons o os ih =>
    unfold operationsValid
    cases h : validOperation valid o <;> simp [h, ih]

/-- one step of validateResources as a conjunction -/
theorem validateResources_cons (valid : List String) (r : Resource) (rs : List Resource) :
    validateResources valid (r :: rs) =
      (!blank r.path && !(r.operations.length == 0) && operationsValid valid r.operations && validateResources valid rs) := by
  rw [validateResources]
  cases blank r.path <;> cases (r.operations.length == 0) <;> cases operationsValid valid r.operations <;> rfl

/-- validateResources accepts exactly when EVERY resource (not only the first, not only up to some position) has a non-blank
    path, at least one operation, and only operations of the allow-list (compared in lower case) -/
theorem validateResources_iff (valid : List String) (rs : List Resource) :
    validateResources valid rs = true ↔
      ∀ r ∈ rs, blank r.path = false ∧ r.operations ≠ [] ∧ ∀ o ∈ r.operations, validOperation valid o = true := by
  induction rs with
  | nil => simp [validateResources]
  | cons r rs ih =>
    rw [validateResources_cons]
    simp only [Bool.and_eq_true, Bool.not_eq_true', ih, operationsValid_iff, List.mem_cons, forall_eq_or_imp, beq_eq_false_iff_ne, ne_eq,
      List.length_eq_zero_iff]
    constructor
    · rintro ⟨⟨⟨a, b⟩, c⟩, d⟩; exact ⟨⟨a, b, c⟩, d⟩
    · rintro ⟨⟨a, b, c⟩, d⟩; exact ⟨⟨⟨a, b⟩, c⟩, d⟩

/-- resources are judged one by one: a list is accepted iff both halves are (no resource is skipped after an accepted one) -/
theorem validateResources_append (valid : List String) (a b : List Resource) :
    validateResources valid (a ++ b) = (validateResources valid a && validateResources valid b) := by
  induction a with
  | nil => simp [validateResources]
  | cons r rs ih =>
    simp only [List.cons_append, validateResources_cons, ih, Bool.and_assoc]

/-- a blank string has only white-space runes — in particular it is not a DID, a name or a purpose -/
theorem blank_iff (s : String) : blank s = true ↔ ∀ c ∈ s.toList, isGoSpace c = true := by
  unfold blank; simp

theorem authShape_iff (valid : List String) (E : Env) (s : SubjectView) :
    authShape valid E s = true ↔
      s.n = 1 ∧ blank s.id = false ∧ (E.parseDID s.id).isSome = true ∧ blank s.purposeOfUse = false ∧
      validateResources valid s.resources = true := by
  unfold authShape
  by_cases h1 : s.n = 1 <;> cases h2 : blank s.id <;> cases h3 : E.parseDID s.id <;> cases h4 : blank s.purposeOfUse <;>
    cases h5 : validateResources valid s.resources <;> simp [h1]

theorem orgShape_iff (E : Env) (s : SubjectView) :
    orgShape E s = true ↔
      s.n = 1 ∧ s.orgNil = false ∧ s.id ≠ "" ∧ (E.parseDID s.id).isSome = true ∧
      (∃ n, s.orgName = some n ∧ blank n = false) ∧ (∃ n, s.orgCity = some n ∧ blank n = false) := by
  unfold orgShape
  by_cases h1 : s.n = 1 <;> cases h2 : s.orgNil <;> by_cases h3 : s.id = "" <;> cases h4 : E.parseDID s.id <;>
    cases h5 : s.orgName <;> cases h6 : s.orgCity <;> simp [h1, h3]
  all_goals (rename_i n c; cases blank n <;> cases blank c <;> simp)

/-! ## 2. what an accepted Nuts credential guarantees about its subject (composition with `verify`) -/

theorem validateNuts_pass_shape {E : Env} {ty : String} {c : Cred} (h : validateNuts E ty c = .pass) : c.shapeOK = true := by
  unfold validateNuts at h
  cases hv : validateNutsCredentialID E c with
  | pass =>
    rw [hv] at h
    simp only at h
    cases hs : c.shapeOK with
    | true => rfl
    | false => rw [hs] at h; simp at h
  | fail e => rw [hv] at h; cases h
  | panic e => rw [hv] at h; cases h

theorem validate_pass_shape {E : Env} {c : Cred} (h : validate E c = .pass) (hv : findValidator c.types ≠ .default) :
    c.shapeOK = true := by
  unfold validate at h
  cases hf : findValidator c.types with
  | default => exact absurd hf hv
  | org => rw [hf] at h; exact validateNuts_pass_shape h
  | auth => rw [hf] at h; exact validateNuts_pass_shape h

/-- END TO END (decoded subject → verdict): a NutsAuthorizationCredential that `Verify` reports valid — with or without signature check,
    trusted or not — names exactly one subject whose id is a DID, has a non-blank purposeOfUse, and EVERY one of its resources has a
    non-blank path, at least one operation, and only operations of `validOperationTypes()` as regenerated from the source. -/
theorem accepted_authorization_credential_is_well_formed (cfg : Cfg) (P : Crypto) (E : Env) (au cs : Bool) (at_ : Option Time)
    (c : Cred) (s : SubjectView)
    (h : verify cfg P E au cs at_ (c.withSubject Nuts.Facts.C01.validOperationTypes E s) = .ok ())
    (ht : findValidator c.types = .auth) :
    s.n = 1 ∧ blank s.id = false ∧ (E.parseDID s.id).isSome = true ∧ blank s.purposeOfUse = false ∧
    ∀ r ∈ s.resources, blank r.path = false ∧ r.operations ≠ [] ∧
      ∀ o ∈ r.operations, goLower o ∈ Nuts.Facts.C01.validOperationTypes := by
  have hv := (verify_ok_iff.mp h).1
  have hs : (c.withSubject Nuts.Facts.C01.validOperationTypes E s).shapeOK = true :=
    validate_pass_shape hv (by show findValidator c.types ≠ .default; rw [ht]; decide)
  simp only [Cred.withSubject, shapeOf, ht] at hs
  obtain ⟨h1, h2, h3, h4, h5⟩ := (authShape_iff _ _ _).mp hs
  refine ⟨h1, h2, h3, h4, ?_⟩
  intro r hr
  obtain ⟨a, b, c'⟩ := (validateResources_iff _ _).mp h5 r hr
  refine ⟨a, b, ?_⟩
  intro o ho
  have := c' o ho
  unfold validOperation at this
  exact List.contains_iff_mem.mp this

/-- a NutsOrganizationCredential reported valid names exactly one subject whose id is a DID and an organization with a non-blank
    name and city -/
theorem accepted_organization_credential_is_well_formed (cfg : Cfg) (P : Crypto) (E : Env) (au cs : Bool) (at_ : Option Time)
    (c : Cred) (s : SubjectView) (valid : List String)
    (h : verify cfg P E au cs at_ (c.withSubject valid E s) = .ok ())
    (ht : findValidator c.types = .org) :
    s.n = 1 ∧ s.orgNil = false ∧ s.id ≠ "" ∧ (E.parseDID s.id).isSome = true ∧
    (∃ n, s.orgName = some n ∧ blank n = false) ∧ (∃ n, s.orgCity = some n ∧ blank n = false) := by
  have hv := (verify_ok_iff.mp h).1
  have hs : (c.withSubject valid E s).shapeOK = true :=
    validate_pass_shape hv (by show findValidator c.types ≠ .default; rw [ht]; decide)
  simp only [Cred.withSubject, shapeOf, ht] at hs
  exact (orgShape_iff _ _).mp hs

/-- the subject of other credential types is not inspected by the validator (the default validator never reads it) -/
theorem other_types_subject_is_not_validated (valid : List String) (E : Env) (c : Cred) (s s' : SubjectView)
    (ht : findValidator c.types = .default) :
    validate E (c.withSubject valid E s) = validate E (c.withSubject valid E s') := by
  unfold validate
  simp only [Cred.withSubject, ht]
  rfl

/-! ## 3. presentation dates (util.go) agree with the window the verifier enforced -/

theorem nonZero_some {t u : Time} : nonZero t = some u ↔ t = u ∧ t ≠ zeroTime := by
  unfold nonZero
  by_cases h : t = zeroTime
  · simp [h]
  · simp [h]

theorem parseLDProof_some {vp : Pres} {p : Proof} (h : parseLDProof vp = some p) : vp.proof = .one p ∧ vp.nProofs = 1 := by
  unfold parseLDProof at h
  cases hd : vp.proofDecodes <;> by_cases hn : vp.nProofs = 1 <;> cases hp : vp.proof <;> simp [hd, hn, hp] at h
  subst h
  exact ⟨rfl, hn⟩

/-- the dates the IAM layer reads are SIGNED members: the `created` / `expires` options of the one proof that `jsonldProof`
    canonicalises, or the nbf/iat/exp claims of the token -/
theorem presentation_dates_are_signed_members (vp : Pres) (t : Time) :
    (presentationIssuanceDate vp = .ok (some t) →
      match vp.format with
      | .ld => ∃ p, vp.proof = .one p ∧ vp.nProofs = 1 ∧ p.created = t
      | .jwt => ∃ j, vp.jwt = some j ∧ (j.nbf = some t ∨ ((j.nbf = none ∨ j.nbf = some zeroTime) ∧ j.iat = some t))
      | .other => False) ∧
    (presentationExpirationDate vp = .ok (some t) →
      match vp.format with
      | .ld => ∃ p, vp.proof = .one p ∧ vp.nProofs = 1 ∧ p.expires = some t
      | .jwt => ∃ j, vp.jwt = some j ∧ j.exp = some t
      | .other => False) := by
  constructor
  · intro h
    unfold presentationIssuanceDate at h
    cases hf : vp.format with
    | ld =>
      simp only [hf] at h ⊢
      cases hp : parseLDProof vp with
      | none => rw [hp] at h; simp at h
      | some p =>
        rw [hp] at h
        simp only [Res.ok.injEq] at h
        obtain ⟨a, b⟩ := parseLDProof_some hp
        exact ⟨p, a, b, (nonZero_some.mp h).1⟩
    | jwt =>
      simp only [hf] at h ⊢
      cases hj : vp.jwt with
      | none => rw [hj] at h; cases h
      | some j =>
        rw [hj] at h
        simp only [Res.ok.injEq] at h
        refine ⟨j, rfl, ?_⟩
        obtain ⟨he, hz⟩ := nonZero_some.mp h
        unfold claimTime at he hz
        cases hn : j.nbf with
        | none =>
          rw [hn] at he hz
          simp only [Option.getD_none, beq_self_eq_true, if_true] at he hz
          cases hi : j.iat with
          | none => rw [hi] at hz; simp at hz
          | some i => rw [hi] at he; simp at he; right; exact ⟨Or.inl rfl, by rw [he]⟩
        | some n =>
          rw [hn] at he hz
          by_cases hnz : n = zeroTime
          · subst hnz
            simp only [Option.getD_some, beq_self_eq_true, if_true] at he hz
            cases hi : j.iat with
            | none => rw [hi] at hz; simp at hz
            | some i => rw [hi] at he; simp at he; right; exact ⟨Or.inr rfl, by rw [he]⟩
          · simp [hnz] at he; left; rw [he]
    | other => simp only [hf] at h; simp at h
  · intro h
    unfold presentationExpirationDate at h
    cases hf : vp.format with
    | ld =>
      simp only [hf] at h ⊢
      cases hp : parseLDProof vp with
      | none => rw [hp] at h; simp at h
      | some p =>
        rw [hp] at h
        simp only at h
        obtain ⟨a, b⟩ := parseLDProof_some hp
        cases he : p.expires with
        | none => rw [he] at h; simp at h
        | some e =>
          rw [he] at h
          simp only [Res.ok.injEq] at h
          exact ⟨p, a, b, by rw [he, (nonZero_some.mp h).1]⟩
    | jwt =>
      simp only [hf] at h ⊢
      cases hj : vp.jwt with
      | none => rw [hj] at h; cases h
      | some j =>
        rw [hj] at h
        simp only [Res.ok.injEq] at h
        refine ⟨j, rfl, ?_⟩
        obtain ⟨he, hz⟩ := nonZero_some.mp h
        unfold claimTime at he hz
        cases hx : j.exp with
        | none => rw [hx] at hz; simp at hz
        | some e => rw [hx] at he; simp at he; rw [he]
    | other => simp only [hf] at h; simp at h

/-- END TO END (presentation → verdict → dates): for a JSON-LD presentation that `VerifyVP` reports valid at time `t`, the issuance
    date util.go reports is not later than `t + maxSkew`, and a reported expiration date is not earlier than `t − maxSkew`: the window
    the IAM layer derives from the dates contains the validation time (± skew) the verifier enforced. -/
theorem verified_presentation_dates_contain_validation_time (cfg : Cfg) (P : Crypto) (E : Env) (vf au : Bool) (at_ : Option Time)
    (vp : Pres) (hf : vp.format = .ld) (h : verifyVP cfg P E vf au at_ vp = .ok ()) :
    (∀ t, presentationIssuanceDate vp = .ok (some t) → t ≤ atOf E at_ + cfg.maxSkew) ∧
    (∀ e, presentationExpirationDate vp = .ok (some e) → atOf E at_ ≤ e + cfg.maxSkew) := by
  obtain ⟨s, d, _, _, _, _, hsig, _⟩ := verifyVP_ok_iff.mp h
  unfold VpSigValid at hsig
  simp only [hf] at hsig
  obtain ⟨_, _, p, k, hp, _, _, _, _, _, hv⟩ := hsig
  simp only at hp
  have hw := (proofValidAt_iff cfg p _).mp hv
  constructor
  · intro t ht
    have := (presentation_dates_are_signed_members vp t).1 ht
    simp only [hf] at this
    obtain ⟨p', hp', _, hc⟩ := this
    rw [hp] at hp'; injection hp' with hp'; subst hp'
    rw [← hc]; exact hw.1
  · intro e he
    have := (presentation_dates_are_signed_members vp e).2 he
    simp only [hf] at this
    obtain ⟨p', hp', _, hc⟩ := this
    rw [hp] at hp'; injection hp' with hp'; subst hp'
    exact hw.2 e hc

/-! ## 4. FilterOnDIDMethod -/

/-- the filter only removes: the result is a sublist of the wallet's credentials, in order -/
theorem filterOnDIDMethod_sublist {α} (view : α → MethodView) (creds : List α) (methods : List String) :
    List.Sublist (filterOnDIDMethod view creds methods) creds := by
  unfold filterOnDIDMethod
  split
  · exact List.Sublist.refl _
  · exact List.filter_sublist

theorem subjectsMatch_iff (methods : List String) (l : List (String × Option String)) :
    subjectsMatch methods l = true ↔ ∀ x ∈ l, x.1 ≠ "" → ∀ m, x.2 = some m → m ∈ methods := by
  induction l with
  | nil => simp [subjectsMatch]
  | cons x rest ih =>
    obtain ⟨id, m⟩ := x
    unfold subjectsMatch
    by_cases hid : id = ""
    · subst hid; simp [ih]
    · cases m with
      | none => simp [hid, ih]
      | some mm =>
        by_cases hc : methods.contains mm = true
        · have hm : mm ∈ methods := List.contains_iff_mem.mp hc
          simp [hid, hc, ih, hm]
        · have hm : ¬ mm ∈ methods := fun h => hc (List.contains_iff_mem.mpr h)
          simp [hid, hc, hm]

/-- with a non-empty method list, every credential the wallet offers has an issuer whose DID method is listed (when the issuer
    is a DID at all) and only subjects whose DID method is listed (for every subject id that is a DID); a credential whose
    subject does not decode is never offered; every credential meeting this is kept (nothing else is dropped) -/
theorem filterOnDIDMethod_spec {α} (view : α → MethodView) (creds : List α) (methods : List String) (hm : methods ≠ []) (c : α) :
    c ∈ filterOnDIDMethod view creds methods ↔
      c ∈ creds ∧ (∀ m, (view c).issuerMethod = some m → m ∈ methods) ∧
      ∃ l, (view c).subjects = some l ∧ ∀ x ∈ l, x.1 ≠ "" → ∀ m, x.2 = some m → m ∈ methods := by
  unfold filterOnDIDMethod
  have : (methods.length == 0) = false := by cases methods with | nil => exact absurd rfl hm | cons _ _ => rfl
  simp only [this, Bool.false_eq_true, if_false, List.mem_filter, keepOnMethod, Bool.and_eq_true]
  constructor
  · rintro ⟨hc, hi, hs⟩
    refine ⟨hc, ?_, ?_⟩
    · intro m hmm; rw [hmm] at hi; exact List.contains_iff_mem.mp hi
    · cases hl : (view c).subjects with
      | none => rw [hl] at hs; cases hs
      | some l => rw [hl] at hs; exact ⟨l, rfl, (subjectsMatch_iff methods l).mp hs⟩
  · rintro ⟨hc, hi, l, hl, hs⟩
    refine ⟨hc, ?_, ?_⟩
    · cases hmm : (view c).issuerMethod with
      | none => rfl
      | some m => exact List.contains_iff_mem.mpr (hi m hmm)
    · rw [hl]; exact (subjectsMatch_iff methods l).mpr hs

/-- no method list = no filter -/
theorem filterOnDIDMethod_empty {α} (view : α → MethodView) (creds : List α) : filterOnDIDMethod view creds [] = creds := rfl

/-! ## 5. AutoCorrectSelfAttestedCredential -/

/-- a credential that carries a proof is never altered (auto-correction cannot invalidate or re-attribute a signed document) -/
theorem autoCorrect_leaves_signed_unchanged (c : SelfAttested) (r u : String) (now : Time) (h : c.nProofs > 0) :
    autoCorrect c r u now = c := by
  unfold autoCorrect; simp [h]

/-- members that are present are kept: only an absent id / empty issuer / zero date / absent subject id is filled in -/
theorem autoCorrect_only_fills_gaps (c : SelfAttested) (r u : String) (now : Time) :
    let c' := autoCorrect c r u now
    c'.nProofs = c.nProofs ∧ (c.id.isSome → c'.id = c.id) ∧ (c.issuer ≠ "" → c'.issuer = c.issuer) ∧
    (c.issued ≠ zeroTime → c'.issued = c.issued) ∧ (c.subject0HasId = true → c'.subject0Id = c.subject0Id) ∧ c'.nSubjects = c.nSubjects := by
  simp only [autoCorrect]
  by_cases hp : c.nProofs > 0
  · simp [hp]
  · simp only [hp, if_false]
    cases hid : c.id <;> by_cases hi : c.issuer = "" <;> by_cases hz : c.issued = zeroTime <;>
      by_cases hs : c.nSubjects = some 1 <;> cases hh : c.subject0HasId <;> simp [hid, hi, hz, hs, hh]

/-- an unsigned single-subject credential comes out attributed to the requester: issuer and subject id are set -/
theorem autoCorrect_attributes_to_requester (c : SelfAttested) (r u : String) (now : Time)
    (hp : c.nProofs = 0) (hi : c.issuer = "") (hs : c.nSubjects = some 1) (hh : c.subject0HasId = false) (hr : r ≠ "") :
    let c' := autoCorrect c r u now
    c'.issuer = r ∧ c'.subject0Id = some r ∧ c'.id.isSome = true := by
  simp only [autoCorrect, hp, Nat.lt_irrefl, if_false]
  cases hid : c.id <;> by_cases hz : c.issued = zeroTime <;> simp [hid, hi, hz, hs, hh, hr]

/-! ## non-vacuity -/

def exAuthSubj : SubjectView :=
  { n := 1, id := "did:x:s", purposeOfUse := "care", resources := [{ path := "/Patient", operations := ["READ", "vread"] }] }
def exAuthCred : Cred := { exC with types := [vcType, authType], ctx := [vcContextV1, nutsContextV1] }
def exE3 : Env := { exE with trusted := fun _ _ => true, parseDID := fun s => if s == "did:x:s" then some s else exE.parseDID s }

example : findValidator exAuthCred.types = .auth := by decide
example : (verify exCfg exP exE3 true false (some 2000) (exAuthCred.withSubject Nuts.Facts.C01.validOperationTypes exE3 exAuthSubj)) = .ok () := by decide
example : (verify exCfg exP exE3 true false (some 2000) (exAuthCred.withSubject Nuts.Facts.C01.validOperationTypes exE3
    { exAuthSubj with resources := exAuthSubj.resources ++ [{ path := "/x", operations := ["read", "write"] }] })) = .err "invalid" := by decide
example : validOperation Nuts.Facts.C01.validOperationTypes "Read" = true ∧ validOperation Nuts.Facts.C01.validOperationTypes "reads" = false ∧
    blank " \t " = true ∧ blank "​" = false := by decide
example : orgShape exE3 { n := 1, id := "did:x:s", orgNil := false, orgName := some "C", orgCity := some " " } = false ∧
    orgShape exE3 { n := 1, id := "did:x:s", orgNil := false, orgName := some "C", orgCity := some "U" } = true := by decide

example : presentationIssuanceDate exVP = .ok (some 1000) ∧ exVP.format = .ld := by decide
example : presentationIssuanceDate { format := .jwt, jwt := some { nbf := none, iat := some 5 } } = .ok (some 5) := by decide
example : presentationExpirationDate { format := .ld, nProofs := 2, proof := .one { expires := some 7 } } = .ok none := by decide
example : filterOnDIDMethod id [⟨some "web", some [("did:web:a", some "web")]⟩, ⟨some "nuts", some []⟩, ⟨none, none⟩] ["web"]
    = [⟨some "web", some [("did:web:a", some "web")]⟩] := by decide
example : (autoCorrect { nProofs := 0, id := none, issuer := "", issued := zeroTime, nSubjects := some 1, subject0HasId := false, subject0Id := none } "did:x:r" "u" 12345).issued = 12000 := by decide

/-! ## regenerated facts -/

def validOperationTypesSrc : List String := ["read", "vread", "update", "patch", "delete", "history", "create", "search", "document"]

/-- the allow-list the model uses IS the regenerated one; pinned here so that an edit of the list is visible (the theorems above
    hold for whatever the source lists); every entry is lower-case ASCII — the premise of `lowerRune` being a faithful stand-in for
    unicode.ToLower in `validOperation` -/
theorem fact_valid_operation_types : Nuts.Facts.C01.validOperationTypes = validOperationTypesSrc ∧
    Nuts.Facts.C01.validOperationTypes.all (fun s => s.toList.all (fun c => 'a'.toNat ≤ c.toNat && c.toNat ≤ 'z'.toNat)) = true := by decide

def validateResourcesReturnsSrc : List String :=
  ["range resources && len(strings.TrimSpace(r.Path)) == 0 => fmt.Errorf(\"%w: 'credentialSubject.Resources[].Path' is required'\",errValidation)", "range resources && len(r.Operations) == 0 => fmt.Errorf(\"%w: 'credentialSubject.Resources[].Operations[]' requires at least one value\",errValidation)", "range resources && range r.Operations && !validOperation(o) => fmt.Errorf(\"%w: 'credentialSubject.Resources[].Operations[]' contains an invalid operation '%s'\",errValidation,o)"]
def validOperationReturnsSrc : List String :=
  ["range validOperationTypes() && o == strings.ToLower(operation) => true", " => false"]
def parseLDProofReturnsSrc : List String :=
  ["err := presentation.UnmarshalProofValue(&proofs); err != nil => fmt.Errorf(\"invalid LD-proof for presentation: %w\",err)", "len(proofs) != 1 => fmt.Errorf(\"presentation should have exactly 1 proof, got %d\",len(proofs))"]
def guards_nutsOrganizationCredentialValidatorSrc : List String :=
  ["err != nil", "!credential.IsType(*NutsOrganizationCredentialTypeURI)", "!credential.ContainsContext(NutsV1ContextURI)", "len(target) != 1", "cs.Organization == nil", "cs.ID == \"\"", "_,err = did.ParseDID(cs.ID); err != nil", "n,ok := cs.Organization[\"name\"]; !ok || len(strings.TrimSpace(n)) == 0", "c,ok := cs.Organization[\"city\"]; !ok || len(strings.TrimSpace(c)) == 0"]
def guards_nutsAuthorizationCredentialValidatorSrc : List String :=
  ["err != nil", "!credential.IsType(*NutsAuthorizationCredentialTypeURI)", "!credential.ContainsContext(NutsV1ContextURI)", "len(target) != 1", "len(strings.TrimSpace(cs.ID)) == 0", "_,err = did.ParseDID(cs.ID); err != nil", "len(strings.TrimSpace(cs.PurposeOfUse)) == 0", "err != nil"]
def flow_PresentationIssuanceDateSrc : List String :=
  ["case vc.JWTPresentationProofFormat", "jwt := presentation.JWT()", "if result = jwt.NotBefore(); result.IsZero()", "result = jwt.NotBefore()", "result = jwt.IssuedAt()", "case vc.JSONLDPresentationProofFormat", "ldProof,err := ParseLDProof(presentation)", "if err != nil", "return nil", "result = ldProof.Created", "if result.IsZero()", "return nil", "return &result"]
def flow_PresentationExpirationDateSrc : List String :=
  ["case vc.JWTPresentationProofFormat", "result = presentation.JWT().Expiration()", "case vc.JSONLDPresentationProofFormat", "ldProof,err := ParseLDProof(presentation)", "if err != nil || ldProof.Expires == nil", "return nil", "result = *ldProof.Expires", "if result.IsZero()", "return nil", "return &result"]
def flow_FilterOnDIDMethodSrc : List String :=
  ["if len(didMethods) == 0", "return credentials", "range credentials", "issuerDID,err := did.ParseDID(credential.Issuer.String())", "if err == nil", "if !slices.Contains(didMethods,issuerDID.Method)", "continue", "bl := make(<*ast.ArrayType>,0)", "err = credential.UnmarshalCredentialSubject(&bl)", "if err != nil", "continue", "range bl", "if b.ID != \"\"", "subjectDID,err := did.ParseDID(b.ID)", "if err == nil", "if !slices.Contains(didMethods,subjectDID.Method)", "continue outer", "result = append(result,credential)", "return result"]
def flow_AutoCorrectSelfAttestedCredentialSrc : List String :=
  ["if len(credential.Proof) > 0", "return credential", "if credential.ID == nil", "credential.ID,_ = ssi.ParseURI(uuid.NewString())", "if credential.Issuer.String() == \"\"", "credential.Issuer = requester.URI()", "if credential.IssuanceDate.IsZero()", "credential.IssuanceDate = time.Now().Truncate(time.Second)", "_ = credential.UnmarshalCredentialSubject(&credentialSubject)", "if len(credentialSubject) == 1", "if credentialSubject[0] == nil", "credentialSubject[0] = make(<*ast.MapType>)", "if _,ok := credentialSubject[0][\"id\"]; !ok", "_,ok := credentialSubject[0][\"id\"]", "credentialSubject[0][\"id\"] = requester.String()", "credential.CredentialSubject[0] = credentialSubject[0]", "return credential"]

/-- the control flow the model of NutsModel/C01/Subject.lean mirrors, statement by statement: the subject validators' guards in
    source order (incl. the ignored Unmarshal error and the length check), validateResources / validOperation, ParseLDProof, and the
    four util.go functions; an edit of any of them fails here until the model is re-read against the source -/
theorem fact_subject_and_util_control_flow :
    Nuts.Facts.C01.validateResourcesReturns = validateResourcesReturnsSrc ∧
    Nuts.Facts.C01.validOperationReturns = validOperationReturnsSrc ∧
    Nuts.Facts.C01.parseLDProofReturns = parseLDProofReturnsSrc ∧
    Nuts.Facts.C01.guards_nutsOrganizationCredentialValidator = guards_nutsOrganizationCredentialValidatorSrc ∧
    Nuts.Facts.C01.guards_nutsAuthorizationCredentialValidator = guards_nutsAuthorizationCredentialValidatorSrc ∧
    Nuts.Facts.C01.flow_PresentationIssuanceDate = flow_PresentationIssuanceDateSrc ∧
    Nuts.Facts.C01.flow_PresentationExpirationDate = flow_PresentationExpirationDateSrc ∧
    Nuts.Facts.C01.flow_FilterOnDIDMethod = flow_FilterOnDIDMethodSrc ∧
    Nuts.Facts.C01.flow_AutoCorrectSelfAttestedCredential = flow_AutoCorrectSelfAttestedCredentialSrc := by
  refine ⟨rfl, rfl, rfl, rfl, rfl, rfl, rfl, rfl, rfl⟩

/-! ## wave 8: the subject rule is ∀ (not ∃); a read fault of the revocation store is never "valid" -/

/-- a presentation that carries ONE credential whose subject is not the signer is rejected — wherever that credential stands, whatever
    else the presentation carries (credentials about the signer included), with or without verification of the credentials -/
theorem presentation_with_foreign_credential_is_rejected (cfg : Cfg) (P : Crypto) (E : Env) (vf au : Bool) (at_ : Option Time)
    (vp : Pres) (s : String) (c : Cred) (hs : presentationSigner E vp = some s) (hc : c ∈ vp.vcs) (hne : subjectDID c ≠ some s) :
    verifyVP cfg P E vf au at_ vp ≠ .ok () := by
  intro h
  obtain ⟨s', d, hs', hd, hsd, _, _, _⟩ := verifyVP_ok_iff.mp h
  rw [hs] at hs'; injection hs' with hs'; subst hs'
  rcases resolveSubjectDID_all hd with ⟨hnil, _⟩ | ⟨_, hsub⟩
  · rw [hnil] at hc; cases hc
  · cases hsd with
    | inl e => rw [e] at hne; exact hne (hsub c hc)
    | inr e => rw [e] at hc; cases hc

/-- when the revocation store cannot answer, no credential that has an id is reported valid — by `Verify` under any flags (so neither
    by the API, nor by Resolve / Search / wallet.List, which all call it) -/
theorem revocation_store_fault_is_never_valid (cfg : Cfg) (P : Crypto) (E : Env) (au cs : Bool) (at_ : Option Time) (c : Cred)
    (hf : E.storeFails = true) (hid : c.id.isSome = true) :
    verify cfg P E au cs at_ c ≠ .ok () := by
  intro h
  obtain ⟨_, _, hrev, _⟩ := verify_ok_iff.mp h
  cases hi : c.id with
  | none => rw [hi] at hid; cases hid
  | some id => have := (hrev id hi).1; rw [hf] at this; cases this

/-- … nor inside a presentation whose credentials are verified -/
theorem revocation_store_fault_is_never_valid_vp (cfg : Cfg) (P : Crypto) (E : Env) (au : Bool) (at_ : Option Time) (vp : Pres) (c : Cred)
    (hf : E.storeFails = true) (hc : c ∈ vp.vcs) (hid : c.id.isSome = true) :
    verifyVP cfg P E true au at_ vp ≠ .ok () := by
  intro h
  obtain ⟨_, _, _, _, _, _, _, hvcs⟩ := verifyVP_ok_iff.mp h
  exact revocation_store_fault_is_never_valid cfg P E au _ at_ c hf hid (hvcs rfl c hc)

example : verifyVP exCfg exP exE2 true false (some 2000) { exVP with vcs := [exC, { exC with subjects := some [.did "did:x:victim"] }] } ≠ .ok () := by decide
example : verifyVP exCfg exP exE2 true false (some 2000) { exVP with vcs := [{ exC with subjects := some [.did "did:x:victim"] }, exC] } ≠ .ok () := by decide
example : verify exCfg exP { exE with storeFails := true } false true (some 2000) exC = .err "store-error" := by decide

def getRevocationsReturnsSrc : List String :=
  [ "results,err := s.revocationCollection().Find(context.Background(),query); err != nil => fmt.Errorf(\"error while getting revocation by id: %w\",err)",
    "len(results) == 0 => ErrNotFound",
    "range results && err := json.Unmarshal(result,revocation); err != nil => err" ]

/-- the real store's read keeps its two outcomes apart: a failing query is an error of its own, only an empty result is ErrNotFound
    (which IsRevoked — pinned by fact_wiring — turns into "not revoked") -/
theorem fact_revocation_store_read_errors : Nuts.Facts.C01.getRevocationsReturns = getRevocationsReturnsSrc := by rfl

/-- the curve → algorithm switch of crypto/jwx.AlgorithmFitsKey, regenerated from the source, IS the model's `algorithmFitsKey`
    (for every algorithm and key kind); the switch's default lets other curves pass -/
theorem fact_algorithm_fits_key_table (alg kind : String) :
    algorithmFitsKey alg kind = algorithmFitsKeyT Nuts.Facts.C01.curveAlgTable alg kind ∧ Nuts.Facts.C01.curveAlgDefault = "true" := by
  refine ⟨?_, rfl⟩
  unfold algorithmFitsKey algorithmFitsKeyT Nuts.Facts.C01.curveAlgTable
  by_cases h1 : kind = "P-256"
  · subst h1; simp [List.find?]
  · by_cases h2 : kind = "P-384"
    · subst h2; simp [List.find?]
    · by_cases h3 : kind = "P-521"
      · subst h3; simp [List.find?]
      · have e1 : ("P-256" == kind) = false := by simp; exact fun h => h1 h.symm
        have e2 : ("P-384" == kind) = false := by simp; exact fun h => h2 h.symm
        have e3 : ("P-521" == kind) = false := by simp; exact fun h => h3 h.symm
        simp [List.find?, h1, h2, h3, e1, e2, e3]

/-- the status-list constants the default validator and the status check compare with are the source's -/
theorem fact_status_list_constants : Nuts.Facts.C01.c_StatusList2021EntryType = statusListEntryType ∧
    Nuts.Facts.C01.c_W3cStatusList2021Context = statusListContext ∧
    Nuts.Facts.C01.c_StatusList2021ContextURI_expr = "ssi.MustParseURI(jsonld.W3cStatusList2021Context)" := by decide

/-! ## compositions across layers: issuer → validator → subject; REST → VerifyVP -/

theorem issued_credential_passes_its_validator (P : Crypto) (E : Env) (sign : Key → Bytes → Sig) (allDefined : Cred → Bool)
    (rawOf : Cred → String) (fmt : Format) (t : Template) (uuid : String) (now : Time) (c : Cred)
    (h : issue P E sign allDefined rawOf fmt t uuid now = .ok c) :
    validate E c = .pass ∧ c.shapeOK = t.shapeOK ∧ c.types = (if t.types.contains vcType then t.types else t.types ++ [vcType]) := by
  unfold issue at h
  cases hd : E.parseDID t.issuer with
  | none => simp [hd] at h
  | some d =>
    simp only [hd] at h
    cases hk : resolveKey E d with
    | none => simp [hk] at h
    | some kk =>
      obtain ⟨kid, key⟩ := kk
      simp only [hk] at h
      split at h
      · cases h
      · cases fmt with
        | other => simp at h
        | ld =>
          simp only at h
          split at h
          · cases h
          · split at h
            · rename_i hv
              split at h
              · cases h
              · injection h with h; subst h
                exact ⟨hv, rfl, rfl⟩
            · cases h
            · cases h
        | jwt =>
          simp only at h
          split at h
          · cases h
          · split at h
            · rename_i hv
              injection h with h; subst h
              exact ⟨hv, rfl, rfl⟩
            · cases h
            · cases h

theorem findValidator_append_vcType (ts : List String) : findValidator (ts ++ [vcType]) = findValidator ts := by
  unfold findValidator
  simp [List.filter_append]

/-- END TO END (template → issuer → subject): the node's own issuer never signs-and-returns a NutsAuthorizationCredential whose subject is
    malformed: whatever `Issue` returns has one subject with a DID id, a non-blank purposeOfUse and only well-formed resources with
    operations of the regenerated allow-list -/
theorem issuer_refuses_malformed_authorization_credential (P : Crypto) (E : Env) (sign : Key → Bytes → Sig) (allDefined : Cred → Bool)
    (rawOf : Cred → String) (fmt : Format) (t : Template) (uuid : String) (now : Time) (c : Cred) (s : SubjectView)
    (hs : t.shapeOK = shapeOf Nuts.Facts.C01.validOperationTypes E t.types s) (ht : findValidator t.types = .auth)
    (h : issue P E sign allDefined rawOf fmt t uuid now = .ok c) :
    s.n = 1 ∧ blank s.id = false ∧ (E.parseDID s.id).isSome = true ∧ blank s.purposeOfUse = false ∧
    ∀ r ∈ s.resources, blank r.path = false ∧ r.operations ≠ [] ∧
      ∀ o ∈ r.operations, goLower o ∈ Nuts.Facts.C01.validOperationTypes := by
  obtain ⟨hv, hsh, hty⟩ := issued_credential_passes_its_validator P E sign allDefined rawOf fmt t uuid now c h
  have hfc : findValidator c.types = .auth := by
    rw [hty]; split
    · exact ht
    · rw [findValidator_append_vcType]; exact ht
  have h1 : c.shapeOK = true := validate_pass_shape hv (by rw [hfc]; decide)
  rw [hsh, hs] at h1
  simp only [shapeOf, ht] at h1
  obtain ⟨a1, a2, a3, a4, a5⟩ := (authShape_iff _ _ _).mp h1
  refine ⟨a1, a2, a3, a4, ?_⟩
  intro r hr
  obtain ⟨x, y, z⟩ := (validateResources_iff _ _).mp a5 r hr
  refine ⟨x, y, ?_⟩
  intro o ho
  have := z o ho
  unfold validOperation at this
  exact List.contains_iff_mem.mp this

/-- POST /internal/vcr/v2/verifier/vp: a presentation the API reports valid (credentials verified: the default) satisfies every
    conjunct of `vp_valid_only_if`, with trust in the credentials' issuers REQUIRED exactly when the signer is a did:nuts DID -/
theorem api_vp_valid_only_if (cfg : Cfg) (P : Crypto) (E : Env) (option : Option Bool) (at_ : Option Time) (vp : Pres)
    (ho : option ≠ some false) (h : apiVerifyVP cfg P E option at_ vp = .ok ()) :
    ∃ s, presentationSigner E vp = some s ∧
      (∀ c ∈ vp.vcs, subjectDID c = some s) ∧
      (∀ c ∈ vp.vcs, verify cfg P E (!("did:nuts:".toList.isPrefixOf s.toList)) (vcCheckSig vp c) at_ c = .ok ()) := by
  unfold apiVerifyVP at h
  cases hs : presentationSigner E vp with
  | none => rw [hs] at h; cases h
  | some s =>
    rw [hs] at h
    simp only at h
    have hopt : option.getD true = true := by
      cases option with
      | none => rfl
      | some b => cases b with
        | true => rfl
        | false => exact absurd rfl ho
    rw [hopt] at h
    obtain ⟨s', hs', hall, _, _, hv, _⟩ := vp_valid_only_if cfg P E _ at_ vp h
    rw [hs] at hs'; injection hs' with hs'; subst hs'
    exact ⟨s, rfl, hall, hv⟩

example : (issue exP exE3 exSign (fun _ => true) (fun _ => "hdr.claims") .ld
    { exT with types := [authType], ctx := [vcContextV1, nutsContextV1], shapeOK := shapeOf Nuts.Facts.C01.validOperationTypes exE3 [authType] exAuthSubj } "1" 1000).isOk = true := by decide
example : apiVerifyVP exCfg exP exE none (some 2000) exVP = .ok () := by decide

/-! ## StatusList2021Entry.Validate inside the model -/

theorem validateNuts_pass_default {E : Env} {ty : String} {c : Cred} (h : validateNuts E ty c = .pass) : validateDefault c = .pass := by
  unfold validateNuts at h
  cases hv : validateNutsCredentialID E c with
  | pass =>
    rw [hv] at h
    simp only at h
    split at h
    · exact h
    · cases h
  | fail e => rw [hv] at h; cases h
  | panic e => rw [hv] at h; cases h

theorem entryValidOf_iff (u ok : Bool) (s : Status) :
    entryValidOf u ok s = true ↔
      u = true ∧ s.id ≠ s.listCred ∧ s.typ = statusListEntryType ∧ s.purpose ≠ "" ∧ s.index.isSome = true ∧ ok = true := by
  unfold entryValidOf
  cases u <;> cases ok <;> by_cases h1 : s.id = s.listCred <;> by_cases h2 : s.typ = statusListEntryType <;>
    by_cases h3 : s.purpose = "" <;> cases h4 : s.index <;> simp [h1, h2, h3]

/-- END TO END (status entry → validator → Verify): every StatusList2021Entry of a credential that `Verify` reports valid decodes, has an id
    that is not the list's URL, names a purpose, a non-negative index and a list credential that is a URL; and the credential lists the
    status-list context — so the status check that follows reads a well-formed entry -/
theorem accepted_credential_has_well_formed_status_entries (cfg : Cfg) (P : Crypto) (E : Env) (au cs : Bool) (at_ : Option Time) (c : Cred)
    (u ok : Status → Bool)
    (hc : ∀ l, c.statuses = some l → ∀ s ∈ l, s.typ = statusListEntryType → s.entryValid = entryValidOf (u s) (ok s) s)
    (h : verify cfg P E au cs at_ c = .ok ()) :
    ∃ l, c.statuses = some l ∧ ∀ s ∈ l, s.id ≠ "" ∧ s.typ ≠ "" ∧
      (s.typ = statusListEntryType → c.ctx.contains statusListContext = true ∧ u s = true ∧ s.id ≠ s.listCred ∧ s.purpose ≠ "" ∧
        s.index.isSome = true ∧ ok s = true) := by
  have hv := (verify_ok_iff.mp h).1
  have hd : validateDefault c = .pass := by
    unfold validate at hv
    cases hf : findValidator c.types with
    | default => simp only [hf] at hv; exact hv
    | org => simp only [hf] at hv; exact validateNuts_pass_default hv
    | auth => simp only [hf] at hv; exact validateNuts_pass_default hv
  unfold validateDefault guard at hd
  split at hd
  · rename_i hg
    simp only [Bool.and_eq_true] at hg
    have hs := hg.2
    unfold statusSyntaxOK at hs
    cases hl : c.statuses with
    | none => rw [hl] at hs; cases hs
    | some l =>
      rw [hl] at hs
      refine ⟨l, rfl, ?_⟩
      intro s hsm
      have := (List.all_eq_true.mp hs) s hsm
      simp only [Bool.and_eq_true, bne_iff_ne, ne_eq, Bool.or_eq_true, Bool.not_eq_true', beq_eq_false_iff_ne] at this
      obtain ⟨⟨h1, h2⟩, h3⟩ := this
      refine ⟨h1, h2, ?_⟩
      intro ht
      rcases h3 with h3 | ⟨h3, h4⟩
      · exact absurd ht (by simpa using h3)
      · rw [hc l hl s hsm ht] at h4
        obtain ⟨a, b, _, d, e, f⟩ := (entryValidOf_iff _ _ _).mp h4
        exact ⟨h3, a, b, d, e, f⟩
  · cases hd

example : entryValidOf true true { id := "https://x/s#1", typ := statusListEntryType, purpose := "revocation", indexText := "1", listCred := "https://x/s" } = true ∧
    entryValidOf true true { id := "https://x/s", typ := statusListEntryType, purpose := "revocation", indexText := "1", listCred := "https://x/s" } = false ∧
    entryValidOf true true { id := "https://x/s#1", typ := statusListEntryType, purpose := "revocation", indexText := "1e0", listCred := "https://x/s" } = false := by decide

def statusEntryValidateReturnsSrc : List String :=
  ["e.ID == e.StatusListCredential => errors.New(\"StatusList2021Entry.id is the same as the StatusList2021Entry.statusListCredential\")", "e.Type != StatusList2021EntryType => errors.New(\"StatusList2021Entry.type must be StatusList2021Entry\")", "e.StatusPurpose == \"\" => errors.New(\"StatusList2021Entry.statusPurpose is required\")", "n,err := strconv.Atoi(e.StatusListIndex); err != nil || n < 0 => errors.New(\"invalid StatusList2021Entry.statusListIndex\")", "_,err := url.ParseRequestURI(e.StatusListCredential); err != nil => fmt.Errorf(\"parse StatusList2021Entry.statusListCredential URL: %w\",err)"]

theorem fact_status_entry_validate_sequence : Nuts.Facts.C01.statusEntryValidateReturns = statusEntryValidateReturnsSrc := by rfl

end Nuts.C01.Props
