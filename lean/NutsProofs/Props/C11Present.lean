/-
  C11 — a presentation that contains a credential the node holds a revocation for is never accepted (deepening round 3):
  `VerifyVP(vp, verifyVCs = true, …, validAt)` for every position of the credential in the presentation, every other
  credential next to it, every holder / signature verdict, every validAt.
-/
import NutsModel.C11.Present
import NutsProofs.Props.C11Resolve
namespace Nuts.C11.Props
open Nuts Nuts.C11

theorem vpLoop_ok_none_revoked (E : Env) (K : KeyEnv) (hE : EnvOK E) (i : Bool) (holder : Option String) (au : Bool)
    (validAt : Option Int) (now : Int) :
    ∀ (creds : List VPCred) (w : World), WInv E w → (vpLoop E i w holder au validAt now creds).1 = .ok →
      ∀ c, c ∈ creds → (w.get i).credRevoked c.doc.cred = false := by
  intro creds
  induction creds with
  | nil => intro w _ _ c hc; simp at hc
  | cons d rest ih =>
    intro w hw hok c hc
    have hp : WPath E K w (verifyTrustAt E i w d.doc.cred d.doc.nutsType false au d.doc.trusted validAt now d.doc.period).2 := by
      rw [verifyTrustAt_snd]; exact verifyFullF_path hE i hw _ _ _
    obtain ⟨hw', hmono⟩ := hp.nodes hw
    unfold vpLoop at hok
    simp only at hok
    cases hv : (verifyTrustAt E i w d.doc.cred d.doc.nutsType false au d.doc.trusted validAt now d.doc.period).1 with
    | revoked => rw [hv] at hok; simp at hok
    | err e => rw [hv] at hok; simp at hok
    | ok =>
      rw [hv] at hok
      simp only at hok
      by_cases hs : (checkSigOf holder d && !d.sigOk) = true
      · rw [if_pos hs] at hok; simp at hok
      · rw [if_neg hs] at hok
        rcases List.mem_cons.1 hc with rfl | hc
        · exact verifyFullF_ok_not_revoked E i w _ _ false (verifyTrustAt_ok_imp _ _ _ _ _ _ _ _ _ _ _ hv)
        · have := ih _ hw' hok c hc
          cases hr : (w.get i).credRevoked c.doc.cred with
          | false => rfl
          | true => rw [credRevoked_mono (hmono i) c.doc.cred hr] at this; exact absurd this (by simp)

/-- `vp_accepted_only_without_revoked_credentials`: whenever `VerifyVP` with `verifyVCs` returns the credentials, the node holds
    a revocation for none of them — for every presentation (any number and order of credentials, any holder, any signature
    verdicts), every validAt and clock, every world satisfying the world invariant. -/
theorem vp_accepted_only_without_revoked_credentials (E : Env) (K : KeyEnv) (hE : EnvOK E) (i : Bool) (w : World) (hw : WInv E w)
    (signer : String) (holder : Option String) (vpSigOk au : Bool) (validAt : Option Int) (now : Int) (creds : List VPCred)
    (hok : (doVerifyVP E i w signer holder vpSigOk true au validAt now creds).1 = .ok) :
    ∀ c, c ∈ creds → (w.get i).credRevoked c.doc.cred = false := by
  unfold doVerifyVP at hok
  split at hok
  · simp at hok
  · simp at hok
  · rename_i sub _
    by_cases h1 : (sub.isNone && !creds.isEmpty) = true
    · rw [if_pos h1] at hok; simp at hok
    · rw [if_neg h1] at hok
      by_cases h2 : holderMismatch sub holder = true
      · rw [if_pos h2] at hok; simp at hok
      · rw [if_neg h2] at hok
        by_cases h3 : (!vpSigOk) = true
        · rw [if_pos h3] at hok; simp at hok
        · rw [if_neg h3] at hok
          simp only [if_true] at hok
          exact vpLoop_ok_none_revoked E K hE i holder au validAt now creds w hw hok

/-- `vp_with_revoked_credential_refused`: the contrapositive, as the property reads: a presentation containing a credential the
    node has received a revocation for is refused (no credentials returned), wherever the credential sits. -/
theorem vp_with_revoked_credential_refused (E : Env) (K : KeyEnv) (hE : EnvOK E) (i : Bool) (w : World) (hw : WInv E w)
    (signer : String) (holder : Option String) (vpSigOk au : Bool) (validAt : Option Int) (now : Int) (creds : List VPCred)
    (c : VPCred) (hc : c ∈ creds) (hrev : (w.get i).credRevoked c.doc.cred = true) :
    (doVerifyVP E i w signer holder vpSigOk true au validAt now creds).1 ≠ .ok := by
  intro hok
  have := vp_accepted_only_without_revoked_credentials E K hE i w hw signer holder vpSigOk au validAt now creds hok c hc
  rw [hrev] at this; exact absurd this (by simp)

/-- a presentation consisting of just the revoked credential, all other checks passing, is answered "revoked" -/
theorem vp_of_revoked_credential_says_revoked (E : Env) (i : Bool) (w : World) (c : VPCred) (hnt : c.doc.nutsType = false)
    (hrev : (w.get i).credRevoked c.doc.cred = true) (au : Bool) (validAt : Option Int) (now : Int) :
    (doVerifyVP E i w c.subject (some c.subject) true true au validAt now [c]).1 = .revoked := by
  have hid : c.doc.cred.id.isSome = true := by
    unfold Node.credRevoked at hrev
    cases hc : c.doc.cred.id with
    | none => simp [hc] at hrev
    | some _ => rfl
  have h1 := received_revocation_refused_at_every_valid_at E i w c.doc.cred hrev hid validAt now c.doc.period
  rw [verifyAt_revoked_iff] at h1
  have h2 := (verifyTrustAt_revoked_iff E i w c.doc.cred false false au c.doc.trusted validAt now c.doc.period).2 h1
  simp [doVerifyVP, presenterIsSubject, subjectOf, vpLoop, holderMismatch, hnt, h2]

set_option maxRecDepth 1000000 in
/-- the regenerated statements of `doVerifyVP`: check order, and the loop (checkSignature rule, the Verify call with validAt,
    the first error returns nil credentials) -/
theorem fact_verify_vp_chain :
    Nuts.Facts.C11.verifyVPChain =
      ["stmt:subjectDID,err := credential.PresenterIsCredentialSubject(presentation)", "err != nil else?",
       "subjectDID != nil && presentation.Holder != nil && presentation.Holder.String() != subjectDID.String()",
       "stmt:err = v.signatureVerifier.VerifyVPSignature(presentation,validAt)", "err != nil", "verifyVCs",
       "return presentation.VerifiableCredential,nil",
       "else-if-of(err != nil): subjectDID == nil && len(presentation.VerifiableCredential) > 0"] ∧
    Nuts.Facts.C11.verifyVPLoop =
      ["range presentation.VerifiableCredential", "checkSignature := true",
       "if presentation.Holder != nil && presentation.Holder.String() == current.Issuer.String()",
       "checkSignature = len(current.Proof) > 0", "err = vcVerifier.Verify(current,allowUntrustedVCs,checkSignature,validAt)",
       "if err != nil", "return nil,newVerificationError(\"invalid VC (id=%s): %w\",current.ID,err)"] := by decide

/-! ## end to end over histories -/

/-- the node's store holds the revocation at every later point of the history -/
theorem credRevoked_after_register (E : Env) (K : KeyEnv) (hE : EnvOK E) (w0 : World) (h0 : WInv E w0) (i : Bool)
    (r : Revocation) (before after : List Act) (n' : Node)
    (hacc : registerRevocation K ((run E K w0 before).get i) r = .ok n') (c : Cred) (hc : c.id = some r.subject) :
    ((run E K w0 (before ++ [.register i r] ++ after)).get i).credRevoked c = true ∧
    WInv E (run E K w0 (before ++ [.register i r] ++ after)) := by
  have hw1 := ((run_path (K := K) hE before h0).nodes h0).1
  have hrun : run E K w0 (before ++ [.register i r] ++ after) = run E K ((run E K w0 before).set i n') after := by
    simp only [run, List.foldl_append, List.foldl_cons, List.foldl_nil, step]
    rw [show registerRevocation K ((List.foldl (step E K) w0 before).get i) r = .ok n' from hacc]
  have hp : WPrim E K (run E K w0 before) ((run E K w0 before).set i n') := WPrim.register _ i r n' hacc
  have hmem : r ∈ (((run E K w0 before).set i n').get i).netRevs := by
    rw [get_set_same]
    obtain ⟨rfl, _⟩ := registerRevocation_ok hacc
    simp
  have hfin := (run_path (K := K) hE after (hp.nodes hw1).1).nodes (hp.nodes hw1).1
  have := (hfin.2 i).net r hmem
  rw [← hrun] at this hfin
  refine ⟨?_, hfin.1⟩
  simp only [Node.credRevoked, hc, Node.isRevoked, List.any_eq_true]; exact ⟨r, this, by simp⟩

/-- `search_after_revocation_in_history`: once a revocation was accepted at some point of a history, no later `Search` — any
    found documents, any order, allowUntrusted or not, any resolveTime — returns a credential with the revoked id. -/
theorem search_after_revocation_in_history (E : Env) (K : KeyEnv) (hE : EnvOK E) (w0 : World) (h0 : WInv E w0) (i : Bool)
    (r : Revocation) (before after : List Act) (n' : Node)
    (hacc : registerRevocation K ((run E K w0 before).get i) r = .ok n')
    (docs : List Stored) (au : Bool) (resolveTime : Option Int) (now : Int) :
    ∀ s, s ∈ (search E i (run E K w0 (before ++ [.register i r] ++ after)) docs au false resolveTime now).1 → s.cred.id ≠ some r.subject := by
  intro s hs hid
  obtain ⟨hrev, hw⟩ := credRevoked_after_register E K hE w0 h0 i r before after n' hacc s.cred hid
  have := (search_omits_revoked E K hE i au false resolveTime now docs _ hw).1 s hs
  rw [hrev] at this; exact absurd this (by simp)

/-- `vp_after_revocation_in_history`: … and every later `VerifyVP(verifyVCs = true)` of a presentation that contains a credential
    with the revoked id — at any position, for any validAt, holder, signature verdicts — is refused. -/
theorem vp_after_revocation_in_history (E : Env) (K : KeyEnv) (hE : EnvOK E) (w0 : World) (h0 : WInv E w0) (i : Bool)
    (r : Revocation) (before after : List Act) (n' : Node)
    (hacc : registerRevocation K ((run E K w0 before).get i) r = .ok n')
    (signer : String) (holder : Option String) (vpSigOk au : Bool) (validAt : Option Int) (now : Int) (creds : List VPCred)
    (c : VPCred) (hc : c ∈ creds) (hid : c.doc.cred.id = some r.subject) :
    (doVerifyVP E i (run E K w0 (before ++ [.register i r] ++ after)) signer holder vpSigOk true au validAt now creds).1 ≠ .ok := by
  obtain ⟨hrev, hw⟩ := credRevoked_after_register E K hE w0 h0 i r before after n' hacc c.doc.cred hid
  exact vp_with_revoked_credential_refused E K hE i _ hw signer holder vpSigOk au validAt now creds c hc hrev

/-! non-vacuity -/
def exVPCred (id : String) : VPCred :=
  { doc := { cred := { id := some id, issuer := "did:nuts:B", statuses := none } }, subject := "did:nuts:P" }

-- the revoked credential in the middle of three: refused as revoked; without the revocation: accepted
example : (doVerifyVP exEnv false (run exEnv exKeys exWorld [.register false exRevByB]) "did:nuts:P" (some "did:nuts:P") true true true (some (-30)) 0
    [exVPCred "did:nuts:B#2", exVPCred "did:nuts:B#1", exVPCred "did:nuts:B#3"]).1 = .revoked := by decide
example : (doVerifyVP exEnv false exWorld "did:nuts:P" (some "did:nuts:P") true true true (some (-30)) 0
    [exVPCred "did:nuts:B#2", exVPCred "did:nuts:B#1", exVPCred "did:nuts:B#3"]).1 = .ok := by decide
example : (doVerifyVP exEnv false exWorld "did:nuts:P" (some "did:nuts:Q") true true true none 0 [exVPCred "did:nuts:B#2"]).1 = .err "holder" := by decide
example : (doVerifyVP exEnv false exWorld "did:nuts:X" none true true true none 0 [exVPCred "did:nuts:B#2"]).1 = .err "not-subject" := by decide

end Nuts.C11.Props
