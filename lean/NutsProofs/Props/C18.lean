/-
  C18 — DID resolution binds the document to the identifier and to the right origin.
  ONLY property theorems (+ non-vacuity examples + obligations on regenerated facts).
  Model: NutsModel/C18/{Url,DidWeb,Resolve,Policy}.lean; helper lemmas: NutsProofs/Lemmas/C18.lean.
  Facts: NutsModel/Facts/C18.lean is REGENERATED from /repo on every run.
-/
import NutsModel.C18.Policy
import NutsModel.C18.Cache
import NutsProofs.Lemmas.C18
import NutsProofs.Lemmas.C18Deep
import NutsProofs.Lemmas.C18X
import NutsModel.C18.RCacheOld
import NutsProofs.Lemmas.C18Jwk
import NutsProofs.Lemmas.C18Chain
import NutsProofs.Lemmas.C18Time

namespace Nuts.C18.Props
open Nuts Nuts.C18

/-! ### Obligations on the regenerated facts (a source change flips these) -/

/-- `shouldPercentEncode` and `percentDecodeChar` use the same 14 characters `~!$&'()*+,;=:@` -/
theorem fact_sets : Facts.C18.encodeSet = [126, 33, 36, 38, 39, 40, 41, 42, 43, 44, 59, 61, 58, 64] ∧
    Facts.C18.decodeSet = Facts.C18.encodeSet := by decide

/-- the media types `Resolve` accepts -/
theorem fact_content_types : Facts.C18.contentTypes =
    [[97, 112, 112, 108, 105, 99, 97, 116, 105, 111, 110, 47, 100, 105, 100, 43, 108, 100, 43, 106, 115, 111, 110],      -- application/did+ld+json
     [97, 112, 112, 108, 105, 99, 97, 116, 105, 111, 110, 47, 100, 105, 100, 43, 106, 115, 111, 110],                    -- application/did+json
     [97, 112, 112, 108, 105, 99, 97, 116, 105, 111, 110, 47, 106, 115, 111, 110]] := by decide      -- application/json

/-- `Resolve` compares the id of the PARSED document — the very value it returns (`document`, `&document`) — with the
    requested DID, and nothing else decides about the id -/
theorem fact_resolve_checks_document_id : Facts.C18.resolveChecksDocumentID = true ∧
    Facts.C18.resolveEqualsChecks = ["!document.ID.Equals(id)"] ∧ Facts.C18.resolveReturnsDocument = ["&document"] := by decide

/-- the shared response cache is indexed by the full request URL (`URL.String()`), at every access -/
theorem fact_cache_index : Facts.C18.cacheIndexExprs = ["httpRequest.URL.String()", "entry.requestURL.String()", "entry.requestURL.String()"] ∧
    Facts.C18.cachePopKey = ["h.head.requestURL.String()"] := by decide

/-- every `http.Client` of http/client refuses, in strict mode, a redirect to a non-https URL and keeps Go's limit of
    10 redirects; did:web's client additionally refuses to leave the origin of the first request -/
theorem fact_redirect_policy :
    factPolicy = { strictHttpsRedirect := true, sameOriginRedirect := true, maxRedirects := 10 } ∧
    (Facts.C18.checkRedirectConds ≠ [] → Facts.C18.checkRedirectConds.contains condMaxRedirects = true) ∧
    wrapperKeepsPolicy = true := by decide

/-- `StrictHTTPClient.Do` refuses a first request that is not https in strict mode -/
theorem fact_strict_do : Facts.C18.strictDoConds.contains condStrictHttps = true := by decide

/-- did:web: own store first, then the web; did:jwk / did:key / did:x509 always registered, did:nuts / did:web when configured -/
theorem fact_router : factLocalFirst = true ∧
    Facts.C18.routerRegistrations = ["didjwk.MethodName if true", "didkey.MethodName if true", "didx509.MethodName if true",
      "didnuts.MethodName if slices.Contains(r.supportedDIDMethods, didnuts.MethodName)",
      "didweb.MethodName if slices.Contains(r.supportedDIDMethods, didweb.MethodName)"] := by decide

/-- `didsubject.Resolver`: deactivated ⇒ error unless `AllowDeactivated` -/
theorem fact_deactivation : Facts.C18.deactivationConds =
    ["resolver.IsDeactivated(document)", "metadata == nil || !metadata.AllowDeactivated"] := by decide

/-- `didsubject.Resolver`: a failed lookup is `ErrNotFound` only for "record not found"; any other store error is
    returned as it is (so the did:web chain stops instead of going to the network) -/
theorem fact_local_resolver_errors : Facts.C18.localResolverErrorReturns = ["resolver.ErrNotFound", "err"] := by decide

/-- the local lookup is bounded by the caller's resolve time only when one is given; otherwise `Resolve` passes nil and
    `Latest` bounds by now + 1 h — so a version written by an instance whose clock runs a little ahead (deactivations
    included) is still "the latest" (the model's `sqlState`: the last version decides) -/
theorem fact_local_time_bound : Facts.C18.localLatestArgs = ["id", "notAfter"] ∧
    Facts.C18.localNotAfterAssignments = ["notAfter *time.Time = <zero value>", "notAfter = metadata.ResolveTime"] ∧
    Facts.C18.latestDefaultBound = ["time.Now().Add(time.Hour).Unix()"] := by decide

/-! ### did:web identifier <-> URL round trip -/

/-- **Round trip.** For every identifier of the decidable grammar `wfDID` — method web; a domain name that is not an
    IPv4 address, optionally `%3A` + decimal port; then any number of non-empty path segments made of `[A-Za-z0-9._-]` and
    upper-case escapes of the 14 reserved characters, the last segment not being `did.json` — `DIDToURL` succeeds and
    `URLToDID` of the resulting URL is exactly the identifier. Unbounded: all lengths, all numbers of segments. -/
theorem did_url_roundtrip (d : DID) (h : wfDID Facts.C18.encodeSet d = true) :
    ∃ u, didToURL Facts.C18.decodeSet d = .ok u ∧ urlToDID Facts.C18.encodeSet u = .ok d := by
  rw [fact_sets.2, fact_sets.1] at *
  change wfDID set14 d = true at h
  unfold wfDID at h
  simp only [Bool.and_eq_true, decide_eq_true_eq] at h
  obtain ⟨hm, hrest⟩ := h
  have hjoin := join_splitOn cColon d.id
  cases hsp : splitOn cColon d.id with
  | nil => rw [hsp] at hrest; simp at hrest
  | cons hd segs =>
    rw [hsp] at hrest hjoin
    simp only [Bool.and_eq_true, List.all_eq_true, decide_eq_true_eq, ne_eq] at hrest
    obtain ⟨⟨hh, hsegs⟩, hl⟩ := hrest
    obtain ⟨name, port, ok, rfl⟩ := wfHost_decomp hh
    have hs : SegsOK segs := fun s hs => by
      simpa using hsegs s hs
    obtain ⟨u, h1, h2, _⟩ := roundtrip_parts name port segs ok hs hl
    have hd : d = { method := sWeb, id := joinWith cColon (hEnc name port :: segs) } := by
      cases d; simp only [DID.mk.injEq]; exact ⟨hm, hjoin.symm⟩
    exact ⟨u, by rw [hd]; exact h1, by rw [hd]; exact h2⟩

/-- … and hence `DIDToURL (URLToDID u) = u` for every URL in the image of the grammar -/
theorem url_did_roundtrip_image (d : DID) (h : wfDID Facts.C18.encodeSet d = true) (u : URL)
    (hu : didToURL Facts.C18.decodeSet d = .ok u) :
    (urlToDID Facts.C18.encodeSet u).bind (didToURL Facts.C18.decodeSet) = .ok u := by
  obtain ⟨u', h1, h2⟩ := did_url_roundtrip d h
  rw [hu] at h1; cases h1
  rw [h2]; exact hu

/-- the grammar is inhabited by the documented examples: did:web:localhost, did:web:localhost%3A3000:alice,
    did:web:localhost:alice%2Band%2Bbob:path -/
example : wfDID Facts.C18.encodeSet ⟨sWeb, [108, 111, 99, 97, 108, 104, 111, 115, 116]⟩ = true ∧
    wfDID Facts.C18.encodeSet
      ⟨sWeb, [108, 111, 99, 97, 108, 104, 111, 115, 116, 37, 51, 65, 51, 48, 48, 48, 58, 97, 108, 105, 99, 101]⟩ = true ∧
    wfDID Facts.C18.encodeSet
      ⟨sWeb, [108, 111, 99, 97, 108, 104, 111, 115, 116, 58, 97, 108, 105, 99, 101, 37, 50, 66, 97, 110, 100, 37, 50, 66,
              98, 111, 98, 58, 112, 97, 116, 104]⟩ = true := by decide

/-- outside the grammar the law fails — `did.json` as last segment, a lower-case escape, an escaped non-ASCII rune
    (`URLToDID` truncates the rune `š` U+0161 to its low byte `a`): concrete identifiers that do not come back -/
theorem roundtrip_fails_outside_grammar :
    (∃ u, didToURL Facts.C18.decodeSet { method := sWeb, id := [104, 58, 100, 105, 100, 46, 106, 115, 111, 110] } = .ok u ∧   -- h:did.json
      urlToDID Facts.C18.encodeSet u = .ok { method := sWeb, id := [104] }) ∧
    (∃ u, didToURL Facts.C18.decodeSet { method := sWeb, id := [104, 37, 51, 97, 56, 48] } = .ok u ∧                          -- h%3a80
      urlToDID Facts.C18.encodeSet u = .ok { method := sWeb, id := [104, 37, 51, 65, 56, 48] }) ∧
    (∃ u, didToURL Facts.C18.decodeSet { method := sWeb, id := [104, 58, 37, 67, 53, 37, 65, 49] } = .ok u ∧                  -- h:%C5%A1
      urlToDID Facts.C18.encodeSet u = .ok { method := sWeb, id := [104, 58, 97] }) := by
  refine ⟨⟨_, rfl, ?_⟩, ⟨_, rfl, ?_⟩, ⟨_, rfl, ?_⟩⟩ <;> decide

/-! ### redirects cannot leave the origin -/

/-- Whatever the servers answer (any function of hop number and request), every request made while resolving a did:web
    DID goes to the scheme and host of the first request, when the client's redirect check pins the origin. -/
theorem redirects_stay_on_origin (dec : List Nat) (cts : List Bytes) (pol : Policy) (strict : Bool) (d : DID)
    (srv : Nat → Req → Option Resp) (hp : pol.sameOriginRedirect = true) (u : URL) (hu : didToURL dec d = .ok u)
    (hs : u.scheme = sHttps) :
    ∀ r ∈ (resolveWeb dec cts pol strict d srv).1, r.scheme = sHttps ∧ r.host = (firstReq u).host := by
  intro r hr
  have key : ∀ r ∈ (strictDo pol strict srv (firstReq u)).1, r.scheme = sHttps ∧ r.host = (firstReq u).host :=
    strictDo_reqs pol strict srv (firstReq u) _ ⟨by simp [firstReq, hs], rfl⟩
      (fun nxt n h => by
        have := checkRedirect_sameOrigin hp h
        exact ⟨by rw [this.1]; simp [firstReq, hs], this.2⟩)
  unfold resolveWeb at hr
  split at hr
  · simp at hr
  · rw [hu] at hr
    simp only at hr
    split at hr
    · rename_i reqs e heq; exact key r (by rw [heq]; exact hr)
    · rename_i reqs e heq; exact key r (by rw [heq]; exact hr)
    · rename_i reqs resp heq
      have : reqs = (strictDo pol strict srv (firstReq u)).1 := by rw [heq]
      have hr' : r ∈ reqs := by
        repeat' split at hr
        all_goals exact hr
      exact key r (this ▸ hr')

/-- **Origin binding.** Resolving did:web:X — for EVERY `did.DID` value, every server behaviour, strict or not — either
    makes no request at all, or `DIDToURL` succeeded and: the host `H` is exactly the percent-decoded first component of
    the identifier; `H`'s host name is not an IP address; the first request is https, carries no user-info and goes to
    `H` (an empty port dropped); and EVERY request (redirect hops included) is https to that same host. -/
theorem fetch_origin_bound (dec : List Nat) (cts : List Bytes) (pol : Policy) (strict : Bool) (d : DID)
    (srv : Nat → Req → Option Resp) (hp : pol.sameOriginRedirect = true) :
    (resolveWeb dec cts pol strict d srv).1 = [] ∨
    ∃ u H, didToURL dec d = .ok u ∧ pathUnescape (cut cColon d.id).1 = .ok H ∧ isIP (hostname H) = false ∧
      (firstReq u).scheme = sHttps ∧ (firstReq u).user = false ∧ (firstReq u).host = removeEmptyPort H ∧
      ∀ r ∈ (resolveWeb dec cts pol strict d srv).1, r.scheme = sHttps ∧ r.host = removeEmptyPort H := by
  cases hu : didToURL dec d with
  | err e => left; unfold resolveWeb; split <;> simp [hu]
  | panic e => left; unfold resolveWeb; split <;> simp [hu]
  | ok u =>
    right
    obtain ⟨_, hs, huser, _, hH, hip⟩ := didToURL_origin dec d u hu
    refine ⟨u, u.host, rfl, hH, hip, by simp [firstReq, hs], by simp [firstReq, huser], rfl, ?_⟩
    intro r hr
    have := redirects_stay_on_origin dec cts pol strict d srv hp u hu hs r hr
    exact ⟨this.1, by rw [this.2]; rfl⟩

/-- non-vacuity: did:web:a%3A8443:x resolves to https://a:8443/x and is fetched from host "a:8443" -/
example : ∃ u, didToURL Facts.C18.decodeSet { method := sWeb, id := [97, 37, 51, 65, 56, 52, 52, 51, 58, 120] } = .ok u ∧
    (firstReq u).host = [97, 58, 56, 52, 52, 51] ∧ (firstReq u).path = [47, 120] ++ sDidJson := by
  refine ⟨_, rfl, ?_, ?_⟩ <;> decide

/-- hostile shapes are refused before any request: user-info, IPv4, bracketed IPv6, encoded slash in the host -/
example : didToURL Facts.C18.decodeSet { method := sWeb, id := [117, 37, 52, 48, 97] } = .err "host" ∧             -- u%40a
    didToURL Facts.C18.decodeSet { method := sWeb, id := [49, 46, 50, 46, 51, 46, 52] } = .err "ip" ∧               -- 1.2.3.4
    didToURL Facts.C18.decodeSet { method := sWeb, id := [37, 53, 66, 37, 51, 65, 37, 51, 65, 49, 37, 53, 68] } = .err "ip" ∧  -- %5B%3A%3A1%5D
    didToURL Facts.C18.decodeSet { method := sWeb, id := [97, 37, 50, 70, 98] } = .err "host" := by                  -- a%2Fb
  refine ⟨?_, ?_, ?_, ?_⟩ <;> decide

/-- In strict mode no request of the strict client — first or redirected — uses a scheme other than https. -/
theorem strict_client_https_only (pol : Policy) (srv : Nat → Req → Option Resp) (first : Req)
    (hp : pol.strictHttpsRedirect = true) :
    ∀ r ∈ (strictDo pol true srv first).1, r.scheme = sHttps := by
  by_cases hf : first.scheme = sHttps
  · exact strictDo_reqs pol true srv first _ hf (fun nxt n h => checkRedirect_strictHttps hp h)
  · intro r hr
    simp [strictDo, hf] at hr

/-- the policy the source has today satisfies both hypotheses -/
example : factPolicy.sameOriginRedirect = true ∧ factPolicy.strictHttpsRedirect = true := by decide

/-- Without a redirect check (the code before the repair: `http.Client` values without `CheckRedirect`) a did:web server
    can send the strict-mode client to plain http on another host: concrete witness. -/
theorem redirect_witness :
    let pol : Policy := { strictHttpsRedirect := false, sameOriginRedirect := false }
    let d : DID := { method := sWeb, id := [97] }                                  -- did:web:a
    let evil : Bytes := [104, 116, 116, 112, 58, 47, 47, 49, 46, 50, 46, 51, 46, 52, 47, 120]   -- http://1.2.3.4/x
    let srv : Nat → Req → Option Resp := fun hop _ =>
      if hop = 0 then some { status := 302, loc := evil } else some { status := 200 }
    ∃ r ∈ (resolveWeb Facts.C18.decodeSet Facts.C18.contentTypes pol true d srv).1,
      r.scheme = sHttp ∧ r.host = [49, 46, 50, 46, 51, 46, 52] := by
  refine ⟨{ scheme := sHttp, host := [49, 46, 50, 46, 51, 46, 52], path := [47, 120] }, ?_, rfl, rfl⟩
  decide

/-! ### the node-wide HTTP cache cannot stand in for the HTTPS fetch -/

/-- **The cache index is injective**: two request URLs share cache entries only if scheme, user-info, host (with port),
    path, query and fragment are all equal (URLs of the stated shape) -/
theorem cache_key_injective (u v : CUrl) (hu : u.wf = true) (hv : v.wf = true) (h : cacheKey u = cacheKey v) : u = v :=
  cacheKey_inj u v hu hv h

/-- Whatever other components of the node fetched before (any list of look-alike URLs: other scheme, port, user-info,
    query, fragment, case, path), a did:web URL that is not itself among them is NOT served from the cache: the request
    goes to the network, i.e. through the https / origin checks of `fetch_origin_bound`. -/
theorem cache_no_foreign_entry (cacheable : Bool) (us : List CUrl) (u : CUrl) (hus : ∀ v ∈ us, v.wf = true) (hu : u.wf = true)
    (hne : u ∉ us) : (cacheGet cacheable (us.map cacheKey) u).2 = some (cacheKey u) := by
  unfold cacheGet
  have : (us.map cacheKey).contains (cacheKey u) = false := by
    cases hc : (us.map cacheKey).contains (cacheKey u) with
    | false => rfl
    | true =>
      obtain ⟨v, hv, hk⟩ := List.mem_map.mp (List.contains_iff_mem.mp hc)
      exact absurd (cacheKey_inj v u (hus v hv) hu hk ▸ hv) hne
  rw [if_neg (by rw [this]; exact Bool.false_ne_true)]

/-- non-vacuity / why the index matters: `http://h/p` and `https://h/p`, and `https://h/p?x` have different keys, while an
    index on host + path alone would identify them -/
example : cacheKey { scheme := sHttp, host := [104], path := [47, 112] } ≠ cacheKey { scheme := sHttps, host := [104], path := [47, 112] } ∧
    cacheKey { scheme := sHttps, host := [104], path := [47, 112], query := [120] } ≠ cacheKey { scheme := sHttps, host := [104], path := [47, 112] } ∧
    (({ scheme := sHttps, host := [104], path := [47, 112] } : CUrl).wf = true) := by decide

/-! ### the returned document is the requested one -/

/-- did:web: a returned document has exactly the requested DID as id -/
theorem id_bound_web (dec : List Nat) (cts : List Bytes) (pol : Policy) (strict : Bool) (d : DID)
    (srv : Nat → Req → Option Resp) (reqs : List Req) (id : Bytes)
    (h : resolveWeb dec cts pol strict d srv = (reqs, .ok id)) : id = d.str := by
  unfold resolveWeb at h
  repeat' split at h
  all_goals first
    | (simp only [Prod.mk.injEq, Res.ok.injEq, reduceCtorEq, and_false] at h)
    | skip
  all_goals
    rename_i heq _
    obtain ⟨_, h2⟩ := h
    first
      | (rw [← h2]; assumption)
      | (rw [← h2]; rename_i hh; exact hh)

/-- router level (did:web local or remote, did:jwk, did:key, did:nuts): a returned document has the requested DID as id -/
theorem id_bound (dec : List Nat) (cts : List Bytes) (pol : Policy) (lf strict : Bool) (n : Node) (allow : Bool) (d : DID)
    (srv : Nat → Req → Option Resp) (reqs : List Req) (r : ResolveResult)
    (h : resolve dec cts pol lf strict n allow d srv = (reqs, .ok r)) : r.docID = d.str := by
  have hloc : ∀ st reqs, (([], resolveLocal st allow d) : List Req × Res ResolveResult) = (reqs, .ok r) → r.docID = d.str := by
    intro st reqs hr
    cases st <;> simp [resolveLocal] at hr
    · rw [← hr.2]
    · split at hr <;> simp at hr
      rw [← hr.2]
    · split at hr <;> simp at hr
      rw [← hr.2]
  have hweb : ∀ reqs, (match resolveWeb dec cts pol strict d srv with
      | (reqs, .ok id) => ((reqs, .ok { docID := id }) : List Req × Res ResolveResult)
      | (reqs, .err e) => (reqs, .err e)
      | (reqs, .panic p) => (reqs, .panic p)) = (reqs, .ok r) → r.docID = d.str := by
    intro reqs hr
    split at hr
    · rename_i rq id heq
      simp only [Prod.mk.injEq, Res.ok.injEq] at hr
      rw [← hr.2]
      exact id_bound_web dec cts pol strict d srv rq id heq
    · simp at hr
    · simp at hr
  unfold resolve at h
  simp only at h
  split at h
  · split at h
    · simp at h
    · split at h
      · split at h
        · exact hweb _ h
        · exact hloc _ _ h
      · exact hweb _ h
  · split at h
    · split at h <;> simp at h
      rw [← h.2]
    · split at h
      · split at h
        · simp at h
        · exact hloc _ _ h
      · split at h <;> simp at h

/-- did:jwk and did:key: no request is made, and the result depends on nothing but the identifier (and the key
    library's verdict on it): any two nodes, servers, strictness and flags give the same result. -/
theorem jwk_key_pure (dec : List Nat) (cts : List Bytes) (pol pol' : Policy) (lf lf' strict strict' : Bool) (n n' : Node)
    (allow allow' : Bool) (d : DID) (srv srv' : Nat → Req → Option Resp)
    (hm : d.method = sJwk ∨ d.method = sKey) (hk : n.keyDecodes d = n'.keyDecodes d) :
    (resolve dec cts pol lf strict n allow d srv).1 = [] ∧
    resolve dec cts pol lf strict n allow d srv = resolve dec cts pol' lf' strict' n' allow' d srv' := by
  rcases hm with hm | hm <;> simp [resolve, hm, hk, sJwk, sKey, sWeb]

/-- A did:web DID that this node manages (present in its own store, active or deactivated) resolves without any
    outbound request, whatever the servers would answer. -/
theorem local_first_no_network (dec : List Nat) (cts : List Bytes) (pol : Policy) (strict : Bool) (n : Node) (allow : Bool)
    (d : DID) (srv : Nat → Req → Option Resp) (hm : d.method = sWeb) (hl : n.localState d ≠ .absent) :
    (resolve dec cts pol true strict n allow d srv).1 = [] := by
  unfold resolve
  simp only [hm, if_true]
  split
  · rfl
  · cases hs : n.localState d <;> simp_all

/-- A storage fault while looking up a did:web DID (any store error other than "no such record") stops the resolution
    with that error: no outbound request — the node never answers for a possibly managed, possibly deactivated DID with
    whatever the web serves. -/
theorem local_store_fault_no_network (dec : List Nat) (cts : List Bytes) (pol : Policy) (strict : Bool) (n : Node) (allow : Bool)
    (d : DID) (srv : Nat → Req → Option Resp) (hm : d.method = sWeb) (hc : n.didMethods.contains sWeb = true)
    (hf : n.localState d = .dbError) :
    resolve dec cts pol true strict n allow d srv = ([], .err "db") := by
  unfold resolve; simp only [hm, hc, hf, if_true]; simp [resolveLocal]

/-- A deactivated DID (did:web in the node's store, or did:nuts) does not resolve unless the caller allows it, and
    with the flag it resolves marked as deactivated — without touching the network. -/
theorem deactivated_needs_flag (dec : List Nat) (cts : List Bytes) (pol : Policy) (strict : Bool) (n : Node)
    (d : DID) (srv : Nat → Req → Option Resp)
    (hd : (d.method = sWeb ∧ n.didMethods.contains sWeb = true ∧ n.localState d = .deactivated) ∨
          (d.method = sNuts ∧ n.didMethods.contains sNuts = true ∧ n.nutsState d = .deactivated)) :
    resolve dec cts pol true strict n false d srv = ([], .err "deactivated") ∧
    resolve dec cts pol true strict n true d srv = ([], .ok { docID := d.str, deactivated := true }) := by
  rcases hd with ⟨hm, hc, hs⟩ | ⟨hm, hc, hs⟩
  · unfold resolve; simp only [hm, hc, hs, if_true]; simp [resolveLocal]
  · have h1 : (sNuts = sWeb) = False := by simp [sNuts, sWeb]
    have h2 : (sNuts = sJwk) = False := by simp [sNuts, sJwk]
    have h3 : (sNuts = sKey) = False := by simp [sNuts, sKey]
    unfold resolve; simp only [hm, hc, hs, h1, h2, h3, if_true, if_false]; simp [resolveLocal]

/-- non-vacuity: a node with a deactivated did:web DID and a history-derived state -/
example : sqlState [true, false] = .deactivated ∧ sqlState [true, false, true] = .active ∧
    nutsStateOf [true, false, true] = .deactivated := by decide

/-! ### deepening round: the SQL lookup of the local-first resolver (wave 8) -/

/-- `Latest` selects with `did = ?` on the exact DID string, newest version first, first row -/
theorem fact_local_lookup_query : Facts.C18.latestQuery = latestQueryModelled := by decide

/-- **The local lookup is exact.** Whatever the table holds (other tenants, DIDs that differ only in letter case, any
    histories), the row `Latest` returns carries exactly the requested DID string, is a row of the table, and respects
    the time bound. -/
theorem local_lookup_exact (rows : List DocRow) (d : Bytes) (t : Int) (r : DocRow)
    (h : sqlLatest rows d t = some r) : r.did = d ∧ r ∈ rows ∧ r.updatedAt ≤ t :=
  sqlLatest_exact rows d t r h

/-- rows of OTHER DIDs never influence a lookup: histories of case variants do not merge -/
theorem local_lookup_ignores_other_dids (rows : List DocRow) (d : Bytes) (t : Int) :
    sqlLatest rows d t = sqlLatest (rows.filter (fun r => r.did = d)) d t :=
  sqlLatest_filter rows d t

/-- refinement: the resolver on the SQL table (document built from the ROW) is the abstract `resolveLocal` on the
    state the exact lookup yields; in particular the returned id is the requested DID -/
theorem local_sql_refines (rows : List DocRow) (t : Int) (allow : Bool) (d : DID) :
    sqlResolveLocal rows t allow d = resolveLocal (sqlLocalState rows t d) allow d :=
  sqlResolveLocal_refines rows t allow d

/-- end to end: resolution of `d` on a node with table `rows` (router, local-first chain, did:web fetch) is the
    resolution on the node that holds ONLY `d`'s own versions — a DID that is not managed itself is looked up at its
    own origin even when a case variant is managed, and a deactivated DID stays deactivated whatever its siblings do. -/
theorem local_resolution_independent_of_other_dids (dec : List Nat) (cts : List Bytes) (pol : Policy) (lf strict : Bool)
    (methods : List Bytes) (kd : DID → Bool) (ns : DID → LocalState) (rows : List DocRow) (t : Int) (allow : Bool) (d : DID)
    (srv : Nat → Req → Option Resp) :
    resolve dec cts pol lf strict { didMethods := methods, localState := sqlLocalState rows t, keyDecodes := kd, nutsState := ns } allow d srv =
    resolve dec cts pol lf strict { didMethods := methods, localState := sqlLocalState (rows.filter (fun r => r.did = d.str)) t, keyDecodes := kd, nutsState := ns } allow d srv := by
  have h : sqlLocalState rows t d = sqlLocalState (rows.filter (fun r => r.did = d.str)) t d := by
    unfold sqlLocalState; rw [sqlLatest_filter]
  unfold resolve
  simp only [h]

/-- non-vacuity: `…:iam:tenant` (3 versions, active) and `…:iam:Tenant` (2 versions, deactivated) in one table: each
    lookup sees its own history; a third variant is absent -/
example :
    let lo : Bytes := [116]; let up : Bytes := [84]; let other : Bytes := [116, 84]
    let rows := rowsOf lo [true, true, true] ++ rowsOf up [true, false]
    rowState (sqlLatest rows lo 0) = .active ∧ rowState (sqlLatest rows up 0) = .deactivated ∧
    rowState (sqlLatest rows other 0) = .absent ∧ (sqlLatest rows up 0).map (·.version) = some 1 := by decide

/-! ### deepening round: the stateful HTTP response cache did:web resolution goes through (http/client/caching.go) -/

/-- the control flow of get / insert / removeExpiredEntries / pop / RoundTrip / cacheResponse that
    `NutsModel/C18/RCache.lean` mirrors, statement by statement (regenerated; an edit of caching.go flips this) -/
theorem fact_cache_flow :
    Facts.C18.cacheFlow_get = ["call h.mux.Lock()", "call h.removeExpiredEntries()", "entries := h.entriesByURL[httpRequest.URL.String()]", "range entries",
      "if entry.requestMethod == httpRequest.Method && entry.requestRawQuery == httpRequest.URL.RawQuery", "return &<*ast.CompositeLit>", "return nil"] ∧
    Facts.C18.cacheFlow_insert = ["if len(entry.responseData) > h.maxBytes", "return ", "call h.mux.Lock()",
      "for h.head != nil && h.currentSizeBytes + len(entry.responseData) > h.maxBytes", "_ = h.pop()",
      "if h.head == nil || entry.expirationTime.Before(h.head.expirationTime)", "entry.next = h.head", "h.head = entry",
      "for current.next != nil && current.next.expirationTime.Before(entry.expirationTime)", "current = current.next",
      "entry.next = current.next", "current.next = entry",
      "h.entriesByURL[entry.requestURL.String()] = append(h.entriesByURL[entry.requestURL.String()], entry)",
      "h.currentSizeBytes += len(entry.responseData)"] ∧
    Facts.C18.cacheFlow_removeExpiredEntries = ["for current != nil", "if current.expirationTime.Before(time.Now())", "current = h.pop()", "break"] ∧
    Facts.C18.cacheFlow_pop = ["if h.head == nil", "return nil", "requestURL := h.head.requestURL.String()", "entries := h.entriesByURL[requestURL]",
      "range entries", "if entry == h.head", "h.entriesByURL[requestURL] = append(entries[:i], entries[i + 1:])",
      "if len(h.entriesByURL[requestURL]) == 0", "call delete(h.entriesByURL, requestURL)", "break",
      "h.currentSizeBytes -= len(h.head.responseData)", "h.head = h.head.next", "return h.head"] ∧
    Facts.C18.cacheFlow_RoundTrip = ["if httpRequest.Method == http.MethodGet", "if response != nil", "response := r.cache.get(httpRequest)",
      "return response, nil", "httpResponse, err := r.wrappedTransport.RoundTrip(httpRequest)", "if err != nil", "return nil, err",
      "err = r.cacheResponse(httpRequest, httpResponse)", "if err != nil", "return nil, err", "return httpResponse, nil"] ∧
    Facts.C18.cacheFlow_cacheResponse = ["if httpRequest.Method != http.MethodGet", "return nil",
      "reasons, expirationTime, err := cachecontrol.CachableResponse(httpRequest, httpResponse, <*ast.CompositeLit>)", "if err != nil", "return nil",
      "maxExpirationTime := time.Now().Add(maxCacheTime)", "if expirationTime.After(maxExpirationTime)", "expirationTime = maxExpirationTime",
      "if len(reasons) > 0 || expirationTime.IsZero()", "return nil", "responseBytes, err := io.ReadAll(httpResponse.Body)", "if err != nil",
      "return fmt.Errorf(\"error while reading response body for caching: %w\", err)", "call r.cache.insert(&<*ast.CompositeLit>)",
      "httpResponse.Body = io.NopCloser(bytes.NewReader(responseBytes))", "return nil"] ∧
    maxCacheMinutes Facts.C18.maxCacheTimeExpr = some 60 := by decide

/-- **Invariant of every reachable cache state** (any capacity, any sequence of lookups, inserts, pops and round
    trips — every call returns, the model's loops are structural recursions): the expiry list and the URL index hold
    exactly the same entries (no entry can be answered that expiry and eviction cannot reach); the list is ordered by
    expiry; pointer identities are distinct; `currentSizeBytes` is exactly the number of body bytes held (by the index
    and by the list); and a non-empty cache never exceeds its byte limit. -/
theorem rcache_invariant (maxBytes : Int) (ops : List COp) :
    let c := (RCache.new maxBytes).run ops
    (∀ e, e ∈ c.list ↔ e ∈ c.all) ∧ c.list.Pairwise (fun a b => a.exp ≤ b.exp) ∧ (c.all.map (·.id)).Nodup ∧
    c.size = sumSizes c.all ∧ c.size = sumSizes c.list ∧ (c.list = [] ∨ c.size ≤ c.maxBytes) ∧ c.maxBytes = maxBytes := by
  obtain ⟨i, m⟩ := run_inv ops _ (new_inv maxBytes)
  exact ⟨i.t.same, i.t.sorted, i.t.nodupAll, i.t.acct, i.t.acctL, i.cap, m⟩

/-- **A cache hit is the entry of exactly this request**: same URL string, same method, same raw query — in every state. -/
theorem rcache_hit_sound (c : RCache) (now : Int) (k m q : Bytes) (e : CEntry) (h : (c.get now k m q).2 = some e) :
    e.key = k ∧ e.method = m ∧ e.query = q ∧ e ∈ (c.get now k m q).1.all :=
  get_hit c now k m q e h

/-- composed with the injectivity of the index: an entry stored for URL `v` is never the answer for another URL `u`
    (other scheme, user-info, host, port, path, query or fragment), through any history of the cache -/
theorem rcache_hit_same_url (c : RCache) (now : Int) (u v : CUrl) (hu : u.wf = true) (hv : v.wf = true) (m q : Bytes) (e : CEntry)
    (hstored : e.key = cacheKey v) (h : (c.get now (cacheKey u) m q).2 = some e) : u = v :=
  cache_key_injective u v hu hv ((get_hit c now _ m q e h).1.symm.trans hstored)

/-- **Expired entries are never served**: in every reachable state, whatever the lookup, a hit has not expired. -/
theorem rcache_hit_not_expired (maxBytes : Int) (ops : List COp) (now : Int) (k m q : Bytes) (e : CEntry)
    (h : (((RCache.new maxBytes).run ops).get now k m q).2 = some e) : ¬ e.exp < now := by
  obtain ⟨i, _⟩ := run_inv ops _ (new_inv maxBytes)
  exact removeExpired_fresh _ i now e (get_hit _ now k m q e h).2.2.2

/-- **What a round trip can add** (any state, any answer of the wrapped transport and of the cache-control library):
    every entry present afterwards was present before, or it is the answer to THIS request — a GET, declared cacheable
    by the library, stored under exactly this URL string / method / raw query, and expiring no later than the
    library's expiry and no later than `now + maxCacheTime`.  Hence a transport error, a non-GET request and a
    non-cacheable answer add nothing (the cache is unchanged but for pruning). -/
theorem rcache_round_trip_adds_only_this_cacheable_get (c : RCache) (now mc : Int) (k m q : Bytes) (i : Inner) :
    ∀ x ∈ (c.roundTrip now mc k m q i).1.all, x ∈ c.all ∨
      (m = sGET ∧ x.key = k ∧ x.method = m ∧ x.query = q ∧ x.exp ≤ now + mc ∧ ∃ size t, i = .resp size (some t) ∧ x.size = size ∧ x.exp ≤ t) :=
  roundTrip_all c now mc k m q i

/-- non-vacuity: max-age of 2 h is capped at 1 h (60000 units); a POST and a `no-store` answer leave the cache empty -/
example :
    ((RCache.new 100).roundTrip 5 60000 [97] sGET [] (.resp 8 (some 120005))).1.all.map (·.exp) = [60005] ∧
    ((RCache.new 100).roundTrip 5 60000 [97] [80, 79, 83, 84] [] (.resp 8 (some 120005))).1.all = [] ∧
    ((RCache.new 100).roundTrip 5 60000 [97] sGET [] (.resp 8 none)).1.all = [] ∧
    ((RCache.new 100).roundTrip 5 60000 [97] sGET [] .fail).1.all = [] := by decide

/-- non-vacuity: three inserts out of order (one already expired), a lookup at time 3: ordered list, the expired entry
    is gone from list AND index, the fresh one is a hit -/
example :
    let k1 : Bytes := [97]; let k2 : Bytes := [98]; let k3 : Bytes := [99]
    let c := (RCache.new 100).run [.insert k1 sGET [] 8 90000, .insert k2 sGET [] 8 (-30000), .insert k3 sGET [] 8 30000]
    c.list.map (·.id) = [1, 2, 0] ∧ ((c.get 3 k2 sGET []).2 = none) ∧ ((c.get 3 k2 sGET []).1.all.map (·.id) = [0, 2]) ∧
    ((c.get 3 k1 sGET []).2.map (·.id) = some 0) ∧ c.size = 24 := by decide

/-- a body of exactly the cache's size fits an empty cache; one byte more is refused (state unchanged but for the id) -/
example : ((RCache.new 24).insert [97] sGET [] 24 90000).size = 24 ∧ ((RCache.new 24).insert [97] sGET [] 25 90000).all = [] ∧
    (((RCache.new 24).insert [97] sGET [] 20 5).insert [98] sGET [] 10 7).list.map (·.id) = [1] := by decide

/-- **The defect that was repaired (commit b991549), on the code as it was** (`NutsModel/C18/RCacheOld.lean`; both
    witnesses were replayed on the real pre-fix cache by the harness and by the new Go test): (1) an entry displaced
    from the expiry list by a later insert is still answered 30 minutes after its expiry; (2) inserting a body of
    exactly the cache's size does not return (`hang`: the make-room loop pops an empty list for ever). -/
theorem old_cache_defect_witness :
    (∃ c c2, (Old.RCache.new 100).run [.insert [97] sGET [] 8 (-30000)] = some c ∧ c.insert [98] sGET [] 8 90000 = .ok c2 ∧
      ((c2.get 3 [97] sGET []).2.map (·.exp)) = some (-30000) ∧ c2.list.map (·.id) = [1]) ∧
    (Old.RCache.new 24).insert [97] sGET [] 24 90000 = .err "hang" := by
  refine ⟨⟨_, _, rfl, rfl, ?_, ?_⟩, ?_⟩ <;> decide

/-! ### deepening round: did:key as a function of the identifier (vdr/didkey/resolver.go) -/

/-- the multicodec switch of `didkey.Resolver.Resolve` (case order, constant values from the go-multicodec version of
    go.mod, what each case does with the key bytes), its refusing `default`, and the checks before it -/
theorem fact_did_key_table :
    Facts.C18.didKeyTable = [(235, "Bls12_381G2Pub", .unsupported), (236, "X25519Pub", .fixedLen 32), (237, "Ed25519Pub", .fixedLen 32),
      (231, "Secp256k1Pub", .unsupported), (4608, "P256Pub", .ec (some 33)), (4609, "P384Pub", .ec (some 49)), (4610, "P521Pub", .ec none),
      (4613, "RsaPub", .rsa)] ∧ Facts.C18.didKeyDefaultRefuses = true ∧
    Facts.C18.didKeyPrelude = ["id.Method != MethodName", "len(encodedKey) == 0 || encodedKey[0] != 'z'", "err != nil", "err != nil", "err != nil"] := by decide

/-- **did:key acceptance is sound**: for EVERY identifier, base58 verdict and library verdicts, if the resolver's
    decision procedure accepts, the identifier starts with `z`, its bytes start with a varint naming one of the six
    supported public-key codecs, and the key bytes have that codec's length (32 / 33 / 49) resp. passed the curve /
    PKCS#1 + 2048-bit checks.  (Together with `id_bound` / `jwk_key_pure`: the document is a function of the identifier.) -/
theorem did_key_accept_sound (id : Bytes) (decoded : Option Bytes) (lib : KeyLib)
    (h : resolveKeyClass Facts.C18.didKeyTable id decoded lib = .ok) :
    id.head? = some cZ ∧ ∃ mc code key, decoded = some mc ∧ readUvarint mc = .ok (code, key) ∧
      (((code = 236 ∨ code = 237) ∧ key.length = 32) ∨ (code = 4608 ∧ key.length = 33 ∧ lib.ecOK = true) ∨
       (code = 4609 ∧ key.length = 49 ∧ lib.ecOK = true) ∨ (code = 4610 ∧ lib.ecOK = true) ∨
       (code = 4613 ∧ lib.rsa ≠ "parse" ∧ lib.rsa ≠ "small")) :=
  did_key_accept_sound' id decoded lib h

/-- **Round trip of the multicodec prefix** (`binary.AppendUvarint` / `binary.ReadUvarint` as modelled): every 64-bit
    codec value, canonically encoded and followed by any key bytes, reads back as that value with the key bytes intact -/
theorem multicodec_prefix_roundtrip (n : Nat) (hn : n < 2 ^ 64) (rest : Bytes) :
    readUvarint (appendUvarint n ++ rest) = .ok (n, rest) :=
  readUvarint_append n hn rest

/-- non-vacuity: an Ed25519 identifier (0xed 0x01 + 32 bytes) is accepted; 31 bytes, secp256k1 (0xe7 0x01), an
    11-byte varint and a truncated varint are refused at the modelled sites -/
example :
    let k32 : Bytes := List.replicate 32 7
    resolveKeyClass Facts.C18.didKeyTable [122, 54] (some ([237, 1] ++ k32)) {} = .ok ∧
    resolveKeyClass Facts.C18.didKeyTable [122, 54] (some ([237, 1] ++ k32.tail)) {} = .len ∧
    resolveKeyClass Facts.C18.didKeyTable [122, 54] (some ([231, 1] ++ k32)) {} = .unsupported "Secp256k1Pub" ∧
    resolveKeyClass Facts.C18.didKeyTable [122, 54] (some (List.replicate 10 255 ++ [1])) {} = .multicodec ∧
    resolveKeyClass Facts.C18.didKeyTable [122, 54] (some [237]) {} = .multicodec ∧
    resolveKeyClass Facts.C18.didKeyTable [54] (some ([237, 1] ++ k32)) {} = .noz ∧
    readUvarint [128, 36, 9] = .ok (4608, [9]) := by decide

example : readUvarint (appendUvarint 4613 ++ [48, 130]) = .ok (4613, [48, 130]) :=
  multicodec_prefix_roundtrip 4613 (by decide) [48, 130]

/-! ### Deepening round 3: did:jwk (vdr/didjwk/resolver.go) — the document is a function of the identifier's base64 text -/

set_option maxRecDepth 20000 in
/-- the statement sequence of `didjwk.Resolver.Resolve` and `rawPrivateKeyOf` as regenerated from the source (method guard,
    `base64.RawStdEncoding.DecodeString`, parser, private-key refusal `rawPrivateKey != nil`, EC point condition, the
    returned document gets `document.ID = id`), and the refusal order the model runs with is the regenerated one -/
theorem fact_did_jwk_flow :
    Facts.C18.jwkFlow_Resolve =
      ["if id.Method != \"jwk\"", "return nil, nil, fmt.Errorf(\"unsupported DID method: %s\", id.Method)", "b64EncodedJWK := id.ID",
       "encodedJWK, err := base64.RawStdEncoding.DecodeString(b64EncodedJWK)", "if err != nil",
       "return nil, nil, fmt.Errorf(\"failed to decode base64 (%v): %w\", b64EncodedJWK, err)", "key, err := jwk.ParseKey(encodedJWK)",
       "if err != nil", "return nil, nil, fmt.Errorf(\"failed to parse JWK: %w\", err)", "rawPrivateKey, err := rawPrivateKeyOf(key)",
       "if err != nil", "return nil, nil, fmt.Errorf(\"rawPrivateKeyOf() failed: %w\", err)", "if rawPrivateKey != nil",
       "return nil, nil, fmt.Errorf(\"private keys are forbidden in DID JWK: %T\", rawPrivateKey)",
       "publicRawKey, err := jwk.PublicRawKeyOf(key)", "if err != nil",
       "return nil, nil, fmt.Errorf(\"failed to get PublicRawKeyOf(key): %w\", err)", "if-init ecKey, ok := <*ast.TypeAssertExpr>", "if ok",
       "p := ecKey.Curve.Params().P",
       "if ecKey.X == nil || ecKey.Y == nil || ecKey.X.Sign() < 0 || ecKey.Y.Sign() < 0 || ecKey.X.Cmp(p) >= 0 || ecKey.Y.Cmp(p) >= 0 || !ecKey.Curve.IsOnCurve(ecKey.X, ecKey.Y)",
       "return nil, nil, errors.New(\"invalid JWK: EC public key is not a point on its curve\")", "keyID := <*ast.CompositeLit>",
       "keyID.Fragment = \"0\"", "verificationMethod, err := did.NewVerificationMethod(keyID, godid.JsonWebKey2020, id, publicRawKey)",
       "if err != nil", "return nil, nil, fmt.Errorf(\"failed to create verification method: %w\", err)", "document.ID = id",
       "call document.AddAssertionMethod(verificationMethod)", "return &document, &<*ast.CompositeLit>, nil"] ∧
    Facts.C18.jwkFlow_rawPrivateKeyOf =
      ["if-init err := key.Raw(&rawUnspecifiedKey)", "if err != nil", "return nil, fmt.Errorf(\"failed to get raw key: %w\", err)",
       "publicKey, err := jwk.PublicKeyOf(key)", "if err != nil", "return nil, fmt.Errorf(\"failed to get public key: %w\", err)",
       "if-init err := publicKey.Raw(&rawPublicKey)", "if err != nil", "return nil, fmt.Errorf(\"failed to get raw public key: %w\", err)",
       "if reflect.DeepEqual(rawUnspecifiedKey, rawPublicKey)", "return nil, nil", "return rawUnspecifiedKey, nil"] ∧
    Facts.C18.jwkRefusals.take 2 = ["unsupported DID method: %s", "failed to decode base64 (%v): %w"] ∧
    jwkOrderOf Facts.C18.jwkRefusals = jwkOrder := by decide

/-- **did:jwk acceptance is sound**: whatever the library says about the decoded bytes — when `Resolve` (refusal order
    regenerated from the source) accepts `did:<method>:<id>`, the method is `jwk`, the identifier IS unpadded standard
    base64 of some bytes `raw`, the JWK parser accepted exactly those bytes, they carry NO private key, and an EC key is a
    point of its curve.  (The document then is `document.ID = id` with that key: `id_bound`, `jwk_key_pure`.) -/
theorem did_jwk_accept_sound (method id : Bytes) (lib : Bytes → JwkLib)
    (h : resolveJwkClass (jwkOrderOf Facts.C18.jwkRefusals) method id lib = .ok) :
    method = sJwk ∧ ∃ raw, b64Decode id = .ok raw ∧ (lib raw).parseOK = true ∧ (lib raw).rawErr = false ∧
      (lib raw).isPrivate = false ∧ (lib raw).pubRawErr = false ∧ ((lib raw).isEC = true → (lib raw).onCurve = true) ∧
      (lib raw).vmErr = false := by
  rw [fact_did_jwk_flow.2.2.2] at h
  unfold resolveJwkClass at h
  split at h
  · cases h
  · rename_i hm
    refine ⟨by simpa using hm, ?_⟩
    split at h
    · cases h
    · cases h
    · rename_i raw hd
      refine ⟨raw, hd, ?_⟩
      have hs := jwkSteps_ok (lib raw) jwkOrder h
      have h1 := hs "parse" (by decide)
      have h2 := hs "rawpriv" (by decide)
      have h3 := hs "private" (by decide)
      have h4 := hs "pubraw" (by decide)
      have h5 := hs "curve" (by decide)
      have h6 := hs "vm" (by decide)
      simp only [jwkStep] at h1 h2 h3 h4 h5 h6
      refine ⟨?_, ?_, ?_, ?_, ?_, ?_⟩
      · cases hp : (lib raw).parseOK <;> simp_all
      · cases hp : (lib raw).rawErr <;> simp_all
      · cases hp : (lib raw).isPrivate <;> simp_all
      · cases hp : (lib raw).pubRawErr <;> simp_all
      · intro he; cases hp : (lib raw).onCurve <;> simp_all
      · cases hp : (lib raw).vmErr <;> simp_all

/-- **The identifier determines the key bytes** (`base64.RawStdEncoding` as modelled, unbounded): the unpadded standard
    encoding of ANY byte string decodes back to exactly that byte string — so a did:jwk identifier built from a JWK text
    resolves against that very text, whatever its length -/
theorem b64_decode_encode (bs : Bytes) (h : ∀ x ∈ bs, x < 256) : b64Decode (b64Enc bs) = .ok bs :=
  b64_roundtrip_aux bs h

/-- did:jwk resolution of an encoded JWK text sees exactly that text: end to end through the decoder and the refusal order -/
theorem did_jwk_of_encoded_text (order : List String) (bs : Bytes) (h : ∀ x ∈ bs, x < 256) (lib : Bytes → JwkLib) :
    resolveJwkClass order sJwk (b64Enc bs) lib = jwkSteps (lib bs) order := by
  unfold resolveJwkClass
  rw [if_neg (by simp), b64_decode_encode bs h]

/-- non-vacuity: `{}` (`e30`) decodes and is refused by the parser verdict; a private key is refused AFTER parsing and BEFORE
    the curve check; `=` padding, `-` / `_` (URL alphabet) and a single left-over character are not base64 for Go's raw
    standard decoder, CR / LF are skipped, non-zero trailing bits are accepted (`e31` = `e30`-quantum + other low bits) -/
example :
    b64Decode [101, 51, 48] = .ok [123, 125] ∧ b64Enc [123, 125] = [101, 51, 48] ∧
    b64Decode [101, 51, 49] = .ok [123, 125] ∧
    b64Decode [101, 10, 51, 13, 48] = .ok [123, 125] ∧
    b64Decode [101, 51, 48, 61] = .err "corrupt" ∧ b64Decode [101, 45, 48] = .err "corrupt" ∧ b64Decode [101] = .err "corrupt" ∧
    b64Decode [101, 51, 48, 101, 101] = .err "corrupt" ∧
    resolveJwkClass jwkOrder sJwk [101, 51, 48] (fun _ => { parseOK := false }) = .parse ∧
    resolveJwkClass jwkOrder sJwk [101, 51, 48] (fun _ => { isPrivate := true, isEC := true, onCurve := false }) = .priv ∧
    resolveJwkClass jwkOrder sJwk [101, 51, 48] (fun _ => { isEC := true, onCurve := false }) = .curve ∧
    resolveJwkClass jwkOrder sJwk [101, 51, 48] (fun _ => {}) = .ok ∧
    resolveJwkClass jwkOrder sKey [101, 51, 48] (fun _ => {}) = .method := by decide

example : b64Decode (b64Enc [123, 34, 107, 116, 121, 34, 58, 49, 125]) = .ok [123, 34, 107, 116, 121, 34, 58, 49, 125] :=
  b64_decode_encode _ (by decide)

/-! ### Deepening round 3: vdr/resolver/did.go as general code — chains of any length, router registrations -/

/-- the loop of `ChainedDIDResolver.Resolve` and the lookup of `DIDResolverRouter.Resolve` as regenerated from the source -/
theorem fact_chain_router_flow :
    Facts.C18.chainFlow_Resolve =
      ["range c.Resolvers", "document, metadata, err := resolver.Resolve(id, metadata)", "if err == nil", "return document, metadata, nil",
       "else", "if errors.Is(err, ErrNotFound)", "continue", "else", "return nil, nil, err", "return nil, nil, ErrNotFound"] ∧
    Facts.C18.routerFlow_Resolve =
      ["method := id.Method", "didResolver, registered := r.resolvers.Load(method)", "if !registered",
       "return nil, nil, ErrDIDMethodNotSupported", "return <*ast.TypeAssertExpr>.Resolve(id, metadata)"] ∧
    Facts.C18.routerFlow_Register = ["call r.resolvers.Store(method, resolver)"] ∧
    Facts.C18.deactivatedIsFlow = ["_, result := <*ast.TypeAssertExpr>", "return result"] := by decide

/-- **The first answer of a chain wins, for chains of ANY length**: every resolver asked before the last one said
    NotFound; a result other than NotFound is the answer of the last resolver asked; NotFound means every resolver was
    asked and said NotFound -/
theorem chain_first_answer_wins (l : List ROut) :
    (chainResolve l).2 ≤ l.length ∧
    (∀ i, i + 1 < (chainResolve l).2 → l[i]? = some .notFound) ∧
    ((chainResolve l).1 ≠ .notFound → 0 < (chainResolve l).2 ∧ l[(chainResolve l).2 - 1]? = some (chainResolve l).1) ∧
    ((chainResolve l).1 = .notFound → (chainResolve l).2 = l.length ∧ ∀ x ∈ l, x = .notFound) :=
  chain_spec_l l

/-- **Nothing after the first answer is asked or matters** — in particular an error of the node's own store
    (deactivated, no active controller, storage fault) ends the chain: no later (network) resolver can overrule it -/
theorem chain_stops_at_first_answer (pre post : List ROut) (a : ROut) (hpre : ∀ x ∈ pre, x = .notFound) (ha : a ≠ .notFound) :
    chainResolve (pre ++ a :: post) = (a, pre.length + 1) :=
  chain_stops_l pre post a hpre ha

/-- the router hands a DID only to a resolver registered under EXACTLY its method (byte-wise), and a later registration
    of a method replaces the earlier one -/
theorem router_exact_method {β} (regs : List (Bytes × β)) (method : Bytes) (r : β) (h : routerLookup regs method = some r) :
    (method, r) ∈ regs :=
  router_exact_l regs method r h

theorem router_last_registration_wins {β} (regs : List (Bytes × β)) (method : Bytes) (r : β) :
    routerLookup (regs ++ [(method, r)]) method = some r :=
  router_last_wins_l regs method r

/-- **Refinement**: the node's did:web resolution (`resolve`, the abstract layer of `local_first_no_network`,
    `deactivated_needs_flag`, …) IS the general chain over [own SQL store, web]: same result class, and requests are made
    exactly when the chain reached its second member -/
theorem resolve_web_is_chain (dec : List Nat) (cts : List Bytes) (pol : Policy) (strict : Bool) (n : Node) (allow : Bool) (d : DID)
    (srv : Nat → Req → Option Resp) (hm : d.method = sWeb) (hs : n.didMethods.contains sWeb = true) :
    let c := chainResolve [toROut (resolveLocal (n.localState d) allow d), toROut (webOut dec cts pol strict d srv).2]
    toROut (resolve dec cts pol true strict n allow d srv).2 = c.1 ∧
    (resolve dec cts pol true strict n allow d srv).1 = (if c.2 = 2 then (webOut dec cts pol strict d srv).1 else []) :=
  resolve_web_is_chain_l dec cts pol strict n allow d srv hm hs

/-- non-vacuity: three resolvers; a deactivated answer of the second one ends the chain although the third would resolve -/
example : chainResolve [.notFound, .fail "deactivated", .ok 7] = (.fail "deactivated", 2) ∧
    chainResolve [.notFound, .notFound, .ok 7] = (.ok 7, 3) ∧ chainResolve [.notFound, .notFound] = (.notFound, 2) ∧
    chainResolve [] = (.notFound, 0) ∧
    routerLookup [([119], 1), ([106], 2), ([119], 3)] [119] = some 3 ∧ routerLookup [([119], 1)] [87] = (none : Option Nat) := by decide

example : chainResolve ([.notFound] ++ .fail "db" :: [.ok 1]) = (.fail "db", 2) :=
  chain_stops_at_first_answer [.notFound] [.ok 1] (.fail "db") (by simp) (by simp)

/-! ### Deepening round 3: resolution at a point in time (`ResolveMetadata.ResolveTime` -> `Latest(did, resolveTime)`) -/

/-- `didsubject.Resolver.Resolve` hands `metadata.ResolveTime` (when given) to `Latest` as the time bound -/
theorem fact_local_resolve_time : Facts.C18.localResolveTimeFlow =
    ["if metadata != nil && metadata.ResolveTime != nil", "notAfter = metadata.ResolveTime", "doc, err := didDocumentMananager.Latest(id, notAfter)"] := by decide

/-- **The lookup returns the NEWEST version that existed at the resolve time** — for every table and every time: no row of
    this DID with `updated_at <= t` has a higher version than the one returned … -/
theorem local_lookup_newest_at_time (rows : List DocRow) (d : Bytes) (t : Int) (r : DocRow) (h : sqlLatest rows d t = some r) :
    ∀ r' ∈ rows, r'.did = d → r'.updatedAt ≤ t → r'.version ≤ r.version :=
  sqlLatest_newest rows d t r h

/-- … and "not found" means exactly that NO version of this DID existed at that time -/
theorem local_lookup_not_found_iff (rows : List DocRow) (d : Bytes) (t : Int) :
    sqlLatest rows d t = none ↔ ∀ r' ∈ rows, r'.did = d → ¬ r'.updatedAt ≤ t :=
  sqlLatest_none_iff rows d t

/-- **Deactivation holds from its moment on** (all histories, all tables, all later resolve times): when the highest
    version of a DID is a deactivation written at `r.updatedAt`, every resolution at a time `t` at or after it — with or
    without `ResolveTime`, whatever earlier active versions and whatever other DIDs the table holds — is refused without
    `AllowDeactivated`, and with it returns this DID's document marked deactivated -/
theorem deactivated_from_then_on (rows : List DocRow) (d : DID) (r : DocRow) (t : Int)
    (hr : r ∈ rows) (hd : r.did = d.str) (hi : r.active = false)
    (hmax : ∀ r' ∈ rows, r'.did = d.str → r'.version ≤ r.version)
    (huniq : ∀ r' ∈ rows, r'.did = d.str → r'.version = r.version → r' = r)
    (ht : r.updatedAt ≤ t) :
    sqlResolveLocal rows t false d = .err "deactivated" ∧
    sqlResolveLocal rows t true d = .ok { docID := d.str, deactivated := true } :=
  deactivated_from_then_on_l rows d r t hr hd hi hmax huniq ht

/-- non-vacuity: active at 10, deactivated at 20, (case variant re-activated at 30): at 15 the active version answers, at 20
    and 1000 the DID is deactivated, at 5 it is not found -/
example :
    let d : DID := { method := sWeb, id := [97] }
    let rows : List DocRow := [{ did := d.str, version := 0, updatedAt := 10, active := true }, { did := d.str, version := 1, updatedAt := 20, active := false },
                               { did := [65], version := 2, updatedAt := 30, active := true }]
    sqlResolveLocal rows 15 false d = .ok { docID := d.str } ∧ sqlResolveLocal rows 20 false d = .err "deactivated" ∧
    sqlResolveLocal rows 1000 false d = .err "deactivated" ∧ sqlResolveLocal rows 5 false d = .err "not-found" ∧
    sqlResolveLocal rows 1000 true d = .ok { docID := d.str, deactivated := true } := by decide

/-! ### Deepening round 2: did:x509 (vdr/didx509) — the document is bound to the identifier AND to the presented chain -/

/-- the did:x509 tables and orders the model relies on, as regenerated from vdr/didx509: the validatorMap rows (policy, key,
    how the function literal compares `value` with which certificate attribute) ARE the model's table; the policy names
    that reach `validate` and the refusing default; the hash switch (after `strings.ToLower`); the thumbprint headers with
    their algorithms; the order of the calls of `Resolve` -/
theorem fact_x509_tables :
    tableOfFacts Facts.C18.x509ValidatorRows = some xValidatorTable ∧ Facts.C18.x509PolicyKeyCount = 12 ∧
    Facts.C18.x509PolicyNames = ["subject", "san"] ∧ Facts.C18.x509PolicyDefault = "err=ErrUnkPolicyType;" ∧
    Facts.C18.x509HashAlgsB = hashAlgs ∧ Facts.C18.x509HashLowered = true ∧
    Facts.C18.x509ThumbprintHeaders = [("x5t", "hashHeader", "sha1"), ("x5t#S256", "hash256Header", "sha256")] ∧
    Facts.C18.x509ResolveOrder = ["parseX509Did(id)", "metadata.GetProtectedHeaderChain(X509CertChainHeader)", "parseChain(chainHeader)",
      "findCertificateByHash(chain,ref.RootCertRef,ref.Method)", "findValidationCertificate(metadata,chain)",
      "validatePolicy(ref,validationCert)", "r.pkiValidator.CheckCRLStrict(chain)", "createDidDocument(id,validationCert)"] := by decide

/-- **The parsed reference is the identifier** (`parseX509Did`, every text): an accepted identifier is exactly
    `0:<alg>:<root>` followed by `::<name>:<value>` per policy — nothing of the text is dropped or reordered —
    hence two identifiers with the same reference are the same identifier. -/
theorem x509_reference_is_the_identifier (id : Bytes) (r : XRef) (h : parseX509Did id = .ok r) :
    id = refText r ∧ ∀ id', parseX509Did id' = .ok r → id' = id := by
  refine ⟨parseX509Did_shape id r h, fun id' h' => ?_⟩
  rw [parseX509Did_shape id r h, parseX509Did_shape id' r h']

/-- `strings.Split` / `strings.Join` on `"::"` as modelled are inverse on every text -/
theorem x509_split_join (s : Bytes) : joinDC (splitDC s) = s := joinDC_splitDC s

/-- **Every policy of the identifier is enforced** (`validatePolicy`, all policy lists, all certificates): a list is accepted
    iff each of its parts is; and an accepted list means: every policy is `subject`/`san`, every key of it is in
    `validatorMap` and the certificate carries the (query-unescaped) value. Appending a policy can only refuse more. -/
theorem x509_policies_all_enforced (tbl : XTbl) (c : XCert) (ps qs : List XPolicy) :
    (validatePolicy tbl c (ps ++ qs) = .ok () ↔ (validatePolicy tbl c ps = .ok () ∧ validatePolicy tbl c qs = .ok ())) ∧
    (validatePolicy tbl c ps = .ok () → ∀ p ∈ ps, policyHolds tbl c p) :=
  ⟨validatePolicy_append tbl c ps qs, validatePolicy_sound tbl c ps⟩

/-- **The validation certificate is the one every present thumbprint header names** (`findValidationCertificate`): it is in
    the chain, `x5t` (SHA-1) and `x5t#S256` (SHA-256) — each if present — are its hash, and at least one is present. -/
theorem x509_validation_cert_named_by_every_thumbprint (ids : List Nat) (x5t x5s : Option XTarget) (c : Nat)
    (h : findValidationCert ids x5t x5s = .ok c) :
    c ∈ ids ∧ (x5t = none ∨ x5t = some (.hashOf c sSha1)) ∧ (x5s = none ∨ x5s = some (.hashOf c sSha256)) ∧
      (x5t ≠ none ∨ x5s ≠ none) :=
  findValidationCert_sound ids x5t x5s c h

/-- **did:x509 binding** (`Resolver.Resolve`, every identifier, every header set, every certificate universe): a returned
    document has exactly the resolved DID as id; the identifier is `0:<alg>:<root>::…` read without loss; a chain was
    presented, the root reference is the hash (under the identifier's algorithm, lower-cased) of a certificate OF THAT CHAIN;
    the policies were checked against the chain certificate named by every present thumbprint header; every policy of the
    identifier holds for that certificate; the CRL check passed.  No step performs I/O (the function has no server argument). -/
theorem x509_accept_sound (tbl : XTbl) (method id : Bytes) (inp : XInput) (doc : Bytes)
    (h : resolveX509 tbl method id inp = .ok doc) : X509Accepted tbl method id inp doc :=
  resolveX509_sound tbl method id inp doc h

/-- a nil `*ResolveMetadata` is dereferenced by `GetProtectedHeaderChain` (after the identifier parsed): panic, not an error -/
theorem x509_nil_metadata_panics :
    resolveX509 xValidatorTable sX509 [48, 58, 97, 58, 98] { chain := .nilMeta, x5t := none, x5tS256 := none, certs := fun _ => {}, crlOK := true, vmOK := true }
      = .panic "nil-metadata" := by decide

/-- non-vacuity: `0:sha256:H0sha256::subject:CN:a%2Bb::san:dns:x` over chain [0,1], x5t#S256 naming certificate 1 whose CN is
    `a+b` and which has DNS name `x`, resolves; with certificate 0 named (no such attributes) it is a mismatch; with the
    `san` policy first and an unknown key it is refused before the subject is looked at; ":::" splits as Go does -/
example :
    let id : Bytes := [48,58,115,104,97,50,53,54,58,72,48,115,104,97,50,53,54,58,58,115,117,98,106,101,99,116,58,67,78,58,97,37,50,66,98,58,58,115,97,110,58,100,110,115,58,120]
    let certs : Nat → XCert := fun k => if k = 1 then { cn := [97, 43, 98], dns := [[120]] } else {}
    let inp (k : Nat) : XInput := { chain := .chain [0, 1], x5t := none, x5tS256 := some (.hashOf k sSha256), certs := certs, crlOK := true, vmOK := true }
    resolveX509 xValidatorTable sX509 id (inp 1) = .ok (sDid ++ sX509 ++ 58 :: id) ∧
    resolveX509 xValidatorTable sX509 id (inp 0) = .err "mismatch" ∧
    resolveX509 xValidatorTable sX509 id { inp 1 with crlOK := false } = .err "crl" ∧
    resolveX509 xValidatorTable sX509 id { inp 1 with chain := .chain [1] } = .err "cert-not-found" ∧
    splitDC [97, 58, 58, 58, 98] = [[97], [58, 98]] ∧
    (parseX509Did id).isOk = true := by decide

example : findValidationCert [0, 1, 2] (some (.hashOf 2 sSha1)) (some (.hashOf 2 sSha256)) = .ok 2 ∧
    findValidationCert [0, 1, 2] (some (.hashOf 1 sSha1)) (some (.hashOf 2 sSha256)) = .err "thumbprints-differ" ∧
    findValidationCert [0, 1, 2] none none = .err "no-thumbprint" := by decide

end Nuts.C18.Props
