/-
  C03 (deepening round 2) — property theorems about the backend WIRING: whatever `Configure` installs as the engine's key
  store backend is behind the validating wrapper (so the confinement theorems of Props.C03 apply to the configured engine),
  for every storage string, strict flag and constructor behaviour.
-/
import NutsModel.C03.Configure
import NutsModel.C03.Kid
import NutsModel.Facts.C03
import NutsProofs.Props.C03

namespace Nuts.C03.Props
open Nuts Nuts.C03 Nuts.Facts

/-! ## regenerated facts -/

/-- Configure switches on `client.config.Storage`; before the switch only the SQL handle is taken; every step of every
    clause is one the interpreter has a rule for and every called setup function exists -/
theorem fact_configure_switch_shape :
    C03.configureTag = "client.config.Storage" ∧
    C03.configurePre = ["client.db = client.storage.GetSQLDatabase()"] ∧
    (∀ c ∈ C03.configureSwitch, ∀ st ∈ c.2.2,
      (st.1 = "strict-error" ∨ st.1 = "error" ∨ (st.1 = "call" ∧ (C03.setupFns.find? (isFn st.2)).isSome))) ∧
    (C03.configureSwitch.find? isDefault).isSome := by decide

/-- every setup function assigns `spi.NewValidatedKIDBackendWrapper(<the constructed backend>, spi.KidPattern)` -/
theorem fact_every_setup_wraps_ctor_result :
    C03.setupFns ≠ [] ∧
    ∀ r ∈ C03.setupFns, r.2.2.2.1 = "spi.NewValidatedKIDBackendWrapper" ∧ r.2.2.2.2.1 = "ctor-result" ∧ r.2.2.2.2.2 = "spi.KidPattern" := by
  decide

/-- the storage names the switch knows, in source order, and the fs backend's sub-directory -/
theorem fact_storage_types :
    (C03.configureSwitch.filter (fun c => !c.1)).map (·.2.1) = [["fs"], ["vaultkv"], ["azure-keyvault"], ["external"], [""]] ∧
    C03.fsBackendSubdir = "crypto" := by decide

/-- the guards of azure.New / createCredential and vault.NewVaultKVStorage / checkConnection the model `azureNew` / `vaultNew` mirrors -/
theorem fact_backend_constructor_guards :
    C03.azureNewSteps = ["if config.URL == \"\" -> errors.New:missing Azure Key Vault URL", "call createCredential(config.Auth.Type)",
      "if err != nil -> return err", "call azkeys.NewClient(config.URL)",
      "if err != nil -> fmt.Errorf:unable to create Azure Key Vault client: %w", "return"] ∧
    C03.azureCredentialTypes = ["default", "managed_identity"] ∧
    C03.azureCredentialDefault = "fmt.Errorf:unsupported Azure Key Vault credential type: %s:credentialType" ∧
    C03.vaultCheckConnection = ["call v.client.ReadWithContext(\"auth/token/lookup-self\")",
      "if err != nil -> unable to connect to Vault: unable to retrieve token status: %w",
      "if secret == nil || len(secret.Data) == 0 -> could not read token information on auth/token/lookup-self", "return nil"] ∧
    C03.vaultNewSteps = ["configureVaultClient", "return nil, err", "vaultStorage.checkConnection", "return nil, err", "return vaultStorage, nil"] := by
  decide

/-! ## general lemmas (any switch table, any setup table) -/

theorem setup_ok (fns : List SetupFn) (ctorRes : String → Ctor) (fn : String) (b : Backend)
    (h : setup fns ctorRes fn = .ok b) :
    ctorRes b.ctor = .ok ∧ ∃ r ∈ fns, r.2.1 = b.ctor ∧ r.2.2.2.1 = b.wrapper ∧ r.2.2.2.2.1 = b.inner ∧ r.2.2.2.2.2 = b.pattern := by
  unfold setup at h
  split at h
  · cases h
  · rename_i ctor wrap wrapper inner pattern hf
    split at h
    · cases h
    · rename_i hc
      cases h
      exact ⟨hc, _, List.mem_of_find?_eq_some hf, rfl, rfl, rfl, rfl⟩

theorem runSteps_ok (fns : List SetupFn) (ctorRes : String → Ctor) (strict : Bool) (steps : List (String × String)) (b : Backend)
    (h : runSteps fns ctorRes strict steps = .ok b) : ∃ fn, setup fns ctorRes fn = .ok b := by
  induction steps with
  | nil => cases h
  | cons st rest ih =>
    obtain ⟨k, a⟩ := st
    unfold runSteps at h
    split at h
    · split at h
      · cases h
      · exact ih h
    · split at h
      · exact ⟨a, h⟩
      · split at h <;> cases h

/-- a backend is installed only by a setup function of the table, and only if its constructor succeeded -/
theorem configure_ok (sw : List CfgCase) (fns : List SetupFn) (storage : String) (strict : Bool) (ctorRes : String → Ctor) (b : Backend)
    (h : configure sw fns storage strict ctorRes = .ok b) :
    ctorRes b.ctor = .ok ∧ ∃ r ∈ fns, r.2.1 = b.ctor ∧ r.2.2.2.1 = b.wrapper ∧ r.2.2.2.2.1 = b.inner ∧ r.2.2.2.2.2 = b.pattern := by
  unfold configure at h
  split at h
  · cases h
  · obtain ⟨fn, hs⟩ := runSteps_ok _ _ _ _ _ h
    exact setup_ok _ _ _ _ hs

/-! ## the property, for the switch and setup functions of today's source -/

/-- WIRING: for every storage string, strict flag and constructor behaviour — if Configure installs a backend at all, it is the
    validating wrapper (KidPattern) around the backend it constructed. -/
theorem configured_backend_validates (storage : String) (strict : Bool) (ctorRes : String → Ctor) (b : Backend)
    (h : configure C03.configureSwitch C03.setupFns storage strict ctorRes = .ok b) : backendValidates b = true := by
  obtain ⟨_, r, hr, _, hw, hi, hp⟩ := configure_ok _ _ _ _ _ _ h
  obtain ⟨h1, h2, h3⟩ := fact_every_setup_wraps_ctor_result.2 r hr
  unfold backendValidates
  rw [← hw, ← hi, ← hp, h1, h2, h3]
  decide

/-- so a call on the configured backend is forwarded to the real backend only for names `validateKID` accepts -/
theorem configured_backend_refuses_invalid_names {α} (valid : α → Bool) (storage : String) (strict : Bool) (ctorRes : String → Ctor)
    (b : Backend) (h : configure C03.configureSwitch C03.setupFns storage strict ctorRes = .ok b)
    (name : α) (hf : forwarded valid b name = true) : valid name = true := by
  have hv := configured_backend_validates storage strict ctorRes b h
  unfold forwarded at hf
  rw [hv] at hf
  simpa using hf

/-- END-TO-END (config text -> wiring -> path): every name the engine configured from ANY storage string lets through to the
    file-system backend denotes exactly the entry `<name>_<type>` of the key directory (composition with `kid_confined`). -/
theorem configured_fs_backend_confined (cls hex : Ranges) (hshape : kidClasses C03.kidPatternRx = some (cls, hex))
    (storage : String) (strict : Bool) (ctorRes : String → Ctor) (b : Backend)
    (h : configure C03.configureSwitch C03.setupFns storage strict ctorRes = .ok b)
    (dir kid et : Bytes) (hdir : dir ≠ []) (het : et ∈ C03.fsEntryTypes)
    (hf : forwarded (validateKID cls hex C03.validateKIDRefusedNames) b kid = true) :
    IsEntryName (fsEntryFileName kid et) ∧
    fsEntryPath dir kid et = ((cleanP dir).child (fsEntryFileName kid et)).render :=
  let hk := kid_confined cls hex hshape dir kid et hdir het
    (configured_backend_refuses_invalid_names _ storage strict ctorRes b h kid hf)
  ⟨hk.1, hk.2.1⟩

/-- strict mode: an empty storage setting never installs a backend, whatever the constructors would do -/
theorem configure_strict_needs_explicit_storage (ctorRes : String → Ctor) :
    configure C03.configureSwitch C03.setupFns "" true ctorRes = .error "backend must be explicitly set in strict mode" := by
  rfl

/-- non-strict: the empty storage setting is the fs backend; an explicit setting ignores the strict flag -/
theorem configure_default_is_fs (strict : Bool) (ctorRes : String → Ctor) :
    configure C03.configureSwitch C03.setupFns "" false ctorRes = configure C03.configureSwitch C03.setupFns "fs" strict ctorRes := by
  cases strict <;> rfl

private theorem contains_single (a s : String) : ([a] : List String).contains s = (s == a) := by
  cases h : s == a <;> simp [List.contains, List.elem, h]

/-- a storage string the switch does not list installs nothing (no case folding, no trimming, no prefix match) -/
theorem configure_unknown_storage (storage : String) (strict : Bool) (ctorRes : String → Ctor)
    (h : storage ∉ ["fs", "vaultkv", "azure-keyvault", "external", ""]) :
    configure C03.configureSwitch C03.setupFns storage strict ctorRes =
      .error "invalid config for crypto.storage. Available options are: vaultkv, fs, external(experimental)" := by
  simp only [List.mem_cons, List.mem_nil_iff, or_false, not_or] at h
  obtain ⟨h1, h2, h3, h4, h5⟩ := h
  have e1 : (storage == "fs") = false := by simpa using h1
  have e2 : (storage == "vaultkv") = false := by simpa using h2
  have e3 : (storage == "azure-keyvault") = false := by simpa using h3
  have e4 : (storage == "external") = false := by simpa using h4
  have e5 : (storage == "") = false := by simpa using h5
  simp [configure, selectCase, C03.configureSwitch, List.find?, isCaseOf, isDefault, contains_single, e1, e2, e3, e4, e5, h1, h2, h3, h4, h5, runSteps]

/-- which backend: the constructor that ran is determined by the storage string alone -/
theorem configure_backend_kind (storage : String) (strict : Bool) (ctorRes : String → Ctor) (b : Backend)
    (h : configure C03.configureSwitch C03.setupFns storage strict ctorRes = .ok b) :
    (storage = "fs" ∧ b.ctor = "fs.NewFileSystemBackend") ∨ (storage = "" ∧ strict = false ∧ b.ctor = "fs.NewFileSystemBackend") ∨
    (storage = "vaultkv" ∧ b.ctor = "vault.NewVaultKVStorage") ∨ (storage = "azure-keyvault" ∧ b.ctor = "azure.New") ∨
    (storage = "external" ∧ b.ctor = "external.NewAPIClient") := by
  by_cases hm : storage ∈ ["fs", "vaultkv", "azure-keyvault", "external", ""]
  · simp only [List.mem_cons, List.mem_nil_iff, or_false] at hm
    rcases hm with rfl | rfl | rfl | rfl | rfl
    · left; refine ⟨rfl, ?_⟩
      have : configure C03.configureSwitch C03.setupFns "fs" strict ctorRes = setup C03.setupFns ctorRes "setupFSBackend" := by cases strict <;> rfl
      rw [this] at h
      cases hc : ctorRes "fs.NewFileSystemBackend" <;> simp [setup, C03.setupFns, List.find?, isFn, hc] at h
      rw [← h]
    · right; right; left; refine ⟨rfl, ?_⟩
      have : configure C03.configureSwitch C03.setupFns "vaultkv" strict ctorRes = setup C03.setupFns ctorRes "setupVaultBackend" := by cases strict <;> rfl
      rw [this] at h
      cases hc : ctorRes "vault.NewVaultKVStorage" <;> simp [setup, C03.setupFns, List.find?, isFn, hc] at h
      rw [← h]
    · right; right; right; left; refine ⟨rfl, ?_⟩
      have : configure C03.configureSwitch C03.setupFns "azure-keyvault" strict ctorRes = setup C03.setupFns ctorRes "setupAzureKeyVaultBackend" := by cases strict <;> rfl
      rw [this] at h
      cases hc : ctorRes "azure.New" <;> simp [setup, C03.setupFns, List.find?, isFn, hc] at h
      rw [← h]
    · right; right; right; right; refine ⟨rfl, ?_⟩
      have : configure C03.configureSwitch C03.setupFns "external" strict ctorRes = setup C03.setupFns ctorRes "setupStorageAPIBackend" := by cases strict <;> rfl
      rw [this] at h
      cases hc : ctorRes "external.NewAPIClient" <;> simp [setup, C03.setupFns, List.find?, isFn, hc] at h
      rw [← h]
    · cases strict
      · right; left; refine ⟨rfl, rfl, ?_⟩
        have : configure C03.configureSwitch C03.setupFns "" false ctorRes = setup C03.setupFns ctorRes "setupFSBackend" := rfl
        rw [this] at h
        cases hc : ctorRes "fs.NewFileSystemBackend" <;> simp [setup, C03.setupFns, List.find?, isFn, hc] at h
        rw [← h]
      · rw [configure_strict_needs_explicit_storage] at h; cases h
  · rw [configure_unknown_storage storage strict ctorRes hm] at h; cases h

/-- UNCHANGED ON ERROR: when every constructor fails, Configure leaves `client.backend` as it was, for every setting -/
theorem configure_failure_keeps_backend (prev : Option Backend) (storage : String) (strict : Bool) (ctorRes : String → Ctor)
    (hfail : ∀ c, ctorRes c ≠ .ok) :
    (configureSt C03.configureSwitch C03.setupFns prev storage strict ctorRes).1 = prev ∧
    (configureSt C03.configureSwitch C03.setupFns prev storage strict ctorRes).2.isSome = true := by
  unfold configureSt
  split
  · rename_i b hb
    exact absurd (configure_ok _ _ _ _ _ _ hb).1 (hfail _)
  · exact ⟨rfl, rfl⟩
  · exact ⟨rfl, rfl⟩

/-- azure.New succeeds only with a URL and one of the two credential types of the source -/
theorem azure_new_ok (url credType : String) (sdkCred sdkClient : Option String)
    (h : azureNew C03.azureCredentialTypes url credType sdkCred sdkClient = .ok) :
    url ≠ "" ∧ (credType = "default" ∨ credType = "managed_identity") ∧ sdkCred = none ∧ sdkClient = none := by
  unfold azureNew at h
  split at h
  · cases h
  · rename_i hu
    split at h
    · cases h
    · rename_i hc
      split at h
      · cases h
      · split at h
        · cases h
        · refine ⟨by simpa using hu, ?_, rfl, rfl⟩
          by_cases ha : credType = "default"
          · exact Or.inl ha
          · by_cases hb : credType = "managed_identity"
            · exact Or.inr hb
            · exfalso
              have e1 : (credType == "default") = false := by simpa using ha
              have e2 : (credType == "managed_identity") = false := by simpa using hb
              simp [C03.azureCredentialTypes, List.contains, List.elem, e1, e2] at hc

/-- the Vault backend exists only after a token lookup that returned data -/
theorem vault_new_ok (clientErr : Option String) (lk : Lookup) (h : vaultNew clientErr lk = .ok) :
    clientErr = none ∧ lk = .data := by
  unfold vaultNew at h
  cases clientErr <;> cases lk <;> simp at h ⊢

/-! ## non-vacuity -/

example : configure C03.configureSwitch C03.setupFns "vaultkv" true (fun _ => .ok) =
    .ok { ctor := "vault.NewVaultKVStorage", wrapper := "spi.NewValidatedKIDBackendWrapper", inner := "ctor-result", pattern := "spi.KidPattern" } := by
  rfl
example : configure C03.configureSwitch C03.setupFns "" false (fun _ => .ok) =
    .ok { ctor := "fs.NewFileSystemBackend", wrapper := "spi.NewValidatedKIDBackendWrapper", inner := "ctor-result", pattern := "spi.KidPattern" } := by
  rfl
example : configure C03.configureSwitch C03.setupFns "external" false (fun _ => .err "parse \"x\": invalid URI for request") =
    .error "unable to set up external crypto API client: parse \"x\": invalid URI for request" := by rfl
example : "FS" ∉ ["fs", "vaultkv", "azure-keyvault", "external", ""] := by decide
example : (configureSt C03.configureSwitch C03.setupFns none "vaultkv" false (fun _ => .err "x")).1 = none := by rfl
example : azureNew C03.azureCredentialTypes "https://v" "managed_identity" none none = .ok := by rfl
example : vaultNew none .data = .ok := rfl
/-- the wrapper matters: without it every name would be forwarded -/
example : forwarded (fun (_ : String) => false) { ctor := "c", wrapper := "", inner := "ctor-result", pattern := "spi.KidPattern" } "../x" = true := by rfl

end Nuts.C03.Props
