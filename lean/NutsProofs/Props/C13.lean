/-
  C13 — subject operations change all DIDs of a subject together or not at all.
  ONLY property theorems (+ non-vacuity examples + fact obligations). Helper lemmas: NutsProofs/Lemmas/C13.lean.
  Model: NutsModel/C13/Subject.lean.  Facts: NutsModel/Facts/C13.lean is REGENERATED from /repo on every run.
-/
import NutsModel.C13.Subject
import NutsModel.Facts.C13
import NutsProofs.Lemmas.C13

namespace Nuts.C13.Props
open Nuts.C13 Nuts

/-! ### Obligations on the regenerated facts -/

/-- `Rollback` looks at changes older than one minute (`time.Now().Add(-time.Minute)`: the threshold lies in the PAST,
    `updated_at < ?`: `oldChanges` = `ts + threshold < now`);
    the harness's clock steps (25 s / 70 s) and the oracle are written for this value -/
theorem fact_sweep_threshold :
    Facts.C13.sweepThresholdSeconds = 60 ∧ Facts.C13.sweepSelection = "updated_at < ?" ∧
    Facts.C13.sweepThresholdDirection = "past" := by decide

/-- `transactionHelper` = first transaction, then `range r.MethodManagers` calling `Commit` and breaking on the first
    error, then the clean-up transaction: the order `stepOp` models, with the map iteration order as an argument. There is
    NO way out between the commit loop and the clean-up transaction (the only plain `if … return` comes after it): a failed
    Commit is cleaned up at once whatever the reason — also when the request context is cancelled (`failed_commit_restores`;
    skipping the clean-up is the `Fault.stop` behaviour, whose retry-before-the-sweep witness is the "busy" example below) -/
theorem fact_transaction_helper_shape :
    Facts.C13.transactionHelperShape = ["tx", "range:r.MethodManagers:Commit:break", "tx", "if(err != nil):return"] := by decide

/-- both clean-up paths (`transactionHelper` on a failed commit, `Rollback` on an uncommitted transaction) delete the
    version and — for a change that created the DID — the DID row (`deleteUncommittedChange`) -/
theorem fact_rollback_deletes_created_did :
    Facts.C13.rollbackDeletesVersion = true ∧ Facts.C13.rollbackDeletesCreatedDID = true := by decide

/-- didnuts `IsCommitted` answers (false, nil) for a DID that was never published -/
theorem fact_nuts_not_found_is_uncommitted : Facts.C13.nutsIsCommittedNotFoundIsUncommitted = true := by decide

/-- didweb `Commit` is `return nil` and `IsCommitted` is `return true, nil` -/
theorem fact_web_commit_cannot_fail :
    Facts.C13.webCommitReturnsNil = true ∧ Facts.C13.webIsCommittedAlwaysTrue = true := by decide

/-- `CreateOrUpdate`: `latest := DidDocument{Version: -1}` … `Version: latest.Version + 1` (`nextVersion`) -/
theorem fact_version_is_latest_plus_one :
    Facts.C13.createOrUpdateVersion = ["-1", "latest.Version + 1"] := by decide

/-- the stored rendering of a version (`GenerateDIDDocument`, hashed by `IsCommitted`) and the empty document did:nuts
    publishes for a deactivation (`CreateDocument`, legacy `Deactivate → Update` path) carry the same, unconditional JSON-LD
    contexts: the model's `commitNuts … .deactivated` publishes `Content.empty` and `isCommitted` finds it equal to the
    stored deactivated version -/
theorem fact_deactivation_renders_as_published :
    Facts.C13.generatedDocumentContexts = Facts.C13.nutsEmptyDocumentContexts ∧
    Facts.C13.generatedDocumentContexts = ["did.DIDContextV1URI()", "jsonld.JWS2020ContextV1URI()"] ∧
    Facts.C13.generatedDocumentContextAssignments = 0 ∧ Facts.C13.nutsEmptyDocumentContextAssignments = 0 := by decide

/-- vdr/vdr.go: `Start` launches `rollbackLoop` (unless did:nuts is disabled); the loop sweeps once at start-up and then on
    a one-minute ticker until shutdown; `Module` does not override `Rollback` (it is the embedded `SqlManager`'s). This is
    the model's "the sweep runs, at the latest one ticker period after the threshold" (`Reach.sweep` is always enabled). -/
theorem fact_rollback_loop_wiring :
    Facts.C13.rollbackLoopShape =
      ["ticker:60", "Rollback", "for", "for/case <-r.ctx.Done()/return", "for/case <-ticker.C/Rollback"] ∧
    Facts.C13.startLaunchesRollbackLoop = true ∧ Facts.C13.startReturnsEarlyWhen = "r.networkAmbassador == nil" ∧
    Facts.C13.moduleOverridesRollback = false := by decide

/-- vdr/vdr.go `Configure`: the did:nuts manager is registered under "nuts", the did:web manager under "web", and that map
    is what `didsubject.New` gets; `DIDChangeLog.Method` (how `Rollback` picks the manager for `IsCommitted`) is the method
    of the version's DID. The model's `Method` ↦ manager assignment (`commitLoop`, `isCommitted`). -/
theorem fact_method_manager_wiring :
    Facts.C13.methodManagerRegistrations = ["didnuts.MethodName=didnuts.NewManager", "didweb.MethodName=didweb.NewManager"] ∧
    Facts.C13.methodNames = ["nuts", "web"] ∧
    Facts.C13.subjectManagerConstruction = "db,methodManagers,r.keyStore,r.supportedDIDMethods" ∧
    Facts.C13.changeLogMethod = ["parse:d.DIDDocumentVersion.DID.ID", "\"_unknown\"", "id.Method"] := by decide

/-- did_document.go: "latest" = highest version (`order by version desc`) in both `Latest` (with keys and services preloaded)
    and `CreateOrUpdate`: the head of the model's version stack -/
theorem fact_latest_is_highest_version :
    Facts.C13.latestQuery = ["Order:version desc", "Preload:DID", "Preload:Services", "Preload:VerificationMethods",
      "Where:did = ? AND updated_at <= ?"] ∧
    Facts.C13.createOrUpdateQuery = ["Order:version desc", "Preload:DID", "Where:did = ?"] := by decide

/-- manager.go `Create`: the "subject already exists" check (`NewDIDManager(tx).FindBySubject(subject)`) is made INSIDE the
    function literal handed to `transactionHelper`, i.e. in the SQL transaction that inserts the DIDs, and no existence
    check is made outside of it: check and write are one atomic step (`tx1Create`) -/
theorem fact_create_checks_subject_inside_transaction :
    Facts.C13.createChecksSubjectInsideTransaction = true ∧ Facts.C13.createSubjectChecksOutsideTransaction = [] := by decide

/-- manager.go `transactionHelper`: the change records are saved with the TRANSACTION handle (`tx.Save(&e)`) inside the
    closure of the first `r.DB.Transaction`, in a loop over `changes`; nothing is saved outside a transaction closure.
    Versions and change records are therefore written by one atomic step (`tx1` returns both; `Fault.inTx1`). -/
theorem fact_change_records_saved_inside_first_transaction :
    Facts.C13.changeLogSavedInsideFirstTransaction = true ∧ Facts.C13.savesOutsideTransaction = [] := by decide

/-- did_document.go `CreateOrUpdate` has ONE way out after the lookup of the latest version: `s.tx.Create(&doc)` and
    `return &doc, err` — no branch returns an existing version (no "nothing changed, skip the insert") -/
theorem fact_create_or_update_always_inserts :
    Facts.C13.createOrUpdateReturns = ["if err != nil && !errors.Is(): nil, err", "&doc, err"] ∧
    Facts.C13.createOrUpdateInserts = ["s.tx.Create(&doc)"] := by decide

/-- manager.go `Create`: the DID rows are stored by the loop over `sqlDocs` (after the loop over the method managers has
    finished) with `orm.DID{ID: sqlDoc.DID.ID, Subject: subject}` — the FINAL subject name (`storedSubject`) -/
theorem fact_create_stores_final_subject :
    Facts.C13.createStoresDID = "orm.DID{ID: sqlDoc.DID.ID, Subject: subject}" ∧ Facts.C13.createStoresInLoopOver = "sqlDocs" := by decide

/-- the configuration the source describes today -/
def cfgNow (methods : List Method) : Cfg :=
  { methods := methods
    threshold := Facts.C13.sweepThresholdSeconds
    notFoundIsUncommitted := Facts.C13.nutsIsCommittedNotFoundIsUncommitted
    rollbackDeletesCreatedDID := Facts.C13.rollbackDeletesCreatedDID
    sweepWholeTx := Facts.C13.sweepLoadsWholeTransaction }

/-- `Rollback` loads all changes of a transaction before it decides (the stamps of one transaction may differ) -/
theorem fact_sweep_handles_whole_transaction : Facts.C13.sweepLoadsWholeTransaction = true := by decide

theorem cfgNow_fixed (ms : List Method) : Fixed (cfgNow ms) :=
  ⟨fact_nuts_not_found_is_uncommitted, fact_rollback_deletes_created_did.2, fact_sweep_handles_whole_transaction⟩

/-! ### The two defects that were repaired (negation witnesses for the code before the `fix:` commits) -/

/-- before 7882721: `IsCommitted` returned the resolver's not-found error -/
def cfgBeforeFixA : Cfg :=
  { methods := [.nuts, .web], threshold := 60, notFoundIsUncommitted := false, rollbackDeletesCreatedDID := true,
    sweepWholeTx := true }

/-- before 4209f73: only the changes that were old themselves were grouped -/
def cfgBeforeFixC : Cfg :=
  { methods := [.nuts, .web], threshold := 60, notFoundIsUncommitted := true, rollbackDeletesCreatedDID := true,
    sweepWholeTx := false }

/-- before fc00979: only the versions were deleted -/
def cfgBeforeFixB : Cfg :=
  { methods := [.nuts, .web], threshold := 60, notFoundIsUncommitted := true, rollbackDeletesCreatedDID := false,
    sweepWholeTx := true }

/-- create; stop before the first Commit; 61 s later the sweep: `IsCommitted` fails with not-found, `Rollback` aborts,
    both change records (and the unpublished documents) stay — on every later sweep as well -/
theorem old_iscommitted_blocks_sweep :
    let w1 := (stepOp cfgBeforeFixA {} (.create "s") [.nuts, .web] (.stop 0)).1
    let r := sweep cfgBeforeFixA id (tick 61 w1)
    r.2 = "err:notfound" ∧ logCount r.1 = 2 ∧ (r.1.dids.map (·.vers.length)) = [1, 1] := by decide

/-- create with a failing did:nuts commit, then the same create again: "subject already exists" (DIDs without documents
    stayed behind) -/
theorem old_rollback_blocks_retry :
    let w1 := (stepOp cfgBeforeFixB {} (.create "s") [.nuts, .web] .failNuts).1
    (w1.dids.map (·.vers.length)) = [0, 0] ∧
    (stepOp cfgBeforeFixB w1 (.create "s") [.nuts, .web] .none).2 = "err:exists" := by decide

/-- add key on a subject with two DIDs, stop before the first Commit; the did:nuts version was stamped 2 s earlier than the
    did:web version (each `CreateOrUpdate` reads the clock); a sweep 61 s after the first stamp: only the did:nuts change
    is old, it is rolled back, the change log of the whole transaction is deleted — the did:web DID keeps the
    uncommitted version (with its never-published key) for good -/
theorem old_sweep_splits_transaction :
    let cfg := cfgBeforeFixC
    let w0 := (stepOp cfg { now := 1000 } (.create "s") [.nuts, .web] .none).1
    let w1 := (stepOp cfg w0 (.addKey "s") [.nuts, .web] (.stop 0)).1
    let w2 := restamp (fun r v => if r.method = .nuts ∧ v.pending.isSome then v.ts - 2 else v.ts) w1
    let w3 := (sweep cfg id (tick 59 w2)).1
    w3.dids.map (fun r => (r.method, r.vers.length)) = [(.nuts, 1), (.web, 2)] ∧ logCount w3 = 0 := by decide

/-- … and with today's code all three scenarios end clean and the retry succeeds -/
example :
    let cfg := cfgNow [.nuts, .web]
    let w0 := (stepOp cfg { now := 1000 } (.create "s") [.nuts, .web] .none).1
    let w1 := (stepOp cfg w0 (.addKey "s") [.nuts, .web] (.stop 0)).1
    let w2 := restamp (fun r v => if r.method = .nuts ∧ v.pending.isSome then v.ts - 2 else v.ts) w1
    let w3 := (sweep cfg id (tick 59 w2)).1
    w3.dids.map (fun r => (r.method, r.vers.length)) = [(.nuts, 1), (.web, 1)] ∧ logCount w3 = 0 := by decide

example :
    let cfg := cfgNow [.nuts, .web]
    let w1 := (stepOp cfg {} (.create "s") [.nuts, .web] (.stop 0)).1
    let r := sweep cfg id (tick 61 w1)
    r.2 = "ok" ∧ r.1.dids = [] ∧ (stepOp cfg r.1 (.create "s") [.web, .nuts] .none).2 = "ok" := by decide

example :
    let cfg := cfgNow [.nuts, .web]
    let w1 := (stepOp cfg {} (.create "s") [.nuts, .web] .failNuts).1
    w1.dids = [] ∧ (stepOp cfg w1 (.create "s") [.nuts, .web] .none).2 = "ok" := by decide

/-! ### The property (for the code as it is now: `Fixed cfg` is discharged by `cfgNow_fixed`)

`Reach cfg w`: `w` is reachable from the empty database by ANY sequence of operations — each with ANY fault
(`Fault.none`, the did:nuts commit fails, the process stops before the k-th Commit call or before the clean-up
transaction), ANY iteration order of the method map —, clock ticks and sweeps (ANY iteration order of the grouped
transactions), where an operation starts only on a subject without change records (`Clean`, see the assumptions). -/

section
variable {cfg : Cfg}

/-- **all DIDs of a subject move together**: in every reachable world the DIDs of one subject have the same version
    numbers, the same services and the same change records, version by version (whatever their time stamps) -/
theorem uniform_versions (hfix : Fixed cfg) (hms : cfg.methods.Nodup) {w : World} (h : Reach cfg w) :
    ∀ r ∈ w.dids, ∀ r2 ∈ w.dids, r.subject = r2.subject →
      r.vers.map (·.n) = r2.vers.map (·.n) ∧
      r.vers.map (·.c.svcs) = r2.vers.map (·.c.svcs) ∧ r.vers.map (·.pending) = r2.vers.map (·.pending) := by
  intro r hr r2 hr2 hs
  have hsig := (reach_inv hfix hms h).uniform r hr r2 hr2 hs
  have e1 := congrArg (List.map (·.1)) hsig
  have e2 := congrArg (List.map (·.2.1)) hsig
  have e3 := congrArg (List.map (·.2.2)) hsig
  simp only [sig, List.map_map] at e1 e2 e3
  exact ⟨e1, e2, e3⟩

/-- **versions are consecutive**: the versions of every DID are numbered `0 … n-1` without gaps (newest first), every DID
    has at least one version, and only the newest version can carry a change record -/
theorem versions_consecutive (hfix : Fixed cfg) (hms : cfg.methods.Nodup) {w : World} (h : Reach cfg w) :
    ∀ r ∈ w.dids, r.vers.map (·.n) = (List.range r.vers.length).reverse ∧ r.vers ≠ [] ∧
      ∀ v ∈ r.vers.tail, v.pending = none := by
  intro r hr
  have hi := reach_inv hfix hms h
  exact ⟨consec_range _ (hi.consec r hr), hi.noOrphan r hr, hi.topOnly r hr⟩

/-- **versions only grow**: a version without a change record is never deleted — not by an operation (whatever its
    fault), not by a sweep. (Together with `versions_consecutive`: only the uncommitted top can disappear.) -/
theorem versions_consecutive_monotone (hfix : Fixed cfg) (hms : cfg.methods.Nodup) {w : World} (h : Reach cfg w) :
    (∀ r ∈ w.dids, r.vers.map (·.n) = (List.range r.vers.length).reverse) ∧
    (∀ (o : Op) (order : List Method) (f : Fault), Clean w.dids o.subject →
        Keeps w.dids (stepOp cfg w o order f).1.dids) ∧
    (∀ ord : List Nat → List Nat, (∀ l, (ord l).Perm l) → Keeps w.dids (sweep cfg ord w).1.dids) := by
  have hi := reach_inv hfix hms h
  refine ⟨fun r hr => consec_range _ (hi.consec r hr), ?_, ?_⟩
  · intro o order f hc
    exact stepOp_keeps o order f hfix hms hi hc
  · intro ord hord
    exact (sweep_spec ord hfix hord hi).2.2.2.2.2.1

/-- **a subject name maps to at most one DID set**: at most one DID per method, and `Create` on a subject that has DIDs
    is rejected without touching anything -/
theorem subject_unique (hfix : Fixed cfg) (hms : cfg.methods.Nodup) {w : World} (h : Reach cfg w) :
    (∀ r ∈ w.dids, ∀ r2 ∈ w.dids, r.subject = r2.subject → r.method = r2.method → r = r2) ∧
    (∀ (s : String) (order : List Method) (f : Fault), (∃ r ∈ w.dids, r.subject = s) →
        stepOp cfg w (.create s) order f = (w, "err:exists")) := by
  have hi := reach_inv hfix hms h
  constructor
  · intro r hr r2 hr2 hs hm
    exact eq_of_nodup_map (·.id) w.dids hi.idsNodup r hr r2 hr2 (hi.oneMethod r hr r2 hr2 hs hm)
  · rintro s order f ⟨r, hr, hs⟩
    have : subjectExists w s = true := by
      simp only [subjectExists, List.any_eq_true, decide_eq_true_eq]; exact ⟨r, hr, hs⟩
    simp [stepOp, stepOpCore, tx1, tx1Create, this]

/-- **the first step is atomic over {versions, change records}**: a DB error or a process stop while the change records
    are being written (any position) leaves the database exactly as it was — no version without a change record exists
    that the sweep could not find -/
theorem first_transaction_is_atomic (w : World) (o : Op) (order : List Method) (k : Nat) {w1 : World} {chs : List Change}
    (ht : tx1 cfg w o = .ok (w1, chs)) (hk : k < chs.length) :
    stepOp cfg w o order (.logFail k) = (w, "err:injected") ∧ stepOp cfg w o order (.logStop k) = (w, "stopped") := by
  unfold stepOp
  rw [ht]
  simp [Fault.inTx1, hk]

/-- its hypotheses are satisfiable: a create on two methods writes two change records -/
example : ∃ w1 chs, tx1 (cfgNow [.nuts, .web]) {} (.create "s") = .ok (w1, chs) ∧ 1 < chs.length := ⟨_, _, rfl, by decide⟩

/-- … and what the change records are for: if the versions were committed WITHOUT their change records (the records
    written after the transaction and lost in a stop), the sweep has nothing to look at — the new version stays in SQL on
    every DID although nothing was published (witness for the non-atomic variant; `pending := none` = record lost) -/
theorem versions_without_change_records_are_never_rolled_back :
    let cfg := cfgNow [.nuts, .web]
    let w0 := (stepOp cfg {} (.create "s") [.nuts, .web] .none).1
    ∃ w1 chs, tx1 cfg w0 (.addSvc "s" "A") = .ok (w1, chs) ∧
      let lost : World := { w1 with dids := w1.dids.map (fun r => { r with vers := r.vers.map (fun v => { v with pending := none }) }) }
      let w2 := (sweep cfg id (tick 61 lost)).1
      w2.dids.map (fun r => r.vers.map (·.c.svcs)) = [[["A"], []], [["A"], []]] ∧
      (pubLatest w2.pub 0).map (·.svcs) = some [] ∧ logCount w2 = 0 := ⟨_, _, rfl, by decide⟩

/-- **a change record names a version written by its own transaction, never an older one**: `CreateOrUpdate` always inserts a
    new row (regenerated fact `fact_create_or_update_always_inserts`), so what the clean-up transaction or the sweep deletes
    for an abandoned operation is never a version that existed before — even when the new version's content equals the
    latest one (deactivating twice, deleting a missing service, …) -/
theorem change_records_name_new_versions (hfix : Fixed cfg) (hms : cfg.methods.Nodup) {w w1 : World} (h : Reach cfg w)
    {o : Op} {chs : List Change} (ht : tx1 cfg w o = .ok (w1, chs)) :
    ∀ ch ∈ chs, ∀ r ∈ w.dids, ∀ v ∈ r.vers, v.row ≠ ch.row := by
  intro ch hch r hr v hv he
  have h1 := tx1_rows_fresh ht ch hch
  have h2 := (reach_inv hfix hms h).rowLt r hr v hv
  omega

/-- non-vacuity and the repeat case: the second deactivation writes version 2 (content = version 1), did:nuts refuses it,
    the clean-up removes version 2 only: versions stay `[1, 0]` on both DIDs, both stay deactivated -/
example :
    let cfg := cfgNow [.nuts, .web]
    let w0 := (stepOp cfg {} (.create "s") [.nuts, .web] .none).1
    let w1 := (stepOp cfg w0 (.deactivate "s") [.nuts, .web] .none).1
    let r := stepOp cfg w1 (.deactivate "s") [.web, .nuts] .none
    r.2 = "err:deactivated" ∧ r.1.dids = w1.dids ∧ w1.dids.map (fun d => d.vers.map (·.n)) = [[1, 0], [1, 0]] := by decide

/-- **one subject name for all DIDs of a Create, whatever order the method map is visited in** (v1 naming included): every
    stored row carries the same name, and for two visiting orders over the same methods it is the same name -/
theorem subject_naming_order_independent (legacy : Bool) (o1 o2 : List Method) (hperm : o1.Perm o2) (p n : String) (m m' : Method) :
    storedSubject legacy o1 p n m = storedSubject legacy o2 p n m' := by
  unfold storedSubject finalSubject
  have : o1.contains .nuts = o2.contains .nuts := by
    cases h1 : o1.contains .nuts <;> cases h2 : o2.contains .nuts <;> simp_all [hperm.mem_iff]
  rw [this]

/-- … which is NOT so for "the name known when the method is visited": with v1 naming and did:web visited before did:nuts,
    the did:web DID would be stored under the provisional name and the subject would own only its did:nuts DID -/
theorem naming_at_visit_depends_on_order :
    subjectAtVisit true "uuid" "did:nuts:1" [.nuts, .web] .web = "did:nuts:1" ∧
    subjectAtVisit true "uuid" "did:nuts:1" [.web, .nuts] .web = "uuid" ∧
    subjectAtVisit true "uuid" "did:nuts:1" [.web, .nuts] .nuts = "did:nuts:1" ∧
    storedSubject true [.web, .nuts] "uuid" "did:nuts:1" .web = "did:nuts:1" := by decide

/-- **the sweep does not touch young change records**: if no change record is older than the threshold the sweep changes
    nothing (any mode, any order) — in particular a sweep that fires while an operation is IN FLIGHT, at most `threshold`
    seconds after its first transaction and whatever it has published so far, is a no-op: it cannot pull the new versions
    from under a publish that is about to succeed. (This is the step the assumption "no operation stays in flight longer
    than the threshold" is about; beyond the threshold see the last example.) -/
theorem sweep_ignores_young_records (ord : List Nat → List Nat) (hord : ∀ l, (ord l).Perm l) :
    (∀ w : World, (∀ r ∈ w.dids, ∀ v ∈ r.vers, v.pending ≠ none → ¬ (v.ts + cfg.threshold < w.now)) →
        sweep cfg ord w = (w, "ok")) ∧
    (∀ (w0 w1 : World) (o : Op) (chs : List Change), (∀ r ∈ w0.dids, ∀ v ∈ r.vers, v.pending = none) →
        tx1 cfg w0 o = .ok (w1, chs) → ∀ (pub : Nat → List Content) (d : Nat), d ≤ cfg.threshold →
        sweep cfg ord (tick d { w1 with pub := pub }) = (tick d { w1 with pub := pub }, "ok")) :=
  ⟨fun w hy => sweep_young_noop cfg ord hord w hy,
   fun _ _ _ _ hnone ht pub d hd => in_flight_sweep_noop hnone ht pub d hd ord hord⟩

/-- non-vacuity, and the other direction (witness): with the threshold in the FUTURE (`now + 60` instead of `now - 60`, i.e.
    every record counts as old) the in-flight sweep deletes the unpublished versions: modelled by a sweep 61 s "late" -/
example :
    let cfg := cfgNow [.nuts, .web]
    let w0 := (stepOp cfg {} (.create "s") [.nuts, .web] .none).1
    ∃ w1 chs, tx1 cfg w0 (.addKey "s") = .ok (w1, chs) ∧ logCount w1 = 2 ∧
      logCount (sweep cfg id (tick 60 w1)).1 = 2 ∧
      (sweep cfg id (tick 61 w1)).1.dids.map (·.vers.length) = [1, 1] := ⟨_, _, rfl, by decide, by decide, by decide⟩

/-- `Create` = existence check + write in ONE atomic step. Every interleaving of requests whose steps are atomic is a
    sequence of `stepOp`s, so `subject_unique` (over `Reach`) covers any number of concurrent Creates of one name:
    the first to run its transaction wins, the others get "exists". -/
theorem create_check_and_write_are_one_step (w : World) (s : String) :
    tx1Create cfg w s = if subjectExists w s then .err "exists" else .ok (createWrite cfg w s) := rfl

/-- … and atomicity is what it rests on: if the check were made BEFORE the transaction (check-then-act), two requests for
    the same name that both check before either writes would both write: the subject gets two did:nuts and two did:web
    DIDs (witness for the negation; the `did` table has no unique constraint on `subject`) -/
theorem non_atomic_create_breaks_subject_unique :
    let cfg := cfgNow [.nuts, .web]
    let w0 : World := {}
    let check1 := subjectExists w0 "s"          -- request 1 checks
    let check2 := subjectExists w0 "s"          -- request 2 checks before request 1 has written
    let w1 := (createWrite cfg w0 "s").1        -- request 1 writes
    let w2 := (createWrite cfg w1 "s").1        -- request 2 writes
    check1 = false ∧ check2 = false ∧
    (w2.dids.filter (fun r => r.subject = "s")).map (·.method) = [.nuts, .web, .nuts, .web] ∧
    ¬ (∀ r ∈ w2.dids, ∀ r2 ∈ w2.dids, r.subject = r2.subject → r.method = r2.method → r = r2) := by
  refine ⟨by decide, by decide, by decide, ?_⟩
  intro h
  have := h _ (List.mem_cons_self ..) _ (List.mem_cons_of_mem _ (List.mem_cons_of_mem _ (List.mem_cons_self ..))) rfl rfl
  revert this
  decide

/-- **after the sweep no change records remain and every DID shows a version it had before**: in every reachable world
    in which all change records are older than the threshold, the sweep succeeds, leaves no change record, keeps every
    version that had no change record, and every DID that is left is a DID from before that lost at most its newest
    (pending) versions; the result is again uniform per subject -/
theorem all_or_nothing (hfix : Fixed cfg) (hms : cfg.methods.Nodup) {w : World} (h : Reach cfg w)
    (ord : List Nat → List Nat) (hord : ∀ l, (ord l).Perm l)
    (hold : ∀ r ∈ w.dids, ∀ v ∈ r.vers, v.pending ≠ none → v.ts + cfg.threshold < w.now) :
    (sweep cfg ord w).2 = "ok" ∧ logCount (sweep cfg ord w).1 = 0 ∧
    Keeps w.dids (sweep cfg ord w).1.dids ∧ Fate w.dids (sweep cfg ord w).1.dids ∧
    (∀ r ∈ (sweep cfg ord w).1.dids, ∀ r2 ∈ (sweep cfg ord w).1.dids, r.subject = r2.subject → r.vers.length = r2.vers.length) := by
  have hi := reach_inv hfix hms h
  rcases sweep_spec ord hfix hord hi with ⟨hok, hinv, _, _, _, hk, hfate, hnew⟩
  refine ⟨hok, ?_, hk, hfate, ?_⟩
  · apply logCount_zero
    intro r' hr' v' hv'
    cases hp : v'.pending with
    | none => rfl
    | some p =>
      rcases hfate r' hr' with ⟨r, hr, _, _, hfrom⟩
      rcases hfrom v' hv' p hp with ⟨v, hv, hpv, _⟩
      have h1 := hold r hr v hv (by rw [hpv]; simp)
      have h2 := hnew r' hr' v' hv' p hp
      have h3 : inOldTx cfg w v' = true := by
        simp only [inOldTx, hp, List.any_eq_true, decide_eq_true_eq]
        refine ⟨{ did := r.id, method := r.method, row := v.row, typ := p.typ, tx := p.tx, ts := v.ts, c := v.c }, ?_, rfl⟩
        unfold oldChanges
        rw [List.mem_filter]
        exact ⟨(mem_allChanges w _).2 ⟨r, hr, v, hv, p, hpv, rfl⟩, by simpa using h1⟩
      rw [h3] at h2; cases h2
  · intro r hr r2 hr2 hs
    have := congrArg List.length (hinv.uniform r hr r2 hr2 hs)
    simpa [sig] using this

/-- **a failed commit is undone at once**: when a Commit fails, the clean-up transaction restores exactly the rows
    from before the operation (no version, no DID, no change record of the attempt is left) -/
theorem failed_commit_restores (hfix : Fixed cfg) (hms : cfg.methods.Nodup) {w : World} (h : Reach cfg w)
    (o : Op) (order : List Method) (f : Fault) (hf : ∀ n, f.inTx1 n = none) (hc : Clean w.dids o.subject)
    {w1 : World} {chs : List Change} {e : String}
    (ht : tx1 cfg w o = .ok (w1, chs)) (hph : (commitLoop f chs order 0 w1.pub).2 = .failed e) :
    (stepOp cfg w o order f).1.dids = w.dids ∧ (stepOp cfg w o order f).2 = "err:" ++ e := by
  have hi := reach_inv hfix hms h
  have ht1 := tx1_ok hms hi hc ht
  rw [stepOp_eq_core hf]
  unfold stepOpCore
  rw [ht]
  simp only
  rcases hcl : commitLoop f chs order 0 w1.pub with ⟨pub, ph⟩
  rw [hcl] at hph
  simp only at hph
  subst hph
  simp only
  refine ⟨?_, trivial⟩
  unfold tx2
  simp only [if_true]
  rw [deleteChanges_dids (w := { w1 with pub := pub }) ht1.1 ht1.2.1]
  exact (tx1_restore hfix hi ht : w1.dids.filterMap _ = w.dids)

/-- **a stopped operation is resolved by the sweep, for all DIDs together**: in a reachable world without change records,
    an operation whose first transaction committed and whose process then stopped — before whichever Commit call, or
    before the clean-up transaction, having published `pub` so far —, followed by more than `threshold` seconds and the
    sweep: EITHER the rows are exactly those from before the operation (every DID shows its previous version, created
    DIDs are gone), OR every DID keeps the new version, all change records are gone, and the did:nuts network shows
    exactly that version for the did:nuts DID. Whatever the iteration orders. -/
theorem stopped_operation_resolved (hfix : Fixed cfg) (hms : cfg.methods.Nodup) {w0 w1 : World} (h : Reach cfg w0)
    (hnone : ∀ r ∈ w0.dids, ∀ v ∈ r.vers, v.pending = none) {o : Op} {chs : List Change}
    (ht : tx1 cfg w0 o = .ok (w1, chs)) (order : List Method) (k : Nat)
    (hph : (commitLoop (.stop k) chs order 0 w1.pub).2 = .stopped ∨
           ∃ i, (commitLoop (.stop k) chs order 0 w1.pub).2 = .completed i ∧ i ≤ k)
    (d : Nat) (hd : cfg.threshold < d) (ord : List Nat → List Nat) (hord : ∀ l, (ord l).Perm l) :
    let wStop := (stepOp cfg w0 o order (.stop k)).1
    let w2 := (sweep cfg ord (tick d wStop)).1
    (w2.dids = w0.dids ∨
     (w2.dids = wStop.dids.map (clearRow w0.next) ∧
      ∀ r ∈ wStop.dids, ∀ v vs p, r.vers = v :: vs → v.pending = some p → r.method = .nuts →
        pubLatest w2.pub r.id = some v.c)) ∧
    w2.pub = wStop.pub := by
  intro wStop w2
  have hs : wStop = { w1 with pub := (commitLoop (.stop k) chs order 0 w1.pub).1 } := by
    show (stepOp cfg w0 o order (.stop k)).1 = _
    rw [stepOp_eq_core (f := .stop k) (fun _ => rfl)]
    exact stepOpCore_stopped order k ht hph
  have := stopped_then_swept hfix hms (reach_inv hfix hms h) hnone ht (commitLoop (.stop k) chs order 0 w1.pub).1 d hd ord hord
  simp only [w2, hs]
  refine ⟨?_, this.2⟩
  rcases this.1 with hl | ⟨hr1, hr2⟩
  · exact Or.inl hl
  · refine Or.inr ⟨hr1, ?_⟩
    rw [this.2]
    exact hr2

/-- full statement of "keys created for an abandoned version are never published": no document stored or published at
    any later time contains a key that was generated for a version which was deleted -/
def AbandonedKeysNeverPublishedStmt (cfg : Cfg) : Prop :=
  ∀ (w : World) (o : Op) (order : List Method) (f : Fault), Reach cfg w → Clean w.dids o.subject →
    ∀ w', Reach cfg w' → ∀ k, w.next ≤ k → k < 2 * w.next + 2 →
      (∀ r ∈ (stepOp cfg w o order f).1.dids, ∀ v ∈ r.vers, k ∉ v.c.vms) →
      (∀ r ∈ w'.dids, ∀ v ∈ r.vers, k ∉ v.c.vms) ∧ ∀ d, ∀ c ∈ w'.pub d, k ∉ c.vms

/-- **keys created for an abandoned version are not published** (partial). Proved: at the moment the version is
    abandoned, the stored AND the published documents are exactly those from before the attempt — so they contain nothing
    the attempt generated: (1) the did:nuts Commit fails: rows and publications restored by the clean-up transaction;
    (2) the process stops before the first Commit call: publications untouched, and after the sweep either the rows are
    restored or the version was kept (not abandoned). `abandoned_keys_unpublished` extends both to all later worlds.
    Missing for `AbandonedKeysNeverPublishedStmt`: a stop after did:web's (no-op) Commit but before did:nuts's — there
    `stopped_operation_resolved` gives "rows restored or version kept", but that nothing was published up to the stop
    is only proved for a stop before the first call. The correspondence harness checks the statement on every generated
    cut (oracle `abandoned-key-visible`). -/
theorem abandoned_keys_unpublished_partial (hfix : Fixed cfg) (hms : cfg.methods.Nodup) {w w1 : World}
    (h : Reach cfg w) {o : Op} {chs : List Change} (ht : tx1 cfg w o = .ok (w1, chs)) (order : List Method) :
    (∀ e, Clean w.dids o.subject → (commitLoop .failNuts chs order 0 w1.pub).2 = .failed e →
        (stepOp cfg w o order .failNuts).1.dids = w.dids ∧ (stepOp cfg w o order .failNuts).1.pub = w.pub) ∧
    ((∀ r ∈ w.dids, ∀ v ∈ r.vers, v.pending = none) →
      ∀ (d : Nat), cfg.threshold < d → ∀ ord : List Nat → List Nat, (∀ l, (ord l).Perm l) →
        let wStop := (stepOp cfg w o order (.stop 0)).1
        let w2 := (sweep cfg ord (tick d wStop)).1
        w2.pub = w.pub ∧ (w2.dids = w.dids ∨ w2.dids = wStop.dids.map (clearRow w.next))) := by
  have hi := reach_inv hfix hms h
  constructor
  · intro e hc hph
    refine ⟨(failed_commit_restores hfix hms h o order .failNuts (fun _ => rfl) hc ht hph).1, ?_⟩
    have ht1 := tx1_ok hms hi hc ht
    rw [stepOp_eq_core (f := .failNuts) (fun _ => rfl)]
    unfold stepOpCore
    rw [ht]
    simp only
    rcases hcl : commitLoop .failNuts chs order 0 w1.pub with ⟨pub, ph⟩
    have hpub : pub = w1.pub := by
      have := commitLoop_failNuts_pub chs order 0 w1.pub
      rw [hcl] at this; exact this
    rw [hcl] at hph
    simp only at hph
    subst hph
    simp only
    unfold tx2
    simp only [if_true]
    show (deleteChanges cfg chs _).pub = w.pub
    unfold deleteChanges
    simp only [hpub, ht1.2.2.2.1]
  · intro hnone d hd ord hord wStop w2
    have hstop : (commitLoop (.stop 0) chs order 0 w1.pub).2 = .stopped ∨
        ∃ i, (commitLoop (.stop 0) chs order 0 w1.pub).2 = .completed i ∧ i ≤ 0 := by
      have key : ∀ (ms : List Method) (pub : Nat → List Content),
          (commitLoop (.stop 0) chs ms 0 pub).2 = .stopped ∨ (commitLoop (.stop 0) chs ms 0 pub).2 = .completed 0 := by
        intro ms
        induction ms with
        | nil => intro pub; exact Or.inr rfl
        | cons m ms ih =>
          intro pub
          unfold commitLoop
          split
          · exact ih pub
          · simp
      rcases key order w1.pub with hk | hk
      · exact Or.inl hk
      · exact Or.inr ⟨0, hk, Nat.le_refl _⟩
    have hres := stopped_operation_resolved hfix hms h hnone ht order 0 hstop d hd ord hord
    have hclean : Clean w.dids o.subject := fun r hr _ v hv => hnone r hr v hv
    have hs : wStop = { w1 with pub := (commitLoop (.stop 0) chs order 0 w1.pub).1 } := by
      show (stepOp cfg w o order (.stop 0)).1 = _
      rw [stepOp_eq_core (f := .stop 0) (fun _ => rfl)]
      exact stepOpCore_stopped order 0 ht hstop
    have hp0 : wStop.pub = w.pub := by
      rw [hs]
      show (commitLoop (.stop 0) chs order 0 w1.pub).1 = w.pub
      rw [commitLoop_stop0_pub, (tx1_ok hms hi hclean ht).2.2.2.1]
    refine ⟨by rw [← hp0]; exact hres.2, ?_⟩
    rcases hres.1 with hl | ⟨hr, _⟩
    · exact Or.inl hl
    · exact Or.inr hr

/-- **keys created for an abandoned version are never published** — for the two abandonments of (partial) above, at full
    strength in time: after the attempt was undone (`wa`: rows and publications as before the attempt), a key that no
    stored or published document contained before the attempt — in particular every key the attempt generated, ids being
    fresh — is in no stored and no published document of ANY later world (`Steps`: any operations with any faults and
    orders, ticks, sweeps, restamps; no `Clean` premise needed). -/
theorem abandoned_keys_unpublished {w wa : World} (hd : wa.dids = w.dids) (hp : wa.pub = w.pub)
    {k : Nat} (hk : k < wa.next) (hunused : ¬ UsedKey w k) {w' : World} (hsteps : Steps cfg wa w') :
    ¬ UsedKey w' k := by
  intro hu
  have := (steps_keys hsteps).2 k hk hu
  apply hunused
  rcases this with ⟨r, hr, v, hv, hkv⟩ | ⟨d, c, hc, hkc⟩
  · exact Or.inl ⟨r, hd ▸ hr, v, hv, hkv⟩
  · exact Or.inr ⟨d, c, hp ▸ hc, hkc⟩

/-- … and its premises are what `abandoned_keys_unpublished_partial` delivers: the failed attempt generated key
    `w.next + r.id ≥ w.next`, below the new counter; nothing before used it -/
example :
    let cfg := cfgNow [.nuts, .web]
    let w := (stepOp cfg {} (.create "s") [.nuts, .web] .none).1
    let wa := (stepOp cfg w (.addKey "s") [.web, .nuts] .failNuts).1
    wa.dids = w.dids ∧ w.next = 2 ∧ wa.next = 6 ∧ wa.keys = [0, 1, 2, 3] ∧
    (∀ r ∈ w.dids, ∀ v ∈ r.vers, 2 ∉ v.c.vms ∧ 3 ∉ v.c.vms) := by decide

/-- **a repeated attempt can succeed**: whether the first transaction of an operation succeeds depends on the rows only —
    so after `failed_commit_restores` (rows restored) the same operation is enabled exactly as it was -/
theorem retry_enabled {w w' : World} (o : Op) (hd : w'.dids = w.dids) :
    (tx1 cfg w' o).isOk = (tx1 cfg w o).isOk := by
  cases o with
  | create s =>
    have : subjectExists w' s = subjectExists w s := by simp only [subjectExists, hd]
    simp only [tx1, tx1Create, this]
    split <;> rfl
  | _ => simp only [tx1, tx1Update, hd] <;> (repeat' split) <;> rfl

end

/-! non-vacuity: a reachable world with a pending (stopped) update on two DIDs, swept after the threshold -/

def wStopped : World :=
  (stepOp (cfgNow [.nuts, .web])
    (stepOp (cfgNow [.nuts, .web]) {} (.create "s") [.nuts, .web] .none).1 (.addKey "s") [.web, .nuts] (.stop 1)).1

theorem wStopped_reach : Reach (cfgNow [.nuts, .web]) (tick 61 wStopped) := by
  refine Reach.tick 61 (Reach.op _ _ _ (Reach.op _ _ _ Reach.init ?_) ?_)
  · intro r hr; cases hr
  · intro r hr _ v hv
    have : ∀ r ∈ (stepOp (cfgNow [.nuts, .web]) {} (.create "s") [.nuts, .web] .none).1.dids, ∀ v ∈ r.vers, v.pending = none := by decide
    exact this r hr v hv

example : logCount (tick 61 wStopped) = 2 ∧
    (∀ r ∈ (tick 61 wStopped).dids, ∀ v ∈ r.vers, v.pending ≠ none → v.ts + (cfgNow [.nuts, .web]).threshold < (tick 61 wStopped).now) ∧
    ((sweep (cfgNow [.nuts, .web]) id (tick 61 wStopped)).1.dids.map (·.vers.length)) = [1, 1] := by decide

example : ∃ w1 chs e, tx1 (cfgNow [.nuts, .web]) {} (.create "s") = .ok (w1, chs) ∧
    (commitLoop .failNuts chs [.web, .nuts] 0 w1.pub).2 = .failed e := ⟨_, _, _, rfl, rfl⟩

/-- hypotheses of `stopped_operation_resolved` / `abandoned_keys_unpublished_partial` are satisfiable: add-key on a created
    subject, did:web committed first, the process stops before the did:nuts Commit -/
example :
    let cfg := cfgNow [.nuts, .web]
    let w0 := (stepOp cfg {} (.create "s") [.nuts, .web] .none).1
    (∀ r ∈ w0.dids, ∀ v ∈ r.vers, v.pending = none) ∧
    ∃ w1 chs, tx1 cfg w0 (.addKey "s") = .ok (w1, chs) ∧
      (commitLoop (.stop 1) chs [.web, .nuts] 0 w1.pub).2 = .stopped ∧
      (commitLoop .failNuts chs [.web, .nuts] 0 w1.pub).2 = .failed "injected" :=
  ⟨by decide, _, _, rfl, by decide, by decide⟩

/-! ### Schedules the property does not quantify over (documented assumptions; witnesses, NOT claimed)

Both are excluded from `Reach`: the first by its `Clean` premise, the second because an operation is one step. -/

/-- after a stop, a new operation on the same subject BEFORE the sweep builds on the uncommitted version; the sweep then
    removes version 1 from under version 2: versions `[2, 0]`, and service A — whose operation was abandoned — is
    published as part of version 2 -/
example :
    let cfg := cfgNow [.nuts, .web]
    let w0 := (stepOp cfg {} (.create "s") [.nuts, .web] .none).1
    let w1 := (stepOp cfg w0 (.addSvc "s" "A") [.nuts, .web] (.stop 0)).1
    let w2 := (stepOp cfg w1 (.addSvc "s" "B") [.nuts, .web] .none).1
    let w3 := (sweep cfg id (tick 61 w2)).1
    ¬ Clean w1.dids "s" ∧ w3.dids.map (fun r => r.vers.map (·.n)) = [[2, 0], [2, 0]] ∧
    (w3.pub 0).map (·.svcs) = [["A", "B"], []] := by
  refine ⟨?_, by decide, by decide⟩
  intro h
  have := h _ (List.mem_cons_self ..) (by decide) _ (List.mem_cons_self ..)
  revert this
  decide

/-- an operation that stays in flight longer than the sweep threshold: the sweep runs between its first transaction and
    its Commit calls, deletes the (not yet published) versions, and the late Commit still publishes them: the network
    shows service A, the database does not, and nothing records the difference -/
example :
    let cfg := cfgNow [.nuts, .web]
    let w0 := (stepOp cfg {} (.create "s") [.nuts, .web] .none).1
    ∃ w1 chs, tx1 cfg w0 (.addSvc "s" "A") = .ok (w1, chs) ∧
      let w2 := (sweep cfg id (tick 61 w1)).1
      let pub := (commitLoop .none chs [.nuts, .web] 0 w2.pub).1
      let w3 := tx2 cfg { w2 with pub := pub } chs false
      w3.dids.map (fun r => r.vers.map (·.c.svcs)) = [[[]], [[]]] ∧ logCount w3 = 0 ∧
      (pubLatest w3.pub 0).map (·.svcs) = some ["A"] := ⟨_, _, rfl, by decide⟩

end Nuts.C13.Props
