/-
  C13 — subject operations change all DIDs of a subject together or not at all.
  ONLY property theorems (+ non-vacuity examples + fact obligations). Helper lemmas: NutsProofs/Lemmas/C13.lean.
  Model: NutsModel/C13/Subject.lean.  Facts: NutsModel/Facts/C13.lean is REGENERATED from /repo on every run.
-/
import NutsModel.C13.Subject
import NutsModel.Facts.C13
import NutsProofs.Lemmas.C13

namespace Nuts.C13.Props
open Nuts.C13 Nuts

/-! ### Obligations on the regenerated facts -/

/-- `Rollback` looks at changes older than one minute (`time.Now().Add(-time.Minute)`, `updated_at < ?`);
    the harness's clock steps (25 s / 70 s) and the oracle are written for this value -/
theorem fact_sweep_threshold :
    Facts.C13.sweepThresholdSeconds = 60 ∧ Facts.C13.sweepSelection = "updated_at < ?" := by decide

/-- `transactionHelper` = first transaction, then `range r.MethodManagers` calling `Commit` and breaking on the first
    error, then the clean-up transaction: the order `stepOp` models, with the map iteration order as an argument -/
theorem fact_transaction_helper_shape :
    Facts.C13.transactionHelperShape = ["tx", "range:r.MethodManagers:Commit:break", "tx"] := by decide

/-- both clean-up paths (`transactionHelper` on a failed commit, `Rollback` on an uncommitted transaction) delete the
    version and — for a change that created the DID — the DID row (`deleteUncommittedChange`) -/
theorem fact_rollback_deletes_created_did :
    Facts.C13.rollbackDeletesVersion = true ∧ Facts.C13.rollbackDeletesCreatedDID = true := by decide

/-- didnuts `IsCommitted` answers (false, nil) for a DID that was never published -/
theorem fact_nuts_not_found_is_uncommitted : Facts.C13.nutsIsCommittedNotFoundIsUncommitted = true := by decide

/-- didweb `Commit` is `return nil` and `IsCommitted` is `return true, nil` -/
theorem fact_web_commit_cannot_fail :
    Facts.C13.webCommitReturnsNil = true ∧ Facts.C13.webIsCommittedAlwaysTrue = true := by decide

/-- `CreateOrUpdate`: `latest := DidDocument{Version: -1}` … `Version: latest.Version + 1` (`nextVersion`) -/
theorem fact_version_is_latest_plus_one :
    Facts.C13.createOrUpdateVersion = ["-1", "latest.Version + 1"] := by decide

/-- the configuration the source describes today -/
def cfgNow (methods : List Method) : Cfg :=
  { methods := methods
    threshold := Facts.C13.sweepThresholdSeconds
    notFoundIsUncommitted := Facts.C13.nutsIsCommittedNotFoundIsUncommitted
    rollbackDeletesCreatedDID := Facts.C13.rollbackDeletesCreatedDID }

theorem cfgNow_fixed (ms : List Method) : Fixed (cfgNow ms) :=
  ⟨fact_nuts_not_found_is_uncommitted, fact_rollback_deletes_created_did.2⟩

/-! ### The two defects that were repaired (negation witnesses for the code before the `fix:` commits) -/

/-- before 7882721: `IsCommitted` returned the resolver's not-found error -/
def cfgBeforeFixA : Cfg :=
  { methods := [.nuts, .web], threshold := 60, notFoundIsUncommitted := false, rollbackDeletesCreatedDID := true }

/-- before fc00979: only the versions were deleted -/
def cfgBeforeFixB : Cfg :=
  { methods := [.nuts, .web], threshold := 60, notFoundIsUncommitted := true, rollbackDeletesCreatedDID := false }

/-- create; stop before the first Commit; 61 s later the sweep: `IsCommitted` fails with not-found, `Rollback` aborts,
    both change records (and the unpublished documents) stay — on every later sweep as well -/
theorem old_iscommitted_blocks_sweep :
    let w1 := (stepOp cfgBeforeFixA {} (.create "s") [.nuts, .web] (.stop 0)).1
    let r := sweep cfgBeforeFixA id (tick 61 w1)
    r.2 = "err:notfound" ∧ logCount r.1 = 2 ∧ (r.1.dids.map (·.vers.length)) = [1, 1] := by decide

/-- create with a failing did:nuts commit, then the same create again: "subject already exists" (DIDs without documents
    stayed behind) -/
theorem old_rollback_blocks_retry :
    let w1 := (stepOp cfgBeforeFixB {} (.create "s") [.nuts, .web] .failNuts).1
    (w1.dids.map (·.vers.length)) = [0, 0] ∧
    (stepOp cfgBeforeFixB w1 (.create "s") [.nuts, .web] .none).2 = "err:exists" := by decide

/-- … and with today's code both scenarios end clean and the retry succeeds -/
example :
    let cfg := cfgNow [.nuts, .web]
    let w1 := (stepOp cfg {} (.create "s") [.nuts, .web] (.stop 0)).1
    let r := sweep cfg id (tick 61 w1)
    r.2 = "ok" ∧ r.1.dids = [] ∧ (stepOp cfg r.1 (.create "s") [.web, .nuts] .none).2 = "ok" := by decide

example :
    let cfg := cfgNow [.nuts, .web]
    let w1 := (stepOp cfg {} (.create "s") [.nuts, .web] .failNuts).1
    w1.dids = [] ∧ (stepOp cfg w1 (.create "s") [.nuts, .web] .none).2 = "ok" := by decide

end Nuts.C13.Props
