/-
  C13 — property theorems about the REQUEST layer (deepening round 2026-09-28): `Create` with an option list,
  `AddVerificationMethod` with a key usage, the order of `ListDIDs`. ONLY property theorems (+ non-vacuity examples + fact
  obligations). Model: NutsModel/C13/Request.lean, instantiated by NutsModel/C13/RequestNow.lean with the regenerated facts.
  Helper lemmas: NutsProofs/Lemmas/C13Req.lean.
-/
import NutsModel.C13.RequestNow
import NutsProofs.Lemmas.C13Req
import NutsProofs.Props.C13

namespace Nuts.C13.Props
open Nuts.C13 Nuts

/-! ### Obligations on the regenerated facts -/

/-- `subjectPattern` is `^[a-zA-Z0-9._-]+$`; the class the model validates names with is the one parsed from that text -/
theorem fact_subject_pattern :
    Facts.C13.subjectPatternSource = "^[a-zA-Z0-9._-]+$" ∧
    Now.cls = [(97, 122), (65, 90), (48, 57), (46, 46), (95, 95), (45, 45)] := by decide

set_option maxRecDepth 100000 in
/-- the arms of `Create`'s option switch: a name is validated before it is taken, the encryption-key option ORs
    `EncryptionKeyUsage()` (= `KeyAgreementUsage`) into the key flags, v1 naming sets its flag, anything else is refused -/
theorem fact_create_option_arms :
    Facts.C13.createOptionArms =
      ["SubjectCreationOption -> if !subjectPattern.MatchString(opt.Subject) return:errors.Join(ErrSubjectValidation); subject = opt.Subject",
       "EncryptionKeyCreationOption -> keyFlags = keyFlags | orm.EncryptionKeyUsage()",
       "NutsLegacyNamingOption -> nutsLegacy = true",
       "default -> return:errors.Join(ErrSubjectValidation, fmt.Errorf(\"unknown option: %T\", option))"] ∧
    Facts.C13.encryptionKeyUsage = "KeyAgreementUsage" := by decide

/-- inside `Create`'s transaction: the existence check (on the name known at that moment: the provisional one) comes
    first, then the generation loop over the method map (where v1 naming replaces the name), then the storing loop -/
theorem fact_create_checks_provisional_name_first :
    Facts.C13.createTransactionLandmarks =
      ["FindBySubject(subject)", "range:r.MethodManagers", "subject = sqlDoc.DID.ID", "range:sqlDocs"] := by decide

/-- both refusals of key agreement on did:web are in the source, inside the first transaction -/
theorem fact_key_agreement_refused_on_web : Now.createRefusesWeb = true ∧ Now.addKeyRefusesWeb = true := by decide

/-- `sortDIDsByMethod`: unlisted methods rank −1, the last match in the preferred order wins, three returns -/
theorem fact_sort_comparator :
    Now.absent = -1 ∧
    Facts.C13.sortComparatorReturns =
      ["[list[i] == list[j]] list[i].String() < list[j].String()",
       "[iOrder == -1 && jOrder == -1] list[i].Method < list[j].Method",
       " iOrder < jOrder"] ∧
    Facts.C13.sortRankAssignments =
      ["[range k,v methodOrder][v == list[i].Method] iOrder = k",
       "[range k,v methodOrder][v == list[j].Method] jOrder = k"] := by decide

/-! ### a request is a refusal that changes nothing, or ONE operation of the operation model -/

theorem applyOpts_verdict (cls : CharClass) : ∀ (opts : List CreateOpt) (p : CreateParams),
    (∃ p', applyOpts cls opts p = .ok p') ∨ applyOpts cls opts p = .err "validation"
  | [], p => .inl ⟨p, rfl⟩
  | o :: os, p => by
    unfold applyOpts
    cases o with
    | subject s =>
      by_cases hm : matchesPlus cls s = true
      · rw [applyOpt_subject, if_pos hm]; exact applyOpts_verdict cls os _
      · rw [applyOpt_subject, if_neg hm]; exact .inr rfl
    | encryptionKey => exact applyOpts_verdict cls os _
    | nutsLegacy => exact applyOpts_verdict cls os _
    | unknown => exact .inr rfl

theorem genLoop_verdict (rw ka : Bool) (ms : List Method) (n : Nat) :
    genLoop rw ka ms n = .ok (n + ms.length) ∨ genLoop rw ka ms n = .err "keyagreement" := by
  by_cases h : (rw && ka) = false ∨ Method.web ∉ ms
  · exact .inl (genLoop_ok_of_no_web rw ka ms n h)
  · have h1 : rw = true ∧ ka = true := by
      cases rw <;> cases ka <;> simp at h ⊢
    have h2 : Method.web ∈ ms := Classical.byContradiction (fun hn => h (.inr hn))
    obtain ⟨rfl, rfl⟩ := h1
    exact .inr (genLoop_err_of_web true ms n h2)

/-- **`Create` with ANY option list** either refuses — validation, name taken, key agreement on did:web — and leaves
    the world exactly as it was (also when did:nuts had already generated its document and key inside the transaction), or
    is exactly one `create` operation of the operation model, for the final name -/
theorem create_request_refines (cls : CharClass) (rw : Bool) (cfg : Cfg) (w : World) (opts : List CreateOpt)
    (uuid nd : String) (gen order : List Method) (f : Fault) :
    (∃ e ∈ ["validation", "exists", "keyagreement"], createRequest cls rw cfg w opts uuid nd gen order f = (w, "err:" ++ e)) ∨
    ∃ s, createRequest cls rw cfg w opts uuid nd gen order f = stepOp cfg w (.create s) order f := by
  unfold createRequest
  rcases applyOpts_verdict cls opts { subject := uuid } with ⟨p, hp⟩ | hp
  · rw [hp]
    simp only
    split
    · exact .inl ⟨"exists", by simp, rfl⟩
    · rcases genLoop_verdict rw p.keyAgreement gen 0 with hg | hg
      · rw [hg]; exact .inr ⟨_, rfl⟩
      · rw [hg]; exact .inl ⟨"keyagreement", by simp, rfl⟩
  · rw [hp]; exact .inl ⟨"validation", by simp, rfl⟩

/-- **`AddVerificationMethod` with ANY key usage** either refuses and leaves the world as it was — in particular the
    DIDs of the subject that were visited before the did:web one get no key — or is exactly one `addKey` operation -/
theorem add_key_request_refines (rw : Bool) (cfg : Cfg) (w : World) (s : String) (ka : Bool) (order : List Method) (f : Fault) :
    (addKeyRequest rw cfg w s ka order f).1 = w ∨
    addKeyRequest rw cfg w s ka order f = stepOp cfg w (.addKey s) order f := by
  unfold addKeyRequest
  simp only
  split
  · exact .inl rfl
  · split
    · exact .inl rfl
    · exact .inl rfl
    · exact .inr rfl

theorem stepOp_create_taken (cfg : Cfg) (w : World) (s : String) (order : List Method) (f : Fault)
    (hex : subjectExists w s = true) : (stepOp cfg w (.create s) order f).1 = w := by
  have ht : tx1 cfg w (.create s) = .err "exists" := by simp only [tx1, tx1Create, hex, if_true]
  simp only [stepOp, stepOpCore, ht]

section
variable {cfg : Cfg}

/-- **request-level histories stay inside `Reach`**: whatever option list `Create` is called with — so every theorem
    over `Reach` (uniform versions, consecutive versions, subject uniqueness, all-or-nothing after the sweep, …) holds
    for histories of REQUESTS. No premise on the name: a name that is taken is refused, a free one has no change records. -/
theorem create_request_reach {w : World} (h : Reach cfg w) (cls : CharClass) (rw : Bool) (opts : List CreateOpt)
    (uuid nd : String) (gen order : List Method) (f : Fault) :
    Reach cfg (createRequest cls rw cfg w opts uuid nd gen order f).1 := by
  rcases create_request_refines cls rw cfg w opts uuid nd gen order f with ⟨e, _, he⟩ | ⟨s, hs⟩
  · rw [he]; exact h
  · rw [hs]
    by_cases hex : subjectExists w s = true
    · rw [stepOp_create_taken cfg w s order f hex]; exact h
    · refine Reach.op (.create s) order f h ?_
      intro r hr hrs
      exact absurd (List.any_eq_true.mpr ⟨r, hr, by simpa [Op.subject] using hrs⟩) hex

/-- the same for `AddVerificationMethod`, under the premise every operation has (no change records on the subject) -/
theorem add_key_request_reach {w : World} (h : Reach cfg w) (rw : Bool) (s : String) (ka : Bool) (order : List Method)
    (f : Fault) (hc : Clean w.dids s) : Reach cfg (addKeyRequest rw cfg w s ka order f).1 := by
  rcases add_key_request_refines rw cfg w s ka order f with he | hs
  · rw [he]; exact h
  · rw [hs]; exact Reach.op (.addKey s) order f h hc

/-- **key agreement × did:web is all-or-nothing** (`AddVerificationMethod`): in every reachable world, for a subject that
    has a did:web DID, the request is refused and NO DID of the subject — also not the did:nuts one, whose turn came first —
    gets a key, a version or a change record: the world is the same -/
theorem key_agreement_on_web_changes_no_did (hfix : Fixed cfg) (hms : cfg.methods.Nodup) {w : World} (h : Reach cfg w)
    (s : String) (order : List Method) (f : Fault) (hweb : ∃ r ∈ w.dids, r.subject = s ∧ r.method = .web) :
    addKeyRequest true cfg w s true order f = (w, "err:keyagreement") := by
  have inv := reach_inv hfix hms h
  obtain ⟨r, hr, hrs, hrm⟩ := hweb
  have hmem : r ∈ w.dids.filter (fun r => r.subject = s) := List.mem_filter.mpr ⟨hr, by simpa using hrs⟩
  unfold addKeyRequest
  simp only
  rw [if_neg (by
    intro he
    rw [List.isEmpty_iff] at he
    rw [he] at hmem
    cases hmem)]
  rw [addKeyCheck_err_of_web _ (fun x hx => by
        have := inv.noOrphan x (List.mem_filter.mp hx).1
        cases hv : x.vers with
        | nil => exact absurd hv this
        | cons _ _ => rfl) ⟨r, hmem, hrm⟩]
  show ((w, "err:" ++ "keyagreement") : World × String) = (w, "err:keyagreement")
  exact Prod.ext rfl (show "err:" ++ "keyagreement" = "err:keyagreement" by decide)

/-- **a database error in the clean-up transaction is covered by the stop theorems**: `transactionHelper` hands the
    error to the caller and leaves versions + change records behind — the world is the one a process stop at some point of
    the Commit loop leaves (`cleanup_failure_is_a_stop`), hence reachable, hence `stopped_operation_resolved` /
    `all_or_nothing` say what the sweep makes of it. Also when the did:nuts Commit had failed before (`nf`). -/
theorem cleanup_failure_reach {w : World} (h : Reach cfg w) (o : Op) (order : List Method) (nf : Bool)
    (hc : Clean w.dids o.subject) : Reach cfg (stepOpCleanupFails cfg w o order nf).1 := by
  obtain ⟨f, hf⟩ := cleanup_failure_is_a_stop cfg w o order nf
  rw [hf]
  exact Reach.op o order f h hc

/-- **a failed clean-up is resolved by the sweep, for all DIDs together** (end to end: DB error in the second
    transaction → sweep): in a reachable world without change records, an operation whose clean-up transaction fails —
    whether or not the did:nuts Commit had failed before —, followed by more than `threshold` seconds and the sweep:
    EITHER the rows are exactly those from before the operation, OR every DID keeps the new version, no change record is
    left and the did:nuts network shows exactly that version. -/
theorem cleanup_failure_resolved (hfix : Fixed cfg) (hms : cfg.methods.Nodup) {w0 w1 : World} (h : Reach cfg w0)
    (hnone : ∀ r ∈ w0.dids, ∀ v ∈ r.vers, v.pending = none) {o : Op} {chs : List Change}
    (ht : tx1 cfg w0 o = .ok (w1, chs)) (hne : chs.isEmpty = false) (order : List Method) (nf : Bool)
    (d : Nat) (hd : cfg.threshold < d) (ord : List Nat → List Nat) (hord : ∀ l, (ord l).Perm l) :
    let wF := (stepOpCleanupFails cfg w0 o order nf).1
    let w2 := (sweep cfg ord (tick d wF)).1
    (w2.dids = w0.dids ∨
     (w2.dids = wF.dids.map (clearRow w0.next) ∧
      ∀ r ∈ wF.dids, ∀ v vs p, r.vers = v :: vs → v.pending = some p → r.method = .nuts →
        pubLatest w2.pub r.id = some v.c)) ∧
    w2.pub = wF.pub := by
  obtain ⟨k, hk, hph⟩ := cleanup_failure_stop_point order nf ht hne
  intro wF w2
  have := stopped_operation_resolved hfix hms h hnone ht order k hph d hd ord hord
  simp only [w2, wF, hk]
  exact this

/-- **`FindServices` shows a service on every DID of the subject or on none**: in every reachable world (any requests,
    faults, stops, sweeps before), if the answer names one DID of the subject as owner of a service of the requested
    type, it names every DID of the subject -/
theorem find_services_all_dids_or_none (hfix : Fixed cfg) (hms : cfg.methods.Nodup) {w : World} (h : Reach cfg w)
    (s : String) (typ : Option String) {found : List (Nat × String)} (hf : findServices w s typ = .ok found)
    (l : String) {d : Nat} (hd : (d, l) ∈ found) : ∀ r ∈ listDIDs w s, (r.id, l) ∈ found := by
  unfold findServices at hf
  simp only at hf
  split at hf
  · cases hf
  · split at hf
    · cases hf
    · cases hf
      intro r hr
      obtain ⟨r0, hr0, hm⟩ := List.mem_flatMap.mp hd
      refine List.mem_flatMap.mpr ⟨r, hr, ?_⟩
      have hs : r0.subject = r.subject := by
        have a := (List.mem_filter.mp hr0).2
        have b := (List.mem_filter.mp hr).2
        simp only [decide_eq_true_eq] at a b
        rw [a, b]
      have hu := (uniform_versions hfix hms h r0 (List.mem_filter.mp hr0).1 r (List.mem_filter.mp hr).1 hs).2.1
      unfold servicesOfRow at hm ⊢
      cases hv0 : r0.vers with
      | nil => rw [hv0] at hm; cases hm
      | cons v0 vs0 =>
        cases hv : r.vers with
        | nil => rw [hv0, hv] at hu; cases hu
        | cons v vs =>
          rw [hv0] at hm
          rw [hv0, hv] at hu
          simp only [List.map_cons, List.cons.injEq] at hu
          simp only [loadContent, List.mem_map, List.mem_filter] at hm ⊢
          obtain ⟨l', ⟨hl1, hl2⟩, hl3⟩ := hm
          have : l' = l := (Prod.mk.injEq .. ▸ hl3).2
          subst this
          exact ⟨l', ⟨by rw [← hu.1]; exact hl1, hl2⟩, rfl⟩

/-- as coded, a request WITHOUT a service type finds nothing, whatever the documents hold -/
theorem find_services_without_type_finds_nothing (w : World) (s : String) {found : List (Nat × String)}
    (hf : findServices w s none = .ok found) : found = [] := by
  unfold findServices at hf
  simp only at hf
  split at hf
  · cases hf
  · split at hf
    · cases hf
    · cases hf
      apply List.eq_nil_iff_forall_not_mem.mpr
      intro x hx
      obtain ⟨r, _, hm⟩ := List.mem_flatMap.mp hx
      unfold servicesOfRow at hm
      split at hm
      · simp at hm
      · cases hm

end

example :
    let cfg := cfgNow [.nuts, .web]
    let w0 := (stepOp cfg {} (.create "s") [.nuts, .web] .none).1
    let w1 := (stepOp cfg w0 (.addSvc "s" "A") [.nuts, .web] .none).1
    findServices w1 "s" (some "A") = .ok [(0, "A"), (1, "A")] ∧ findServices w1 "s" (some "B") = .ok [] ∧
    findServices w1 "s" none = .ok [] ∧ findServices w1 "t" (some "A") = .err "nosubject" := by decide

/-- the caller of an operation whose clean-up failed is told so, and the change records are still there: the sweep has
    something to find (non-vacuity of `cleanup_failure_reach`; both flavours; after the threshold the sweep keeps the
    published change and drops the unpublished one on BOTH DIDs) -/
example :
    let cfg := cfgNow [.nuts, .web]
    let w0 := (stepOp cfg {} (.create "s") [.nuts, .web] .none).1
    let a := stepOpCleanupFails cfg w0 (.addSvc "s" "A") [.web, .nuts] false
    let b := stepOpCleanupFails cfg w0 (.addSvc "s" "A") [.web, .nuts] true
    a.2 = "err:db" ∧ b.2 = "err:db" ∧ logCount a.1 = 2 ∧ logCount b.1 = 2 ∧
    ((sweep cfg id (tick 61 a.1)).1.dids.map (fun r => r.vers.map (·.c.svcs))) = [[["A"], []], [["A"], []]] ∧
    ((sweep cfg id (tick 61 b.1)).1.dids.map (fun r => r.vers.map (·.c.svcs))) = [[[]], [[]]] ∧
    logCount (sweep cfg id (tick 61 a.1)).1 = 0 ∧ logCount (sweep cfg id (tick 61 b.1)).1 = 0 := by decide

/-- **key agreement × did:web is all-or-nothing** (`Create`): with the encryption-key option on a node that has did:web
    enabled nothing is created, for NO method, in whatever order the method map is visited -/
theorem create_with_encryption_key_on_web_creates_nothing (cls : CharClass) (cfg : Cfg) (w : World) (opts : List CreateOpt)
    (uuid nd : String) (gen order : List Method) (f : Fault) (hweb : Method.web ∈ gen) (henc : CreateOpt.encryptionKey ∈ opts) :
    ∃ e ∈ ["validation", "exists", "keyagreement"], createRequest cls true cfg w opts uuid nd gen order f = (w, "err:" ++ e) := by
  unfold createRequest
  rcases applyOpts_verdict cls opts { subject := uuid } with ⟨p, hp⟩ | hp
  · have hka := applyOpts_keyAgreement cls opts _ p hp (.inr henc)
    rw [hp]
    simp only
    split
    · exact ⟨"exists", by simp, rfl⟩
    · rw [hka, genLoop_err_of_web true gen 0 hweb]
      exact ⟨"keyagreement", by simp, rfl⟩
  · rw [hp]; exact ⟨"validation", by simp, rfl⟩

/-- the answer of `Create` does not depend on the order in which the generation loop visits the method map -/
theorem create_request_order_independent (cls : CharClass) (rw : Bool) (cfg : Cfg) (w : World) (opts : List CreateOpt)
    (uuid nd : String) (g1 g2 order : List Method) (f : Fault) (hp : g1.Perm g2) :
    createRequest cls rw cfg w opts uuid nd g1 order f = createRequest cls rw cfg w opts uuid nd g2 order f := by
  unfold createRequest
  rcases applyOpts_verdict cls opts { subject := uuid } with ⟨p, hpp⟩ | hpp
  · rw [hpp]
    simp only
    split
    · rfl
    · have hv := genLoop_isOk_perm rw p.keyAgreement hp 0
      have hc : g1.contains Method.nuts = g2.contains Method.nuts := by
        cases h1 : g1.contains Method.nuts <;> cases h2 : g2.contains Method.nuts <;> try rfl
        · have := List.contains_iff_mem.mpr (hp.symm.subset (List.contains_iff_mem.mp h2))
          rw [h1] at this; cases this
        · have := List.contains_iff_mem.mpr (hp.subset (List.contains_iff_mem.mp h1))
          rw [h2] at this; cases this
      rcases genLoop_verdict rw p.keyAgreement g1 0 with h1 | h1 <;>
      rcases genLoop_verdict rw p.keyAgreement g2 0 with h2 | h2 <;>
      rw [h1, h2] at hv ⊢
      · simp only [finalSubject, hc]
      · cases hv
      · cases hv
  · rw [hpp]

/-- one unknown option, or one name that does not match the pattern, ANYWHERE in the list refuses the whole request
    before anything is read or written -/
theorem ill_formed_option_refuses (cls : CharClass) (rw : Bool) (cfg : Cfg) (w : World) (opts : List CreateOpt)
    (uuid nd : String) (gen order : List Method) (f : Fault) (o : CreateOpt) (ho : o ∈ opts)
    (hbad : o = .unknown ∨ ∃ s, o = .subject s ∧ matchesPlus cls s = false) :
    createRequest cls rw cfg w opts uuid nd gen order f = (w, "err:validation") := by
  unfold createRequest
  rw [applyOpts_err_of_mem cls opts _ o ho (by
    intro q
    rcases hbad with rfl | ⟨s, rfl, hs⟩
    · rfl
    · rw [applyOpt_subject, hs]; rfl)]
  show ((w, "err:" ++ "validation") : World × String) = (w, "err:validation")
  exact Prod.ext rfl (show "err:" ++ "validation" = "err:validation" by decide)

/-- **a name handed in can never be a v1 name**: a name that passes today's `subjectPattern` contains no colon, so
    `SubjectCreationOption` cannot claim `did:nuts:…` — the name space of `NutsLegacyNamingOption` subjects -/
theorem option_names_are_not_dids (s : String) (h : matchesPlus Now.cls s = true) : ':' ∉ s.toList := by
  intro hc
  unfold matchesPlus at h
  have hall : s.toList.all Now.cls.has = true := by
    cases h1 : s.toList.all Now.cls.has
    · rw [h1] at h; simp at h
    · rfl
  have := List.all_eq_true.mp hall ':' hc
  revert this
  decide

/-! ### `ListDIDs`: a sorted permutation, and the only one -/

/-- `ListDIDs` / `List` lose and invent no DID, and answer in an order no two neighbours of which are the wrong way round -/
theorem list_dids_sorted_permutation (absent : Int) (order : List String) (l : List DidId) :
    (sortDIDsByMethod absent order l).Perm l ∧
    (sortDIDsByMethod absent order l).Pairwise (fun a b => lessDID absent order b a = false) :=
  ⟨sortBy_perm _ l, sortBy_pairwise _ (lessDID_asymm absent order) (lessDID_le_trans absent order) l⟩

theorem eq_of_map_nodup {α β} (g : α → β) : ∀ (l : List α), (l.map g).Nodup → ∀ a ∈ l, ∀ b ∈ l, g a = g b → a = b
  | [], _, _, h, _, _, _ => by cases h
  | x :: xs, hn, a, ha, b, hb, hab => by
    rw [List.map_cons, List.nodup_cons] at hn
    rcases List.mem_cons.mp ha with h1 | h1 <;> rcases List.mem_cons.mp hb with h2 | h2
    · rw [h1, h2]
    · subst h1; exact absurd (by rw [hab]; exact List.mem_map.mpr ⟨b, h2, rfl⟩) hn.1
    · subst h2; exact absurd (by rw [← hab]; exact List.mem_map.mpr ⟨a, h1, rfl⟩) hn.1
    · exact eq_of_map_nodup g xs hn.2 a h1 b h2 hab

/-- **the order of `ListDIDs` is determined**: for DIDs of pairwise different methods (one DID per method: theorem
    `subject_unique`) ANY permutation that the comparator accepts as sorted is the list the model computes — so Go's
    unspecified, unstable `sort.Slice` and the order in which SQL returns the rows cannot show -/
theorem list_dids_order_unique (absent : Int) (habs : absent < 0) (order : List String) (l l' : List DidId)
    (hn : (l.map (·.method)).Nodup) (hp : l'.Perm l)
    (hs : l'.Pairwise (fun a b => lessDID absent order b a = false)) :
    l' = sortDIDsByMethod absent order l := by
  have ⟨p, s⟩ := list_dids_sorted_permutation absent order l
  refine List.Perm.eq_of_pairwise (le := fun a b => lessDID absent order b a = false) ?_ hs s (hp.trans p.symm)
  intro a b ha hb hab hba
  have ha' := hp.subset ha
  have hb' := p.subset hb
  by_cases hm : a.method = b.method
  · exact eq_of_map_nodup (·.method) l hn a ha' b hb' hm
  · exact (lessDID_total_of_method_ne absent habs order a b hm hba hab).elim

theorem find_of_map_nodup {α β} [DecidableEq β] (g : α → β) : ∀ (l : List α), (l.map g).Nodup → ∀ a ∈ l,
    l.find? (fun d => g d = g a) = some a
  | [], _, _, h => by cases h
  | x :: xs, hn, a, ha => by
    rw [List.map_cons, List.nodup_cons] at hn
    rw [List.find?_cons]
    rcases List.mem_cons.mp ha with rfl | ha
    · simp
    · have hne : g x ≠ g a := fun e => hn.1 (e ▸ List.mem_map.mpr ⟨a, ha, rfl⟩)
      simp only [hne, decide_false]
      exact find_of_map_nodup g xs hn.2 a ha

/-- **`Create` hands back every document it made, once** (`sortDIDDocumentsByMethod`): for documents with pairwise
    different IDs the answer is a permutation of them, and its IDs are the sorted IDs (= the order of `ListDIDs`) -/
theorem sorted_documents_are_a_permutation (absent : Int) (order : List String) (docs : List (DidId × Nat))
    (hn : (docs.map (·.1)).Nodup) :
    (sortDocsByMethod absent order docs).Perm docs ∧
    (sortDocsByMethod absent order docs).map (·.1) = sortDIDsByMethod absent order (docs.map (·.1)) := by
  have hfind : ∀ d ∈ docs, docs.find? (fun x => x.1 = d.1) = some d := fun d hd => by
    have := find_of_map_nodup (·.1) docs hn d hd
    simpa using this
  have hp : (sortDIDsByMethod absent order (docs.map (·.1))).Perm (docs.map (·.1)) := sortBy_perm _ _
  constructor
  · unfold sortDocsByMethod
    refine (hp.filterMap _).trans ?_
    rw [List.filterMap_map]
    rw [filterMap_eq_self _ docs (fun d hd => by simpa using hfind d hd)]
  · unfold sortDocsByMethod
    generalize hs : sortDIDsByMethod absent order (docs.map (·.1)) = sorted at hp
    have hsub : ∀ id ∈ sorted, id ∈ docs.map (·.1) := fun id h => hp.subset h
    clear hs hp
    induction sorted with
    | nil => rfl
    | cons id rest ih =>
      obtain ⟨d, hd, hdi⟩ := List.mem_map.mp (hsub id (List.mem_cons_self ..))
      have := hfind d hd
      rw [hdi] at this
      rw [List.filterMap_cons, this]
      simp only [List.map_cons]
      rw [ih (fun x hx => hsub x (List.mem_cons_of_mem _ hx)), hdi]

/-- with two documents of ONE ID the second is lost and the first comes back twice (not reachable from `Create`: one
    document per method, IDs differ) -/
example : sortDocsByMethod (-1) ["nuts", "web"] [(⟨"web", "did:web:x"⟩, 0), (⟨"web", "did:web:x"⟩, 1)] =
    [(⟨"web", "did:web:x"⟩, 0), (⟨"web", "did:web:x"⟩, 0)] := by decide

/-! ### non-vacuity -/

example : matchesPlus Now.cls "A.b_c-9" = true ∧ matchesPlus Now.cls "" = false ∧ matchesPlus Now.cls "a:b" = false ∧
    matchesPlus Now.cls "a\n" = false ∧ matchesPlus Now.cls "did:nuts:x" = false ∧ matchesPlus Now.cls "é" = false := by decide

/-- every way out of `create_request_refines` is taken: created under the last name given; the name is taken; refused
    for key agreement (did:nuts visited first, nothing stays); an unknown option; with v1 naming the taken PROVISIONAL
    name refuses although the final name would be free; v1 naming after a free name creates under the did:nuts DID -/
example :
    let cfg := cfgNow [.nuts, .web]
    let w1 := (createRequest Now.cls Now.createRefusesWeb cfg {} [.subject "a", .subject "b"] "u1" "n1" [.nuts, .web] [.nuts, .web] .none)
    let w2 := (createRequest Now.cls Now.createRefusesWeb cfg w1.1 [.subject "b"] "u2" "n2" [.nuts, .web] [.nuts, .web] .none)
    let w3 := (createRequest Now.cls Now.createRefusesWeb cfg w1.1 [.encryptionKey] "u3" "n3" [.nuts, .web] [.nuts, .web] .none)
    let w4 := (createRequest Now.cls Now.createRefusesWeb cfg w1.1 [.subject "c", .unknown] "u4" "n4" [.nuts, .web] [.nuts, .web] .none)
    let w5 := (createRequest Now.cls Now.createRefusesWeb cfg w1.1 [.subject "b", .nutsLegacy] "u5" "n5" [.web, .nuts] [.nuts, .web] .none)
    let w6 := (createRequest Now.cls Now.createRefusesWeb cfg w1.1 [.nutsLegacy, .subject "c"] "u6" "n6" [.web, .nuts] [.nuts, .web] .none)
    w1.2 = "ok" ∧ w1.1.dids.map (·.subject) = ["b", "b"] ∧
    w2.2 = "err:exists" ∧ w3.2 = "err:keyagreement" ∧ w3.1.dids.length = 2 ∧ w3.1.keys = w1.1.keys ∧
    w4.2 = "err:validation" ∧ w5.2 = "err:exists" ∧
    w6.2 = "ok" ∧ w6.1.dids.map (·.subject) = ["b", "b", "n6", "n6"] := by decide

/-- `key_agreement_on_web_changes_no_did`: hypotheses satisfiable, and on a did:nuts-only node the same request IS an
    operation (one more key) -/
example :
    let cfg := cfgNow [.nuts, .web]
    let w := (stepOp cfg {} (.create "s") [.nuts, .web] .none).1
    (∃ r ∈ w.dids, r.subject = "s" ∧ r.method = .web) ∧
    (addKeyRequest Now.addKeyRefusesWeb cfg w "s" true [.nuts, .web] .none).2 = "err:keyagreement" ∧
    (addKeyRequest Now.addKeyRefusesWeb cfg w "s" false [.nuts, .web] .none).2 = "ok" := by decide

example :
    let cfg := cfgNow [.nuts]
    let w := (stepOp cfg {} (.create "s") [.nuts] .none).1
    let w' := addKeyRequest Now.addKeyRefusesWeb cfg w "s" true [.nuts] .none
    w'.2 = "ok" ∧ w'.1.dids.map (fun r => r.vers.map (·.c.vms.length)) = [[2, 1]] := by decide

/-- the order of `ListDIDs`: an unlisted method comes BEFORE the listed ones (rank −1), among unlisted ones the method
    name decides, the LAST occurrence in the preferred order counts -/
example :
    let ds : List DidId := [⟨"web", "did:web:x"⟩, ⟨"nuts", "did:nuts:y"⟩, ⟨"key", "did:key:z"⟩, ⟨"jwk", "did:jwk:q"⟩]
    (sortDIDsByMethod Now.absent ["nuts", "web"] ds).map (·.method) = ["jwk", "key", "nuts", "web"] ∧
    (sortDIDsByMethod Now.absent ["nuts", "web", "nuts"] ds).map (·.method) = ["jwk", "key", "web", "nuts"] ∧
    (sortDIDsByMethod Now.absent [] ds).map (·.method) = ["jwk", "key", "nuts", "web"] ∧
    (ds.map (·.method)).Nodup := by decide

end Nuts.C13.Props
