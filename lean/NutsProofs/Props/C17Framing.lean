/-
  C17 (deepening round) — "verified over the exact bytes received … re-encoding the compact form" proved on the BYTES for the
  DAG transaction parser, and the algorithm derived from a key (crypto.SignatureAlgorithm) tied to the curve/algorithm binding.
  ONLY property theorems (+ non-vacuity examples + obligations on the regenerated facts).
  Model: NutsModel/C17/Framing.lean (+ TokenPolicy.lean). Facts: NutsModel/Facts/C17.lean (regenerated).
-/
import NutsModel.C17.Framing
import NutsModel.C17.TokenPolicy
import NutsModel.Facts.C17
import NutsProofs.Lemmas.C17Framing
import NutsProofs.Props.C17

namespace Nuts.C17.Props
open Nuts.C17 Nuts.C17.Framing

/-! ### Obligations on the regenerated facts -/

/-- isJWSSerialization: the constants of the Go function are the ones of the model (`{` lead, `.` separator, exactly 3
    segments, the SAME unpadded URL codec for decode and re-encode, unicode.IsSpace trimming) -/
theorem fact_dag_framing_consts :
    Facts.C17.dagFramingJsonLead = 123 ∧ Facts.C17.dagFramingSep = 46 ∧ Facts.C17.dagFramingSegments = 3 ∧
    Facts.C17.dagFramingDecodeCodec = "base64.RawURLEncoding" ∧ Facts.C17.dagFramingEncodeCodec = "base64.RawURLEncoding" ∧
    Facts.C17.dagFramingTrimPredicate = "unicode.IsSpace" := by decide

/-- the arithmetic `idx` / `chr` ARE the alphabet of encoding/base64's URL encoding -/
theorem fact_alphabet :
    alphabet.toList.map (fun c => idx c.toNat) = (List.range 64).map some ∧
    (List.range 64).map chr = alphabet.toList.map Char.toNat := by decide

/-- crypto.SignatureAlgorithm / ecAlgUsingPublicKey as regenerated: nil is an error, values are turned into pointers, RSA ->
    PS256, ECDSA -> by `Params().BitSize` 256/384/521, Ed25519 -> EdDSA, everything else an error -/
theorem fact_signatureAlgorithm :
    Facts.C17.sigAlgNilIsError = true ∧
    Facts.C17.sigAlgDerefTypes = ["rsa.PrivateKey", "rsa.PublicKey", "ecdsa.PrivateKey", "ecdsa.PublicKey"] ∧
    Facts.C17.sigAlgCases = [("*rsa.PrivateKey", "PS256"), ("*rsa.PublicKey", "PS256"), ("*ecdsa.PrivateKey", "call:ecAlgUsingPublicKey"),
      ("*ecdsa.PublicKey", "call:ecAlgUsingPublicKey"), ("ed25519.PrivateKey", "EdDSA"), ("ed25519.PublicKey", "EdDSA"), ("default", "error")] ∧
    Facts.C17.ecAlgSwitchTag = "key.Params().BitSize" ∧
    Facts.C17.ecAlgBitsTable = [(256, "ES256"), (384, "ES384"), (521, "ES512")] := by decide

/-- the model's SignatureAlgorithm with the regenerated tables -/
def derivedAlg (k : KeyKind) : Option String :=
  signatureAlgorithm Facts.C17.ecAlgBitsTable Facts.C17.sigAlgRsa Facts.C17.sigAlgEd k

/-! ### base64url: every byte string has exactly one accepted spelling -/

/-- decoding undoes encoding, for ALL byte strings -/
theorem rawurl_roundtrip (b : Bytes) (h : ∀ x ∈ b, x < 256) : decode (encode b) = some b := decode_encode b h

/-- existence: the encoder's output passes the parser's re-encode-and-compare test -/
theorem encode_is_canonical (b : Bytes) (h : ∀ x ∈ b, x < 256) : canonical (encode b) = true := encode_canonical b h

/-- uniqueness: two segments that pass the test and decode to the same bytes are the same bytes — padding, CR / LF, unused
    trailing bits, another alphabet never give a second accepted spelling -/
theorem canonical_segment_unique {a b : Bytes} (ha : canonical a = true) (hb : canonical b = true) (h : decode a = decode b) :
    a = b := canonical_unique ha hb h

/-- a segment that passes consists of alphabet characters only (no `=`, `.`, white space, `+`, `/`) -/
theorem canonical_segment_alphabet {s : Bytes} (h : canonical s = true) : ∀ c ∈ s, (idx c).isSome = true := canonical_chars h

example : canonical ("eyJhIjoxfQ".toList.map Char.toNat) = true := by decide
example : canonical ("eyJhIjoxfQ==".toList.map Char.toNat) = false := by decide        -- padded
example : canonical ("eyJhIjox\nfQ".toList.map Char.toNat) = false := by decide       -- line break (the decoder skips it)
example : decode ("eyJhIjox\nfQ".toList.map Char.toNat) = decode ("eyJhIjoxfQ".toList.map Char.toNat) := by decide
example : canonical ("eyJhIjoxfR".toList.map Char.toNat) = false := by decide          -- unused trailing bits set
example : decode ("eyJhIjoxfR".toList.map Char.toNat) = decode ("eyJhIjoxfQ".toList.map Char.toNat) := by decide

/-! ### isJWSSerialization on the bytes -/

/-- what passes in compact form: exactly `h.p.s` with three canonical segments -/
theorem compact_shape {b : Bytes} (h : isJWSSerialization b = true) (hj : jsonLead b = false) :
    ∃ hd pl sg, b = hd ++ 46 :: (pl ++ 46 :: sg) ∧ canonical hd = true ∧ canonical pl = true ∧ canonical sg = true := by
  unfold isJWSSerialization at h
  rw [hj] at h
  simp only [Bool.false_eq_true, if_false] at h
  split at h
  · cases h
  · next hlen =>
    have hjoin := join_split b
    unfold segments at h hlen
    generalize splitDot b = p at h hlen hjoin
    obtain ⟨h0, t⟩ := p
    match t, hlen, h, hjoin with
    | [p1, p2], _, h, hjoin =>
      simp only [List.all_cons, List.all_nil, Bool.and_true, Bool.and_eq_true] at h
      refine ⟨h0, p1, p2, ?_, h.1, h.2.1, h.2.2⟩
      simpa [joinDot] using hjoin.symm
    | [], hlen, _, _ => simp at hlen
    | [_], hlen, _, _ => simp at hlen
    | _ :: _ :: _ :: _, hlen, _, _ => simp at hlen

/-- THE clause on the bytes: among the compact inputs the parser lets through, the decoded (protected header, payload,
    signature) triple determines the bytes. A transaction's reference is the hash of its bytes, so one signed transaction has
    exactly one compact reference: no re-encoding of it is accepted. -/
theorem compact_reference_unique {a b : Bytes}
    (ha : isJWSSerialization a = true) (hb : isJWSSerialization b = true) (hja : jsonLead a = false) (hjb : jsonLead b = false)
    (hsame : (segments a).map decode = (segments b).map decode) : a = b := by
  have hsa := join_split a
  have hsb := join_split b
  unfold isJWSSerialization at ha hb
  rw [hja] at ha; rw [hjb] at hb
  simp only [Bool.false_eq_true, if_false] at ha hb
  split at ha; · cases ha
  split at hb; · cases hb
  next hla hlb =>
  unfold segments at ha hb hla hlb hsame
  generalize splitDot a = pa at ha hla hsame hsa
  generalize splitDot b = pb at hb hlb hsame hsb
  obtain ⟨a0, ta⟩ := pa
  obtain ⟨b0, tb⟩ := pb
  match ta, tb, hla, hlb, ha, hb, hsame, hsa, hsb with
  | [a1, a2], [b1, b2], _, _, ha, hb, hsame, hsa, hsb =>
    simp only [List.all_cons, List.all_nil, Bool.and_true, Bool.and_eq_true] at ha hb
    simp only [List.map, List.cons.injEq, and_true] at hsame
    have e0 := canonical_unique ha.1 hb.1 hsame.1
    have e1 := canonical_unique ha.2.1 hb.2.1 hsame.2.1
    have e2 := canonical_unique ha.2.2 hb.2.2 hsame.2.2
    rw [← hsa, ← hsb, e0, e1, e2]
  | [], _, hla, _, _, _, _, _, _ => simp at hla
  | [_], _, hla, _, _, _, _, _, _ => simp at hla
  | _ :: _ :: _ :: _, _, hla, _, _, _, _, _, _ => simp at hla
  | [_, _], [], _, hlb, _, _, _, _, _ => simp at hlb
  | [_, _], [_], _, hlb, _, _, _, _, _ => simp at hlb
  | [_, _], _ :: _ :: _ :: _, _, hlb, _, _, _, _, _ => simp at hlb

/-- consequently every hash of the bytes (the transaction reference) agrees -/
theorem compact_reference_unique_ref {R : Type} (ref : Bytes → R) {a b : Bytes}
    (ha : isJWSSerialization a = true) (hb : isJWSSerialization b = true) (hja : jsonLead a = false) (hjb : jsonLead b = false)
    (hsame : (segments a).map decode = (segments b).map decode) : ref a = ref b := by
  rw [compact_reference_unique ha hb hja hjb hsame]

/-- existence (non-vacuity of the above for every content): the canonical compact form of ANY three byte strings passes, and its
    segments decode to exactly those byte strings -/
theorem canonical_compact_passes (hd pl sg : Bytes) (h0 : ∀ x ∈ hd, x < 256) (h1 : ∀ x ∈ pl, x < 256) (h2 : ∀ x ∈ sg, x < 256) :
    isJWSSerialization (encode hd ++ 46 :: (encode pl ++ 46 :: encode sg)) = true ∧
    (segments (encode hd ++ 46 :: (encode pl ++ 46 :: encode sg))).map decode = [some hd, some pl, some sg] := by
  have hs := segments_compact (encode hd) (encode pl) (encode sg) (encode_no_dot hd) (encode_no_dot pl) (encode_no_dot sg)
  constructor
  · unfold isJWSSerialization
    split
    · rfl
    · rw [hs]
      simp [encode_canonical hd h0, encode_canonical pl h1, encode_canonical sg h2]
  · rw [hs]
    simp [decode_encode hd h0, decode_encode pl h1, decode_encode sg h2]

example : isJWSSerialization ("eyJhIjoxfQ.QUJD.c2ln".toList.map Char.toNat) = true ∧ jsonLead ("eyJhIjoxfQ.QUJD.c2ln".toList.map Char.toNat) = false := by decide
example : isJWSSerialization ("eyJhIjoxfQ.QUJD.c2ln.".toList.map Char.toNat) = false := by decide      -- trailing dot (4 segments)
example : isJWSSerialization ("eyJhIjoxfQ.QUJD.c2ln=".toList.map Char.toNat) = false := by decide
example : isJWSSerialization ("eyJhIjoxfQ.QUJD".toList.map Char.toNat) = false := by decide
example : isJWSSerialization (" \n{\"payload\":1}".toList.map Char.toNat) = true := by decide
example : isJWSSerialization ([0xC2, 0xA0, 0xE2, 0x80, 0xA8, 123]) = true := by decide                   -- NBSP, LINE SEPARATOR, `{`
example : isJWSSerialization ([0xC2, 123]) = false := by decide                                        -- invalid UTF-8 is no space

/-- NEGATION for the JSON branch (open finding C17:dagtx:json-serialisation-second-reference): the framing test puts NO demand on the bytes
    of a JSON-led input. Any passing JSON-led input still passes with a space in front — other bytes, hence another reference, for the same
    signed content. (jwx parses and verifies both: replayed on the real ParseTransaction by the `framingtx` leg.) `compact_reference_unique`
    therefore cannot be extended to JSON-led inputs. -/
theorem json_form_admits_whitespace_variants (a : Bytes) (h : jsonLead a = true) :
    isJWSSerialization (32 :: a) = true ∧ jsonLead (32 :: a) = true ∧ (32 :: a) ≠ a := by
  have hj : jsonLead (32 :: a) = true := by
    unfold jsonLead at h ⊢
    rw [trim_space_cons]
    exact h
  refine ⟨by unfold isJWSSerialization; rw [hj]; rfl, hj, ?_⟩
  intro e
  have := congrArg List.length e
  simp at this

example : jsonLead ("{\"payload\":\"x\"}".toList.map Char.toNat) = true := by decide

/-! ### ParseTransaction's first two exits, and the tie to `dagTx` -/

theorem parseTxFraming_pass {strict parses : Bool} {b : Bytes} (h : parseTxFraming strict parses b = .pass) :
    parses = true ∧ (strict = true → isJWSSerialization b = true) := by
  unfold parseTxFraming at h
  split at h; · cases h
  next hp =>
  split at h; · cases h
  next hf =>
  refine ⟨by simpa using hp, fun hs => ?_⟩
  subst hs
  simpa using hf

/-- `dagTx` with the framing verdict COMPUTED from the received bytes by the model: an accepted transaction in compact form is the
    canonical compact serialisation of its three decoded parts (and everything `accept_dagTx` says holds of it) -/
theorem accept_dagTx_bytes (E : Env) (otherOK : Bool) (b : Bytes) (j : Jws) (vs : List Verified)
    (hstrict : Facts.C17.dagStrictFraming = true)
    (h : dagTx Facts.C17.dagAllowedAlgs Facts.C17.dagRejectsPrivateJwk Facts.C17.dagStrictFraming E otherOK (isJWSSerialization b) j = .accept vs) :
    isJWSSerialization b = true ∧
    (jsonLead b = false → ∃ hd pl sg, b = hd ++ 46 :: (pl ++ 46 :: sg) ∧ canonical hd = true ∧ canonical pl = true ∧ canonical sg = true) := by
  have hf : isJWSSerialization b = true := by
    rw [hstrict] at h
    unfold dagTx at h
    split at h; · cases h
    split at h
    · cases h
    · next hfr => simpa using hfr
  exact ⟨hf, fun hj => compact_shape hf hj⟩

/-- two accepted compact transactions with the same decoded parts are the same bytes: same reference -/
theorem accepted_dagTx_one_reference {R : Type} (ref : Bytes → R) (E E' : Env) (o o' : Bool) (a b : Bytes) (j j' : Jws) (vs vs' : List Verified)
    (hstrict : Facts.C17.dagStrictFraming = true)
    (ha : dagTx Facts.C17.dagAllowedAlgs Facts.C17.dagRejectsPrivateJwk Facts.C17.dagStrictFraming E o (isJWSSerialization a) j = .accept vs)
    (hb : dagTx Facts.C17.dagAllowedAlgs Facts.C17.dagRejectsPrivateJwk Facts.C17.dagStrictFraming E' o' (isJWSSerialization b) j' = .accept vs')
    (hja : jsonLead a = false) (hjb : jsonLead b = false)
    (hsame : (segments a).map decode = (segments b).map decode) : ref a = ref b :=
  compact_reference_unique_ref ref (accept_dagTx_bytes E o a j vs hstrict ha).1 (accept_dagTx_bytes E' o' b j' vs' hstrict hb).1 hja hjb hsame

/-! ### the algorithm derived from a key -/

/-- every algorithm SignatureAlgorithm can return is on the regenerated list, hence asymmetric: the hypothesis `hderive` of
    accept_ldProof / accept_vcJsonLd is discharged for the modelled function -/
theorem derived_alg_listed (k : KeyKind) (a : String) (h : derivedAlg k = some a) :
    a ∈ Facts.C17.keyDerivedAlgs ∧ a ∉ symmetricOrNone := by
  have hl : a ∈ Facts.C17.keyDerivedAlgs := by
    unfold derivedAlg signatureAlgorithm at h
    cases k with
    | nil => cases h
    | other => cases h
    | rsa => cases h; decide
    | ed25519 => cases h; decide
    | ecdsa bits =>
      simp only [ecAlgOfBits] at h
      have hfind : ∀ (t : List (Nat × String)) , (∀ p ∈ t, p.2 ∈ Facts.C17.keyDerivedAlgs) →
          (t.find? (·.1 == bits)).map (·.2) = some a → a ∈ Facts.C17.keyDerivedAlgs := by
        intro t ht hf
        cases hfd : t.find? (·.1 == bits) with
        | none => rw [hfd] at hf; cases hf
        | some p =>
          rw [hfd] at hf
          cases hf
          exact ht p (List.mem_of_find?_eq_some hfd)
      exact hfind _ (by decide) h
  exact ⟨hl, allowed_lists_asymmetric.2.2.2 a hl⟩

/-- the BitSize table of SignatureAlgorithm and the curve-name table of AlgorithmFitsKey agree on the NIST curves: the algorithm derived
    from a NIST key always fits that key, so LDProof.Verify's fit test only ever refuses malformed keys -/
theorem derived_alg_fits_nist :
    ∀ p ∈ [("P-256", 256), ("P-384", 384), ("P-521", 521)], ∀ a, derivedAlg (.ecdsa p.2) = some a →
      algorithmFitsKey a (.ecdsa p.1) = true ∧ algOfCurve p.1 = some a := by decide

example : derivedAlg (.ecdsa 256) = some "ES256" ∧ derivedAlg .rsa = some "PS256" ∧ derivedAlg .ed25519 = some "EdDSA" ∧
    derivedAlg .nil = none ∧ derivedAlg (.ecdsa 224) = none ∧ derivedAlg .other = none := by decide

/-- LDProof.Verify with the algorithm computed by the MODELLED SignatureAlgorithm: no assumption about the derived algorithm left -/
theorem accept_ldProof_derived (kind : Key → KeyKind) (L : LdEnv) (key : Key) (canon : Bool) (parts : Nat) (dec : Bool) (vs : List Verified)
    (hL : L.keyAlg = fun k => derivedAlg (kind k))
    (h : ldProofVerify L key canon parts dec = .accept vs) :
    ∃ v, vs = [v] ∧ v.key = key ∧ v.src = .caller ∧ derivedAlg (kind key) = some v.alg ∧ v.alg ∉ symmetricOrNone ∧
      L.verifiesDetached key v.alg = true ∧ parts = 2 ∧ L.fits key v.alg = true := by
  obtain ⟨v, h1, h2, h3, h4, h5, h6⟩ :=
    accept_ldProof L key canon parts dec vs (fun k a hk => (derived_alg_listed (kind k) a (by rw [hL] at hk; exact hk)).1) h
  exact ⟨v, h1, h2, h3, by rw [hL] at h4; exact h4, h5, h6⟩

example : ∃ vs, ldProofVerify { keyAlg := fun _ => derivedAlg (.ecdsa 384), verifiesDetached := fun _ a => a == "ES384" } "K" true 2 true = .accept vs :=
  ⟨_, rfl⟩

end Nuts.C17.Props
