/-
  C05, OpenID4VCI request level — property theorems about NutsModel/C05/Vci.lean (vcr/issuer HandleAccessTokenRequest and the
  openid_store.go functions behind it, as sequences of issuing calls and token requests) + the obligations on the regenerated
  facts that layer mirrors / consumes.  (Deepening round 2, 2026-09-28.)
-/
import NutsModel.C05.Vci
import NutsModel.C05.Today
import NutsModel.Facts.C05
import NutsProofs.Lemmas.C05Vci
import NutsProofs.Props.C05Forms

namespace Nuts.C05.Props
open Nuts.C05

/-! ### Obligations on the regenerated facts -/

/-- the statements of the six functions Vci.lean mirrors are the ones it was written against (normalised source text) -/
theorem fact_vci_sources :
    Facts.C05.src_vci_HandleAccessTokenRequest =
      ["{", "flow, err := i.store.FindAndDeleteReference(ctx, preAuthCodeRefType, preAuthorizedCode)", "if err != nil {", "return \"\", \"\", err", "}", "if flow == nil {", "return \"\", \"\", openid4vci.Error{", "Err: errors.New(\"unknown pre-authorized code\"),", "Code: openid4vci.InvalidGrant,", "StatusCode: http.StatusBadRequest,", "}", "}", "if flow.IssuerID != i.issuerDID.String() {", "return \"\", \"\", openid4vci.Error{", "Err: errors.New(\"pre-authorized code not issued by this issuer\"),", "Code: openid4vci.InvalidGrant,", "StatusCode: http.StatusBadRequest,", "}", "}", "accessToken := crypto.GenerateNonce()", "err = i.store.StoreReference(ctx, flow.ID, accessTokenRefType, accessToken)", "if err != nil {", "return \"\", \"\", err", "}", "cNonce := crypto.GenerateNonce()", "err = i.store.StoreReference(ctx, flow.ID, cNonceRefType, cNonce)", "if err != nil {", "return \"\", \"\", err", "}", "return accessToken, cNonce, nil", "}"] ∧
    Facts.C05.src_vci_Store =
      ["{", "if len(flow.ID) == 0 {", "return errors.New(\"invalid flow ID\")", "}", "store := o.sessionDatabase.GetStore(TokenTTL, \"openid4vci\", \"flow\")", "if store.Exists(flow.ID) {", "return errors.New(\"OAuth2 flow with this ID already exists\")", "}", "return store.Put(flow.ID, flow)", "}"] ∧
    Facts.C05.src_vci_StoreReference =
      ["{", "if len(reference) == 0 {", "return errors.New(\"invalid reference\")", "}", "refStore := o.sessionDatabase.GetStore(TokenTTL, \"openid4vci\", refType)", "flowStore := o.sessionDatabase.GetStore(TokenTTL, \"openid4vci\", \"flow\")", "if !flowStore.Exists(flowID) {", "return errors.New(\"OAuth2 flow with this ID does not exist\")", "}", "if refStore.Exists(reference) {", "return errors.New(\"reference already exists\")", "}", "return refStore.Put(reference, flowID)", "}"] ∧
    Facts.C05.src_vci_FindByReference =
      ["{", "refStore := o.sessionDatabase.GetStore(TokenTTL, \"openid4vci\", refType)", "flowStore := o.sessionDatabase.GetStore(TokenTTL, \"openid4vci\", \"flow\")", "if !refStore.Exists(reference) {", "return nil, nil", "}", "var flowID string", "err := refStore.Get(reference, &flowID)", "if err != nil {", "return nil, err", "}", "var flow Flow", "err = flowStore.Get(flowID, &flow)", "return &flow, err", "}"] ∧
    Facts.C05.src_vci_FindAndDeleteReference =
      ["{", "refStore := o.sessionDatabase.GetStore(TokenTTL, \"openid4vci\", refType)", "flowStore := o.sessionDatabase.GetStore(TokenTTL, \"openid4vci\", \"flow\")", "var flowID string", "err := refStore.GetAndDelete(reference, &flowID)", "if errors.Is(err, storage.ErrNotFound) {", "return nil, nil", "}", "if err != nil {", "return nil, err", "}", "var flow Flow", "err = flowStore.Get(flowID, &flow)", "return &flow, err", "}"] ∧
    Facts.C05.src_vci_DeleteReference =
      ["{", "refStore := o.sessionDatabase.GetStore(TokenTTL, \"openid4vci\", refType)", "return refStore.Delete(reference)", "}"] := by
  refine ⟨rfl, rfl, rfl, rfl, rfl, rfl⟩

/-- the tables Vci.lean CONSUMES by position (handler errors, store error messages), every GetStore call of openid_store.go
    uses the one TTL and the one prefix, the reference types, and the constants the answers resolve to -/
theorem fact_vci_tables :
    Facts.C05.errs_vciHandleAccessTokenRequest =
      [("InvalidGrant", "unknown pre-authorized code"), ("InvalidGrant", "pre-authorized code not issued by this issuer")] ∧
    Facts.C05.vciStoreErrs_Store =
      ["invalid flow ID", "OAuth2 flow with this ID already exists"] ∧
    Facts.C05.vciStoreErrs_StoreReference =
      ["invalid reference", "OAuth2 flow with this ID does not exist", "reference already exists"] ∧
    Facts.C05.vciGetStoreArgs =
      ["Store:TokenTTL,\"openid4vci\",\"flow\"", "StoreReference:TokenTTL,\"openid4vci\",refType", "StoreReference:TokenTTL,\"openid4vci\",\"flow\"", "FindByReference:TokenTTL,\"openid4vci\",refType", "FindByReference:TokenTTL,\"openid4vci\",\"flow\"", "FindAndDeleteReference:TokenTTL,\"openid4vci\",refType", "FindAndDeleteReference:TokenTTL,\"openid4vci\",\"flow\"", "DeleteReference:TokenTTL,\"openid4vci\",refType"] ∧
    Facts.C05.vciRefTypeConsts =
      [("accessTokenRefType", "accesstoken"), ("cNonceRefType", "c_nonce"), ("preAuthCodeRefType", "preauthcode")] ∧
    alGet Facts.C05.vciErrorCodes "InvalidGrant" = some "invalid_grant" ∧
    Facts.C05.vciTokenTTL = 900 ∧ todayTTL (.burn .preAuth) = Facts.C05.vciTokenTTL ∧
    Facts.C05.vciTokenCalls = ["store.FindAndDeleteReference", "store.StoreReference", "store.StoreReference"] ∧
    Facts.C05.vciFindAndDeleteCalls = ["refStore.GetAndDelete", "flowStore.Get"] := by
  refine ⟨rfl, rfl, rfl, rfl, rfl, by decide, by decide, by decide, by decide, by decide⟩

/-! ### Property theorems: sequences of calls at the real issuer's level (all codes, issuers, generated nonces, all histories,
    any amount of time between calls, both back-end expiry conventions) -/

/-- **A pre-authorized code is dead after ANY token request that named it** — honoured, sent to the wrong issuer, naming a
    flow that has expired (the store's "not found"), failing while the tokens are stored: no later token request naming it
    is honoured, at either issuer, whatever issuing calls and token requests are served in between (short of issuing the
    very same code string again — codes are 256-bit random) and however much time passes. -/
theorem preauth_code_dead_after_any_attempt (incl : Bool) (ttl : Kind → Nat) (now : Nat) (s : VciSt)
    (issuer code tok cn : String) (later : List (Nat × VForm)) (hn : noReissue code later) (dt : Nat) (issuer2 tok2 cn2 : String) :
    (handlePreAuth ⟨incl, (runVForms incl ttl now (handlePreAuth ⟨incl, now, ttl⟩ s issuer code tok cn).st later).2.2 + dt, ttl⟩
        (runVForms incl ttl now (handlePreAuth ⟨incl, now, ttl⟩ s issuer code tok cn).st later).2.1 issuer2 code tok2 cn2).ans ≠ .ok := by
  have h1 := handlePreAuth_kills ⟨incl, now, ttl⟩ s issuer code tok cn
  have h2 := runVForms_keeps_dead incl ttl code later now _ hn h1
  exact handlePreAuth_not_ok_of_dead ⟨incl, _, ttl⟩ _ issuer2 code tok2 cn2 (stGet_none_later incl _ _ dt _ h2)

/-- non-vacuity: a request at the wrong issuer kills a live code; the request at the right issuer that follows is refused -/
example :
    let s : VciSt := ⟨[(preAuthKey "c1", ⟨"f1", 900⟩)], [("f1", ⟨"own", 900⟩)], [], []⟩
    (handlePreAuth ⟨true, 0, todayTTL⟩ s "own" "c1" "t" "n").ans = .ok ∧
    (handlePreAuth ⟨true, 0, todayTTL⟩ s "other" "c1" "t" "n").ans = .err "invalid_grant" "pre-authorized code not issued by this issuer" ∧
    (handlePreAuth ⟨true, 1, todayTTL⟩ (handlePreAuth ⟨true, 0, todayTTL⟩ s "other" "c1" "t" "n").st "own" "c1" "t2" "n2").ans
      = .err "invalid_grant" "unknown pre-authorized code" ∧
    noReissue "c1" [(3, VForm.flow "f2" "own"), (0, VForm.ref "f2" "c2")] := by
  decide

/-- **At most one token request per pre-authorized code is honoured in ANY history**: from every state of the four stores,
    for every sequence of issuing calls (`Store`, `StoreReference` of other codes) and token requests at any issuers with
    any waiting times, the number of honoured token requests naming `code` is at most one. -/
theorem preauth_honoured_at_most_once_in_any_history (incl : Bool) (ttl : Kind → Nat) (code : String)
    (fs : List (Nat × VForm)) (now : Nat) (s : VciSt) (hn : noReissue code fs) :
    honoured code fs (runVForms incl ttl now s fs).1 ≤ 1 :=
  honoured_le_one incl ttl code fs now s hn

/-- non-vacuity (and tightness): issue a flow and a code, redeem it three times: exactly one request is honoured -/
example :
    let fs : List (Nat × VForm) := [(0, .token "own" "c1" "t1" "n1"), (1, .token "own" "c1" "t2" "n2"), (1, .token "own" "c1" "t3" "n3")]
    let s : VciSt := ⟨[(preAuthKey "c1", ⟨"f1", 900⟩)], [("f1", ⟨"own", 900⟩)], [], []⟩
    noReissue "c1" fs ∧ honoured "c1" fs (runVForms true todayTTL 0 s fs).1 = 1 := by
  decide

/-- **Honoured only if issued for the issuer asked**: an honoured token request found the code readable, the code referred
    to a readable flow whose issuer is the issuer asked, and the access token and c_nonce were issued for THAT flow. -/
theorem preauth_honoured_only_if_live_and_own (c : Sq) (s : VciSt) (issuer code tok cn : String)
    (h : (handlePreAuth c s issuer code tok cn).ans = .ok) :
    ∃ fid, stGet c.incl s.codes c.now (preAuthKey code) = some fid ∧ smGet c.incl s.flows c.now fid = some issuer ∧
      (handlePreAuth c s issuer code tok cn).flow = fid :=
  handlePreAuth_ok_inv c s issuer code tok cn h

/-- **A dead code issues nothing**: a token request naming a code that is not readable (never issued, used, expired) is
    refused and stores no access token and no c_nonce; the flow store is never written by the token endpoint. -/
theorem preauth_dead_code_issues_nothing (c : Sq) (s : VciSt) (issuer code tok cn : String)
    (hd : stGet c.incl s.codes c.now (preAuthKey code) = none) :
    (handlePreAuth c s issuer code tok cn).ans ≠ .ok ∧
    (handlePreAuth c s issuer code tok cn).st.access = s.access ∧ (handlePreAuth c s issuer code tok cn).st.cnonce = s.cnonce ∧
    (handlePreAuth c s issuer code tok cn).st.flows = s.flows :=
  ⟨handlePreAuth_not_ok_of_dead c s issuer code tok cn hd, (handlePreAuth_dead_issues_nothing c s issuer code tok cn hd).1,
   (handlePreAuth_dead_issues_nothing c s issuer code tok cn hd).2, handlePreAuth_flows c s issuer code tok cn⟩

example : stGet true ([] : Store) 0 (preAuthKey "c9") = none := by decide

/-- the consumed code whose flow has expired: the code is gone, the answer is the store's error, nothing is issued -/
example :
    let s : VciSt := ⟨[(preAuthKey "c1", ⟨"f1", 1400⟩)], [("f1", ⟨"own", 900⟩)], [], []⟩
    let r := handlePreAuth ⟨false, 1000, todayTTL⟩ s "own" "c1" "t" "n"
    r.ans = errNotFound ∧ r.st.codes = [] ∧ r.st.access = [] := by
  decide

/-! ### the landing page as a thread of the schedule model -/

/-- **Refinement**: `handleUserLanding` up to the user session (non-empty token), mirrored statement by statement, answers and
    leaves the store exactly as the thread `landingReq token` of the abstract layer does when it runs alone (lock, Get,
    Delete, unlock) under today's configuration on any back-end — for every token, store and instant. -/
theorem handleLanding_refines_thread (strict incl : Bool) (ttl : Kind → Nat) (now : Nat) (st : Store) (t : String) (ht : t ≠ "") :
    ((run (today strict incl) soloSched { store := st, now := now, lock := none, ths := [.burn (landingReq t) .start 0] }).ths[0]?.bind Thread.outcome)
        = landingOutcome (handleLanding ⟨incl, now, ttl⟩ st t).1 ∧
    (run (today strict incl) soloSched { store := st, now := now, lock := none, ths := [.burn (landingReq t) .start 0] }).store
        = (handleLanding ⟨incl, now, ttl⟩ st t).2 := by
  have h1 := solo_plain_run (today strict incl) (today_gad_locked strict incl) (landingReq t) (Or.inl rfl) rfl rfl rfl rfl st now
  have h2 : landingOutcome (handleLanding ⟨incl, now, ttl⟩ st t).1 = some (soloPlain (today strict incl) st now (landingReq t)).1 ∧
      (handleLanding ⟨incl, now, ttl⟩ st t).2 = (soloPlain (today strict incl) st now (landingReq t)).2 :=
    handleLanding_eq_solo (today strict incl) ttl now st t ht
  exact ⟨by rw [h1.1, h2.1], by rw [h1.2.1, h2.2]⟩

example : handleLanding ⟨true, 0, todayTTL⟩ [(redirectKey "t1", ⟨"s", 5⟩)] "t1" = (.ok, []) ∧
    landingOutcome (handleLanding ⟨true, 9, todayTTL⟩ [(redirectKey "t1", ⟨"s", 5⟩)] "t1").1 = some .notFound := by
  decide

/-- **End to end** (landing page, all interleavings): any number of landing requests with any tokens, interleaved in EVERY
    way at the granularity of single store calls, clock ticks anywhere, any back-end: at most one is honoured per token.
    Composition of `handleLanding_refines_thread` with `at_most_one_success_atomic` and today's facts. -/
theorem landing_page_at_most_once_all_schedules (strict incl : Bool) (st : Store) (tokens : List String)
    (sched : List Ev) (t : String) :
    successes (run (today strict incl) sched (init st (tokens.map (fun x => Req.burn (landingReq x))))) (redirectKey t) ≤ 1 :=
  at_most_one_success_atomic (today strict incl) (Or.inr (Or.inl (today_gad_locked strict incl))) st _ sched (redirectKey t) .redirect rfl

end Nuts.C05.Props
