/-
  C04 — Internal API auth cannot be bypassed; internal routes stay off the public port.
  ONLY property theorems (+ non-vacuity examples + obligations on the regenerated facts).
  Model: NutsModel/C04/HttpGuard.lean (net/url + echo router contracts, engine.go guard, echo.go bind table),
         NutsModel/C04/Token.lean (tokenV2 decision function).  Lemmas: NutsProofs/Lemmas/C04.lean.
  Facts: NutsModel/Facts/C04.lean is REGENERATED from /repo on every run.
-/
import NutsModel.C04.Token
import NutsModel.Facts.C04
import NutsProofs.Lemmas.C04

namespace Nuts.C04.Props
open Nuts.C04

/-! ### Obligations on the regenerated facts (a source change flips these) -/

/-- the auth skipper hands `c.Request().URL.Path` to `matchesPath` (not `RequestURI`, which carries the scheme,
    authority and query of the request target) -/
theorem fact_auth_selector_is_url_path : Facts.C04.authSelector = .urlPath := by decide

/-- the skipper skips exactly when the path does NOT match, and the guarded path is `/internal` -/
theorem fact_auth_skipper_negated : Facts.C04.authSkipperNegated = true := by decide
theorem fact_auth_path : Facts.C04.authPath = internalPath := by decide

/-- the middleware is installed with `Use` on every echo instance (the model runs it on every listener) -/
theorem fact_auth_installed_with_use : Facts.C04.authInstalledWith = "echoServer.Use" := by decide

/-- `Configure` binds `/` to the public address and exactly these four first segments to the internal address -/
theorem fact_internal_binds :
    Facts.C04.internalBinds = ["/internal".toList, "/status".toList, "/health".toList, "/metrics".toList] ∧
    Facts.C04.internalBindsAddressExpr = "h.config.Internal.Address" ∧
    Facts.C04.rootBindAddressExpr = "h.config.Public.Address" ∧
    Facts.C04.rootPath = ['/'] ∧ Facts.C04.bindLowercasesFirstSegment = true := by decide

/-- the constants and lists of tokenV2/middleware.go the decision model is instantiated with (the signature-count
    rule is C17's concern: C04 only needs "at least one", which both rules give) -/
theorem fact_policy :
    Facts.C04.policy.maxCredLen = 4096 ∧
    Facts.C04.policy.acceptableAlgs = ["ES256", "ES384", "ES512", "RS512", "PS512", "EdDSA"] ∧
    Facts.C04.policy.forbiddenHdrs = ["jwk", "jku", "x5c", "x5u"] ∧
    Facts.C04.policy.mandatory = ["jti", "iat", "exp", "nbf", "aud", "iss", "sub"] ∧
    Facts.C04.policy.maxLifetimeMin = 1470 ∧
    Facts.C04.policy.expMustBePositive = true := by decide

/-- the checks `bestPracticesCheck` performs, verbatim (the model's `bestPractices` mirrors exactly these) -/
theorem fact_best_practices_conditions :
    Facts.C04.bestPracticesConditions =
      ["!ok", "err != nil", "token.Expiration().After(maxExpirationAfterNotBefore)",
       "token.Expiration().After(maxExpirationAfterIssuedAt)", "token.IssuedAt().After(token.NotBefore())",
       "token.Expiration().Unix() <= 0", "token.Subject() == \"\""] := by decide

/-- no acceptable algorithm is `none` or a MAC -/
theorem fact_acceptable_algs_asymmetric :
    ∀ a ∈ Facts.C04.policy.acceptableAlgs, a ∉ ["none", "", "HS256", "HS384", "HS512"] := by decide

set_option maxRecDepth 4000 in
/-- engine.go matchesPath, verbatim: append `/` where missing, then equality or prefix — no query, scheme or authority is
    cut off its input first (the auth skipper hands it the DECODED URL path, in which `?` and `://` are ordinary bytes of a
    segment); the model's `matchesPath` is exactly this -/
theorem fact_matches_path_is_a_plain_prefix_test :
    Facts.C04.matchesPathBody =
      "{ if path == \"/\" { return true } if !strings.HasSuffix(requestURI, \"/\") { requestURI += \"/\" } if !strings.HasSuffix(path, \"/\") { path += \"/\" } return requestURI == path || strings.HasPrefix(requestURI, path) }" := by rfl

/-! ### no_bypass -/

/-- a route registered under `/internal`: its echo pattern starts with the literal segment `internal` -/
def underInternal (r : Route) : Prop := ∃ ps, r.pat = .lit internalLit :: ps

/-- **no_bypass** (full strength on the model): for every parser verdict on authorities, every route table,
    every method and every request target (any byte string: origin-, absolute-, authority-form, `*`, escapes,
    duplicate slashes, dot segments, case variants, queries), if a handler ran and every route carrying its id is
    registered under `/internal`, then the token decision was `granted u` and the handler saw exactly that user. -/
theorem no_bypass (authOK : Str → Bool) (rs : List Route) (tok : Decision) (method : String) (target : Str) (i : Nat)
    (hran : (serveConn authOK Facts.C04.authSelector Facts.C04.authPath true rs tok method target).ran = some i)
    (hint : ∀ r ∈ rs, r.id = i → underInternal r) :
    ∃ u, tok = .granted u ∧
      (serveConn authOK Facts.C04.authSelector Facts.C04.authPath true rs tok method target).user = some u := by
  rw [fact_auth_selector_is_url_path, fact_auth_path] at hran ⊢
  unfold serveConn at hran ⊢
  cases hp : parseTarget authOK method target with
  | none => simp [hp] at hran
  | some r =>
    simp only [hp] at hran ⊢
    split at hran
    · simp at hran
    · next hopt =>
      simp only [hopt, if_false, Bool.false_eq_true]
      unfold serveEcho at hran ⊢
      simp only [Bool.true_and] at hran ⊢
      -- the routed handler
      have hrouted : ∀ (user : Option String),
          (runRouted method user (findRoute rs method (routerPath r))).ran = some i →
          ∃ r0, findRoute rs method (routerPath r) = .handler r0 ∧ r0.id = i := by
        intro user h
        cases hf : findRoute rs method (routerPath r) with
        | handler r0 => rw [hf] at h; simp [runRouted] at h; exact ⟨r0, rfl, h⟩
        | notFound => rw [hf] at h; simp [runRouted] at h
        | methodNotAllowed => rw [hf] at h; simp [runRouted] at h
      have hguard : ∀ r0, findRoute rs method (routerPath r) = .handler r0 → r0.id = i →
          guardEngaged .urlPath internalPath r = true := by
        intro r0 hf hid
        obtain ⟨hmem, hmatch, _⟩ := findRoute_handler hf
        obtain ⟨ps, hps⟩ := hint r0 hmem hid
        unfold pathMatches at hmatch
        rw [hps] at hmatch
        exact guard_covers_router (parseTarget_wf hp) hmatch
      split at hran
      · next hg =>
        cases tok with
        | denied => simp at hran
        | granted u =>
          simp only at hran ⊢
          obtain ⟨r0, hf, _⟩ := hrouted (some u) hran
          refine ⟨u, rfl, ?_⟩
          simp [hg, hf, runRouted]
      · next hg =>
        obtain ⟨r0, hf, hid⟩ := hrouted none hran
        exact absurd (hguard r0 hf hid) hg

/-- non-vacuity: with a granted token the internal canary does run, and it sees the user -/
example :
    (serveConn (fun _ => true) .urlPath internalPath true
      [{ id := 0, method := "GET", pat := patOf "/internal/x".toList }] (.granted "alice") "GET" "/internal/x".toList)
    = { status := 200, ran := some 0, user := some "alice" } := by decide

/-- the selector the source used before the repair (`RequestURI`) does NOT have the property: an absolute-form
    request line reaches the internal canary with a denied token. (Witness replayed over raw TCP by the harness;
    kept in harness/corpus/C04.) -/
theorem requestURI_selector_admits_bypass :
    (serveConn (fun _ => true) .requestURI internalPath true
      [{ id := 0, method := "GET", pat := patOf "/internal/secret".toList }] .denied "GET" "http://x/internal/secret".toList)
    = { status := 200, ran := some 0, user := none } := by decide

/-- … and so does a query string on a route registered exactly at the guarded path -/
theorem requestURI_selector_admits_query_bypass :
    (serveConn (fun _ => true) .requestURI internalPath true
      [{ id := 3, method := "GET", pat := patOf "/internal".toList }] .denied "GET" "/internal?a=b".toList)
    = { status := 200, ran := some 3, user := none } := by decide

/-! ### denied_is_401_no_effect -/

/-- every request the router would hand to a route under `/internal` is, with a denied token, answered 401 and no
    handler runs (the response is exactly the 401 record: nothing ran, no user) -/
theorem denied_is_401_no_effect (authOK : Str → Bool) (rs : List Route) (method : String) (target : Str) (r : Req) (r0 : Route)
    (hp : parseTarget authOK method target = some r)
    (hopt : ¬ (method = "OPTIONS" ∧ target = ['*']))
    (hf : findRoute rs method (routerPath r) = .handler r0) (hu : underInternal r0) :
    serveConn authOK Facts.C04.authSelector Facts.C04.authPath true rs .denied method target
      = { status := 401, ran := none, user := none } := by
  rw [fact_auth_selector_is_url_path, fact_auth_path]
  obtain ⟨_, hmatch, _⟩ := findRoute_handler hf
  obtain ⟨ps, hps⟩ := hu
  unfold pathMatches at hmatch
  rw [hps] at hmatch
  have hg := guard_covers_router (parseTarget_wf hp) hmatch
  unfold serveConn
  simp only [hp]
  have : (method = "OPTIONS" && decide (target = ['*'])) = false := by
    cases h1 : decide (method = "OPTIONS") <;> cases h2 : decide (target = ['*']) <;> simp_all
  simp [this, serveEcho, hg]

/-- whatever the request, a denied token never lets ANY handler run once the guard is engaged -/
theorem denied_guarded_runs_nothing (sel : Selector) (authPath : Str) (rs : List Route) (method : String) (r : Req)
    (hg : guardEngaged sel authPath r = true) :
    serveEcho sel authPath true rs .denied method r = { status := 401, ran := none, user := none } := by
  simp [serveEcho, hg]

example : serveConn (fun _ => true) .urlPath internalPath true
      [{ id := 0, method := "GET", pat := patOf "/internal/x".toList }] .denied "GET" "http://evil.example/internal/x?a=b".toList
    = { status := 401, ran := none, user := none } := by decide

/-! ### granted_sound -/

/-- **granted_sound**: a granted decision means: a Bearer credential of at most 4096 bytes that parses as a JWS with
    at least one signature, every signature's algorithm on the allow-list and none carrying jwk/jku/x5c/x5u; some
    authorised key verified it and that key's comment is the granted user and the `iss` claim; `aud` contains the
    configured audience; subject non-empty; `jti` a UUID; and `iat ≤ nbf ≤ now < exp ≤ iat + 1470 min` (so the token
    is usable for at most 24.5 h after it was issued). -/
theorem granted_sound (aud : String) (keys : List AuthKey) (now : Int) (hnow : 0 ≤ now) (hdr : Str) (a : Analysis) (u : String)
    (h : tokenDecision Facts.C04.policy aud keys now hdr a = .granted u) :
    authenticationCredential hdr ≠ [] ∧ (authenticationCredential hdr).length ≤ 4096 ∧
    a.parses = true ∧ 1 ≤ a.sigs.length ∧
    (∀ s ∈ a.sigs, s.alg ∈ ["ES256", "ES384", "ES512", "RS512", "PS512", "EdDSA"] ∧
        ∀ x ∈ ["jwk", "jku", "x5c", "x5u"], x ∉ s.hdrs) ∧
    (∃ k, (k, true) ∈ keys.zip a.verifies ∧ k.comment = u) ∧
    a.claims.iss = some u ∧
    (∃ l, a.claims.aud = some l ∧ aud ∈ l) ∧
    (∃ s, a.claims.sub = some s ∧ s ≠ "") ∧
    a.claims.jti = some true ∧
    (∃ i n e, a.claims.iat = some i ∧ a.claims.nbf = some n ∧ a.claims.exp = some e ∧
        i ≤ n ∧ n ≤ now ∧ now < e ∧ e ≤ n + 88200 ∧ e ≤ i + 88200) := by
  unfold tokenDecision at h
  simp only at h
  split at h; · simp at h
  next hcred =>
  split at h; · simp at h
  next hsec =>
  have hsec' : credentialIsSecure Facts.C04.policy (authenticationCredential hdr).length a = true := by
    cases hc : credentialIsSecure Facts.C04.policy (authenticationCredential hdr).length a
    · simp [hc] at hsec
    · rfl
  obtain ⟨k, hk, hval, hbp, hiss, hcom⟩ := keyLoop_granted h
  obtain ⟨fLen, fAlgs, fForb, _, fLife, fExp⟩ := fact_policy
  simp only [credentialIsSecure, Bool.and_eq_true, decide_eq_true_eq, List.all_eq_true] at hsec'
  obtain ⟨⟨⟨hlen, hparse⟩, hsigs⟩, hcount'⟩ := hsec'
  rw [fLen] at hlen
  have hcount : 1 ≤ a.sigs.length := by
    unfold sigCountOK at hcount'
    cases hr : Facts.C04.policy.sigRule <;> rw [hr] at hcount' <;> simp at hcount' <;> omega
  refine ⟨hcred, hlen, hparse, hcount, ?_, ⟨k, hk, hcom⟩, hiss, ?_, ?_, ?_, ?_⟩
  · intro s hs
    have := hsigs s hs
    rw [sigSecure, fAlgs, fForb] at this
    simp only [Bool.and_eq_true, Bool.not_eq_true', List.any_eq_false, List.contains_eq_mem,
      decide_eq_true_eq] at this
    refine ⟨by simpa using this.1, ?_⟩
    intro x hx
    have := this.2 x hx
    simpa using this
  · simp only [validate, Bool.and_eq_true] at hval
    have haud := hval.2
    cases hA : a.claims.aud with
    | none => simp [hA] at haud
    | some l => exact ⟨l, rfl, by simpa [hA] using haud⟩
  · simp only [bestPractices, Bool.and_eq_true] at hbp
    have hs := hbp.2
    cases hS : a.claims.sub with
    | none => simp [hS] at hs
    | some s => exact ⟨s, rfl, by simpa [hS] using hs⟩
  · simp only [bestPractices, Bool.and_eq_true, decide_eq_true_eq] at hbp
    exact hbp.1.1.2
  · simp only [bestPractices, Bool.and_eq_true, fLife, fExp] at hbp
    have ht := hbp.1.2
    simp only [validate, Bool.and_eq_true] at hval
    obtain ⟨⟨⟨_, hexp⟩, hnbf⟩, _⟩ := hval
    cases hE : a.claims.exp with
    | none => simp [hE] at ht
    | some e =>
      cases hN : a.claims.nbf with
      | none => simp [hE, hN] at ht
      | some n =>
        cases hI : a.claims.iat with
        | none => simp [hE, hN, hI] at ht
        | some i =>
          simp only [hE, hN, hI, Bool.and_eq_true, Bool.not_eq_true', decide_eq_false_iff_not, Bool.not_true,
            Bool.false_or, decide_eq_true_eq] at ht
          obtain ⟨⟨⟨h1, h2⟩, h3⟩, h4⟩ := ht
          have he0 : e ≠ 0 := by omega
          have hnowe : now < e := by
            simp [hE, timeSet, he0] at hexp
            exact hexp
          have hnn : n ≤ now := by
            by_cases hn0 : n = 0
            · omega
            · simp [hN, timeSet, hn0] at hnbf
              omega
          exact ⟨i, n, e, rfl, rfl, rfl, by omega, hnn, hnowe, by omega, by omega⟩

/-- non-vacuity: a concrete well-formed token is granted -/
example :
    tokenDecision Facts.C04.policy "aud" [{ comment := "mallory" }, { comment := "alice" }] 1000
      ("Bearer abc.def.ghi".toList)
      { parses := true, sigs := [{ alg := "EdDSA", hdrs := [] }], verifies := [false, true],
        claims := { jti := some true, iat := some 900, nbf := some 900, exp := some 2000, aud := some ["x", "aud"],
                    iss := some "alice", sub := some "operator" } }
    = .granted "alice" := by decide

/-- the pre-repair rules do NOT have the property: two signatures / an `exp` of 0 were granted
    (witnesses replayed on the real middleware; kept in harness/corpus) -/
theorem atLeastOne_rule_admits_two_signatures :
    tokenDecision { Facts.C04.policy with sigRule := .atLeastOne } "aud" [{ comment := "alice" }] 1000 ("Bearer x".toList)
      { parses := true, sigs := [{ alg := "EdDSA", hdrs := [] }, { alg := "ES256", hdrs := [] }], verifies := [true],
        claims := { jti := some true, iat := some 900, nbf := some 900, exp := some 2000, aud := some ["aud"],
                    iss := some "alice", sub := some "operator" } }
    = .granted "alice" := by decide

theorem without_exp_check_zero_exp_never_expires :
    ∀ now : Int, 900 ≤ now →
    tokenDecision { Facts.C04.policy with expMustBePositive := false } "aud" [{ comment := "alice" }] now ("Bearer x".toList)
      { parses := true, sigs := [{ alg := "EdDSA", hdrs := [] }], verifies := [true],
        claims := { jti := some true, iat := some 900, nbf := some 900, exp := some 0, aud := some ["aud"],
                    iss := some "alice", sub := some "operator" } }
    = .granted "alice" := by
  intro now hnow
  have h1 : ¬ now < 900 := by omega
  simp [tokenDecision, authenticationCredential, fields, fieldsAux, spaceLen, isSpace, toLowerC, credentialIsSecure, sigSecure,
    sigCountOK, keyLoop, validate, timeSet, bestPractices, claimPresent, Facts.C04.policy, h1]

/-! ### wiring, configuration and the authorized_keys file (coverage audit) -/

/-- every literal route registration in the repository (non-test code): the first segments, verbatim; none of them is a
    case variant of an internal bind (`getBindFromPath` lower-cases, the guard and the router do not: such a route would be
    bound to the internal listener but NOT guarded) -/
theorem fact_registered_first_segments :
    Facts.C04.registeredFirstSegments =
      ["/.well-known".toList, "/discovery".toList, "/iam".toList, "/internal".toList, "/metrics".toList, "/n2n".toList,
       "/oauth2".toList, "/public".toList, "/statuslist".toList] ∧
    (∀ s ∈ Facts.C04.registeredFirstSegments, s.map toLowerC ∈ Facts.C04.internalBinds → s ∈ Facts.C04.internalBinds) := by decide

/-- the same over EVERY route registration found by go/ast (109 at the time of writing), the path argument evaluated as a
    constant expression (literals, `+`, package constants such as core/status `statusEndpoint`, the `baseURL` of generated
    wrappers): all paths evaluate, the literal scan above is contained in it, and no first segment is a case variant of an
    internal bind -/
theorem fact_route_first_segments_ast :
    Facts.C04.routeFirstSegments =
      ["/".toList, "/.well-known".toList, "/discovery".toList, "/health".toList, "/iam".toList, "/internal".toList, "/metrics".toList,
       "/n2n".toList, "/oauth2".toList, "/public".toList, "/status".toList, "/statuslist".toList] ∧
    Facts.C04.routePathsNotEvaluated = [] ∧ 0 < Facts.C04.routeRegistrationsSeen ∧
    (∀ s ∈ Facts.C04.registeredFirstSegments, s ∈ Facts.C04.routeFirstSegments) ∧
    (∀ s ∈ Facts.C04.routeFirstSegments, s.map toLowerC ∈ Facts.C04.internalBinds → s ∈ Facts.C04.internalBinds) := by decide

/-- the default configuration uses two different listener addresses (so `internal_never_public` applies to it) -/
theorem fact_default_addresses_differ :
    Facts.C04.defaultInternalAddress = "127.0.0.1:8081" ∧ Facts.C04.defaultPublicAddress = ":8080" ∧
    Facts.C04.defaultInternalAddress ≠ Facts.C04.defaultPublicAddress := by decide

/-- applyAuthMiddleware knows exactly the auth types "" and token_v2; anything else is an error, never "no auth" -/
theorem fact_auth_types :
    Facts.C04.authTypeCases = ["\"\"", "BearerTokenAuthV2"] ∧ Facts.C04.authTypeDefaultIsError = true := by decide

theorem configure_auth_sound (typ : String) (ok : Bool) :
    (configureAuth typ ok = .noAuth → typ = "") ∧ (configureAuth typ ok = .tokenV2 → typ = "token_v2" ∧ ok = true) := by
  unfold configureAuth
  by_cases h1 : typ = ""
  · simp [h1]
  · by_cases h2 : typ = "token_v2"
    · cases ok <;> simp [h2]
    · simp [h1, h2]

/-- authorized_keys.go: minimum RSA size, the key types keyIsSecure accepts, and parseAuthorizedKeys' tests, verbatim -/
theorem fact_authorized_keys :
    Facts.C04.minimumRSAKeySize = 2048 ∧
    Facts.C04.keyIsSecureTypes = ["*rsa.PublicKey", "*ecdsa.PublicKey", "ed25519.PublicKey"] ∧
    Facts.C04.parseAuthorizedKeysConds =
      ["len(lineParts) == 0", "line == \"\"", "err != nil", "secure, err := keyIsSecure(publicKey); !secure || err != nil",
       "comment == \"\"", "rest != nil", "err != nil"] := by decide

/-- **authorized_keys_sound**: every authorised key comes from a line whose text before the first `#` (blanks trimmed) is
    non-empty, parses as an RSA key of at least 2048 bits or an ECDSA / Ed25519 key, and has a non-empty comment — which
    is the key's user name -/
theorem authorized_keys_sound (ls : List KeyLine) (ks : List AuthKey) (k : AuthKey)
    (hs : authorizedKeysOf Facts.C04.minimumRSAKeySize ls = some ks) (h : k ∈ ks) :
    ∃ l ∈ ls, preprocess l.raw ≠ [] ∧ k.comment ≠ "" ∧ ∃ kind, l.verdict = .key kind k.comment ∧
      (kind = .ecdsa ∨ kind = .ed25519 ∨ ∃ bits, kind = .rsa bits ∧ 2048 ≤ bits) := by
  rw [fact_authorized_keys.1] at hs
  induction ls generalizing ks with
  | nil => simp [authorizedKeysOf] at hs; subst hs; cases h
  | cons l rest ih =>
    simp only [authorizedKeysOf] at hs
    split at hs
    · obtain ⟨l', hl', r⟩ := ih ks hs h; exact ⟨l', List.mem_cons_of_mem _ hl', r⟩
    · next hpre =>
      split at hs
      · cases hs
      · next kind comment hv =>
        split at hs
        · obtain ⟨l', hl', r⟩ := ih ks hs h; exact ⟨l', List.mem_cons_of_mem _ hl', r⟩
        · next hsec =>
          split at hs
          · obtain ⟨l', hl', r⟩ := ih ks hs h; exact ⟨l', List.mem_cons_of_mem _ hl', r⟩
          · next hc =>
            cases hr : authorizedKeysOf 2048 rest with
            | none => simp [hr] at hs
            | some ks' =>
              simp [hr] at hs
              subst hs
              rcases List.mem_cons.mp h with h | h
              · subst h
                refine ⟨l, by simp, hpre, hc, kind, hv, ?_⟩
                cases kind with
                | ecdsa => exact Or.inl rfl
                | ed25519 => exact Or.inr (Or.inl rfl)
                | other => simp [keyIsSecure] at hsec
                | rsa bits => simp [keyIsSecure] at hsec; exact Or.inr (Or.inr ⟨bits, rfl, hsec⟩)
              · obtain ⟨l', hl', r⟩ := ih ks' hr h; exact ⟨l', List.mem_cons_of_mem _ hl', r⟩

theorem beforeHash_append_hash (a x : Str) : beforeHash (a ++ '#' :: x) = beforeHash a := by
  induction a with
  | nil => simp [beforeHash]
  | cons c r ih =>
    simp only [List.cons_append, beforeHash]
    split
    · rfl
    · rw [ih]

theorem trimBlankL_all_blank (ws : Str) (h : ∀ c ∈ ws, isBlankC c = true) : trimBlankL ws = [] := by
  induction ws with
  | nil => rfl
  | cons c r ih =>
    have hc : isBlankC c = true := h c (by simp)
    simp only [trimBlankL, hc, if_true]
    exact ih (fun d hd => h d (by simp [hd]))

theorem beforeHash_no_hash (ws : Str) (h : ∀ c ∈ ws, isBlankC c = true) : beforeHash ws = ws := by
  induction ws with
  | nil => rfl
  | cons c r ih =>
    have hc : isBlankC c = true := h c (by simp)
    have hne : c ≠ '#' := by
      intro he; subst he; simp [isBlankC] at hc
    simp only [beforeHash, hne, if_false]
    rw [ih (fun d hd => h d (by simp [hd]))]

/-- **commented_out_line_is_dead**: a line whose first non-blank byte is `#` contributes nothing, whatever follows the `#`
    (a commented-out key line can never be an authorised key); and nothing after a `#` anywhere in a line matters -/
theorem commented_out_line_is_dead (ws x : Str) (h : ∀ c ∈ ws, isBlankC c = true) :
    preprocess (ws ++ '#' :: x) = [] := by
  unfold preprocess
  rw [beforeHash_append_hash, beforeHash_no_hash ws h]
  unfold trimBlank
  rw [trimBlankL_all_blank ws h]
  rfl

theorem text_after_hash_is_ignored (a x y : Str) : preprocess (a ++ '#' :: x) = preprocess (a ++ '#' :: y) := by
  unfold preprocess
  rw [beforeHash_append_hash, beforeHash_append_hash]

example : authorizedKeysOf 2048
    [{ raw := "# header".toList, verdict := .error }, { raw := "ssh-ed25519 AAAA alice".toList, verdict := .key .ed25519 "alice" },
     { raw := "  #ssh-ed25519 AAAA ghost".toList, verdict := .key .ed25519 "ghost" },
     { raw := "ssh-rsa AAAA weak".toList, verdict := .key (.rsa 1024) "weak" }, { raw := "ssh-ed25519 AAAA".toList, verdict := .key .ecdsa "" },
     { raw := "ssh-rsa AAAA carol # ops".toList, verdict := .key (.rsa 2048) "carol" }]
    = some [{ comment := "alice" }, { comment := "carol" }] := by decide

/-- a line with a non-blank byte before the `#` (a UTF-8 BOM, a word) is NOT a comment: its text is handed to the ssh parser,
    and when that fails the whole file is refused -/
example : authorizedKeysOf 2048
    [{ raw := [Char.ofNat 0xEF, Char.ofNat 0xBB, Char.ofNat 0xBF] ++ "#ssh-ed25519 AAAA ghost".toList, verdict := .error },
     { raw := "ssh-ed25519 AAAA alice".toList, verdict := .key .ed25519 "alice" }] = none := by decide

/-- Configure adds the logger, then the authentication middleware, then the internal rate limiter: authentication failures
    are answered (401) before the limiter is consulted and do not use up its budget -/
theorem fact_middleware_order :
    Facts.C04.middlewareOrder = ["h.applyLoggerMiddleware", "h.applyAuthMiddleware", "h.applyRateLimiterMiddleware"] := by decide

/-! ### the decision does not depend on earlier requests -/

/-- the middleware value holds exactly audience, authorised keys and skipper; every method has a value receiver, assigns to
    none of them and calls nothing on them (no cache, map, mutex, counter) -/
theorem fact_middleware_stateless :
    Facts.C04.middlewareImplFields = ["audience string", "authorizedKeys []authorizedKey", "skipper SkipperFunc"] ∧
    Facts.C04.middlewareStateUses = [] := by decide

/-- `Handler(next)` — which echo calls again for every request it serves, on every listener the one middleware value is
    installed on — has a value receiver and returns a fresh closure over its own `next`: nothing of one request (its routed
    handler in particular) is visible to another request in flight at the same time -/
theorem fact_middleware_handler_is_a_fresh_closure :
    Facts.C04.middlewareHandlerReceiver = "middlewareImpl" ∧
    Facts.C04.middlewareHandlerBody =
      "{ return func(context echo.Context) error { return m.checkConnectionAuthorization(context, next) } }" := by
  refine ⟨by decide, by rfl⟩

/-- **decision_independent_of_history**: on one middleware instance, the decision for a request after ANY history of earlier
    requests (other credentials, the same credential when it was still valid, granted or denied) is the decision for that
    request alone: a token that was granted once is judged again, against the clock of the new request. -/
theorem decision_independent_of_history (P : Policy) (s : MwState) (h : List TokReq) (r : TokReq) :
    mwRun P s (h ++ [r]) = mwRun P s h ++ [tokenDecision P s.audience s.keys r.now r.hdr r.a] := by
  induction h with
  | nil => simp [mwRun, mwStep]
  | cons q rest ih => simp only [List.cons_append, mwRun, mwStep, ih]

def historyExampleAnalysis : Analysis :=
  { parses := true, sigs := [{ alg := "EdDSA", hdrs := [] }], verifies := [true],
    claims := { jti := some true, iat := some 900, nbf := some 900, exp := some 2000, aud := some ["aud"],
                iss := some "alice", sub := some "operator" } }

/-- non-vacuity: the same credential, granted at t = 1000, is denied at t = 2000 (exp = 2000) on the same instance -/
example :
    mwRun Facts.C04.policy { audience := "aud", keys := [{ comment := "alice" }] }
      [{ now := 1000, hdr := "Bearer x".toList, a := historyExampleAnalysis },
       { now := 2000, hdr := "Bearer x".toList, a := historyExampleAnalysis }]
    = [.granted "alice", .denied] := by decide

/-! ### internal_never_public -/

/-- the bind table `Configure` builds -/
theorem configured_binds (pub int : Addr) (hp : pub ≠ "") (hi : int ≠ "") :
    configureBinds Facts.C04.internalBinds pub int =
      some [(['/'], pub), ("/internal".toList, int), ("/status".toList, int), ("/health".toList, int), ("/metrics".toList, int)] := by
  rw [fact_internal_binds.1]
  simp [configureBinds, bind, hp, hi, getBindFromPath, trimSlash, trimSlashL, cutAtSlash, toLowerC]

/-- **internal_never_public**: for every pair of distinct listener addresses and every set of registrations, a
    route whose path's first segment (lower-cased, as `getBindFromPath` does) is one of
    /internal, /status, /health, /metrics is added to the internal echo instance, and everything the public
    listener serves comes from a registration whose first segment is none of them. -/
theorem internal_never_public (pub int : Addr) (hp : pub ≠ "") (hi : int ≠ "") (hne : pub ≠ int)
    (binds : List (Str × Addr)) (hb : configureBinds Facts.C04.internalBinds pub int = some binds) (regs : List Registered) :
    (∀ g ∈ regs, getBindFromPath g.path ∈ Facts.C04.internalBinds → addrOf binds g.path = some int) ∧
    (∀ route ∈ routesAt binds regs pub, ∃ g ∈ regs, g.route = route ∧ getBindFromPath g.path ∉ Facts.C04.internalBinds) := by
  rw [configured_binds pub int hp hi] at hb
  have hb' := (Option.some.inj hb).symm
  subst hb'
  have key : ∀ p : Str, getBindFromPath p ∈ Facts.C04.internalBinds →
      addrOf [(['/'], pub), ("/internal".toList, int), ("/status".toList, int), ("/health".toList, int), ("/metrics".toList, int)] p = some int := by
    intro p hmem
    rw [fact_internal_binds.1] at hmem
    simp only [List.mem_cons, List.not_mem_nil, or_false] at hmem
    rcases hmem with h | h | h | h <;> simp [addrOf, lookupBind, h, hi]
  refine ⟨fun g _ hg => key g.path hg, ?_⟩
  intro route hr
  simp only [routesAt, List.mem_map, List.mem_filter, decide_eq_true_eq] at hr
  obtain ⟨g, ⟨hg, haddr⟩, hroute⟩ := hr
  refine ⟨g, hg, hroute, ?_⟩
  intro hmem
  rw [key g.path hmem] at haddr
  exact hne (Option.some.inj haddr).symm

/-- when both addresses are equal the property degenerates (documented behaviour): one echo instance serves all -/
theorem same_address_shared (a : Addr) (ha : a ≠ "") (binds : List (Str × Addr))
    (hb : configureBinds Facts.C04.internalBinds a a = some binds) (regs : List Registered) :
    routesAt binds regs a = regs.map (·.route) := by
  rw [configured_binds a a ha ha] at hb
  have hb' := (Option.some.inj hb).symm
  subst hb'
  have hall : ∀ e ∈ [(['/'], a), ("/internal".toList, a), ("/status".toList, a), ("/health".toList, a), ("/metrics".toList, a)],
      e.2 = a := by simp
  have hroot : lookupBind [(['/'], a), ("/internal".toList, a), ("/status".toList, a), ("/health".toList, a),
      ("/metrics".toList, a)] ['/'] = some a := by simp [lookupBind]
  unfold routesAt
  rw [List.filter_eq_self.mpr (fun g _ => by rw [addrOf_all_same hall hroot g.path]; simp)]

/-- non-vacuity: `/Status/x` (any case) lands on the internal listener, `/public` on the public one -/
example :
    (configureBinds Facts.C04.internalBinds "pub" "int").bind (fun b => addrOf b "/Status/x".toList) = some "int" ∧
    (configureBinds Facts.C04.internalBinds "pub" "int").bind (fun b => addrOf b "/public".toList) = some "pub" := by decide

end Nuts.C04.Props
