/-
  C16 (deepening round 3) — a client node mirroring SEVERAL lists in one store: `updateService` on list `d.id` IS the
  single-list `clientApply` on that list's replica (so every replica theorem of Props/C16 holds per list), and it
  changes another list's replica at most by pruning expired rows — which no search and no live set can see.
-/
import NutsModel.C16.Client
import NutsModel.C16.Spec
import NutsProofs.Lemmas.C16
import NutsProofs.Lemmas.C16Node
import NutsProofs.Props.C16

namespace Nuts.C16.Props
open Nuts Nuts.C16

theorem add_prune (s : Store) (now : Nat) (vp : VP) (seed ts fresh : Nat) (subj m : String)
    (hs : vp.signer = some (subj, m)) :
    (s.prune now).add now vp seed ts fresh = s.add now vp seed ts fresh := by
  simp only [Store.add, hs, prune_prune]

theorem search_prune (s : Store) (now : Nat) : (s.prune now).search now = s.search now := by
  simp only [Store.search, Store.prune, Store.isValidated, List.filter_filter]
  apply List.filter_congr
  intro r _
  by_cases h1 : r.exp < now
  · have h2 : r.exp ≤ now := Nat.le_of_lt h1
    simp [h1, h2]
  · simp [h1]

theorem liveKeys_prune (s : Store) (now : Nat) : (s.prune now).liveKeys now = s.liveKeys now := by
  simp only [Store.liveKeys, Store.prune, Row.live, List.filter_filter]
  congr 1
  apply List.filter_congr
  intro r _
  by_cases h1 : r.exp < now
  · have h2 : ¬ now < r.exp := by omega
    simp [h1, h2]
  · simp [h1]

/-- **node_clientLoop_refines.** -/
theorem node_clientLoop_refines (d : Def) (now seed ts : Nat) :
    ∀ (resp : List VP) (n : Node) (ctr : Nat),
      (Node.clientLoop d now seed ts n ctr resp).1.stores d.id = (clientLoop d now seed ts (n.stores d.id) ctr resp).1 ∧
      (Node.clientLoop d now seed ts n ctr resp).2 = (clientLoop d now seed ts (n.stores d.id) ctr resp).2 ∧
      ∀ k, k ≠ d.id → (Node.clientLoop d now seed ts n ctr resp).1.stores k = n.stores k ∨
                       (Node.clientLoop d now seed ts n ctr resp).1.stores k = (n.stores k).prune now := by
  intro resp
  induction resp with
  | nil => intro n ctr; exact ⟨rfl, rfl, fun k _ => Or.inl rfl⟩
  | cons vp rest ih =>
    intro n ctr
    simp only [Node.clientLoop, clientLoop]
    by_cases hj : vp.jwt = false
    · simp only [hj, ↓reduceIte]; exact ⟨by first | rfl | trivial, by first | rfl | trivial, fun k _ => Or.inl (by first | rfl | trivial)⟩
    · have hj' : vp.jwt = true := by cases h : vp.jwt <;> simp_all
      simp only [hj', Bool.true_eq_false, ↓reduceIte]
      cases hi : vp.id with
      | none => exact ⟨rfl, rfl, fun k _ => Or.inl rfl⟩
      | some id =>
        cases hsg : vp.signer with
        | none => exact ⟨rfl, rfl, fun k _ => Or.inl rfl⟩
        | some sm =>
          obtain ⟨subj, m⟩ := sm
          simp only []
          by_cases hk : (n.stores d.id).hasKey subj id = true
          · simp only [hk, ↓reduceIte]; exact ih n ctr
          · simp only [hk, Bool.false_eq_true, ↓reduceIte]
            have hp : (n.pruneAll now).stores d.id = (n.stores d.id).prune now := rfl
            rw [hp, add_prune _ now vp seed ts (ctr + 1) subj m hsg]
            have hother : ∀ (c : Store) (k : String), k ≠ d.id →
                ((n.pruneAll now).setStore d.id c).stores k = (n.stores k).prune now := by
              intro c k hk'; simp [Node.setStore, Node.pruneAll, hk']
            have hself : ∀ (c : Store), ((n.pruneAll now).setStore d.id c).stores d.id = c := by
              intro c; simp [Node.setStore]
            rcases hadd : (n.stores d.id).add now vp seed ts (ctr + 1) with ⟨c', r⟩
            cases r with
            | ok row =>
              simp only []
              generalize verify d c' now Side.client vp = v
              have hstep : ∀ c'' : Store,
                  (Node.clientLoop d now seed ts ((n.pruneAll now).setStore d.id c'') (ctr + 1) rest).1.stores d.id =
                    (clientLoop d now seed ts c'' (ctr + 1) rest).1 ∧
                  (Node.clientLoop d now seed ts ((n.pruneAll now).setStore d.id c'') (ctr + 1) rest).2 =
                    (clientLoop d now seed ts c'' (ctr + 1) rest).2 ∧
                  ∀ k, k ≠ d.id →
                    (Node.clientLoop d now seed ts ((n.pruneAll now).setStore d.id c'') (ctr + 1) rest).1.stores k = n.stores k ∨
                    (Node.clientLoop d now seed ts ((n.pruneAll now).setStore d.id c'') (ctr + 1) rest).1.stores k = (n.stores k).prune now := by
                intro c''
                have h := ih ((n.pruneAll now).setStore d.id c'') (ctr + 1)
                rw [hself c''] at h
                refine ⟨h.1, h.2.1, ?_⟩
                intro k hk'
                rcases h.2.2 k hk' with h3 | h3
                · right; rw [h3, hother c'' k hk']
                · right; rw [h3, hother c'' k hk', prune_prune]
              cases v with
              | ok u => cases u; exact hstep _
              | err e => exact hstep _
              | panic q => exact hstep _
            | err e => exact ⟨hself c', rfl, fun k hk' => Or.inr (hother c' k hk')⟩
            | panic q => exact ⟨hself c', rfl, fun k hk' => Or.inr (hother c' k hk')⟩

/-- **node_update_refines.** On a node that mirrors several lists, `updateService` for list `d.id`, given the
    response `(vps, seed, ts)`, leaves in that list's replica exactly what the single-list `clientApply` computes from
    that replica alone, with the same outcome: every replica theorem of Props/C16 (convergence, restart on a seed change,
    search soundness, never panics) holds per list of a multi-list client. -/
theorem node_update_refines (cfg : Cfg) (n : Node) (now ctr : Nat) (d : Def) (ans : Nat → Answer) (vps : List VP) (seed ts : Nat)
    (h : ans (n.stores d.id).lastTs = .resp vps seed ts) :
    (n.updateService cfg now ctr d ans).1.stores d.id = (clientApply cfg d (n.stores d.id) now ctr seed ts vps).1 ∧
    (n.updateService cfg now ctr d ans).2 = (clientApply cfg d (n.stores d.id) now ctr seed ts vps).2 := by
  simp only [Node.updateService, h, clientApply]
  have hself : ∀ (c : Store), (n.setStore d.id c).stores d.id = c := by intro c; simp [Node.setStore]
  by_cases hw : (cfg.restartOnWipe && ((n.stores d.id).wipeOnSeedChange seed).2) = true
  · simp only [hw, ↓reduceIte]; exact ⟨hself _, by first | rfl | trivial⟩
  · simp only [hw, Bool.false_eq_true, ↓reduceIte]
    have := node_clientLoop_refines d now seed ts vps (n.setStore d.id ((n.stores d.id).wipeOnSeedChange seed).1) ctr
    rw [hself] at this
    exact ⟨this.1, this.2.1⟩

/-- **node_update_frame.** … and whatever the response holds (and when `Get` fails), every OTHER list's replica is
    unchanged or pruned of rows that expired before `now`: the same seed and timestamp (the next `Get` of that list asks
    for the same `after`), the same live set, the same search result. -/
theorem node_update_frame (cfg : Cfg) (n : Node) (now ctr : Nat) (d : Def) (ans : Nat → Answer) (k : String) (hk : k ≠ d.id) :
    ((n.updateService cfg now ctr d ans).1.stores k).seed = (n.stores k).seed ∧
    ((n.updateService cfg now ctr d ans).1.stores k).lastTs = (n.stores k).lastTs ∧
    ((n.updateService cfg now ctr d ans).1.stores k).liveKeys now = (n.stores k).liveKeys now ∧
    ((n.updateService cfg now ctr d ans).1.stores k).search now = (n.stores k).search now := by
  have hcases : (n.updateService cfg now ctr d ans).1.stores k = n.stores k ∨
      (n.updateService cfg now ctr d ans).1.stores k = (n.stores k).prune now := by
    simp only [Node.updateService]
    cases ha : ans (n.stores d.id).lastTs with
    | fail => exact Or.inl rfl
    | resp vps seed ts =>
      simp only []
      have hother : ∀ (c : Store), (n.setStore d.id c).stores k = n.stores k := by
        intro c; simp [Node.setStore, hk]
      by_cases hw : (cfg.restartOnWipe && ((n.stores d.id).wipeOnSeedChange seed).2) = true
      · simp only [hw, ↓reduceIte]; exact Or.inl (hother _)
      · simp only [hw, Bool.false_eq_true, ↓reduceIte]
        have := (node_clientLoop_refines d now seed ts vps (n.setStore d.id ((n.stores d.id).wipeOnSeedChange seed).1) ctr).2.2 k hk
        rw [hother] at this
        exact this
  rcases hcases with h | h <;> rw [h]
  · exact ⟨rfl, rfl, rfl, rfl⟩
  · exact ⟨rfl, rfl, liveKeys_prune _ _, search_prune _ _⟩

/-- a failing `Get` changes nothing at all -/
theorem node_update_get_fails (cfg : Cfg) (n : Node) (now ctr : Nat) (d : Def) (ans : Nat → Answer)
    (h : ans (n.stores d.id).lastTs = .fail) :
    (n.updateService cfg now ctr d ans).1.stores = n.stores ∧ (n.updateService cfg now ctr d ans).2 = (ctr, .err "get") := by
  simp [Node.updateService, h]

/-! non-vacuity: a node with two lists; polling "A" stores the entry there and leaves "B" alone -/
def exCNode : Node := { stores := fun k => if k = "B" then { seed := 7, lastTs := 2 } else {} }
def exAnsA : Nat → Answer := fun _ => .resp [exVP "a" "v1" 100] 5 1
example : ((exCNode.updateService factCfg 10 0 exDef exAnsA).1.stores exDef.id).rows.map (fun r => (r.subject, r.id)) = [("a", "v1")] ∧
    ((exCNode.updateService factCfg 10 0 exDef exAnsA).1.stores "B").lastTs = 2 ∧
    (exCNode.updateService factCfg 10 0 exDef exAnsA).2.2 = .ok () := by decide

end Nuts.C16.Props
