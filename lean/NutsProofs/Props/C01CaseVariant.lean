/-
  C01 — deepening round 2026-09-28: the case-variant guard of jsonldProof (NutsModel/C01/CaseVariant.lean)
-/
import NutsModel.C01.CaseVariant
import NutsModel.Facts.C01
namespace Nuts.C01.Props
open Nuts.C01

theorem ambItems_iff (xs : List JTree) : ambItems xs = true ↔ ∃ c ∈ xs, c.amb = true := by
  induction xs with
  | nil => simp [ambItems]
  | cons c rest ih =>
    rw [ambItems]
    cases h : c.amb <;> simp [h, ih]

/-- the object loop, whatever set of names it starts with -/
theorem ambObj_seen_iff (seen : List String) (ms : List (String × JTree)) :
    ambObj seen ms = true ↔
      (∃ m ∈ ms, m.1 ∈ seen) ∨ ¬ (ms.map (·.1)).Nodup ∨ ∃ m ∈ ms, m.2.amb = true := by
  induction ms generalizing seen with
  | nil => simp [ambObj]
  | cons m rest ih =>
    obtain ⟨n, c⟩ := m
    rw [ambObj]
    by_cases hs : n ∈ seen
    · have : seen.contains n = true := List.contains_iff_mem.mpr hs
      simp [hs]
    · have : seen.contains n = false := by
        cases hc : seen.contains n with
        | false => rfl
        | true => exact absurd (List.contains_iff_mem.mp hc) hs
      simp only [this, Bool.false_eq_true, if_false]
      cases hc : c.amb
      · simp only [Bool.false_eq_true, if_false, ih, List.mem_cons, List.map_cons, List.nodup_cons, exists_eq_or_imp, hs, hc, false_or]
        constructor
        · rintro (⟨m, hm, h | h⟩ | h | h)
          · right; left; intro hnd; exact hnd.1 (h ▸ List.mem_map_of_mem hm)
          · left; exact ⟨m, hm, h⟩
          · right; left; intro hnd; exact h hnd.2
          · right; right; exact h
        · rintro (⟨m, hm, h⟩ | h | h)
          · left; exact ⟨m, hm, Or.inr h⟩
          · by_cases hn : n ∈ rest.map (·.1)
            · obtain ⟨m, hm, e⟩ := List.mem_map.mp hn
              left; exact ⟨m, hm, Or.inl e⟩
            · right; left; intro hnd; exact h ⟨hn, hnd⟩
          · right; right; exact h
      · simp [hc]

/-- an object is ambiguous iff two of its members have the same folded name or a member's value is ambiguous — a statement about
    the SET of members: the verdict is the same for every iteration order of Go's map -/
theorem ambObj_iff (ms : List (String × JTree)) :
    (JTree.obj ms).amb = true ↔ ¬ (ms.map (·.1)).Nodup ∨ ∃ m ∈ ms, m.2.amb = true := by
  rw [JTree.amb, ambObj_seen_iff]
  simp

theorem amb_order_irrelevant (ms ms' : List (String × JTree)) (h : ms.Perm ms') :
    (JTree.obj ms).amb = (JTree.obj ms').amb := by
  have key : ∀ a b : List (String × JTree), a.Perm b → (JTree.obj a).amb = true → (JTree.obj b).amb = true := by
    intro a b hp ha
    rw [ambObj_iff] at ha ⊢
    rcases ha with ha | ⟨m, hm, hc⟩
    · left; intro hnd; exact ha ((hp.map (·.1)).nodup_iff.mpr hnd)
    · right; exact ⟨m, hp.mem_iff.mp hm, hc⟩
  cases h1 : (JTree.obj ms).amb <;> cases h2 : (JTree.obj ms').amb <;> try rfl
  · rw [key ms' ms h.symm h2] at h1; cases h1
  · rw [key ms ms' h h1] at h2; cases h2

theorem topVariant_iff (top : List (String × List String)) :
    topVariant top = true ↔ ∃ p ∈ top, ∃ f ∈ p.2, f ≠ p.1 := by
  induction top with
  | nil => simp [topVariant]
  | cons p rest ih =>
    obtain ⟨m, fs⟩ := p
    rw [topVariant]
    by_cases h : fs.any (fun f => f != m) = true
    · simp only [h, if_true, List.mem_cons, exists_eq_or_imp, true_iff]
      left; simpa using h
    · simp only [h, Bool.false_eq_true, if_false, ih, List.mem_cons, exists_eq_or_imp]
      constructor
      · intro hh; right; exact hh
      · rintro (hh | hh)
        · exfalso; apply h; simpa using hh
        · exact hh

/-- what `jsonldProof` guarantees about a document it goes on to verify: no top-level member is a case variant of a member go-did
    reads, no object at the top or inside any member's value has two member names that fold together -/
theorem caseVariantMember_false_iff (top : List (String × List String)) (ms : List (String × JTree)) :
    caseVariantMember top (.obj ms) = false ↔
      (∀ p ∈ top, ∀ f ∈ p.2, f = p.1) ∧ (ms.map (·.1)).Nodup ∧ ∀ m ∈ ms, m.2.amb = false := by
  unfold caseVariantMember
  cases ht : topVariant top
  · have h1 : ¬ ∃ p ∈ top, ∃ f ∈ p.2, f ≠ p.1 := by rw [← topVariant_iff, ht]; simp
    cases ha : (JTree.obj ms).amb
    · have h2 : ¬ (¬ (ms.map (·.1)).Nodup ∨ ∃ m ∈ ms, m.2.amb = true) := by
        intro h; have := (ambObj_iff ms).mpr h; rw [ha] at this; cases this
      simp only [Bool.false_eq_true, if_false, true_iff]
      refine ⟨?_, ?_, ?_⟩
      · intro p hp f hf; by_cases e : f = p.1; exact e; exact absurd ⟨p, hp, f, hf, e⟩ h1
      · by_cases e : (ms.map (·.1)).Nodup; exact e; exact absurd (Or.inl e) h2
      · intro m hm; cases e : m.2.amb; rfl; exact absurd (Or.inr ⟨m, hm, e⟩) h2
    · simp only [Bool.false_eq_true, if_false, Bool.true_eq_false, false_iff]
      rintro ⟨_, hn, hc⟩
      rcases (ambObj_iff ms).mp ha with h | ⟨m, hm, e⟩
      · exact h hn
      · rw [hc m hm] at e; cases e
  · simp only [if_true, Bool.true_eq_false, false_iff]
    rintro ⟨h, _, _⟩
    obtain ⟨p, hp, f, hf, e⟩ := (topVariant_iff top).mp ht
    exact e (h p hp f hf)

example : caseVariantMember [("issuer", ["issuer"])] (.obj [("ISSUER", .leaf), ("A", .arr [.obj [("X", .leaf), ("Y", .leaf)]])]) = false := by decide
example : caseVariantMember [("Issuer", ["issuer"])] (.obj [("ISSUER", .leaf)]) = true := by decide
example : caseVariantMember [] (.obj [("A", .arr [.leaf, .obj [("X", .leaf), ("Y", .obj [("N", .leaf), ("N", .leaf)])]])]) = true := by decide
end Nuts.C01.Props
