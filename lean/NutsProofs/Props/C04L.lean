/-
  C04 (deepening round 2026-09-28) — the internal rate limiter behind the auth guard.
  ONLY property theorems (+ non-vacuity examples + obligations on the regenerated facts).
  Model: NutsModel/C04/Limiter.lean.  Abstract layer it refines: `serveEcho` / `serveConn` of NutsModel/C04/HttpGuard.lean.
-/
import NutsModel.C04.Limiter
import NutsModel.Facts.C04
import NutsProofs.Lemmas.C04
import NutsProofs.Props.C04

namespace Nuts.C04.Props
open Nuts.C04

/-! ### Obligations on the regenerated facts -/

/-- the wiring decision of `applyRateLimiterMiddleware` is the one `limiterEnabled` models: one `if`, one `Use` -/
theorem fact_limiter_condition :
    Facts.C04.limiterCondition =
      "(serverConfig.Strictmode || serverConfig.InternalRateLimiter) && slices.Contains(serverConfig.DIDMethods, didnuts.MethodName)"
    ∧ Facts.C04.limiterInstallShape = [1, 1] ∧ Facts.C04.limiterConstructor = "newInternalRateLimiter"
    ∧ Facts.C04.didnutsMethodName = "nuts" := by
  refine ⟨by rfl, by decide, by decide, by decide⟩

/-- 3000 requests per 24 h, burst 30 -/
theorem fact_limiter_params :
    Facts.C04.limiterIntervalExpr = "24 * time.Hour" ∧ Facts.C04.limiterPerInterval = 3000 ∧ Facts.C04.limiterBurst = 30 := by
  decide

/-- ratelimiter.go: the skipper compares `c.Path()` with `==` against `protectedPaths[method]`, there is ONE bucket
    (identifier ""), `Allow` is the bucket's `Allow` -/
theorem fact_limiter_skipper :
    Facts.C04.limiterSkipper =
      "func(c echo.Context) bool { for _, path := range protectedPaths[c.Request().Method] { if c.Path() == path { return false } } return true }"
    ∧ Facts.C04.limiterIdentifier = "func(ctx echo.Context) (string, error) { return \"\", nil }"
    ∧ Facts.C04.limiterAllowBody = "{ return s.limiter.Allow(), nil }"
    ∧ Facts.C04.limiterStoreExpr = "newInternalRateLimiterStore(interval, limitPerInterval, burst)"
    ∧ Facts.C04.limiterBucketBody =
      "{ return &internalRateLimiterStore{limiter: rate.NewLimiter(limitPerInterval*rate.Every(interval), burst)} }" := by
  refine ⟨by rfl, by rfl, by rfl, by rfl, by rfl⟩

/-- every route of the table is a route under the guarded path -/
def TableGuarded (tbl : LimTable) : Prop :=
  ∀ e ∈ tbl, ∀ p ∈ e.2, ∃ ps, patOf p = .lit internalLit :: ps

def tableGuardedB (tbl : LimTable) : Bool :=
  tbl.all (fun e => e.2.all (fun p => (patOf p).head? = some (.lit internalLit)))

theorem tableGuarded_of_B {tbl : LimTable} (h : tableGuardedB tbl = true) : TableGuarded tbl := by
  intro e he p hp
  simp only [tableGuardedB, List.all_eq_true, decide_eq_true_eq] at h
  have := h e he p hp
  cases hq : patOf p with
  | nil => simp [hq] at this
  | cons a ps => simp [hq] at this; exact ⟨ps, by rw [this]⟩

/-- EVERY rate-limited route of the regenerated table lies under `/internal`: with token auth enabled the limiter
    can only be reached through the guard. A table entry outside `/internal` breaks this proof. -/
theorem fact_limited_routes_are_guarded : TableGuarded Facts.C04.limiterTable :=
  tableGuarded_of_B (by decide)

/-- the table is non-empty for POST and PUT and has no other method -/
theorem fact_limiter_methods : Facts.C04.limiterTable.map (·.1) = ["POST", "PUT"]
    ∧ (protectedFor Facts.C04.limiterTable "POST").length = 9 ∧ (protectedFor Facts.C04.limiterTable "PUT").length = 2 := by
  decide

/-! ### the limiter engages only behind the guard -/

/-- registrations as `addFn` creates them: the router pattern is the pattern of the registered path -/
def RegsWF (regs : List Registered) : Prop := ∀ g ∈ regs, g.route.pat = patOf g.path

theorem patOf_nil_ne {ps : List Seg} : patOf [] ≠ .lit internalLit :: ps := by
  simp [patOf, splitSegs]

/-- if the limiter engages, the router matched a pattern under `/internal`, so the auth guard is engaged too -/
theorem limiter_engages_only_behind_guard (lim : LimCfg) (regs : List Registered) (method : String) (r : Req)
    (hwf : ReqWF r) (hregs : RegsWF regs) (htbl : TableGuarded lim.tbl)
    (h : limiterEngaged lim regs method r = true) : guardEngaged .urlPath internalPath r = true := by
  simp only [limiterEngaged, limiterSkips, Bool.and_eq_true, Bool.not_not, List.any_eq_true, decide_eq_true_eq] at h
  obtain ⟨_, p, hp, hpe⟩ := h
  -- p is in the table
  have hint : ∃ ps, patOf p = .lit internalLit :: ps := by
    unfold protectedFor at hp
    split at hp
    · next e he => exact htbl e (List.mem_of_find?_eq_some he) p hp
    · simp at hp
  obtain ⟨ps, hps⟩ := hint
  rw [hpe] at hps
  unfold echoPath at hps
  simp only at hps
  split at hps
  · next r0 hf =>
    obtain ⟨_, hmatch, _⟩ := findRoute_handler hf
    unfold pathOfRoute at hps
    split at hps
    · next g hg =>
      have hgr : g.route = r0 := by simpa using List.find?_some hg
      have hpat := hregs g (List.mem_of_find?_eq_some hg)
      unfold pathMatches at hmatch
      rw [← hgr, hpat, hps] at hmatch
      exact guard_covers_router hwf hmatch
    · exact absurd hps patOf_nil_ne
  · exact absurd hps patOf_nil_ne
  · split at hps
    · next c rest hc =>
      have hmem : c ∈ candidates (regs.map (·.route)) (routerPath r) := by rw [hc]; simp
      have hmem' := mem_sortBy _ _ _ hmem
      simp only [List.mem_filter] at hmem'
      have hmatch := hmem'.2
      unfold pathOfPat at hps
      split at hps
      · next g hg =>
        have hgp : g.route.pat = c.pat := by simpa using List.find?_some hg
        have hpat := hregs g (List.mem_of_find?_eq_some hg)
        unfold pathMatches at hmatch
        rw [← hgp, hpat, hps] at hmatch
        exact guard_covers_router hwf hmatch
      · exact absurd hps patOf_nil_ne
    · exact absurd hps patOf_nil_ne

theorem runRouted_status_ne_429 (method : String) (user : Option String) (x : Routed) : (runRouted method user x).status ≠ 429 := by
  cases x <;> simp [runRouted]
  split <;> simp

/-! ### every failure is a 401 WITHOUT side effect: the budget -/

/-- **denied_keeps_budget** (all requests, all route tables, all bucket states): a request without an accepted token —
    whatever its target, guarded or not — leaves the limiter's bucket unchanged and is never answered 429 -/
theorem denied_keeps_budget (lim : LimCfg) (regs : List Registered) (method : String) (r : Req) (b : Nat)
    (hwf : ReqWF r) (hregs : RegsWF regs) (htbl : TableGuarded lim.tbl) :
    (serveEchoL .urlPath internalPath true lim regs .denied method r b).2 = b
    ∧ (serveEchoL .urlPath internalPath true lim regs .denied method r b).1.status ≠ 429 := by
  unfold serveEchoL
  by_cases hg : guardEngaged .urlPath internalPath r = true
  · simp [hg]
  · have he : limiterEngaged lim regs method r = false := by
      cases h : limiterEngaged lim regs method r with
      | false => rfl
      | true => exact absurd (limiter_engages_only_behind_guard lim regs method r hwf hregs htbl h) hg
    simp only [hg, Bool.and_false, Bool.false_eq_true, if_false, limStage, he]
    exact ⟨by trivial, runRouted_status_ne_429 _ _ _⟩

/-- the same on the regenerated configuration (selector, guarded path and table of /repo's source) -/
theorem denied_keeps_budget_facts (on : Bool) (regs : List Registered) (method : String) (r : Req) (b : Nat)
    (hwf : ReqWF r) (hregs : RegsWF regs) :
    (serveEchoL Facts.C04.authSelector Facts.C04.authPath true { on := on, tbl := Facts.C04.limiterTable } regs .denied method r b).2 = b := by
  rw [fact_auth_selector_is_url_path, fact_auth_path]
  exact (denied_keeps_budget _ regs method r b hwf hregs fact_limited_routes_are_guarded).1

/-- non-vacuity: the same request WITH a token spends one token, and is refused 429 on an empty bucket -/
def exRegs : List Registered :=
  [{ path := "/internal/vdr/v1/did".toList, route := { id := 31, method := "POST", pat := patOf "/internal/vdr/v1/did".toList } }]
def exReq : Req := { requestURI := "/internal/vdr/v1/did".toList, path := "/internal/vdr/v1/did".toList, rawPath := [] }
def exLim : LimCfg := { on := true, tbl := [("POST", ["/internal/vdr/v1/did".toList])] }

example : serveEchoL .urlPath internalPath true exLim exRegs (.granted "alice") "POST" exReq 2
    = ({ status := 200, ran := some 31, user := some "alice" }, 1) := by decide
example : serveEchoL .urlPath internalPath true exLim exRegs (.granted "alice") "POST" exReq 0 = (tooMany, 0) := by decide
example : serveEchoL .urlPath internalPath true exLim exRegs .denied "POST" exReq 2
    = ({ status := 401, ran := none, user := none }, 2) := by decide

/-- **too_many_only_when_authenticated**: a 429 is only ever given to a request that carried an accepted token, on an
    enabled limiter with an empty bucket -/
theorem too_many_only_when_authenticated (lim : LimCfg) (regs : List Registered) (tok : Decision) (method : String) (r : Req)
    (b : Nat) (hwf : ReqWF r) (hregs : RegsWF regs) (htbl : TableGuarded lim.tbl)
    (h : (serveEchoL .urlPath internalPath true lim regs tok method r b).1.status = 429) :
    (∃ u, tok = .granted u) ∧ b = 0 ∧ lim.on = true := by
  cases tok with
  | denied => exact absurd h (denied_keeps_budget lim regs method r b hwf hregs htbl).2
  | granted u =>
    refine ⟨⟨u, rfl⟩, ?_⟩
    have key : ∀ user, (limStage lim regs method r user b).1.status = 429 → b = 0 ∧ lim.on = true := by
      intro user hs
      unfold limStage at hs
      simp only at hs
      split at hs
      · next he =>
        have hon : lim.on = true := by
          simp only [limiterEngaged, Bool.and_eq_true] at he; exact he.1
        by_cases hb : b = 0
        · exact ⟨hb, hon⟩
        · simp only [allow, hb, if_false, if_true] at hs
          exact absurd hs (runRouted_status_ne_429 _ _ _)
      · exact absurd hs (runRouted_status_ne_429 _ _ _)
    unfold serveEchoL at h
    split at h
    · exact key _ h
    · exact key _ h

/-! ### refinement: with budget (or the limiter off) the extended chain IS the guard layer of HttpGuard.lean -/

theorem limStage_resp (lim : LimCfg) (regs : List Registered) (method : String) (r : Req) (user : Option String) (b : Nat) :
    (limStage lim regs method r user b).1 = runRouted method user (findRoute (regs.map (·.route)) method (routerPath r))
    ∨ ((limStage lim regs method r user b).1 = tooMany ∧ b = 0 ∧ lim.on = true) := by
  unfold limStage
  simp only
  split
  · next he =>
    have hon : lim.on = true := by
      simp only [limiterEngaged, Bool.and_eq_true] at he; exact he.1
    by_cases hb : b = 0
    · subst hb; exact Or.inr ⟨by simp [allow], rfl, hon⟩
    · simp only [allow, hb, if_false, if_true]; exact Or.inl (by trivial)
  · exact Or.inl rfl

/-- **limiter_refines_guard**: the response of the limiter-extended chain is the response of the abstract guard layer
    (`serveEcho`), or the 429 record on an empty bucket -/
theorem limiter_refines_guard (sel : Selector) (authPath : Str) (authOn : Bool) (lim : LimCfg) (regs : List Registered)
    (tok : Decision) (method : String) (r : Req) (b : Nat) :
    (serveEchoL sel authPath authOn lim regs tok method r b).1 = serveEcho sel authPath authOn (regs.map (·.route)) tok method r
    ∨ ((serveEchoL sel authPath authOn lim regs tok method r b).1 = tooMany ∧ b = 0 ∧ lim.on = true) := by
  unfold serveEchoL serveEcho
  simp only
  split
  · cases tok with
    | denied => exact Or.inl rfl
    | granted u => exact limStage_resp lim regs method r (some u) b
  · exact limStage_resp lim regs method r none b

/-- with a token in the bucket, or the limiter not installed, the refinement is an equality -/
theorem limiter_transparent_with_budget (sel : Selector) (authPath : Str) (authOn : Bool) (lim : LimCfg) (regs : List Registered)
    (tok : Decision) (method : String) (r : Req) (b : Nat) (hb : 0 < b ∨ lim.on = false) :
    (serveEchoL sel authPath authOn lim regs tok method r b).1 = serveEcho sel authPath authOn (regs.map (·.route)) tok method r := by
  rcases limiter_refines_guard sel authPath authOn lim regs tok method r b with h | ⟨_, h0, hon⟩
  · exact h
  · rcases hb with hb | hb
    · omega
    · rw [hon] at hb; exact absurd hb (by decide)

theorem serveConnL_refines (authOK : Str → Bool) (sel : Selector) (authPath : Str) (authOn : Bool) (lim : LimCfg)
    (regs : List Registered) (tok : Decision) (method : String) (target : Str) (b : Nat) :
    (serveConnL authOK sel authPath authOn lim regs tok method target b).1
        = serveConn authOK sel authPath authOn (regs.map (·.route)) tok method target
    ∨ (serveConnL authOK sel authPath authOn lim regs tok method target b).1 = tooMany := by
  unfold serveConnL serveConn
  cases parseTarget authOK method target with
  | none => exact Or.inl rfl
  | some r =>
    simp only
    split
    · exact Or.inl rfl
    · rcases limiter_refines_guard sel authPath authOn lim regs tok method r b with h | h
      · exact Or.inl h
      · exact Or.inr h.1

/-- **no_bypass_limited** (end to end, wire bytes -> handler, on the chain with the limiter): for all authority
    verdicts, registrations, limiter configurations, bucket states, methods and request targets, a handler under
    /internal runs only with an accepted token and sees exactly its user -/
theorem no_bypass_limited (authOK : Str → Bool) (lim : LimCfg) (regs : List Registered) (tok : Decision) (method : String)
    (target : Str) (b i : Nat)
    (hran : (serveConnL authOK Facts.C04.authSelector Facts.C04.authPath true lim regs tok method target b).1.ran = some i)
    (hint : ∀ r ∈ regs.map (·.route), r.id = i → underInternal r) :
    ∃ u, tok = .granted u ∧
      (serveConnL authOK Facts.C04.authSelector Facts.C04.authPath true lim regs tok method target b).1.user = some u := by
  rcases serveConnL_refines authOK Facts.C04.authSelector Facts.C04.authPath true lim regs tok method target b with h | h
  · rw [h] at hran ⊢
    exact no_bypass authOK _ tok method target i hran hint
  · rw [h] at hran; simp [tooMany] at hran

/-! ### histories: an attacker without credentials cannot drain the budget -/

theorem serveConnL_budget (authOK : Str → Bool) (lim : LimCfg) (regs : List Registered) (tok : Decision) (method : String)
    (target : Str) (b : Nat) (hregs : RegsWF regs) (htbl : TableGuarded lim.tbl) :
    let out := serveConnL authOK .urlPath internalPath true lim regs tok method target b
    out.2 ≤ b ∧ (tok = .denied → out.2 = b ∧ out.1.status ≠ 429) ∧ b ≤ out.2 + 1 := by
  simp only
  unfold serveConnL
  cases hp : parseTarget authOK method target with
  | none => simp
  | some r =>
    simp only
    split
    · simp
    · have hlim : ∀ user, (limStage lim regs method r user b).2 ≤ b ∧ b ≤ (limStage lim regs method r user b).2 + 1 := by
        intro user
        unfold limStage
        simp only
        split
        · by_cases hb : b = 0
          · subst hb; simp [allow]
          · simp only [allow, hb, if_false, if_true]; omega
        · simp
      refine ⟨?_, ?_, ?_⟩
      · unfold serveEchoL
        split
        · cases tok with
          | denied => simp
          | granted u => exact (hlim _).1
        · exact (hlim _).1
      · intro ht; subst ht
        exact denied_keeps_budget lim regs method r b (parseTarget_wf hp) hregs htbl
      · unfold serveEchoL
        split
        · cases tok with
          | denied => simp
          | granted u => exact (hlim _).2
        · exact (hlim _).2

def GuardedEngine (e : EngineL) : Prop :=
  e.sel = .urlPath ∧ e.authPath = internalPath ∧ e.authOn = true ∧ RegsWF e.regs ∧ TableGuarded e.lim.tbl

/-- **budget_spent_le_granted** (ALL histories of requests and refills, by induction): the bucket never exceeds the burst
    size, and what was taken out of it is bounded by the number of requests that carried an accepted token -/
theorem budget_spent_le_granted (e : EngineL) (he : GuardedEngine e) (h : List LimEvent) (b : Nat) (hb : b ≤ e.burst) :
    (e.run b h).1 ≤ e.burst ∧ b ≤ (e.run b h).1 + grantedCount h := by
  obtain ⟨hs, hp, ha, hregs, htbl⟩ := he
  induction h generalizing b with
  | nil => simp [EngineL.run, grantedCount, hb]
  | cons ev rest ih =>
    cases ev with
    | refill n =>
      have hb' : refill e.burst n b ≤ e.burst := by unfold refill; omega
      have := ih (refill e.burst n b) hb'
      simp only [EngineL.run, EngineL.step, grantedCount]
      refine ⟨this.1, ?_⟩
      have : b ≤ refill e.burst n b := by unfold refill; omega
      omega
    | request tok m t =>
      have hstep := serveConnL_budget e.authOK e.lim e.regs tok m t b hregs htbl
      simp only at hstep
      simp only [EngineL.run, EngineL.step, hs, hp, ha]
      obtain ⟨h1, h2, h3⟩ := hstep
      have := ih _ (Nat.le_trans h1 hb)
      refine ⟨this.1, ?_⟩
      cases tok with
      | denied =>
        have := (h2 rfl).1
        simp only [grantedCount]
        omega
      | granted u =>
        simp only [grantedCount]
        omega

/-- **anonymous_history_cannot_drain**: after ANY history in which no request carried an accepted token (any targets,
    any interleaving with refills) the bucket holds at least what it held before, and no request was answered 429 -/
theorem anonymous_history_cannot_drain (e : EngineL) (he : GuardedEngine e) (h : List LimEvent) (b : Nat) (hb : b ≤ e.burst)
    (hanon : grantedCount h = 0) :
    b ≤ (e.run b h).1 ∧ ∀ resp ∈ (e.run b h).2, resp.status ≠ 429 := by
  refine ⟨by have := (budget_spent_le_granted e he h b hb).2; omega, ?_⟩
  obtain ⟨hs, hp, ha, hregs, htbl⟩ := he
  induction h generalizing b with
  | nil => simp [EngineL.run]
  | cons ev rest ih =>
    cases ev with
    | refill n =>
      have hb' : refill e.burst n b ≤ e.burst := by unfold refill; omega
      simp only [EngineL.run, EngineL.step]
      exact ih _ hb' (by simpa [grantedCount] using hanon)
    | request tok m t =>
      cases tok with
      | granted u => simp [grantedCount] at hanon
      | denied =>
        have hstep := serveConnL_budget e.authOK e.lim e.regs .denied m t b hregs htbl
        simp only at hstep
        obtain ⟨h1, h2, _⟩ := hstep
        simp only [EngineL.run, EngineL.step, hs, hp, ha]
        intro resp hmem
        simp only [List.mem_cons] at hmem
        rcases hmem with hmem | hmem
        · rw [hmem]; exact (h2 (by trivial)).2
        · exact ih _ (Nat.le_trans h1 hb) (by simpa [grantedCount] using hanon) resp hmem

/-- non-vacuity: a guarded engine exists; 3 anonymous POSTs on the protected route keep the bucket, 3 with a token drain it -/
def exEngine : EngineL :=
  { authOK := fun _ => true, sel := .urlPath, authPath := internalPath, authOn := true, lim := exLim, regs := exRegs, burst := 2 }

example : (exEngine.run 2 (List.replicate 3 (.request .denied "POST" "/internal/vdr/v1/did".toList))).1 = 2 := by decide
example : ((exEngine.run 2 (List.replicate 3 (.request (.granted "a") "POST" "/internal/vdr/v1/did".toList))).2.map (·.status))
    = [200, 200, 429] := by decide
example : ((exEngine.run 2 ([.request (.granted "a") "POST" "/internal/vdr/v1/did".toList, .request (.granted "a") "POST" "/internal/vdr/v1/did".toList,
      .refill 1, .request (.granted "a") "POST" "/internal/vdr/v1/did".toList, .request (.granted "a") "POST" "/internal/vdr/v1/did".toList])).2.map (·.status))
    = [200, 200, 200, 429] := by decide

/-! ### the wiring decision -/

/-- the limiter is installed exactly when did:nuts is enabled and (strict mode or the explicit flag) -/
theorem limiter_enabled_iff (strict flag : Bool) (ms : List String) :
    limiterEnabled Facts.C04.didnutsMethodName strict flag ms = true ↔ (strict = true ∨ flag = true) ∧ "nuts" ∈ ms := by
  have : Facts.C04.didnutsMethodName = "nuts" := by decide
  rw [this]
  simp [limiterEnabled]

example : limiterEnabled "nuts" true false ["web", "nuts"] = true := by decide
example : limiterEnabled "nuts" true true ["web"] = false := by decide

end Nuts.C04.Props
