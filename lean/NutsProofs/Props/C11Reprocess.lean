/-
  C11 — REPROCESS of revocation transactions (deepening round 2026-09-28): same effect as the network delivery.
-/
import NutsModel.C11.Reprocess
import NutsProofs.Props.C11
import NutsModel.Facts.C11
namespace Nuts.C11.Props
open Nuts Nuts.C11

/-- `reprocess_same_as_delivery`: for every node, revocation document and store outcome, re-processing a revocation
    transaction leaves the node in exactly the state the network delivery of the same document would have. -/
theorem reprocess_same_as_delivery (K : KeyEnv) (n : Node) (r : Revocation) (fault : StoreFault) :
    (reprocess K n r fault .revocation true).2 = (handleRevocationEvent K n r fault).2 := by
  unfold reprocess handleRevocationEvent
  simp only [Bool.not_true, Bool.false_eq_true, if_false]
  cases h : registerRevocationF K n r fault with
  | ok n' => rfl
  | err e => simp only []; split <;> rfl
  | panic x => rfl

/-- `reprocessed_revocation_effective`: a reprocessed revocation that passes RegisterRevocation's checks and is stored makes
    every later verification of the credential (after any history, any validAt-independent check) answer revoked. -/
theorem reprocessed_revocation_effective (E : Env) (K : KeyEnv) (hE : EnvOK E) (w0 : World) (h0 : WInv E w0) (i : Bool) (r : Revocation)
    (c : Cred) (n' : Node) (hacc : registerRevocation K (w0.get i) r = .ok n') (hc : c.id = some r.subject) (acts : List Act) :
    (reprocess K (w0.get i) r .none .revocation true).2 = n' ∧
    (verify E i (run E K (w0.set i n') acts) c).1 = .revoked := by
  constructor
  · simp [reprocess, registerRevocationF, hacc]
  · have h := revocation_before_credential E K hE w0 h0 i r c [] acts n' (by simpa [run] using hacc) hc
    simpa [run, step, hacc] using h

/-- anything that is not a revocation document type, and transactions without payload, leave the revocation store alone -/
theorem reprocess_other_content_is_inert (K : KeyEnv) (n : Node) (r : Revocation) (fault : StoreFault) (vcT revT ct : String)
    (h : ct ≠ revT) (hasPayload : Bool) : (reprocess K n r fault (callbackRoute vcT revT ct) hasPayload).2 = n := by
  have hr : callbackRoute vcT revT ct ≠ .revocation := by
    unfold callbackRoute
    split
    · simp
    · rw [if_neg (by simpa using h)]; simp
  unfold reprocess
  split
  · rfl
  · split
    · rename_i hroute; exact absurd hroute hr
    · rfl

example : callbackRoute "application/vc+json" "application/ld+json;type=revocation" "application/ld+json;type=revocation" = .revocation := by decide
example : (reprocess exKeys (exNode "https://n0") exRevByB .none .revocation true).2.isRevoked exRevByB.subject = true := by decide
example : reprocess exKeys (exNode "https://n0") exRevByB (.transient 1) .revocation true = (true, exNode "https://n0") := by decide

/-- the content-type switch of `getCallbackFn` and the two constants it compares with -/
theorem fact_reprocess_callback_switch :
    Nuts.Facts.C11.ambassadorCallbackSwitch =
      ["switch contentType {", "case types.VcDocumentType:", "return n.vcCallback", "case types.RevocationLDDocumentType:",
       "return n.jsonLDRevocationCallback", "}", "return <*ast.FuncLit>"] ∧
    Nuts.Facts.C11.const_VcDocumentType = "application/vc+json" ∧
    Nuts.Facts.C11.const_RevocationLDDocumentType = "application/ld+json;type=revocation" ∧
    Nuts.Facts.C11.ambassadorReprocessChain =
      ["stmt:jsonBytes := msg.Data", "stmt:twp := events.TransactionWithPayload{}", "err := msg.Ack(); err != nil",
       "err := json.Unmarshal(jsonBytes,&twp); err != nil", "len(twp.Payload) != 0"] := by decide

end Nuts.C11.Props
