/-
  C03 (deepening round 3) — property theorems about the key EXPORT command (crypto/cmd: fs2vault): which names can reach
  the target backend, under which path, with which key, and what the command prints.
-/
import NutsModel.C03.Export
import NutsModel.C03.Pem
import NutsModel.C03.Jws
import NutsModel.Facts.C03
import NutsProofs.Props.C03
import NutsProofs.Props.C03Api

namespace Nuts.C03.Props
open Nuts Nuts.C03 Nuts.Facts

/-! ## regenerated facts -/

/-- the loop of `exportToOtherStorage`, statement by statement (what `exportLoop` mirrors): get, first error ends the run
    with the names so far; save; `ErrKeyAlreadyExists` is skipped; any other error ends the run; only then the name is appended -/
theorem fact_export_loop_shape :
    C03.exportLoopStmts =
      ["decl:var result []string", "assign:keys := source.ListPrivateKeys(ctx)", "range:_,keyNameVersion:keys",
       ">assign:keyName := keyNameVersion.KeyName", ">assign:version := keyNameVersion.Version",
       ">assign:privateKey, err := source.GetPrivateKey(ctx, keyName, version)", ">if:;err != nil",
       ">>return:return result, fmt.Errorf(\"unable to retrieve private key (kid=%s): %w\", keyName, err)",
       ">assign:err = target.SavePrivateKey(ctx, keyName, privateKey)", ">if:;err != nil",
       ">>if:;errors.Is(err, spi.ErrKeyAlreadyExists)", ">>>branch:continue",
       ">>return:return result, fmt.Errorf(\"unable to store private key in Vault (kid=%s): %w\", keyName, err)",
       ">assign:result = append(result, keyName)", "return:return result, nil"] := by decide

/-- the two error wordings carry the key NAME and the cause, nothing else (no `privateKey` argument) -/
theorem fact_export_error_wording :
    C03.exportErrCalls = ["unable to retrieve private key (kid=%s): %w|keyName|err", "unable to store private key in Vault (kid=%s): %w|keyName|err"] ∧
    C03.exportGetErr = ("unable to retrieve private key (kid=", "): ", "") ∧
    C03.exportSaveErr = ("unable to store private key in Vault (kid=", "): ", "") := by decide

/-- `fs2vault` is the only registered command; it wraps the Vault backend in the validating wrapper (KidPattern) BEFORE it
    hands it to `fsToOtherStorage`, whose source is the bare fs backend of the given directory -/
theorem fact_fs2vault_target_wrapped :
    C03.cryptoServerCmds = ["fs2VaultCommand()"] ∧
    C03.fs2vaultTargetSteps =
      ["assign:target, err := vault.NewVaultKVStorage(config.Vault)",
       "assign:target = spi.NewValidatedKIDBackendWrapper(target, spi.KidPattern)",
       "assign:keys, err := fsToOtherStorage(cmd.Context(), directory, target)"] ∧
    C03.fsToOtherStmts =
      ["assign:source, err := fs.NewFileSystemBackend(sourceDir)", "if:;err != nil",
       ">return:return nil, fmt.Errorf(\"unable to initialize filesystem storage: %w\", err)",
       "return:return exportToOtherStorage(ctx, source, target)"] := by decide

/-- the export command applies the SAME gate as the running node: the wrapper call and pattern of every setup function of
    `crypto.Configure` (regenerated `setupFns`) are the ones `fs2vault` puts around its target -/
theorem fact_export_uses_the_nodes_validation :
    C03.setupFns ≠ [] ∧
    ∀ r ∈ C03.setupFns, ("assign:target = " ++ r.2.2.2.1 ++ "(target, " ++ r.2.2.2.2.2 ++ ")") ∈ C03.fs2vaultTargetSteps := by decide

/-! ## helper facts about the wrapped save -/

theorem wrappedSave_cases (valid : Bytes → Bool) (txt : Bytes → String) (fault : Bytes → Option String)
    (t t' : Tgt) (n : Bytes) (k : Nat) (o : SaveOut) (h : wrappedSave valid txt fault t n k = (t', o)) :
    (t' = t ∧ o ≠ .ok) ∨ (o = .ok ∧ t' = t ++ [(n, k)] ∧ valid n = true ∧ tgtHas t n = false) := by
  unfold wrappedSave at h
  by_cases hv : valid n = true
  · simp only [hv, Bool.not_true, Bool.false_eq_true, if_false] at h
    cases hf : fault n with
    | some e => simp only [hf] at h; cases h; exact .inl ⟨rfl, by simp⟩
    | none =>
      simp only [hf] at h
      by_cases hh : tgtHas t n = true
      · simp only [hh, if_true] at h; cases h; exact .inl ⟨rfl, by simp⟩
      · simp only [hh] at h; cases h
        exact .inr ⟨rfl, rfl, hv, by simpa using hh⟩
  · have hv' : valid n = false := by simpa using hv
    simp only [hv', Bool.not_false, if_true] at h
    cases h; exact .inl ⟨rfl, by simp⟩

theorem wrappedSave_gated (valid : Bytes → Bool) (txt : Bytes → String) (fault : Bytes → Option String) :
    GatedSave valid (wrappedSave valid txt fault) := by
  intro t n k t' o h
  rcases wrappedSave_cases valid txt fault t t' n k o h with h | ⟨a, b, c, _⟩
  · exact .inl h
  · exact .inr ⟨a, b, c⟩

theorem wrappedPut_gated (valid : Bytes → Bool) (txt : Bytes → String) (fault : Bytes → Option String) :
    GatedSave valid (wrappedPut valid txt fault) := by
  intro t n k t' o h
  unfold wrappedPut at h
  by_cases hv : valid n = true
  · simp only [hv, Bool.not_true, Bool.false_eq_true, if_false] at h
    cases hf : fault n with
    | some e => simp only [hf] at h; cases h; exact .inl ⟨rfl, by simp⟩
    | none => simp only [hf] at h; cases h; exact .inr ⟨rfl, rfl, hv⟩
  · have hv' : valid n = false := by simpa using hv
    simp only [hv', Bool.not_false, if_true] at h
    cases h; exact .inl ⟨rfl, by simp⟩

/-! ## the loop, any source, any target -/

/-- **the command prints only listed names**: the exported names are, in order, a sub-list of what the source listed
    (no name is invented, none is printed twice unless listed twice) — for every source, target and starting state -/
theorem export_lists_only_listed_names {σ : Type} (ge se : String × String × String) (txt : Bytes → String)
    (get : Bytes → SrcGet) (save : σ → Bytes → Nat → σ × SaveOut) :
    ∀ (names : List Bytes) (t : σ) (acc : List Bytes),
      ∃ l, (exportLoop ge se txt get save names t acc).exported = acc ++ l ∧ l.Sublist names := by
  intro names
  induction names with
  | nil => intro t acc; exact ⟨[], by simp [exportLoop], List.Sublist.slnil⟩
  | cons n rest ih =>
    intro t acc
    unfold exportLoop
    cases hg : get n with
    | err e => exact ⟨[], by simp, List.nil_sublist _⟩
    | key k =>
      simp only []
      cases hs : save t n k with
      | mk t' o =>
        cases o with
        | dup => simp only []; obtain ⟨l, h1, h2⟩ := ih t' acc; exact ⟨l, h1, h2.cons _⟩
        | err e => exact ⟨[], by simp, List.nil_sublist _⟩
        | ok =>
          simp only []
          obtain ⟨l, h1, h2⟩ := ih t' (acc ++ [n])
          exact ⟨n :: l, by simp [h1], h2.cons_cons _⟩

/-- **what can appear in the wrapped target**: after the run — complete or ended by an error — every entry of the target
    either was there before or carries a name that (1) passes `validateKID`, (2) was listed by the source, and
    (3) holds exactly the key the source returned FOR THAT NAME. For every source, fault pattern and starting target. -/
theorem export_target_entries_valid_and_faithful (ge se : String × String × String) (txt : Bytes → String)
    (valid : Bytes → Bool) (save : Tgt → Bytes → Nat → Tgt × SaveOut) (hsave : GatedSave valid save) (get : Bytes → SrcGet) :
    ∀ (names : List Bytes) (t : Tgt) (acc : List Bytes),
      ∀ e ∈ (exportLoop ge se txt get save names t acc).target,
        e ∈ t ∨ (valid e.1 = true ∧ e.1 ∈ names ∧ get e.1 = .key e.2) := by
  intro names
  induction names with
  | nil => intro t acc e he; exact .inl (by simpa [exportLoop] using he)
  | cons n rest ih =>
    intro t acc e
    unfold exportLoop
    cases hg : get n with
    | err x => intro he; exact .inl he
    | key k =>
      simp only []
      cases hs : save t n k with
      | mk t' o =>
        have hc := hsave t n k t' o hs
        cases o with
        | dup =>
          simp only []
          intro he
          rcases hc with ⟨rfl, _⟩ | ⟨h, _⟩
          · rcases ih t' acc e he with h | ⟨a, b, c⟩
            · exact .inl h
            · exact .inr ⟨a, List.mem_cons_of_mem _ b, c⟩
          · cases h
        | err x =>
          simp only []
          intro he
          rcases hc with ⟨rfl, _⟩ | ⟨h, _⟩
          · exact .inl he
          · cases h
        | ok =>
          simp only []
          intro he
          rcases hc with ⟨_, h⟩ | ⟨_, rfl, hv⟩
          · exact absurd rfl h
          · rcases ih _ (acc ++ [n]) e he with h | ⟨a, b, c⟩
            · rcases List.mem_append.mp h with h | h
              · exact .inl h
              · have : e = (n, k) := by simpa using h
                subst this
                exact .inr ⟨hv, List.mem_cons_self, hg⟩
            · exact .inr ⟨a, List.mem_cons_of_mem _ b, c⟩

theorem tgtHas_append (t u : Tgt) (n : Bytes) : tgtHas (t ++ u) n = (tgtHas t n || tgtHas u n) := by
  simp only [tgtHas, List.map_append]
  by_cases h1 : n ∈ List.map (fun x => x.fst) t <;> by_cases h2 : n ∈ List.map (fun x => x.fst) u <;> simp [h1, h2]

/-- the target only grows: a name present before the run is present after it (any source, any gated target) -/
theorem export_target_keeps_names (ge se : String × String × String) (txt : Bytes → String)
    (valid : Bytes → Bool) (save : Tgt → Bytes → Nat → Tgt × SaveOut) (hsave : GatedSave valid save) (get : Bytes → SrcGet)
    (x : Bytes) :
    ∀ (names : List Bytes) (t : Tgt) (acc : List Bytes), tgtHas t x = true →
      tgtHas (exportLoop ge se txt get save names t acc).target x = true := by
  intro names
  induction names with
  | nil => intro t acc h; simpa [exportLoop] using h
  | cons n rest ih =>
    intro t acc h
    unfold exportLoop
    cases hg : get n with
    | err e => exact h
    | key k =>
      simp only []
      cases hs : save t n k with
      | mk t' o =>
        have hc := hsave t n k t' o hs
        have ht' : tgtHas t' x = true := by
          rcases hc with ⟨rfl, _⟩ | ⟨_, rfl, _⟩
          · exact h
          · rw [tgtHas_append, h]; rfl
        cases o with
        | dup => exact ih t' acc ht'
        | err e => exact ht'
        | ok => exact ih t' _ ht'

/-- a target that answers "already exists" only for a name it holds -/
def DupMeansPresent (save : Tgt → Bytes → Nat → Tgt × SaveOut) : Prop :=
  ∀ t n k t', save t n k = (t', SaveOut.dup) → tgtHas t n = true

theorem wrappedSave_dup (valid : Bytes → Bool) (txt : Bytes → String) (fault : Bytes → Option String) :
    DupMeansPresent (wrappedSave valid txt fault) := by
  intro t n k t' h
  unfold wrappedSave at h
  by_cases hv : valid n = true
  · simp only [hv, Bool.not_true, Bool.false_eq_true, if_false] at h
    cases hf : fault n with
    | some e => simp only [hf] at h; cases h
    | none =>
      simp only [hf] at h
      by_cases hh : tgtHas t n = true
      · exact hh
      · simp only [hh] at h; cases h
  · have hv' : valid n = false := by simpa using hv
    simp only [hv', Bool.not_false, if_true] at h
    cases h

theorem wrappedPut_dup (valid : Bytes → Bool) (txt : Bytes → String) (fault : Bytes → Option String) :
    DupMeansPresent (wrappedPut valid txt fault) := by
  intro t n k t' h
  unfold wrappedPut at h
  by_cases hv : valid n = true
  · simp only [hv, Bool.not_true, Bool.false_eq_true, if_false] at h
    cases hf : fault n with
    | some e => simp only [hf] at h; cases h
    | none => simp only [hf] at h; cases h
  · have hv' : valid n = false := by simpa using hv
    simp only [hv', Bool.not_false, if_true] at h
    cases h

/-- **a run that reports success moved every listed key**: if the command ends without an error, every name the source
    listed is in the target afterwards (stored now, or already there) — no key is skipped silently. Any source, any
    gated target that says "exists" only for names it holds (the wrapped recording backend, the wrapped Vault). -/
theorem export_success_means_all_listed_present (ge se : String × String × String) (txt : Bytes → String)
    (valid : Bytes → Bool) (save : Tgt → Bytes → Nat → Tgt × SaveOut) (hsave : GatedSave valid save)
    (hdup : DupMeansPresent save) (get : Bytes → SrcGet) :
    ∀ (names : List Bytes) (t : Tgt) (acc : List Bytes),
      (exportLoop ge se txt get save names t acc).error = none →
      ∀ x ∈ names, tgtHas (exportLoop ge se txt get save names t acc).target x = true := by
  intro names
  induction names with
  | nil => intro t acc _ x hx; cases hx
  | cons n rest ih =>
    intro t acc
    unfold exportLoop
    cases hg : get n with
    | err e => intro h; cases h
    | key k =>
      simp only []
      cases hs : save t n k with
      | mk t' o =>
        have hc := hsave t n k t' o hs
        cases o with
        | err e => intro h; cases h
        | dup =>
          simp only []
          intro herr x hx
          rcases List.mem_cons.mp hx with rfl | hx
          · have : tgtHas t' x = true := by
              rcases hc with ⟨rfl, _⟩ | ⟨h, _⟩
              · exact hdup _ _ _ _ hs
              · cases h
            exact export_target_keeps_names ge se txt valid save hsave get x rest t' acc this
          · exact ih t' acc herr x hx
        | ok =>
          simp only []
          intro herr x hx
          rcases List.mem_cons.mp hx with rfl | hx
          · have : tgtHas t' x = true := by
              rcases hc with ⟨_, h⟩ | ⟨_, rfl, _⟩
              · exact absurd rfl h
              · rw [tgtHas_append]; simp [tgtHas]
            exact export_target_keeps_names ge se txt valid save hsave get x rest t' _ this
          · exact ih t' _ herr x hx

/-- key values do not matter for what a source answer looks like to the command -/
def getShape : SrcGet → Option String
  | .key _ => none
  | .err e => some e

/-- **noninterference of the command's output**: two runs over sources that differ ONLY in the key values (same listing,
    same failures) against targets holding the same names print the same exported names and the same error, and leave the
    same names in the target — no bit of any key can reach the command's output or decide where a key is stored. -/
theorem export_output_independent_of_key_material (ge se : String × String × String) (txt : Bytes → String)
    (valid : Bytes → Bool) (fault : Bytes → Option String) (get₁ get₂ : Bytes → SrcGet)
    (h : ∀ n, getShape (get₁ n) = getShape (get₂ n)) :
    ∀ (names : List Bytes) (t₁ t₂ : Tgt) (acc : List Bytes), t₁.map (·.1) = t₂.map (·.1) →
      (exportLoop ge se txt get₁ (wrappedSave valid txt fault) names t₁ acc).exported
        = (exportLoop ge se txt get₂ (wrappedSave valid txt fault) names t₂ acc).exported ∧
      (exportLoop ge se txt get₁ (wrappedSave valid txt fault) names t₁ acc).error
        = (exportLoop ge se txt get₂ (wrappedSave valid txt fault) names t₂ acc).error ∧
      (exportLoop ge se txt get₁ (wrappedSave valid txt fault) names t₁ acc).target.map (·.1)
        = (exportLoop ge se txt get₂ (wrappedSave valid txt fault) names t₂ acc).target.map (·.1) := by
  intro names
  induction names with
  | nil => intro t₁ t₂ acc ht; simp [exportLoop, ht]
  | cons n rest ih =>
    intro t₁ t₂ acc ht
    have hn := h n
    unfold exportLoop
    cases h1 : get₁ n with
    | err x =>
      cases h2 : get₂ n with
      | err y => rw [h1, h2] at hn; simp only [getShape, Option.some.injEq] at hn; subst hn; simp [ht]
      | key k => rw [h1, h2] at hn; simp [getShape] at hn
    | key k₁ =>
      cases h2 : get₂ n with
      | err y => rw [h1, h2] at hn; simp [getShape] at hn
      | key k₂ =>
        simp only []
        have hhas : tgtHas t₁ n = tgtHas t₂ n := by unfold tgtHas; rw [ht]
        unfold wrappedSave
        by_cases hv : valid n = true
        · simp only [hv, Bool.not_true, Bool.false_eq_true, if_false]
          cases hf : fault n with
          | some x => simp [ht]
          | none =>
            simp only []
            rw [← hhas]
            by_cases hh : tgtHas t₁ n = true
            · simp only [hh, if_true]; exact ih t₁ t₂ acc ht
            · simp only [hh]
              exact ih _ _ _ (by simp [ht])
        · have hv' : valid n = false := by simpa using hv
          simp [hv', ht]

/-! ## end to end: files of the directory -> Vault paths -/

/-- **fs2vault end to end** (composition of `fs_listed_name_shape`, the loop, the wrapper and `kid_confined_vault`):
    for EVERY directory tree, file content, wrapped backend (`GatedSave`: the validating wrapper around ANY backend —
    `wrappedSave_gated`, `wrappedPut_gated` = Vault), starting target and Vault path prefix, every entry the
    command adds to the target
    * has a name that is a single safe path entry, and its Vault path is exactly `<clean prefix>/nuts-private-keys/<name>`;
    * holds the key decoded from the top-level file `<name>_private.pem` of that directory (no other file's key);
    * was listed from a file whose base name is `<name>`, one byte, the entry type.
    A file named `.._private.pem`, `a%2Fb_private.pem` … cannot make the command write outside the key namespace. -/
theorem fs2vault_new_entries_confined (cls hex : Ranges) (hshape : kidClasses C03.kidPatternRx = some (cls, hex))
    (ge se : String × String × String) (txt : Bytes → String)
    (paths : List Bytes) (et : Bytes) (content : Bytes → SrcGet) (missing : Bytes → String)
    (save : Tgt → Bytes → Nat → Tgt × SaveOut) (hsave : GatedSave (validateKID cls hex C03.validateKIDRefusedNames) save)
    (t0 : Tgt) (pfx : Bytes) (hpfx : pfx ≠ []) :
    ∀ e ∈ (fs2target ge se txt paths et content missing save t0).target,
      e ∈ t0 ∨
        (IsEntryName e.1 ∧
         vaultKeyPath pfx C03.vaultKeyPathName e.1 = (((cleanP pfx).child C03.vaultKeyPathName).child e.1).render ∧
         fsEntryFileName e.1 et ∈ paths ∧ content e.1 = .key e.2 ∧
         ∃ f ∈ paths, ∃ c, base f = e.1 ++ c :: et) := by
  intro e he
  rcases export_target_entries_valid_and_faithful ge se txt _ save hsave _ _ t0 [] e he with h | ⟨hv, hl, hg⟩
  · exact .inl h
  · refine .inr ?_
    obtain ⟨hname, hpath⟩ := kid_confined_vault cls hex hshape pfx e.1 hpfx hv
    refine ⟨hname, hpath, ?_⟩
    unfold fsSourceGet at hg
    by_cases hc : paths.contains (fsEntryFileName e.1 et) = true
    · simp only [hc, if_true] at hg
      refine ⟨by simpa using hc, hg, ?_⟩
      unfold fsListNames at hl
      obtain ⟨f, hf, hfn⟩ := List.mem_filterMap.mp hl
      obtain ⟨_, c, hc⟩ := fs_listed_name_shape _ _ _ hfn
      exact ⟨f, hf, c, hc⟩
    · simp only [hc] at hg
      cases hg

/-! ## the PEM codec (crypto/util/pem.go) -/

/-- the block-type switches as the source has them: three private block types (PKCS#8 goes through the signer type
    switch), NO default clause in PemToPrivateKey, two public block types with `ErrWrongPublicKey` as default -/
theorem fact_pem_switch_tables :
    C03.pemPrivateCases = [("RSA PRIVATE KEY", "direct"), ("EC PRIVATE KEY", "direct"), ("PRIVATE KEY", "typeswitch")] ∧
    C03.pemPrivateDefault = "none" ∧
    C03.pemPublicCases = ["PUBLIC KEY", "RSA PUBLIC KEY"] ∧
    C03.pemPublicDefault = "return:return nil, ErrWrongPublicKey" ∧
    C03.pemNilBlockGuards = ["private:if block == nil -> assign:err = ErrWrongPrivateKey; return:return",
                             "public:if block == nil -> return:return nil, ErrWrongPublicKey"] := by decide

/-- **a signer comes only out of a private-key block**: for every PEM input and every parser answer, a non-nil result of
    `PemToPrivateKey` is the parser's value for a block of one of the three private types, and a PKCS#8 value is handed out
    only with one of the key store's signer types (`fact_store_key_types_are_signers`: the types the jwk-header rule refuses) -/
theorem pem_signer_only_from_private_block (block : Option String) (p : Parsed) (ty : String)
    (h : pemToPrivateKey C03.pemPrivateCases C03.pemPrivateKeyTypes block p = .key ty) :
    p = .ok ty ∧ ∃ t, block = some t ∧ t ∈ C03.pemPrivateCases.map (·.1) ∧
      (t = "PRIVATE KEY" → ty ∈ C03.pemPrivateKeyTypes) := by
  unfold pemToPrivateKey at h
  cases block with
  | none => cases h
  | some t =>
    simp only [] at h
    cases hf : C03.pemPrivateCases.find? (isCase t) with
    | none => rw [hf] at h; cases h
    | some c =>
      obtain ⟨a, how⟩ := c
      rw [hf] at h
      simp only [] at h
      have hm := List.mem_of_find?_eq_some hf
      have ht : a = t := by
        have := List.find?_some hf
        simpa [isCase] using this
      subst ht
      cases p with
      | err => cases h
      | ok ty' =>
        simp only [] at h
        have hty : ty' = ty ∧ (how = "direct" ∨ ty' ∈ C03.pemPrivateKeyTypes) := by
          by_cases hd : (how == "direct") = true
          · simp only [hd, if_true] at h
            exact ⟨by cases h; rfl, .inl (by simpa using hd)⟩
          · simp only [hd] at h
            by_cases hc : C03.pemPrivateKeyTypes.contains ty' = true
            · simp only [hc, if_true] at h
              exact ⟨by cases h; rfl, .inr (by simpa using hc)⟩
            · simp only [hc] at h; cases h
        obtain ⟨rfl, hor⟩ := hty
        refine ⟨rfl, a, rfl, List.mem_map.mpr ⟨(a, how), hm, rfl⟩, ?_⟩
        intro hpk
        subst hpk
        have hfix : C03.pemPrivateCases.find? (isCase "PRIVATE KEY") = some ("PRIVATE KEY", "typeswitch") := by decide
        rw [hfix] at hf
        cases hf
        rcases hor with hbad | hok
        · exact absurd hbad (by decide)
        · exact hok

/-- the public decoder never parses a private-key block: `PemToPublicKey` answers ErrWrongPublicKey for each of them -/
theorem pem_public_decoder_refuses_private_blocks (t : String) (ht : t ∈ C03.pemPrivateCases.map (·.1)) (p : Parsed) :
    pemToPublicKey C03.pemPublicCases (some t) p = .wrongKey := by
  have hall : ∀ t ∈ C03.pemPrivateCases.map (·.1), C03.pemPublicCases.contains t = false := by decide
  unfold pemToPublicKey
  simp only [hall t ht]
  rfl

/-- limit of the code that exists (mirrored, not a key-material path): a block of any other type — a PUBLIC KEY, a
    certificate — makes `PemToPrivateKey` return (nil, nil): no signer and NO error; likewise a PKCS#8 key of a non-signer type -/
theorem pem_other_block_is_nil_without_error :
    (∀ t ∈ C03.pemPublicCases, ∀ p, pemToPrivateKey C03.pemPrivateCases C03.pemPrivateKeyTypes (some t) p = .nilNil) ∧
    pemToPrivateKey C03.pemPrivateCases C03.pemPrivateKeyTypes (some "PRIVATE KEY") (.ok "*ecdh.PrivateKey") = .nilNil := by
  refine ⟨?_, by decide⟩
  intro t ht p
  have hall : ∀ t ∈ C03.pemPublicCases, C03.pemPrivateCases.find? (isCase t) = none := by decide
  simp [pemToPrivateKey, hall t ht]

example : pemToPrivateKey C03.pemPrivateCases C03.pemPrivateKeyTypes (some "PRIVATE KEY") (.ok "*ecdsa.PrivateKey") = .key "*ecdsa.PrivateKey" := by decide
example : "PRIVATE KEY" ∈ C03.pemPrivateCases.map (·.1) := by decide

/-! ## the in-memory signer's kid guard (crypto/memory.go) -/

/-- both entry points compare the requested kid with the key's OWN id (`kid != m.Key.KeyID()` -> ErrPrivateKeyNotFound) before
    they set the `kid` header; the type has no other method that could decide it -/
theorem fact_memory_signer_kid_guards :
    C03.memoryKidStmts =
      ["SignJWT:if kid != m.Key.KeyID() -> return:return \"\", ErrPrivateKeyNotFound", "SignJWT:headersLocal[\"kid\"] = kid",
       "SignJWS:if kid != m.Key.KeyID() -> return:return \"\", ErrPrivateKeyNotFound", "SignJWS:headers[\"kid\"] = kid"] ∧
    C03.memorySignerMethods = ["SignDPoP", "SignJWS", "SignJWT"] := by decide

/-- **the in-memory signer signs only for its own key id**: for every key id (also the empty one of an unnamed JWK), every
    requested kid and every header map, a JWS comes out only if the requested kid IS the key's id; without a `jwk` header
    the signed `kid` header is that id, whatever the caller put there. An unnamed key never signs for a non-empty kid. -/
theorem memory_signer_signs_only_for_own_key_id (keyId kid : String) (h out : Headers)
    (hok : memSignJWSHeaders keyId h kid = .ok out) :
    kid = keyId ∧ ((∀ rt id, hget (dedup h) "jwk" ≠ some (.jwk rt id)) → hget out "kid" = some (.str keyId)) := by
  unfold memSignJWSHeaders at hok
  obtain ⟨hf, _, hk⟩ := store_signjws_headers _ h out kid hok
  have : kid = keyId := by simpa [memHolds] using hf
  subst this
  exact ⟨rfl, hk⟩

/-- the same for `MemoryJWTSigner.SignJWT`: refused with key-not-found unless the requested kid is the key's own id -/
theorem memory_signer_jwt_refuses_foreign_kid (keyId kid : String) (h : Headers) (hne : kid ≠ keyId) :
    memSignJWTHeaders keyId h kid = .error .keyNotFound ∧ memSignJWSHeaders keyId h kid = .error .keyNotFound := by
  have : memHolds keyId kid = false := by simp [memHolds, hne]
  simp [memSignJWTHeaders, memSignJWSHeaders, storeSignJWTHeaders, storeSignJWSHeaders, this]

example : memSignJWSHeaders "mem#1" [] "mem#1" = .ok [("kid", .str "mem#1")] := by decide
example : memSignJWSHeaders "" [] "did:web:victim#0" = .error .keyNotFound := by decide

/-! ## non-vacuity -/

/-- a directory with `k_private.pem` (key 7), `.._private.pem` (key 9): `k` arrives, `..` is refused and ends the run -/
example :
    let r := fs2target C03.exportGetErr C03.exportSaveErr (fun b => String.ofList (b.map Char.ofNat))
      [[107, 95, 112], [46, 46, 95, 112]] [112] (fun n => if n = [107] then .key 7 else .key 9) (fun _ => "missing")
      (wrappedPut (fun n => (validName? C03.kidPatternRx C03.validateKIDRefusedNames n).getD false)
        (fun b => String.ofList (b.map Char.ofNat)) (fun _ => none)) []
    r.exported = [[107]] ∧ r.target = [([107], 7)] ∧
    r.error = some "unable to store private key in Vault (kid=..): invalid key ID: .." := by decide

/-- a run that ends without error exists (so `export_success_means_all_listed_present` is not vacuous) -/
example :
    (fs2target C03.exportGetErr C03.exportSaveErr (fun b => String.ofList (b.map Char.ofNat))
      [[107, 95, 112]] [112] (fun _ => .key 7) (fun _ => "missing")
      (wrappedSave (fun n => (validName? C03.kidPatternRx C03.validateKIDRefusedNames n).getD false)
        (fun b => String.ofList (b.map Char.ofNat)) (fun _ => none)) []).error = none := by decide

/-- the hypotheses of the noninterference theorem are satisfiable with different keys -/
example : ∀ n : Bytes, getShape ((fun (_ : Bytes) => SrcGet.key 1) n) = getShape ((fun (_ : Bytes) => SrcGet.key 2) n) := fun _ => rfl

end Nuts.C03.Props
