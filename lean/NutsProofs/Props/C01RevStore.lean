/-
  C01 — deepening round 3 (2026-09-28): the revocation lookup (leia store read -> IsRevoked -> Verify) inside the model
  (NutsModel/C01/RevStore.lean) and its composition with `verify`.
-/
import NutsModel.C01.RevStore
import NutsModel.Facts.C01
import NutsProofs.Props.C01Subject
namespace Nuts.C01.Props
open Nuts.C01

theorem decodeAll_cases (ds : List Bool) (n : Nat) :
    (decodeAll ds n = .found (n + ds.length) ∧ ∀ d ∈ ds, d = true) ∨ (decodeAll ds n = .decodeError ∧ false ∈ ds) := by
  induction ds generalizing n with
  | nil => left; exact ⟨rfl, by intro d hd; cases hd⟩
  | cons d rest ih =>
    cases d with
    | false => right; exact ⟨rfl, List.mem_cons_self⟩
    | true =>
      simp only [decodeAll]
      rcases ih (n + 1) with ⟨h, ha⟩ | ⟨h, hm⟩
      · left
        refine ⟨?_, ?_⟩
        · rw [h]; simp only [List.length_cons]; congr 1; omega
        · intro d hd
          cases hd with
          | head => rfl
          | tail _ h' => exact ha d h'
      · right; exact ⟨h, List.mem_cons_of_mem _ hm⟩

/-- "not revoked" is answered ONLY when the query succeeded and returned no document: not on a read error, not on a document
    that does not decode -/
theorem isRevoked_no_iff (f : FindOut) : isRevoked (getRevocations f) = .no ↔ f = .docs [] := by
  constructor
  · intro h
    cases f with
    | error => simp [getRevocations, isRevoked, isNotFound] at h
    | docs ds =>
      cases ds with
      | nil => rfl
      | cons d rest =>
        exfalso
        simp only [getRevocations, List.length_cons] at h
        rcases decodeAll_cases (d :: rest) 0 with ⟨e, _⟩ | ⟨e, _⟩
        · rw [if_neg (by simp), e] at h; simp [isRevoked] at h
        · rw [if_neg (by simp), e] at h; simp [isRevoked, isNotFound] at h
  · intro h; subst h; rfl

/-- an error is reported exactly for a failed read or an undecodable stored document -/
theorem isRevoked_error_iff (f : FindOut) :
    isRevoked (getRevocations f) = .error ↔ f = .error ∨ ∃ ds, f = .docs ds ∧ false ∈ ds := by
  constructor
  · intro h
    cases f with
    | error => left; rfl
    | docs ds =>
      right
      refine ⟨ds, rfl, ?_⟩
      cases ds with
      | nil => simp [getRevocations, isRevoked, isNotFound] at h
      | cons d rest =>
        simp only [getRevocations, List.length_cons] at h
        rcases decodeAll_cases (d :: rest) 0 with ⟨e, _⟩ | ⟨_, hm⟩
        · rw [if_neg (by simp), e] at h; simp [isRevoked] at h
        · exact hm
  · intro h
    rcases h with h | ⟨ds, h, hm⟩
    · subst h; rfl
    · subst h
      cases ds with
      | nil => cases hm
      | cons d rest =>
        simp only [getRevocations, List.length_cons]
        rcases decodeAll_cases (d :: rest) 0 with ⟨_, ha⟩ | ⟨e, _⟩
        · exact absurd (ha false hm) (by decide)
        · rw [if_neg (by simp), e]; rfl

/-- "revoked" exactly when at least one document was found and all of them decode; the count is the number of documents -/
theorem getRevocations_found_iff (f : FindOut) (n : Nat) :
    getRevocations f = .found n ↔ ∃ ds, f = .docs ds ∧ ds ≠ [] ∧ (∀ d ∈ ds, d = true) ∧ n = ds.length := by
  constructor
  · intro h
    cases f with
    | error => simp [getRevocations] at h
    | docs ds =>
      cases ds with
      | nil => simp [getRevocations] at h
      | cons d rest =>
        simp only [getRevocations, List.length_cons] at h
        rw [if_neg (by simp)] at h
        rcases decodeAll_cases (d :: rest) 0 with ⟨e, ha⟩ | ⟨e, _⟩
        · rw [e] at h; injection h with h
          exact ⟨d :: rest, rfl, by simp, ha, by rw [← h]; simp⟩
        · rw [e] at h; cases h
  · rintro ⟨ds, h, hne, ha, hn⟩
    subst h
    cases ds with
    | nil => exact absurd rfl hne
    | cons d rest =>
      simp only [getRevocations, List.length_cons]
      rw [if_neg (by simp)]
      rcases decodeAll_cases (d :: rest) 0 with ⟨e, _⟩ | ⟨_, hm⟩
      · rw [e, hn]; simp
      · exact absurd (ha false hm) (by decide)

/-- the Go index expression `revocation[0]` of `verifier.GetRevocation` is always in range: whatever the store's query returned,
    the call does not panic -/
theorem getRevocation_never_panics (f : FindOut) (site : String) : getRevocation (getRevocations f) ≠ .panic site := by
  intro h
  cases hg : getRevocations f with
  | readError => rw [hg] at h; cases h
  | notFound => rw [hg] at h; cases h
  | decodeError => rw [hg] at h; cases h
  | found n =>
    obtain ⟨ds, _, hne, _, hn⟩ := (getRevocations_found_iff f n).mp hg
    cases n with
    | zero => cases ds with
      | nil => exact hne rfl
      | cons _ _ => simp at hn
    | succ m => rw [hg] at h; cases h

/-- END TO END (store answer -> IsRevoked -> Verify), all documents, flags, times and environments: a credential with an id is reported
    valid only if the revocation query for THAT id succeeded and returned no document -/
theorem reported_valid_only_if_store_answered_empty (cfg : Cfg) (P : Crypto) (E : Env) (find : String → FindOut) (au cs : Bool)
    (at_ : Option Time) (c : Cred) (id : String) (hid : c.id = some id)
    (h : verify cfg P (E.readingStore find id) au cs at_ c = .ok ()) : find id = .docs [] := by
  obtain ⟨_, _, hrev, _⟩ := verify_ok_iff.mp h
  obtain ⟨hf, hr⟩ := hrev id hid
  simp only [Env.readingStore] at hf hr
  apply (isRevoked_no_iff (find id)).mp
  cases hx : isRevoked (getRevocations (find id)) with
  | no => rfl
  | yes => rw [hx] at hr; cases hr
  | error => rw [hx] at hf; cases hf

/-- … in particular a read fault of the store (closed database, I/O error) is never "valid" (fail closed), under any flags -/
theorem store_read_fault_is_never_valid (cfg : Cfg) (P : Crypto) (E : Env) (find : String → FindOut) (au cs : Bool)
    (at_ : Option Time) (c : Cred) (id : String) (hid : c.id = some id) (hf : find id = .error) :
    verify cfg P (E.readingStore find id) au cs at_ c ≠ .ok () := by
  intro h
  have := reported_valid_only_if_store_answered_empty cfg P E find au cs at_ c id hid h
  rw [hf] at this; cases this

/-- … and neither is a stored revocation, even among documents of which one does not decode -/
theorem any_stored_document_blocks_validity (cfg : Cfg) (P : Crypto) (E : Env) (find : String → FindOut) (au cs : Bool)
    (at_ : Option Time) (c : Cred) (id : String) (hid : c.id = some id) (ds : List Bool) (hne : ds ≠ []) (hf : find id = .docs ds) :
    verify cfg P (E.readingStore find id) au cs at_ c ≠ .ok () := by
  intro h
  have := reported_valid_only_if_store_answered_empty cfg P E find au cs at_ c id hid h
  rw [hf] at this; injection this with e; exact hne e

-- non-vacuity: the example credential verifies when the store answers "no document", and fails in the three other situations
example : verify exCfg exP (exE.readingStore (fun _ => .docs []) "did:x:i#1") false true (some 2000) exC = .ok () := by decide
example : verify exCfg exP (exE.readingStore (fun _ => .error) "did:x:i#1") false true (some 2000) exC = .err "store-error" := by decide
example : verify exCfg exP (exE.readingStore (fun _ => .docs [true, false]) "did:x:i#1") false true (some 2000) exC = .err "store-error" := by decide
example : verify exCfg exP (exE.readingStore (fun _ => .docs [true]) "did:x:i#1") false true (some 2000) exC = .err "revoked" := by decide
example : exC.id = some "did:x:i#1" := by decide
example : getRevocation (getRevocations (.docs [true, true])) = .ok 0 := by decide

def flowIsRevokedSrc : List String :=
  [ "_,err := v.store.GetRevocations(credentialID)", "if err != nil", "if errors.Is(err,ErrNotFound)", "return false,nil",
    "return false,err", "return true,nil" ]
def flowGetRevocationSrc : List String :=
  [ "revocation,err := v.store.GetRevocations(credentialID)", "if err != nil", "return nil,err", "return revocation[0],nil" ]
def flowGetRevocationsSrc : List String :=
  [ "query := leia.New(leia.Eq(leia.NewJSONPath(credential.RevocationSubjectPath),leia.MustParseScalar(id.String())))",
    "results,err := s.revocationCollection().Find(context.Background(),query)", "if err != nil",
    "return nil,fmt.Errorf(\"error while getting revocation by id: %w\",err)", "if len(results) == 0", "return nil,ErrNotFound",
    "revocations := make(<*ast.ArrayType>,len(results))", "range results", "revocation := &credential.Revocation{}",
    "if err := json.Unmarshal(result,revocation); err != nil", "err := json.Unmarshal(result,revocation)", "return nil,err",
    "revocations[i] = revocation", "return revocations,nil" ]

/-- the complete control flow (every if, assignment, range and return) of the three functions the lookup model mirrors, regenerated
    from the source: a merged / reordered / dropped branch in GetRevocations, IsRevoked or GetRevocation breaks this -/
theorem fact_revocation_lookup_flow :
    Nuts.Facts.C01.flow_IsRevoked = flowIsRevokedSrc ∧ Nuts.Facts.C01.flow_GetRevocation = flowGetRevocationSrc ∧
    Nuts.Facts.C01.flow_GetRevocations = flowGetRevocationsSrc := ⟨rfl, rfl, rfl⟩

end Nuts.C01.Props
