/-
  C01 — deepening round 3 (2026-09-28): the revocation lookup (leia store read -> IsRevoked -> Verify) inside the model
  (NutsModel/C01/RevStore.lean) and its composition with `verify`.
-/
import NutsModel.C01.RevStore
import NutsModel.Facts.C01
import NutsProofs.Props.C01Subject
namespace Nuts.C01.Props
open Nuts.C01

theorem decodeAll_cases (ds : List Bool) (n : Nat) :
    (decodeAll ds n = .found (n + ds.length) ∧ ∀ d ∈ ds, d = true) ∨ (decodeAll ds n = .decodeError ∧ false ∈ ds) := by
  induction ds generalizing n with
  | nil => left; exact ⟨rfl, by intro d hd; cases hd⟩
  | cons d rest ih =>
    cases d with
    | false => right; exact ⟨rfl, List.mem_cons_self⟩
    | true =>
      simp only [decodeAll]
      rcases ih (n + 1) with ⟨h, ha⟩ | ⟨h, hm⟩
      · left
        refine ⟨?_, ?_⟩
        · rw [h]; simp only [List.length_cons]; congr 1; omega
        · intro d hd
          cases hd with
          | head => rfl
          | tail _ h' => exact ha d h'
      · right; exact ⟨h, List.mem_cons_of_mem _ hm⟩

/-- "not revoked" is answered ONLY when the query succeeded and returned no document: not on a read error, not on a document
    that does not decode -/
theorem isRevoked_no_iff (f : FindOut) : isRevoked (getRevocations f) = .no ↔ f = .docs [] := by
  constructor
  · intro h
    cases f with
    | error => simp [getRevocations, isRevoked, isNotFound] at h
    | docs ds =>
      cases ds with
      | nil => rfl
      | cons d rest =>
        exfalso
        simp only [getRevocations, List.length_cons] at h
        rcases decodeAll_cases (d :: rest) 0 with ⟨e, _⟩ | ⟨e, _⟩
        · rw [if_neg (by simp), e] at h; simp [isRevoked] at h
        · rw [if_neg (by simp), e] at h; simp [isRevoked, isNotFound] at h
  · intro h; subst h; rfl

/-- an error is reported exactly for a failed read or an undecodable stored document -/
theorem isRevoked_error_iff (f : FindOut) :
    isRevoked (getRevocations f) = .error ↔ f = .error ∨ ∃ ds, f = .docs ds ∧ false ∈ ds := by
  constructor
  · intro h
    cases f with
    | error => left; rfl
    | docs ds =>
      right
      refine ⟨ds, rfl, ?_⟩
      cases ds with
      | nil => simp [getRevocations, isRevoked, isNotFound] at h
      | cons d rest =>
        simp only [getRevocations, List.length_cons] at h
        rcases decodeAll_cases (d :: rest) 0 with ⟨e, _⟩ | ⟨_, hm⟩
        · rw [if_neg (by simp), e] at h; simp [isRevoked] at h
        · exact hm
  · intro h
    rcases h with h | ⟨ds, h, hm⟩
    · subst h; rfl
    · subst h
      cases ds with
      | nil => cases hm
      | cons d rest =>
        simp only [getRevocations, List.length_cons]
        rcases decodeAll_cases (d :: rest) 0 with ⟨_, ha⟩ | ⟨e, _⟩
        · exact absurd (ha false hm) (by decide)
        · rw [if_neg (by simp), e]; rfl

/-- "revoked" exactly when at least one document was found and all of them decode; the count is the number of documents -/
theorem getRevocations_found_iff (f : FindOut) (n : Nat) :
    getRevocations f = .found n ↔ ∃ ds, f = .docs ds ∧ ds ≠ [] ∧ (∀ d ∈ ds, d = true) ∧ n = ds.length := by
  constructor
  · intro h
    cases f with
    | error => simp [getRevocations] at h
    | docs ds =>
      cases ds with
      | nil => simp [getRevocations] at h
      | cons d rest =>
        simp only [getRevocations, List.length_cons] at h
        rw [if_neg (by simp)] at h
        rcases decodeAll_cases (d :: rest) 0 with ⟨e, ha⟩ | ⟨e, _⟩
        · rw [e] at h; injection h with h
          exact ⟨d :: rest, rfl, by simp, ha, by rw [← h]; simp⟩
        · rw [e] at h; cases h
  · rintro ⟨ds, h, hne, ha, hn⟩
    subst h
    cases ds with
    | nil => exact absurd rfl hne
    | cons d rest =>
      simp only [getRevocations, List.length_cons]
      rw [if_neg (by simp)]
      rcases decodeAll_cases (d :: rest) 0 with ⟨e, _⟩ | ⟨_, hm⟩
      · rw [e, hn]; simp
      · exact absurd (ha false hm) (by decide)

/-- the Go index expression `revocation[0]` of `verifier.GetRevocation` is always in range: whatever the store's query returned,
    the call does not panic -/
theorem getRevocation_never_panics (f : FindOut) (site : String) : getRevocation (getRevocations f) ≠ .panic site := by
  intro h
  cases hg : getRevocations f with
  | readError => rw [hg] at h; cases h
  | notFound => rw [hg] at h; cases h
  | decodeError => rw [hg] at h; cases h
  | found n =>
    obtain ⟨ds, _, hne, _, hn⟩ := (getRevocations_found_iff f n).mp hg
    cases n with
    | zero => cases ds with
      | nil => exact hne rfl
      | cons _ _ => simp at hn
    | succ m => rw [hg] at h; cases h

/-- END TO END (store answer -> IsRevoked -> Verify), all documents, flags, times and environments: a credential with an id is reported
    valid only if the revocation query for THAT id succeeded and returned no document -/
theorem reported_valid_only_if_store_answered_empty (cfg : Cfg) (P : Crypto) (E : Env) (find : String → FindOut) (au cs : Bool)
    (at_ : Option Time) (c : Cred) (id : String) (hid : c.id = some id)
    (h : verify cfg P (E.readingStore find id) au cs at_ c = .ok ()) : find id = .docs [] := by
  obtain ⟨_, _, hrev, _⟩ := verify_ok_iff.mp h
  obtain ⟨hf, hr⟩ := hrev id hid
  simp only [Env.readingStore] at hf hr
  apply (isRevoked_no_iff (find id)).mp
  cases hx : isRevoked (getRevocations (find id)) with
  | no => rfl
  | yes => rw [hx] at hr; cases hr
  | error => rw [hx] at hf; cases hf

/-- … in particular a read fault of the store (closed database, I/O error) is never "valid" (fail closed), under any flags -/
theorem store_read_fault_is_never_valid (cfg : Cfg) (P : Crypto) (E : Env) (find : String → FindOut) (au cs : Bool)
    (at_ : Option Time) (c : Cred) (id : String) (hid : c.id = some id) (hf : find id = .error) :
    verify cfg P (E.readingStore find id) au cs at_ c ≠ .ok () := by
  intro h
  have := reported_valid_only_if_store_answered_empty cfg P E find au cs at_ c id hid h
  rw [hf] at this; cases this

/-- … and neither is a stored revocation, even among documents of which one does not decode -/
theorem any_stored_document_blocks_validity (cfg : Cfg) (P : Crypto) (E : Env) (find : String → FindOut) (au cs : Bool)
    (at_ : Option Time) (c : Cred) (id : String) (hid : c.id = some id) (ds : List Bool) (hne : ds ≠ []) (hf : find id = .docs ds) :
    verify cfg P (E.readingStore find id) au cs at_ c ≠ .ok () := by
  intro h
  have := reported_valid_only_if_store_answered_empty cfg P E find au cs at_ c id hid h
  rw [hf] at this; injection this with e; exact hne e

-- non-vacuity: the example credential verifies when the store answers "no document", and fails in the three other situations
example : verify exCfg exP (exE.readingStore (fun _ => .docs []) "did:x:i#1") false true (some 2000) exC = .ok () := by decide
example : verify exCfg exP (exE.readingStore (fun _ => .error) "did:x:i#1") false true (some 2000) exC = .err "store-error" := by decide
example : verify exCfg exP (exE.readingStore (fun _ => .docs [true, false]) "did:x:i#1") false true (some 2000) exC = .err "store-error" := by decide
example : verify exCfg exP (exE.readingStore (fun _ => .docs [true]) "did:x:i#1") false true (some 2000) exC = .err "revoked" := by decide
example : exC.id = some "did:x:i#1" := by decide
example : getRevocation (getRevocations (.docs [true, true])) = .ok 0 := by decide

def flowIsRevokedSrc : List String :=
  [ "_,err := v.store.GetRevocations(credentialID)", "if err != nil", "if errors.Is(err,ErrNotFound)", "return false,nil",
    "return false,err", "return true,nil" ]
def flowGetRevocationSrc : List String :=
  [ "revocation,err := v.store.GetRevocations(credentialID)", "if err != nil", "return nil,err", "return revocation[0],nil" ]
def flowGetRevocationsSrc : List String :=
  [ "query := leia.New(leia.Eq(leia.NewJSONPath(credential.RevocationSubjectPath),leia.MustParseScalar(id.String())))",
    "results,err := s.revocationCollection().Find(context.Background(),query)", "if err != nil",
    "return nil,fmt.Errorf(\"error while getting revocation by id: %w\",err)", "if len(results) == 0", "return nil,ErrNotFound",
    "revocations := make(<*ast.ArrayType>,len(results))", "range results", "revocation := &credential.Revocation{}",
    "if err := json.Unmarshal(result,revocation); err != nil", "err := json.Unmarshal(result,revocation)", "return nil,err",
    "revocations[i] = revocation", "return revocations,nil" ]

/-- the complete control flow (every if, assignment, range and return) of the three functions the lookup model mirrors, regenerated
    from the source: a merged / reordered / dropped branch in GetRevocations, IsRevoked or GetRevocation breaks this -/
theorem fact_revocation_lookup_flow :
    Nuts.Facts.C01.flow_IsRevoked = flowIsRevokedSrc ∧ Nuts.Facts.C01.flow_GetRevocation = flowGetRevocationSrc ∧
    Nuts.Facts.C01.flow_GetRevocations = flowGetRevocationsSrc := ⟨rfl, rfl, rfl⟩

end Nuts.C01.Props

namespace Nuts.C01.Props
open Nuts.C01

/-- what makes a revocation AUTHENTIC: it names a credential id `<issuer>#<fragment>`, is issued by that issuer, and its proof verifies
    under a key that the issuer's DID document lists as assertion method at the revocation's date -/
def Rev.Authentic (E : Env) (sigOK : Key → Rev → Bool) (r : Rev) : Prop :=
  r.fragment ≠ "" ∧ r.issuer ≠ "" ∧ beforeHash r.subject = r.issuer ∧ beforeHash r.vm = r.issuer ∧ r.hasProof = true ∧
  ∃ k, resolveKeyByID E (some r.date) r.vm = some k ∧ sigOK k r = true

/-- one call: RegisterRevocation succeeds only for an authentic revocation, and then appends exactly it -/
theorem registered_revocation_is_authentic (E : Env) (sigOK : Key → Rev → Bool) (storeOK : Bool) (store s' : List Rev) (r : Rev)
    (h : registerRevocation E sigOK storeOK store r = .ok s') : s' = store ++ [r] ∧ Rev.Authentic E sigOK r := by
  unfold registerRevocation at h
  split at h; · cases h
  split at h; · cases h
  split at h; · cases h
  split at h; · cases h
  split at h; · cases h
  split at h; · cases h
  split at h; · cases h
  rename_i h1 h2 h3 h4 h5 h6 h7
  split at h
  · cases h
  · rename_i k hk
    split at h; · cases h
    split at h; · cases h
    split at h; · cases h
    rename_i h8 h9 h10
    injection h with h
    refine ⟨h.symm, ?_, ?_, ?_, ?_, ?_, k, hk, ?_⟩
    · intro e; apply h1; simp [e]
    · intro e; apply h3; simp [e]
    · simpa using h6
    · simpa using h7
    · simpa using h5
    · simpa using h9

/-- INVARIANT over all histories of RegisterRevocation calls (any revocations, any store outcomes, any length): every stored
    revocation is authentic, and it is one of the offered ones -/
theorem stored_revocations_are_authentic (E : Env) (sigOK : Key → Rev → Bool) (calls : List (Rev × Bool)) (store : List Rev)
    (hinv : ∀ r ∈ store, Rev.Authentic E sigOK r) :
    ∀ r ∈ registerAll E sigOK store calls, Rev.Authentic E sigOK r ∧ (r ∈ store ∨ ∃ b, (r, b) ∈ calls) := by
  induction calls generalizing store with
  | nil => intro r hr; exact ⟨hinv r hr, Or.inl hr⟩
  | cons c rest ih =>
    obtain ⟨x, ok⟩ := c
    intro r hr
    unfold registerAll at hr
    cases hreg : registerRevocation E sigOK ok store x with
    | ok s' =>
      rw [hreg] at hr
      obtain ⟨hs, ha⟩ := registered_revocation_is_authentic E sigOK ok store s' x hreg
      have hinv' : ∀ r ∈ s', Rev.Authentic E sigOK r := by
        intro y hy; rw [hs] at hy
        rcases List.mem_append.mp hy with h | h
        · exact hinv y h
        · simp at h; rw [h]; exact ha
      obtain ⟨h1, h2⟩ := ih s' hinv' r hr
      refine ⟨h1, ?_⟩
      rcases h2 with h2 | ⟨b, h2⟩
      · rw [hs] at h2
        rcases List.mem_append.mp h2 with h | h
        · exact Or.inl h
        · simp at h; exact Or.inr ⟨ok, by rw [h]; exact List.mem_cons_self⟩
      · exact Or.inr ⟨b, List.mem_cons_of_mem _ h2⟩
    | err e =>
      rw [hreg] at hr
      obtain ⟨h1, h2⟩ := ih store hinv r hr
      exact ⟨h1, h2.imp id (fun ⟨b, hb⟩ => ⟨b, List.mem_cons_of_mem _ hb⟩)⟩
    | panic p =>
      rw [hreg] at hr
      obtain ⟨h1, h2⟩ := ih store hinv r hr
      exact ⟨h1, h2.imp id (fun ⟨b, hb⟩ => ⟨b, List.mem_cons_of_mem _ hb⟩)⟩

/-- registrations only ever ADD: whatever is offered later (authentic or not, store faults included), a stored revocation stays -/
theorem registered_revocation_is_permanent (E : Env) (sigOK : Key → Rev → Bool) (calls : List (Rev × Bool)) (store : List Rev) (r : Rev)
    (hr : r ∈ store) : r ∈ registerAll E sigOK store calls := by
  induction calls generalizing store with
  | nil => exact hr
  | cons c rest ih =>
    obtain ⟨x, ok⟩ := c
    unfold registerAll
    cases hreg : registerRevocation E sigOK ok store x with
    | ok s' =>
      simp only
      apply ih
      rw [(registered_revocation_is_authentic E sigOK ok store s' x hreg).1]
      exact List.mem_append_left _ hr
    | err e => exact ih store hr
    | panic p => exact ih store hr

/-- END TO END (history of registrations -> store query -> IsRevoked -> Verify): on a node whose revocation store was filled by ANY
    history of RegisterRevocation calls, a credential is refused as "revoked" only if somebody holding an assertion key of the DID in
    front of the '#' of its id signed a revocation for exactly that id — a third party cannot revoke -/
theorem revoked_only_by_the_credential_issuer (E : Env) (sigOK : Key → Rev → Bool) (calls : List (Rev × Bool)) (id : String)
    (h : isRevoked (getRevocations (findIn (registerAll E sigOK [] calls) id)) ≠ .no) :
    ∃ r b, (r, b) ∈ calls ∧ r.subject = id ∧ Rev.Authentic E sigOK r ∧
      ∃ k, resolveKeyByID E (some r.date) r.vm = some k ∧ beforeHash r.vm = beforeHash id ∧ sigOK k r = true := by
  have hne : findIn (registerAll E sigOK [] calls) id ≠ .docs [] := fun e => h ((isRevoked_no_iff _).mpr e)
  unfold findIn at hne
  cases hf : (registerAll E sigOK [] calls).filter (fun r => r.subject == id) with
  | nil => rw [hf] at hne; exact absurd rfl hne
  | cons r rest =>
    have hm : r ∈ (registerAll E sigOK [] calls).filter (fun r => r.subject == id) := by rw [hf]; exact List.mem_cons_self
    obtain ⟨hmem, hsub⟩ := List.mem_filter.mp hm
    have hsub' : r.subject = id := by simpa using hsub
    obtain ⟨ha, hfrom⟩ := stored_revocations_are_authentic E sigOK calls [] (by intro r hr; cases hr) r hmem
    rcases hfrom with hfrom | ⟨b, hb⟩
    · cases hfrom
    · have ha' := ha
      obtain ⟨_, _, hs, hv, _, k, hk, hsig⟩ := ha'
      exact ⟨r, b, hb, hsub', ha, k, hk, by rw [hv, ← hs, hsub'], hsig⟩

/-- the store's own answers are never errors: everything in it went through StoreRevocation's marshal -/
theorem findIn_never_errors (store : List Rev) (id : String) : isRevoked (getRevocations (findIn store id)) ≠ .error := by
  intro h
  rcases (isRevoked_error_iff _).mp h with h | ⟨ds, h, hm⟩
  · cases h
  · unfold findIn at h; injection h with h; rw [← h] at hm; simp at hm

def exRev : Rev := { subject := "did:x:i#1", fragment := "1", hasContext := true, typeOK := true, issuer := "did:x:i", date := 1500,
                     hasProof := true, vm := "did:x:i#k", proofDecodes := true }
def exRevSig : Key → Rev → Bool := fun k r => k == "K1" && r.issuer == "did:x:i"
-- non-vacuity: the issuer's revocation registers and blocks the example credential; a third party's does not
example : registerRevocation exE2 exRevSig true [] exRev = .ok [exRev] := by decide
example : registerRevocation exE2 exRevSig true [] { exRev with issuer := "did:x:i2", vm := "did:x:i2#k" } = .err "issuer-not-credential-issuer" := by decide
example : registerRevocation exE2 exRevSig true [] { exRev with vm := "did:x:i2#k" } = .err "vm-not-of-issuer" := by decide
example : registerRevocation exE2 (fun _ _ => false) true [] exRev = .err "bad-signature" := by decide
example : isRevoked (getRevocations (findIn (registerAll exE2 exRevSig [] [({ exRev with vm := "did:x:i2#k" }, true), (exRev, false), (exRev, true)]) "did:x:i#1")) = .yes := by decide
example : isRevoked (getRevocations (findIn (registerAll exE2 exRevSig [] [({ exRev with vm := "did:x:i2#k" }, true), (exRev, false)]) "did:x:i#1")) = .no := by decide

/-- the return sequence of RegisterRevocation and the complete control flow of ValidateRevocation, regenerated from the source, are
    the guards of the model's `registerRevocation` in the same order -/
theorem fact_register_revocation_sequence :
    Nuts.Facts.C01.registerRevocationReturns = registerRevocationReturnsSrc ∧
    Nuts.Facts.C01.flow_ValidateRevocation =
      [ "if r.Subject.String() == \"\" || r.Subject.Fragment == \"\"", "return fmt.Errorf(\"%w: 'subject' is required and requires a valid fragment\",errValidation)",
        "if len(r.Context) != 0", "foundType := false", "range r.Type", "if val == RevocationType", "foundType = true", "break",
        "if !foundType", "return fmt.Errorf(\"%w: 'type' does not contain %s\",errValidation,RevocationType)",
        "if r.Issuer.String() == \"\"", "return fmt.Errorf(\"%w: 'issuer' is required\",errValidation)",
        "if r.Date.IsZero()", "return fmt.Errorf(\"%w: 'date' is required\",errValidation)",
        "if r.Proof == nil", "return fmt.Errorf(\"%w: 'proof' is required\",errValidation)", "return nil" ] ∧
    Nuts.Facts.C01.registerRevocationSplits =
      [ "subjectIssuer := strings.Split(subject,\"#\")[0]", "vmIssuer := strings.Split(vm,\"#\")[0]", "subject := revocation.Subject.String()",
        "vm := revocation.Proof.VerificationMethod.String()", "metadata := &resolver.ResolveMetadata{} ResolveTime: &revocation.Date" ] := ⟨rfl, rfl, rfl⟩

end Nuts.C01.Props

namespace Nuts.C01.Props
open Nuts.C01

/-- the converse of `registered_revocation_is_authentic`: an authentic, well-formed revocation IS registered when the store works -/
theorem authentic_revocation_registers (E : Env) (sigOK : Key → Rev → Bool) (store : List Rev) (r : Rev)
    (ha : Rev.Authentic E sigOK r) (hs : r.subject ≠ "") (ht : r.hasContext = true → r.typeOK = true) (hd : r.date ≠ zeroTime)
    (hp : r.proofDecodes = true) :
    registerRevocation E sigOK true store r = .ok (store ++ [r]) := by
  obtain ⟨hf, hi, hsub, hvm, hpr, k, hk, hsig⟩ := ha
  unfold registerRevocation
  rw [if_neg (by simp [hs, hf])]
  rw [if_neg (by cases hc : r.hasContext <;> simp [ht, hc])]
  rw [if_neg (by simp [hi])]
  rw [if_neg (by simp [hd])]
  rw [if_neg (by simp [hpr])]
  rw [if_neg (by simp [hsub])]
  rw [if_neg (by simp [hvm])]
  rw [hk]
  simp [hp, hsig]

/-- OWN REVOCATION TAKES EFFECT, end to end (history -> store -> IsRevoked -> Verify): once an authentic, well-formed revocation of a
    credential id was offered while the store worked, that credential is never reported valid again — whatever else is offered before
    or after, under any flags and at any validation time -/
theorem own_revocation_takes_effect (cfg : Cfg) (P : Crypto) (E : Env) (sigOK : Key → Rev → Bool) (before after : List (Rev × Bool))
    (r : Rev) (ha : Rev.Authentic E sigOK r) (hs : r.subject ≠ "") (ht : r.hasContext = true → r.typeOK = true)
    (hd : r.date ≠ zeroTime) (hp : r.proofDecodes = true) (au cs : Bool) (at_ : Option Time) (c : Cred) (hid : c.id = some r.subject) :
    verify cfg P (E.readingStore (findIn (registerAll E sigOK [] (before ++ (r, true) :: after))) r.subject) au cs at_ c ≠ .ok () := by
  have hmem : r ∈ registerAll E sigOK [] (before ++ (r, true) :: after) := by
    have hsplit : ∀ (s : List Rev) (l1 l2 : List (Rev × Bool)),
        registerAll E sigOK s (l1 ++ l2) = registerAll E sigOK (registerAll E sigOK s l1) l2 := by
      intro s l1
      induction l1 generalizing s with
      | nil => intro l2; rfl
      | cons x xs ih =>
        intro l2
        obtain ⟨y, b⟩ := x
        simp only [List.cons_append, registerAll]
        cases registerRevocation E sigOK b s y <;> simp [ih]
    rw [hsplit]
    generalize registerAll E sigOK [] before = s0
    simp only [registerAll]
    rw [authentic_revocation_registers E sigOK s0 r ha hs ht hd hp]
    exact registered_revocation_is_permanent E sigOK after _ r (by simp)
  apply any_stored_document_blocks_validity cfg P E _ au cs at_ c r.subject hid
    (((registerAll E sigOK [] (before ++ (r, true) :: after)).filter (fun x => x.subject == r.subject)).map (fun _ => true))
  · intro hnil
    have : r ∈ (registerAll E sigOK [] (before ++ (r, true) :: after)).filter (fun x => x.subject == r.subject) :=
      List.mem_filter.mpr ⟨hmem, by simp⟩
    cases hl : (registerAll E sigOK [] (before ++ (r, true) :: after)).filter (fun x => x.subject == r.subject) with
    | nil => rw [hl] at this; cases this
    | cons a b => rw [hl] at hnil; simp at hnil
  · rfl
end Nuts.C01.Props

namespace Nuts.C01.Props
open Nuts.C01
-- non-vacuity of own_revocation_takes_effect: the example revocation is authentic and well-formed, and blocks the example credential
example : Rev.Authentic exE2 exRevSig exRev := ⟨by decide, by decide, by decide, by decide, rfl, "K1", by decide, by decide⟩
example : verify exCfg exP (exE2.readingStore (findIn (registerAll exE2 exRevSig [] [(exRev, true)])) "did:x:i#1") false true (some 2000) exC = .err "revoked" := by decide
end Nuts.C01.Props
