/-
  C12 — the pattern dialect. `filter.pattern` is an ECMA-262 regular expression (vcr/pe/types.go); the model decides the
  anchored-class subset with its own matcher (NutsModel/C12/Ecma.lean). Theorems about anchors and classes of that
  subset, the tie of the spec's `PatternHolds` to it, and the fact pinning the regexp2 option at every compile site.
-/
import NutsModel.C12.Ecma
import NutsModel.C12.Spec
import NutsModel.Facts.C12

namespace Nuts.C12.Props
open Nuts Nuts.C12

/-- every `regexp2.Compile` in vcr/pe asks for ECMAScript semantics (regenerated: function × options argument) -/
theorem fact_regex_compiled_as_ecmascript :
    Facts.C12.regexCompileSites ≠ [] ∧ ∀ e ∈ Facts.C12.regexCompileSites, e.2 = "regexp2.ECMAScript" := by decide

/-- an accepted input consists ONLY of members of the class, and its length is within the quantifier's bounds -/
theorem ecma_anchored_accepts_iff (a : Anchored) (s : String) :
    a.accepts s = true ↔ (∀ c ∈ s.toList, ∃ it ∈ a.items, it.has c = true) ∧ a.min ≤ s.length ∧
      (∀ m, a.max = some m → s.length ≤ m) := by
  unfold Anchored.accepts Anchored.acceptsChars Anchored.hasChar
  cases hm : a.max <;> simp [List.all_eq_true, List.any_eq_true, String.length, and_assoc]

/-- `$` is the end of the INPUT: an input that ends in a line feed (or any other character outside the class) is not
    accepted — the anchored-class patterns have no "before a final line feed" reading -/
theorem ecma_dollar_is_end_of_input (a : Anchored) (s : String) (c : Char)
    (hc : ∀ it ∈ a.items, it.has c = false) : a.accepts (s ++ String.singleton c) = false := by
  cases h : a.accepts (s ++ String.singleton c) with
  | false => rfl
  | true =>
    obtain ⟨hall, _, _⟩ := (ecma_anchored_accepts_iff a _).1 h
    obtain ⟨it, hit, hhas⟩ := hall c (by simp [String.toList_append])
    rw [hc it hit] at hhas; cases hhas

/-- `\d` and `\w` are the ASCII classes: no code point above 127 is a member -/
theorem ecma_classes_are_ascii (c : Char) (h : 127 < c.toNat) : ClsItem.digit.has c = false ∧ ClsItem.word.has c = false := by
  simp only [ClsItem.has, asciiDigit, asciiLetter]
  refine ⟨?_, ?_⟩
  · cases h1 : decide (48 ≤ c.toNat) <;> cases h2 : decide (c.toNat ≤ 57) <;> simp_all <;> omega
  · have a1 : ¬ c.toNat ≤ 57 := by omega
    have a2 : ¬ c.toNat ≤ 90 := by omega
    have a3 : ¬ c.toNat ≤ 122 := by omega
    have a4 : ¬ c.toNat = 95 := by omega
    simp [a1, a2, a3, a4]

/-- a range class of plain characters has no member outside its bounds -/
theorem ecma_range_bounds (lo hi c : Char) (h : (ClsItem.range lo hi).has c = true) : lo.toNat ≤ c.toNat ∧ c.toNat ≤ hi.toNat := by
  simpa [ClsItem.has] using h

/-- TIE to the specification: for a pattern of the subset, the spec's `PatternHolds` under the contract the model runs
    with (`ecmaFirst re`, any table `re`) is exactly acceptance by the own matcher — the regexp library has no say -/
theorem pattern_holds_iff_ecma (re : Regex) (p : String) (a : Anchored) (hp : parseAnchored p = some a) (s : String) :
    PatternHolds (ecmaFirst re) (some p) s ↔ a.accepts s = true := by
  unfold PatternHolds ecmaFirst
  simp only [hp]
  cases h : a.accepts s <;> simp

/-- …and the value reported for a named field is then the input itself (no capture group in the subset) -/
theorem ecma_whole_match_is_input (re : Regex) (p : String) (a : Anchored) (hp : parseAnchored p = some a) (s m : String)
    (h : ecmaFirst re p s = .whole m ∨ ecmaFirst re p s = .cap m) : m = s ∧ a.accepts s = true := by
  unfold ecmaFirst at h
  simp only [hp] at h
  cases ha : a.accepts s <;> simp [ha] at h
  exact ⟨h.symm, rfl⟩

/-! non-vacuity and the concrete near-matches of other dialects -/
example : (parseAnchored "^[a-z]+$").isSome = true := by decide
example : (parseAnchored "^\\d{4}$") = some { items := [.digit], min := 4, max := some 4 } := by decide
example : (parseAnchored "^[A-Za-z0-9]{2,}$").isSome = true := by decide
example : parseAnchored "^(.*)Credential$" = none := by decide
example : ecmaFirst (fun _ _ => .runErr) "^[a-z]+$" "admin" = .whole "admin" := by decide
example : ecmaFirst (fun _ _ => .whole "x") "^[a-z]+$" "admin\n" = .noMatch := by decide
example : ecmaFirst (fun _ _ => .whole "x") "^\\d{4}$" "١٢٣٤" = .noMatch := by decide
example : ecmaFirst (fun _ _ => .whole "x") "^\\w+$" "Ünit" = .noMatch := by decide
example : ecmaFirst (fun _ _ => .cap "y") "^(.)" "abc" = .cap "y" := by decide

end Nuts.C12.Props
