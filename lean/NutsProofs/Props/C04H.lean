/-
  C04 — "all Authorization header shapes": the header block of the request -> the middleware's decision.
  ONLY property theorems (+ non-vacuity examples).
-/
import NutsModel.C04.Headers
import NutsModel.Facts.C04
import NutsProofs.Props.C04
import NutsProofs.Props.C04L

namespace Nuts.C04.Props
open Nuts.C04

/-- authenticationCredential reads ONE request header, "Authorization", through Header.Get (first value), and nothing else of the
    request; its three conditions and four returns are the ones `authenticationCredential` / `headerGet` of the model mirror
    (regenerated from the source on every run) -/
theorem fact_authentication_credential :
    Facts.C04.authHeaderReads = ["Get:\"Authorization\""] ∧
    Facts.C04.authCredentialConds = ["credential == \"\"", "len(fields) != 2", "strings.ToLower(fields[0]) != \"bearer\""] ∧
    Facts.C04.authCredentialReturns = ["return \"\"", "return \"\"", "return \"\"", "return fields[1]"] := by decide

/-- the FIRST line named `key` decides what `Header.Get` returns: whatever follows it is never looked at -/
theorem headerGet_first (key : Str) (pre post : List Str) (l : Str)
    (hpre : ∀ p ∈ pre, lineIs key p = false) (hl : lineIs key l = true) :
    headerGet key (pre ++ l :: post) = lineValue l := by
  induction pre with
  | nil => simp [headerGet, hl]
  | cons p rest ih =>
    have hp : lineIs key p = false := hpre p (by simp)
    simp only [List.cons_append, headerGet, hp]
    exact ih (fun q hq => hpre q (by simp [hq]))

/-- no line named `key`: `Header.Get` returns the empty string -/
theorem headerGet_none (key : Str) (lines : List Str) (h : ∀ p ∈ lines, lineIs key p = false) : headerGet key lines = [] := by
  induction lines with
  | nil => rfl
  | cons p rest ih =>
    simp only [headerGet, h p (by simp)]
    exact ih (fun q hq => h q (by simp [hq]))

/-- a second (third, …) Authorization line cannot change the decision: neither rescue a request whose first Authorization line
    is not acceptable, nor spoil one whose first line is — for ALL header blocks -/
theorem later_authorization_lines_are_ignored (P : Policy) (aud : String) (keys : List AuthKey) (now : Int) (an : Str → Analysis)
    (pre post post' : List Str) (l : Str)
    (hpre : ∀ p ∈ pre, lineIs authorizationKey p = false) (hl : lineIs authorizationKey l = true) :
    headerDecision P aud keys now (pre ++ l :: post) an = headerDecision P aud keys now (pre ++ l :: post') an := by
  unfold headerDecision
  rw [headerGet_first _ pre post l hpre hl, headerGet_first _ pre post' l hpre hl]

/-- a request without a line named Authorization (whatever else it carries: Proxy-Authorization, X-Authorization, cookies …)
    is denied -/
theorem no_authorization_line_is_denied (P : Policy) (aud : String) (keys : List AuthKey) (now : Int) (an : Str → Analysis)
    (lines : List Str) (h : ∀ p ∈ lines, lineIs authorizationKey p = false) :
    headerDecision P aud keys now lines an = .denied := by
  unfold headerDecision
  rw [headerGet_none _ lines h]
  simp [tokenDecision, authenticationCredential, fields, fieldsAux]

/-- header block -> decision, composed with `granted_sound`: a request is granted as user u only if its header block HAS a line
    named Authorization and the value of the FIRST such line is `Bearer <credential>` with a credential that satisfies every
    clause of the property (stated on the library verdicts for exactly that value) -/
theorem header_block_granted_sound (aud : String) (keys : List AuthKey) (now : Int) (hnow : 0 ≤ now) (an : Str → Analysis)
    (lines : List Str) (u : String)
    (h : headerDecision Facts.C04.policy aud keys now lines an = .granted u) :
    ∃ pre l post, lines = pre ++ l :: post ∧ (∀ p ∈ pre, lineIs authorizationKey p = false) ∧ lineIs authorizationKey l = true ∧
      tokenDecision Facts.C04.policy aud keys now (lineValue l) (an (lineValue l)) = .granted u ∧
      authenticationCredential (lineValue l) ≠ [] ∧ (an (lineValue l)).claims.iss = some u ∧
      (an (lineValue l)).claims.jti = some true := by
  by_cases hnone : ∀ p ∈ lines, lineIs authorizationKey p = false
  · rw [no_authorization_line_is_denied _ _ _ _ _ _ hnone] at h; cases h
  · -- split at the first Authorization line
    have hsplit : ∃ pre l post, lines = pre ++ l :: post ∧ (∀ p ∈ pre, lineIs authorizationKey p = false) ∧
        lineIs authorizationKey l = true := by
      clear h
      induction lines with
      | nil => exact absurd (fun p hp => by cases hp) hnone
      | cons x rest ih =>
        by_cases hx : lineIs authorizationKey x = true
        · exact ⟨[], x, rest, rfl, (fun p hp => by cases hp), hx⟩
        · have hx' : lineIs authorizationKey x = false := by simpa using hx
          have : ¬ ∀ p ∈ rest, lineIs authorizationKey p = false := by
            intro hr; apply hnone; intro p hp
            rcases List.mem_cons.mp hp with rfl | hp
            · exact hx'
            · exact hr p hp
          obtain ⟨pre, l, post, he, hp, hl⟩ := ih this
          refine ⟨x :: pre, l, post, by simp [he], ?_, hl⟩
          intro p hp'
          rcases List.mem_cons.mp hp' with rfl | hp'
          · exact hx'
          · exact hp p hp'
    obtain ⟨pre, l, post, he, hp, hl⟩ := hsplit
    subst he
    unfold headerDecision at h
    rw [headerGet_first _ pre post l hp hl] at h
    have gs := granted_sound aud keys now hnow _ _ u h
    exact ⟨pre, l, post, rfl, hp, hl, h, gs.1, gs.2.2.2.2.2.2.1, gs.2.2.2.2.2.2.2.2.2.1⟩

/-- **no_bypass_header_block** (request line + header block -> handler, on the chain with the limiter): for ALL header blocks
    (any lines: folded, malformed, repeated, look-alike names), authority verdicts, registrations, limiter states, methods and
    targets, a handler under /internal runs only if net/http accepts the block, the value v of its first Authorization line is
    granted as some user u, and the handler sees exactly u; a block net/http refuses runs nothing -/
theorem no_bypass_header_block (aud : String) (keys : List AuthKey) (now : Int) (an : Str → Analysis)
    (authOK : Str → Bool) (lim : LimCfg) (regs : List Registered) (lines : List Str) (method : String) (target : Str) (b i : Nat)
    (hran : (serveConnH Facts.C04.policy aud keys now an authOK Facts.C04.authSelector Facts.C04.authPath true lim regs lines method target b).1.ran = some i)
    (hint : ∀ r ∈ regs.map (·.route), r.id = i → underInternal r) :
    ∃ v u, headerValue authorizationKey lines = some v ∧ tokenDecision Facts.C04.policy aud keys now v (an v) = .granted u ∧
      (serveConnH Facts.C04.policy aud keys now an authOK Facts.C04.authSelector Facts.C04.authPath true lim regs lines method target b).1.user = some u := by
  unfold serveConnH at hran ⊢
  cases hv : headerValue authorizationKey lines with
  | none => simp [hv] at hran
  | some v =>
    simp only [hv] at hran ⊢
    obtain ⟨u, hu, huser⟩ := no_bypass_limited authOK lim regs _ method target b i hran hint
    exact ⟨v, u, rfl, hu, huser⟩

/-- a header block that net/http refuses is answered 400 and leaves the limiter's bucket alone -/
theorem malformed_block_runs_nothing (P : Policy) (aud : String) (keys : List AuthKey) (now : Int) (an : Str → Analysis)
    (authOK : Str → Bool) (sel : Selector) (authPath : Str) (authOn : Bool) (lim : LimCfg) (regs : List Registered)
    (lines : List Str) (method : String) (target : Str) (b : Nat) (h : headerValue authorizationKey lines = none) :
    serveConnH P aud keys now an authOK sel authPath authOn lim regs lines method target b =
      ({ status := 400, ran := none, user := none }, b) := by
  unfold serveConnH; simp [h]

/-- non-vacuity / shapes of the harness: obs-fold re-assembles a credential; blank before the colon, no colon: refused -/
example : headerValue authorizationKey ["Host: h".toList, "Authorization: Bearer".toList, "  abc".toList] = some "Bearer abc".toList := by decide
example : headerValue authorizationKey ["Authorization : Bearer abc".toList] = none := by decide
example : headerValue authorizationKey [" folded".toList, "Authorization: Bearer abc".toList] = none := by decide
example : headerValue authorizationKey ["Authorization_: x".toList, "authorization: Bearer abc".toList] = some "Bearer abc".toList := by decide

/-- non-vacuity / the shapes of the harness: lower-case name, no blank after the colon, blanks and tabs around the value,
    a second line, look-alike names -/
example : headerGet authorizationKey ["Host: verif.test".toList, "authorization:Bearer abc \t".toList, "Authorization: Bearer zzz".toList]
    = "Bearer abc".toList := by decide
example : headerGet authorizationKey ["X-Authorization: Bearer abc".toList, "Proxy-Authorization: Bearer abc".toList,
    "Authorization-X: Bearer abc".toList] = [] := by decide
example : headerGet authorizationKey ["AUTHORIZATION: ".toList, "Authorization: Bearer abc".toList] = [] := by decide

end Nuts.C04.Props
